package vcommon

import (
	"encoding/json"
	"flag"
	"fmt"
	"hash/fnv"
	"os"
	"runtime/debug"
	"sort"
	"strconv"
	"strings"
	"testing"
	"time"

	"pgregory.net/rapid"
)

// Failure is what an oracle returns for a violating case.
type Failure struct {
	Key string // class signature used to match known findings (stable, input-specific)
	Msg string
}

func Failf(key, format string, a ...any) *Failure {
	return &Failure{Key: key, Msg: fmt.Sprintf(format, a...)}
}

// Ctx is handed to every oracle invocation for classification.
type Ctx struct {
	ev         *Ev
	sub        string
	classes    []string
	nontrivial bool
	distinct   string
	Replay     bool
	notes      []string
}

// Class counts the case under a label (evidence histogram).
func (c *Ctx) Class(name string) {
	if c == nil {
		return
	}
	c.classes = append(c.classes, name)
}

// NonTrivial marks the case non-trivial; key identifies the distinct case.
func (c *Ctx) NonTrivial(key string) {
	if c == nil {
		return
	}
	c.nontrivial = true
	c.distinct = key
}

// Note attaches free text to the sample if this case is sampled.
func (c *Ctx) Note(s string) {
	if c == nil {
		return
	}
	c.notes = append(c.notes, s)
}

// Known reports whether key is listed (status known) for this property: the
// oracle may use it to skip a finding class by construction.
func (c *Ctx) Known(key string) bool {
	if c == nil || c.ev == nil {
		return false
	}
	return c.ev.isKnown(key)
}

type Violation struct {
	Sub  string          `json:"sub"`
	Key  string          `json:"key"`
	Msg  string          `json:"msg"`
	Case json.RawMessage `json:"case"`
}

type KnownFinding struct {
	Property string `json:"property"`
	Key      string `json:"key"`
	Status   string `json:"status"`
	What     string `json:"what"`
	Commit   string `json:"commit,omitempty"`
}

// Ev accumulates shard evidence.
type Ev struct {
	Prop    string
	Tier    string
	Seed    int64
	Shard   int
	NShards int
	Scale   float64

	Evaluations int64
	Classes     map[string]int64
	SubEvals    map[string]int64
	hashes      map[uint64]struct{}
	hashCap     int
	NonTrivial  int64
	Samples     []any
	sampleAt    map[string]int64
	Violations  []Violation
	KnownHits   map[string]int64
	known       map[string]bool
	Exhaustive  map[string]bool
	Extra       map[string]any
	frozen      bool
	lastFail    map[string]*Violation
	start       time.Time
	Incomplete  []string
}

func envInt(name string, def int64) int64 {
	if s := os.Getenv(name); s != "" {
		if n, err := strconv.ParseInt(s, 10, 64); err == nil {
			return n
		}
	}
	return def
}

func NewEv(prop string) *Ev {
	ev := &Ev{
		Prop:       prop,
		Tier:       os.Getenv("VERIF_TIER"),
		Seed:       envInt("VERIF_SEED", 1),
		Shard:      int(envInt("VERIF_SHARD", 0)),
		NShards:    int(envInt("VERIF_NSHARDS", 1)),
		Scale:      1,
		Classes:    map[string]int64{},
		SubEvals:   map[string]int64{},
		hashes:     map[uint64]struct{}{},
		hashCap:    150000,
		sampleAt:   map[string]int64{},
		KnownHits:  map[string]int64{},
		known:      map[string]bool{},
		Exhaustive: map[string]bool{},
		Extra:      map[string]any{},
		lastFail:   map[string]*Violation{},
		start:      time.Now(),
	}
	if ev.Tier == "" {
		ev.Tier = "quick"
	}
	if s := os.Getenv("VERIF_SCALE"); s != "" {
		if f, err := strconv.ParseFloat(s, 64); err == nil && f > 0 {
			ev.Scale = f
		}
	}
	if p := os.Getenv("VERIF_KNOWN"); p != "" {
		if b, err := os.ReadFile(p); err == nil {
			var kf struct {
				Findings []KnownFinding `json:"findings"`
			}
			if json.Unmarshal(b, &kf) == nil {
				for _, f := range kf.Findings {
					if f.Property == prop && f.Status == "known" {
						ev.known[f.Key] = true
					}
				}
			}
		}
	}
	return ev
}

func (ev *Ev) isKnown(key string) bool { return ev.known[key] }

func hash64(s string) uint64 {
	h := fnv.New64a()
	h.Write([]byte(s))
	return h.Sum64()
}

func (ev *Ev) subSeed(sub string) uint64 {
	h := fnv.New64a()
	fmt.Fprintf(h, "%d/%d/%s/%s", ev.Seed, ev.Shard, ev.Prop, sub)
	return h.Sum64() | 1
}

// finish accounts one completed oracle invocation.
func (ev *Ev) finish(c *Ctx, cs any) {
	if ev.frozen {
		return
	}
	ev.Evaluations++
	ev.SubEvals[c.sub]++
	for _, cl := range c.classes {
		ev.Classes[c.sub+"/"+cl]++
	}
	if c.nontrivial {
		ev.NonTrivial++
		if len(ev.hashes) < ev.hashCap {
			ev.hashes[hash64(c.sub+"\x00"+c.distinct)] = struct{}{}
		}
		ev.sampleAt[c.sub]++
		n := ev.sampleAt[c.sub]
		if n == 1 || n == 25 || n == 400 {
			s := map[string]any{"sub": c.sub, "case": cs}
			if len(c.classes) > 0 {
				s["classes"] = c.classes
			}
			if len(c.notes) > 0 {
				s["notes"] = c.notes
			}
			ev.Samples = append(ev.Samples, s)
		}
	}
}

// Runner is a type-erased sub-property.
type Runner interface {
	SubName() string
	run(t *testing.T, ev *Ev)
	replay(raw json.RawMessage) *Failure
}

type sub[C any] struct {
	name   string
	quick  int
	thor   int
	gen    *rapid.Generator[C]
	check  func(C, *Ctx) *Failure
	enum   func(shard, nshards int, emit func(C) bool)
}

// S declares a generated sub-property: quick/thorough are TOTAL case counts
// across all shards.
func S[C any](name string, quick, thorough int, gen *rapid.Generator[C], check func(C, *Ctx) *Failure) Runner {
	return &sub[C]{name: name, quick: quick, thor: thorough, gen: gen, check: check}
}

// E declares an exhaustively enumerated sub-property; enum must partition the
// space by (index % nshards == shard) and call emit for its share; emit
// returns false to stop.
func E[C any](name string, enum func(shard, nshards int, emit func(C) bool), check func(C, *Ctx) *Failure) Runner {
	return &sub[C]{name: name, enum: enum, check: check}
}

func (s *sub[C]) SubName() string { return s.name }

func isRapidControl(r any) bool {
	tn := fmt.Sprintf("%T", r)
	return strings.HasPrefix(tn, "rapid.") || strings.HasPrefix(tn, "*rapid.")
}

// apply runs the oracle on one concrete case with panic capture.
func (s *sub[C]) apply(ev *Ev, c C, replay bool) (f *Failure, ctx *Ctx) {
	ctx = &Ctx{ev: ev, sub: s.name, Replay: replay}
	defer func() {
		if r := recover(); r != nil {
			if isRapidControl(r) {
				panic(r)
			}
			f = &Failure{Key: "go-panic", Msg: fmt.Sprintf("Go panic escaped into the harness: %v\n%s", r, debug.Stack())}
		}
	}()
	f = s.check(c, ctx)
	return
}

func (s *sub[C]) handle(ev *Ev, c C, f *Failure, ctx *Ctx) (fatal string) {
	if f != nil && ev.isKnown(f.Key) {
		if !ev.frozen {
			ev.KnownHits[f.Key]++
		}
		f = nil
	}
	if f == nil {
		ev.finish(ctx, c)
		return ""
	}
	raw, err := json.Marshal(c)
	if err != nil {
		raw = []byte(strconv.Quote(fmt.Sprintf("%#v", c)))
	}
	ev.frozen = true
	ev.lastFail[s.name] = &Violation{Sub: s.name, Key: f.Key, Msg: f.Msg, Case: raw}
	return fmt.Sprintf("[%s] %s", f.Key, f.Msg)
}

func (s *sub[C]) run(t *testing.T, ev *Ev) {
	if s.enum != nil {
		stopped := false
		s.enum(ev.Shard, ev.NShards, func(c C) bool {
			f, ctx := s.apply(ev, c, false)
			if msg := s.handle(ev, c, f, ctx); msg != "" {
				// keep the FIRST failing enumerated case, continue counting nothing
				v := ev.lastFail[s.name]
				ev.Violations = append(ev.Violations, *v)
				delete(ev.lastFail, s.name)
				ev.frozen = false
				t.Errorf("%s: %s", s.name, msg)
				if len(ev.Violations) >= 5 {
					stopped = true
					return false
				}
			}
			return true
		})
		if !stopped {
			ev.Exhaustive[s.name] = true
		}
		return
	}
	total := s.quick
	if ev.Tier == "thorough" {
		total = s.thor
	}
	n := int(float64(total)*ev.Scale) / ev.NShards
	if n < 1 {
		n = 1
	}
	flag.Set("rapid.checks", strconv.Itoa(n))
	flag.Set("rapid.seed", strconv.FormatUint(ev.subSeed(s.name), 10))
	flag.Set("rapid.nofailfile", "true")
	before := ev.SubEvals[s.name]
	ok := t.Run(s.name, func(t *testing.T) {
		rapid.Check(t, func(rt *rapid.T) {
			c := s.gen.Draw(rt, "case")
			f, ctx := s.apply(ev, c, false)
			if msg := s.handle(ev, c, f, ctx); msg != "" {
				rt.Fatalf("%s", msg)
			}
		})
	})
	if !ok {
		if v := ev.lastFail[s.name]; v != nil {
			ev.Violations = append(ev.Violations, *v)
		} else {
			ev.Incomplete = append(ev.Incomplete, s.name+": rapid reported failure without an oracle failure (see log)")
		}
	} else if got := ev.SubEvals[s.name] - before; got < int64(n) {
		ev.Incomplete = append(ev.Incomplete, fmt.Sprintf("%s: only %d of %d cases ran", s.name, got, n))
	}
	ev.frozen = false
}

func (s *sub[C]) replay(raw json.RawMessage) *Failure {
	var c C
	if err := json.Unmarshal(raw, &c); err != nil {
		return &Failure{Key: "bad-replay", Msg: "cannot decode replay case: " + err.Error()}
	}
	f, _ := s.apply(nil, c, true)
	return f
}

type shardOut struct {
	Prop        string           `json:"property_id"`
	Tier        string           `json:"tier"`
	Seed        int64            `json:"seed"`
	Shard       int              `json:"shard"`
	Evaluations int64            `json:"evaluations"`
	NonTrivial  int64            `json:"nontrivial_total"`
	Hashes      []string         `json:"hashes"`
	HashCapped  bool             `json:"hash_capped"`
	Classes     map[string]int64 `json:"classes"`
	SubEvals    map[string]int64 `json:"sub_evaluations"`
	Samples     []any            `json:"samples"`
	Violations  []Violation      `json:"violations"`
	KnownHits   map[string]int64 `json:"known_hits"`
	Exhaustive  map[string]bool  `json:"exhaustive"`
	Extra       map[string]any   `json:"extra"`
	Incomplete  []string         `json:"incomplete"`
	WallS       float64          `json:"wall_s"`
}

// Flush writes the shard evidence file named by VERIF_OUT.
func (ev *Ev) Flush() {
	out := os.Getenv("VERIF_OUT")
	if out == "" {
		return
	}
	hs := make([]string, 0, len(ev.hashes))
	for h := range ev.hashes {
		hs = append(hs, strconv.FormatUint(h, 16))
	}
	sort.Strings(hs)
	so := shardOut{
		Prop: ev.Prop, Tier: ev.Tier, Seed: ev.Seed, Shard: ev.Shard,
		Evaluations: ev.Evaluations, NonTrivial: ev.NonTrivial, Hashes: hs,
		HashCapped: len(ev.hashes) >= ev.hashCap,
		Classes:    ev.Classes, SubEvals: ev.SubEvals, Samples: ev.Samples,
		Violations: ev.Violations, KnownHits: ev.KnownHits, Exhaustive: ev.Exhaustive,
		Extra: ev.Extra, Incomplete: ev.Incomplete, WallS: time.Since(ev.start).Seconds(),
	}
	b, err := json.Marshal(so)
	if err != nil {
		fmt.Fprintln(os.Stderr, "evidence marshal:", err)
		return
	}
	tmp := out + ".tmp"
	if err := os.WriteFile(tmp, b, 0o644); err == nil {
		os.Rename(tmp, out)
	}
}

// Main is the body of each property package's TestCheck.
//
//	VERIF_REPLAY_FILE set → replay that file through the matching oracle.
//	otherwise            → run all (or VERIF_SUBS-selected) sub-properties.
func Main(t *testing.T, prop string, subs ...Runner) {
	if rf := os.Getenv("VERIF_REPLAY_FILE"); rf != "" {
		b, err := os.ReadFile(rf)
		if err != nil {
			t.Fatalf("replay: %v", err)
		}
		var v Violation
		if err := json.Unmarshal(b, &v); err != nil {
			t.Fatalf("replay: %v", err)
		}
		for _, s := range subs {
			if s.SubName() == v.Sub {
				if f := s.replay(v.Case); f != nil {
					fmt.Printf("REPLAY-FAIL key=%s\n%s\n", f.Key, f.Msg)
					t.Fatalf("replay reproduces: [%s] %s", f.Key, f.Msg)
				}
				fmt.Println("REPLAY-PASS")
				return
			}
		}
		t.Fatalf("replay: no sub-property %q", v.Sub)
	}
	ev := NewEv(prop)
	defer ev.Flush()
	only := map[string]bool{}
	for _, s := range strings.Split(os.Getenv("VERIF_SUBS"), ",") {
		if s != "" {
			only[s] = true
		}
	}
	for _, s := range subs {
		if len(only) > 0 && !only[s.SubName()] {
			continue
		}
		s.run(t, ev)
	}
}

// Classes returns the labels recorded so far (exploration helpers).
func (c *Ctx) Classes() []string {
	if c == nil {
		return nil
	}
	return c.classes
}
