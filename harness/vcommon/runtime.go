// Package vcommon holds the pieces every property check shares: the runtime
// factory (documented embedding + host probe builtins), canonical value
// extraction through exported accessors only, the evidence/replay writers and
// the rapid driver glue.
package vcommon

import (
	"bytes"
	"context"
	"fmt"
	"strings"
	"time"

	"github.com/luthersystems/elps/lisp"
	"github.com/luthersystems/elps/lisp/lisplib"
	"github.com/luthersystems/elps/parser"
)

// Cfg is an explicit runtime configuration.  Zero fields mean "leave the
// interpreter default".
type Cfg struct {
	MaxSteps      int64
	MaxPhysical   int
	MaxLogical    int
	MaxNesting    int
	MaxTailIter   int
	MaxMacroDepth int
	MaxAlloc      int
	MaxSleep      time.Duration
	Ctx           context.Context
	Debugger      bool // attach the dormant debugger (elimination off)
	Profiler      bool // attach a counting profiler
	NoStdlib      bool
	Library       lisp.SourceLibrary
	NoProbes      bool
	// ProbesInLang also exports the host probe builtins from the language
	// package, so packages created later by in-package see them.
	ProbesInLang bool
}

// Event is one host-side observation made by the (probe ...) builtin or one of
// the other host primitives.
type Event struct {
	Tag     string
	Payload string // canonical rendering of the arguments
	Steps   int64
	Height  int
	Nesting int
}

// Rt bundles an environment with its captured stderr and effect trace.
type Rt struct {
	Env      *lisp.LEnv
	Stderr   *bytes.Buffer
	Trace    []Event
	Prof     *CountProfiler
	HostErrs []*lisp.LVal // error objects seen by (host-handler ...) probes
}

// DormantDebugger is attached-but-disabled: the interpreter documents that an
// attached debugger switches tail-call elimination off; IsEnabled()==false
// makes it skip every other hook.
type DormantDebugger struct{}

func (DormantDebugger) IsEnabled() bool                                 { return false }
func (DormantDebugger) OnEval(*lisp.LEnv, *lisp.LVal) bool              { return false }
func (DormantDebugger) WaitIfPaused(*lisp.LEnv, *lisp.LVal) lisp.DebugAction {
	return lisp.DebugContinue
}
func (DormantDebugger) OnFunEntry(*lisp.LEnv, *lisp.LVal, *lisp.LEnv) {}
func (DormantDebugger) OnFunReturn(*lisp.LEnv, *lisp.LVal, *lisp.LVal) {}
func (DormantDebugger) AfterFunCall(*lisp.LEnv) bool                  { return false }
func (DormantDebugger) OnError(*lisp.LEnv, *lisp.LVal) bool           { return false }

// CountProfiler counts Start/stop pairs.
type CountProfiler struct{ Starts, Stops int }

func (p *CountProfiler) Start(*lisp.LVal) func() {
	p.Starts++
	return func() { p.Stops++ }
}

type hostBuiltin struct {
	name    string
	formals *lisp.LVal
	fn      func(env *lisp.LEnv, args *lisp.LVal) *lisp.LVal
}

func (b *hostBuiltin) Name() string                                 { return b.name }
func (b *hostBuiltin) Formals() *lisp.LVal                          { return b.formals }
func (b *hostBuiltin) Eval(env *lisp.LEnv, args *lisp.LVal) *lisp.LVal { return b.fn(env, args) }

// HostBuiltin builds an LBuiltinDef from a Go closure.
func HostBuiltin(name string, formals *lisp.LVal, fn func(env *lisp.LEnv, args *lisp.LVal) *lisp.LVal) lisp.LBuiltinDef {
	return &hostBuiltin{name, formals, fn}
}

// NewRuntime builds the documented embedding under cfg.  It panics if the
// interpreter cannot be initialised (that is a harness/setup failure, not a
// property violation).
func NewRuntime(cfg Cfg) *Rt {
	rt := &Rt{Stderr: &bytes.Buffer{}}
	env := lisp.NewEnv(nil)
	env.Runtime.Reader = parser.NewReader()
	env.Runtime.Stderr = rt.Stderr
	if cfg.Library != nil {
		env.Runtime.Library = cfg.Library
	}
	rc := lisp.InitializeUserEnv(env)
	if !rc.IsNil() {
		panic(fmt.Sprintf("InitializeUserEnv: %v", rc))
	}
	if !cfg.NoStdlib {
		rc = lisplib.LoadLibrary(env)
		if !rc.IsNil() {
			panic(fmt.Sprintf("LoadLibrary: %v", rc))
		}
	}
	rt.Env = env
	if !cfg.NoProbes {
		if cfg.ProbesInLang {
			env.InPackage(lisp.Symbol(lisp.DefaultLangPackage))
			rt.addProbes()
			env.InPackage(lisp.Symbol(lisp.DefaultUserPackage))
		}
		rt.addProbes()
	}
	rt.Apply(cfg)
	return rt
}

// Apply (re)applies the limit part of a configuration.
func (rt *Rt) Apply(cfg Cfg) {
	env := rt.Env
	lisp.WithMaxSteps(cfg.MaxSteps)(env)
	if cfg.MaxPhysical != 0 {
		lisp.WithMaximumPhysicalStackHeight(cfg.MaxPhysical)(env)
	}
	if cfg.MaxLogical != 0 {
		lisp.WithMaximumLogicalStackHeight(cfg.MaxLogical)(env)
	}
	if cfg.MaxNesting != 0 {
		lisp.WithMaxEvalNesting(cfg.MaxNesting)(env)
	}
	if cfg.MaxTailIter != 0 {
		lisp.WithMaxTailIterations(cfg.MaxTailIter)(env)
	}
	if cfg.MaxMacroDepth != 0 {
		lisp.WithMaxMacroExpansionDepth(cfg.MaxMacroDepth)(env)
	}
	if cfg.MaxAlloc != 0 {
		lisp.WithMaxAlloc(cfg.MaxAlloc)(env)
	}
	if cfg.MaxSleep != 0 {
		lisp.WithMaxSleep(cfg.MaxSleep)(env)
	}
	if cfg.Ctx != nil {
		lisp.WithContext(cfg.Ctx)(env)
	}
	if cfg.Debugger {
		lisp.WithDebugger(DormantDebugger{})(env)
	}
	if cfg.Profiler {
		rt.Prof = &CountProfiler{}
		env.Runtime.Profiler = rt.Prof
	}
}

func (rt *Rt) record(env *lisp.LEnv, tag string, payload string) {
	r := env.Runtime
	rt.Trace = append(rt.Trace, Event{
		Tag:     tag,
		Payload: payload,
		Steps:   r.Steps(),
		Height:  len(r.Stack.Frames),
		Nesting: r.EvalNesting(),
	})
}

func (rt *Rt) addProbes() {
	env := rt.Env
	env.AddBuiltins(true,
		// (probe tag v...) records (tag, canon(v...)) and returns the last
		// argument (or () when there is none).
		HostBuiltin("probe", lisp.Formals("tag", lisp.VarArgSymbol, "vals"), func(env *lisp.LEnv, args *lisp.LVal) *lisp.LVal {
			tag := Canon(args.Cells[0])
			rest := args.Cells[1:]
			parts := make([]string, len(rest))
			for i, v := range rest {
				parts[i] = Canon(v)
			}
			rt.record(env, tag, strings.Join(parts, " "))
			if len(rest) == 0 {
				return lisp.Nil()
			}
			return rest[len(rest)-1]
		}),
		// (host-panic msg) panics in Go code.
		HostBuiltin("host-panic", lisp.Formals("msg"), func(env *lisp.LEnv, args *lisp.LVal) *lisp.LVal {
			rt.record(env, "host-panic", Canon(args.Cells[0]))
			panic("host-panic: " + Canon(args.Cells[0]))
		}),
		// (host-panic-handler c data...) is a Go builtin usable directly in
		// handler position; it panics while handling.
		HostBuiltin("host-panic-handler", lisp.Formals("c", lisp.VarArgSymbol, "d"), func(env *lisp.LEnv, args *lisp.LVal) *lisp.LVal {
			rt.record(env, "host-panic-handler", Canon(args.Cells[0]))
			panic("host-panic-handler: " + Canon(args.Cells[0]))
		}),
		// (host-see tag err) remembers the very error object it was handed.
		HostBuiltin("host-see", lisp.Formals("tag", "v"), func(env *lisp.LEnv, args *lisp.LVal) *lisp.LVal {
			rt.HostErrs = append(rt.HostErrs, args.Cells[1])
			rt.record(env, "host-see", Canon(args.Cells[0]))
			return args.Cells[1]
		}),
		// (host-cond tag) remembers the error object currently pending for
		// rethrow (nil outside a handler).
		HostBuiltin("host-cond", lisp.Formals("tag"), func(env *lisp.LEnv, args *lisp.LVal) *lisp.LVal {
			rt.HostErrs = append(rt.HostErrs, env.Runtime.CurrentCondition())
			rt.record(env, "host-cond", Canon(args.Cells[0]))
			return lisp.Nil()
		}),
		// (gset 'name v) binds a global in the user package, logged.
		HostBuiltin("gset", lisp.Formals("name", "v"), func(env *lisp.LEnv, args *lisp.LVal) *lisp.LVal {
			name := args.Cells[0]
			if name.Type != lisp.LSymbol {
				return env.Errorf("gset: not a symbol")
			}
			pkg := env.Runtime.Registry.Package(lisp.DefaultUserPackage)
			pkg.Put(lisp.Symbol(name.Str), args.Cells[1])
			rt.record(env, "gset", name.Str+" "+Canon(args.Cells[1]))
			return args.Cells[1]
		}),
	)
}

// Outcome is what the host observes of one top-level load.
type Outcome struct {
	IsErr     bool
	Cond      string // condition name when IsErr
	Msg       string // ErrorMessage() when IsErr
	Canon     string // canonical value when !IsErr
	Text      string // LVal.String() when !IsErr
	Panic     bool   // lisp.IsInternalPanic
	Steps     int64
	Val       *lisp.LVal
	StderrLen int
}

func (o Outcome) Key() string {
	if o.IsErr {
		return "ERR<" + o.Cond + ">"
	}
	return o.Canon
}

// Observe classifies a result value.
func (rt *Rt) Observe(v *lisp.LVal) Outcome {
	o := Outcome{Val: v, Steps: rt.Env.Runtime.Steps(), StderrLen: rt.Stderr.Len()}
	if v == nil {
		o.IsErr = true
		o.Cond = "#nil-result"
		return o
	}
	if v.Type == lisp.LError {
		o.IsErr = true
		o.Cond = v.Str
		o.Msg = (*lisp.ErrorVal)(v).ErrorMessage()
		o.Panic = lisp.IsInternalPanic(v)
		return o
	}
	o.Canon = Canon(v)
	o.Text = v.String()
	return o
}

// Load loads source text through LoadString and observes the outcome.
func (rt *Rt) Load(src string) Outcome {
	return rt.Observe(rt.Env.LoadString("test.lisp", src))
}

// TraceString renders tags and payloads (not steps/heights) one per line.
func TraceString(tr []Event) string {
	var b strings.Builder
	for _, e := range tr {
		b.WriteString(e.Tag)
		b.WriteByte('|')
		b.WriteString(e.Payload)
		b.WriteByte('\n')
	}
	return b.String()
}
