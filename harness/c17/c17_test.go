package c17

import (
	"testing"

	"github.com/luthersystems/elps/verifharness/vcommon"
)

func TestCheck(t *testing.T) {
	vcommon.Main(t, "C17",
		vcommon.S("session", 12000, 400000, genCase(), checkCase),
		vcommon.E("fixed", enumFixed, checkFixed),
	)
}
