package c17

import (
	"testing"

	"github.com/luthersystems/elps/verifharness/vcommon"
)

func TestCheck(t *testing.T) {
	vcommon.Main(t, "C17",
		vcommon.S("session", 24000, 480000, genCase(), checkCase),
	)
}
