package c17

// Macro templates (defmacro and macrolet) and macro call sites.

type tctx struct {
	params []*bind // expression parameters
	restP  *bind   // &rest body parameter (may be nil)
	lvs    []*bind // expansion-time locals of the macro body
	tbs    []*bind // template binders currently in scope (innermost last)
	free   map[*bind]bool
	avoid  map[string]bool
	ctx    string // "tmpl" | "macrolet-tmpl"
	qual   bool   // write global references package-qualified
	outer  bool   // macrolet: may refer to enclosing locals
	self   string // macrolet: its own name shadows any global of that name in its body
}

func (g *gen) tbLookup(tc *tctx, name string) *bind {
	for i := len(tc.tbs) - 1; i >= 0; i-- {
		if tc.tbs[i].name == name {
			return tc.tbs[i]
		}
	}
	return nil
}

// macroScopeHas reports whether the macro's own parameters or expansion-time
// locals use the name (the template symbol is DATA there, so at run time this
// is irrelevant -- but it is exactly what a scope analysis may get wrong).
func (tc *tctx) macroScopeHas(name string) bool {
	for _, p := range tc.params {
		if p.name == name {
			return true
		}
	}
	if tc.restP != nil && tc.restP.name == name {
		return true
	}
	for _, p := range tc.lvs {
		if p.name == name {
			return true
		}
	}
	return false
}

func (g *gen) tglobals(tc *tctx, pred func(*bind) bool) []*bind {
	var out []*bind
	for _, b := range g.globals {
		if !b.ready || !pred(b) || g.pkgs[b.pkg].own[b.name] != b {
			continue
		}
		if !tc.qual {
			if b.pkg != g.cur.name || g.tbLookup(tc, b.name) != nil {
				continue
			}
			if tc.ctx == "macrolet-tmpl" && (g.lookup(b.name) != b || b.name == tc.self || g.avoid[b.name]) {
				continue
			}
			if tc.macroScopeHas(b.name) {
				if !g.trig["tmpl-shadow"] {
					continue
				}
			}
		}
		out = append(out, b)
	}
	return out
}

func (g *gen) tref(tc *tctx, b *bind) {
	if tc.qual {
		g.ref(cand{b, true}, tc.ctx+"-qualified")
		return
	}
	tc.free[b] = true
	if tc.macroScopeHas(b.name) {
		g.feat("tmpl-shadow")
		g.ref(cand{b, false}, tc.ctx+"-shadowed")
		return
	}
	g.ref(cand{b, false}, tc.ctx)
}

func (g *gen) tleaf(tc *tctx) {
	switch k := g.intn(10); {
	case k < 4 && len(tc.params) > 0:
		p := tc.params[g.intn(len(tc.params))]
		g.e.head("unquote")
		g.ref(cand{p, false}, "unquote")
		g.e.close()
	case k < 5 && len(tc.lvs) > 0:
		p := tc.lvs[g.intn(len(tc.lvs))]
		g.e.head("unquote")
		g.ref(cand{p, false}, "unquote")
		g.e.close()
	case k < 7 && len(tc.tbs) > 0:
		b := tc.tbs[g.intn(len(tc.tbs))]
		if g.tbLookup(tc, b.name) == b {
			g.e.sym(Occ{N: b.name, R: "tmpl", B: b.id})
			return
		}
		g.e.lit(g.intLit())
	case k < 8:
		if gs := g.tglobals(tc, func(b *bind) bool { return b.kind == "gset" && b.ty.K == 'n' }); len(gs) > 0 {
			g.tref(tc, gs[g.intn(len(gs))])
			return
		}
		g.e.lit(g.intLit())
	case k < 9 && tc.outer:
		// macrolet template referring to a local of the enclosing function
		if cs := g.cands(func(b *bind) bool { return !b.global && isNumVar(b) }); len(cs) > 0 {
			c := g.pickCand(cs)
			if g.tbLookup(tc, c.b.name) == nil && c.b.name != tc.self {
				g.feat("macrolet-outer-local")
				g.ref(c, tc.ctx)
				return
			}
		}
		g.e.lit(g.intLit())
	default:
		g.e.lit(g.intLit())
	}
}

func (g *gen) tbName() string {
	name := g.pick(tmplPool)
	if g.overlap && g.chance(50) {
		switch g.intn(3) {
		case 0:
			name = g.pick(localPool)
		case 1:
			name = g.pick(fnPool)
		default:
			name = g.pick(gvarPool)
		}
	}
	return g.fixName(name)
}

func (g *gen) tnum(tc *tctx, d int) {
	if d <= 0 || g.budget <= 0 {
		g.tleaf(tc)
		return
	}
	g.budget--
	switch k := g.intn(20); {
	case k < 4:
		g.tleaf(tc)
	case k < 8:
		g.e.head([]string{"+", "-", "*"}[g.intn(3)])
		g.tnum(tc, d-1)
		g.tnum(tc, d-1)
		g.e.close()
	case k < 10:
		g.e.head("if")
		g.e.head("<")
		g.tnum(tc, d-1)
		g.tnum(tc, d-1)
		g.e.close()
		g.tnum(tc, d-1)
		g.tnum(tc, d-1)
		g.e.close()
	case k < 13:
		// template-introduced binder
		g.feat("tmpl-binder")
		tb := &bind{id: g.newID(), name: g.tbName(), kind: "tmpl"}
		tc.avoid[tb.name] = true
		g.e.head("let")
		g.e.open()
		br := g.bindingOpen()
		g.e.sym(Occ{N: tb.name, R: "tmpl", B: tb.id})
		g.tnum(tc, d-1)
		g.bindingClose(br)
		g.e.close()
		tc.tbs = append(tc.tbs, tb)
		g.tnum(tc, d-1)
		tc.tbs = tc.tbs[:len(tc.tbs)-1]
		g.e.close()
	case k < 16:
		if tc.outer && g.chance(40) {
			// macrolet template calling a flet / labels function of the
			// enclosing code (labels + macrolet, flet + macrolet)
			var ls []cand
			for _, c := range g.cands(func(b *bind) bool {
				return (b.kind == "flet" || b.kind == "labels") && b.sig != nil && len(b.sig.req) > 0 && allNum(b.sig.req) && b.sig.opt == 0 && !b.sig.rest
			}) {
				if g.tbLookup(tc, c.b.name) == nil && c.b.name != tc.self {
					ls = append(ls, c)
				}
			}
			if len(ls) > 0 {
				c := g.pickCand(ls)
				g.feat("macrolet-outer-local-fn")
				g.e.open()
				g.ref(c, tc.ctx)
				for range c.b.sig.req {
					g.tnum(tc, d-1)
				}
				g.e.close()
				return
			}
		}
		gs := g.tglobals(tc, func(b *bind) bool {
			return b.kind == "defun" && b.sig.ret.K == 'n' && allNum(b.sig.req) && len(b.sig.keys) == 0
		})
		if len(gs) == 0 {
			g.tleaf(tc)
			return
		}
		b := gs[g.intn(len(gs))]
		g.feat("tmpl-helper")
		g.e.open()
		g.tref(tc, b)
		for range b.sig.req {
			g.tnum(tc, d-1)
		}
		g.e.close()
	case k < 17:
		g.feat("tmpl-lambda")
		tb := &bind{id: g.newID(), name: g.tbName(), kind: "tmpl"}
		tc.avoid[tb.name] = true
		g.e.head("funcall")
		g.e.head("lambda")
		g.e.open()
		g.e.sym(Occ{N: tb.name, R: "tmpl", B: tb.id})
		g.e.close()
		tc.tbs = append(tc.tbs, tb)
		g.tnum(tc, d-1)
		tc.tbs = tc.tbs[:len(tc.tbs)-1]
		g.e.close()
		g.tnum(tc, d-1)
		g.e.close()
	case k < 19:
		// quoted data inside the template
		g.feat("tmpl-quoted-data")
		g.e.head("if")
		g.e.head("equal?")
		if g.chance(50) {
			g.e.quote()
			g.e.sym(Occ{N: g.tdataSym(tc), R: "data", C: "tmpl-quote"})
		} else {
			g.quoteMarkOpen()
			g.e.sym(Occ{N: g.tdataSym(tc), R: "data", C: "tmpl-quote-list"})
			g.e.sym(Occ{N: g.tdataSym(tc), R: "data", C: "tmpl-quote-list"})
			g.e.close()
		}
		g.e.quote()
		g.e.sym(Occ{N: g.tdataSym(tc), R: "data", C: "tmpl-quote"})
		g.e.close()
		g.tnum(tc, d-1)
		g.tnum(tc, d-1)
		g.e.close()
	default:
		if tc.restP != nil {
			g.e.head("progn")
			g.e.lit("0")
			g.e.head("unquote-splicing")
			g.ref(cand{tc.restP, false}, "unquote")
			g.e.close()
			g.e.close()
			return
		}
		g.tleaf(tc)
	}
}

// tdataSym: data spelled like the macro's own parameters half of the time in
// overlap mode.
func (g *gen) tdataSym(tc *tctx) string {
	if g.overlap && g.chance(40) {
		if len(tc.params) > 0 && g.chance(60) {
			return tc.params[g.intn(len(tc.params))].name
		}
		if len(tc.lvs) > 0 {
			return tc.lvs[0].name
		}
	}
	return g.dataSym()
}

// defmacro writes (defmacro name (params) body) for the planned binder m.
func (g *gen) defmacro(m *bind) {
	g.feat("template")
	tc := &tctx{free: map[*bind]bool{}, avoid: map[string]bool{}, ctx: "tmpl", qual: g.chance(20)}
	if tc.qual {
		g.feat("tmpl-qualified")
	}
	g.e.head("defmacro")
	g.bindOcc(m)
	s := &sig{ret: tNum}
	for i, n := 0, 1+g.intn(2); i < n; i++ {
		s.req = append(s.req, tNum)
	}
	s.rest = g.chance(25)
	m.sig = s
	ps := g.paramList(s)
	for _, p := range ps {
		p.mut = false
		if p.ty.K == 'd' {
			tc.restP = p
		} else {
			tc.params = append(tc.params, p)
		}
	}
	g.push()
	for _, p := range ps {
		g.add(p)
	}
	// unusable duplicates (a later parameter shadowing an earlier one)
	var vis []*bind
	for _, p := range tc.params {
		if g.lookup(p.name) == p {
			vis = append(vis, p)
		}
	}
	tc.params = vis
	if tc.restP != nil && g.lookup(tc.restP.name) != tc.restP {
		tc.restP = nil
	}
	nlet := 0
	if g.chance(30) {
		// expansion-time computation
		g.feat("macro-body-let")
		nlet = 1
		lv := g.newLocal(g.binderName(localPool), "let", tNum)
		lv.mut = false
		g.e.head("let")
		g.e.open()
		br := g.bindingOpen()
		g.bindOcc(lv)
		g.e.lit(g.intLit())
		g.bindingClose(br)
		g.e.close()
		g.push()
		g.add(lv)
		// the let may shadow a parameter
		vis = nil
		for _, p := range tc.params {
			if g.lookup(p.name) == p {
				vis = append(vis, p)
			}
		}
		tc.params = vis
		if tc.restP != nil && g.lookup(tc.restP.name) != tc.restP {
			tc.restP = nil
		}
		tc.lvs = append(tc.lvs, lv)
	}
	g.e.head("quasiquote")
	g.tnum(tc, 3)
	g.e.close()
	if nlet > 0 {
		g.pop()
		g.e.close()
	}
	g.pop()
	g.e.close()
	for b := range tc.free {
		m.tmplFree = append(m.tmplFree, b)
	}
	for n := range tc.avoid {
		m.tmplAvoid = append(m.tmplAvoid, n)
	}
}

// macroUsable: every bare global the template mentions must resolve, at this
// call site, to that same global; otherwise the program would depend on
// call-site capture (not statically scoped).
func (g *gen) macroUsable(m *bind) (cand, bool) {
	if !m.ready || g.pkgs[m.pkg].own[m.name] != m {
		return cand{}, false
	}
	for _, f := range m.tmplFree {
		if g.avoid[f.name] {
			// e.g. inside a closure in the init expression of a let that binds
			// the same name: the evaluator's single let frame would capture it
			return cand{}, false
		}
		if g.lookup(f.name) != f || g.pkgs[f.pkg].own[f.name] != f {
			return cand{}, false
		}
	}
	if g.lookup(m.name) == m && !g.avoid[m.name] {
		return cand{m, false}, true
	}
	if len(m.tmplFree) == 0 || m.pkg == g.cur.name {
		return cand{m, true}, true
	}
	return cand{}, false
}

func (g *gen) withAvoid(names []string, f func()) {
	saved := g.avoid
	na := map[string]bool{}
	for k := range saved {
		na[k] = true
	}
	for _, n := range names {
		na[n] = true
	}
	g.avoid = na
	f()
	g.avoid = saved
}

func (g *gen) macroCallOf(c cand, d int) {
	m := c.b
	g.feat("macro-call")
	g.e.open()
	g.ref(c, "macro-call")
	if len(m.name) > 3 && m.name[:3] == "def" && g.e.ctx == "" {
		// everything inside the arguments of a def-named macro call
		g.e.ctx = "def-macro-arg"
		defer func() { g.e.ctx = "" }()
	}
	g.withAvoid(m.tmplAvoid, func() {
		for range m.sig.req {
			g.num(d - 1)
		}
		if m.sig.rest {
			for i, n := 0, g.intn(3); i < n; i++ {
				if g.chance(40) {
					g.sideEffect(d - 1)
				} else {
					g.num(d - 1)
				}
			}
		}
	})
	g.e.close()
}

func (g *gen) macroCall(d int) bool {
	var cs []cand
	for _, m := range g.globals {
		if m.isMacro {
			if c, ok := g.macroUsable(m); ok {
				cs = append(cs, c)
			}
		}
	}
	if len(cs) == 0 {
		return false
	}
	g.macroCallOf(g.pickCand(cs), d)
	return true
}

// macroletForm: (macrolet ((name (p) (quasiquote T))) (+ (name arg) ...))
func (g *gen) macroletForm(d int) {
	g.feat("macrolet")
	g.feat("template")
	mname := g.fixName(g.pick(macroPool))
	if !g.trig["defname"] && len(mname) > 3 && mname[:3] == "def" {
		mname = "my-" + mname
	}
	m := &bind{id: g.newID(), name: mname, kind: "macrolet", isMacro: true}
	p := g.newLocal(g.fixName(g.pick(localPool)), "macrolet-param", tNum)
	tc := &tctx{free: map[*bind]bool{}, avoid: map[string]bool{}, ctx: "macrolet-tmpl", outer: true, params: []*bind{p}, self: m.name}
	g.e.head("macrolet")
	g.e.open()
	g.e.open()
	g.bindOcc(m)
	g.e.open()
	g.bindOcc(p)
	g.e.close()
	g.e.head("quasiquote")
	g.tnum(tc, 2)
	g.e.close()
	g.e.close()
	g.e.close()
	av := []string{m.name}
	for n := range tc.avoid {
		av = append(av, n)
	}
	g.e.head("+")
	for i, n := 0, 1+g.intn(2); i < n; i++ {
		g.e.open()
		g.e.sym(Occ{N: m.name, R: "ref", B: m.id, K: "macrolet", C: "macro-call"})
		if len(m.name) > 3 && m.name[:3] == "def" && g.e.ctx == "" {
			g.e.ctx = "def-macro-arg"
			g.withAvoid(av, func() { g.num(d - 1) })
			g.e.ctx = ""
		} else {
			g.withAvoid(av, func() { g.num(d - 1) })
		}
		g.e.close()
	}
	g.e.close()
	g.e.close()
}
