package c17

import (
	"fmt"
	"sort"
	"strings"

	"pgregory.net/rapid"
)

// trigger rates (percent of cases that MAY use the construct).  The low rates
// belong to constructs for which the check has produced a finding that is still
// open; they stay in the domain (the property covers them) but rarely, so that
// most cases are free to reveal something new.  The three at 100 produced
// findings that have been repaired (63062d6, a3c3723, c5292fb): they are
// ordinary constructs again, so a regression is found within a few cases.
var triggerRates = map[string]int{
	"xname":           100,
	"dotimes-result":  100,
	"samefile-import": 100,
	"qqdata":          8,
	"macrolet":        6,
	"tmpl-shadow":     8,
	"redefine":        5,
	"defname":         6,
}

var triggerOrder = []string{"xname", "dotimes-result", "qqdata", "macrolet", "tmpl-shadow", "redefine", "samefile-import", "defname"}

type planned struct {
	b      *bind
	export bool
}

func (g *gen) planGlobal(kind string) *bind {
	var pool []string
	switch kind {
	case "defun":
		pool = fnPool
	case "gset":
		pool = gvarPool
	default:
		pool = macroPool
	}
	var name string
	for tries := 0; tries < 8; tries++ {
		name = g.fixName(g.pick(pool))
		if kind == "macro" && strings.HasPrefix(name, "def") {
			if !g.trig["defname"] {
				continue
			}
			g.feat("def-named-macro")
		}
		if g.chance(15) {
			// also draw from the exclusion list so exclusions matter
			var ex []string
			for n := range g.excl {
				ex = append(ex, n)
			}
			if len(ex) > 0 {
				sort.Strings(ex)
				name = ex[g.intn(len(ex))]
			}
		}
		old := g.cur.own[name]
		if g.cur.imports[name] != nil {
			// defining a name the package already imported would make the one
			// package-level binding refer to two different things over time
			name = ""
			continue
		}
		if old == nil {
			break
		}
		if g.trig["redefine"] && old.kind == kind && kind == "defun" && old.ready && g.chance(50) {
			g.feat("redefine")
			break
		}
		name = ""
	}
	if name == "" {
		name = fmt.Sprintf("%s-%d", g.pick(pool), g.nid)
	}
	b := &bind{id: g.newID(), name: name, kind: kind, global: true, pkg: g.cur.name, file: g.fileIdx}
	if old := g.cur.own[name]; old != nil && old.kind == "defun" && kind == "defun" {
		// a redefinition is the SAME global binding assigned twice
		b.id = old.id
	}
	b.isMacro = kind == "macro"
	return b
}

func (g *gen) define(b *bind) {
	g.cur.own[b.name] = b
	g.globals = append(g.globals, b)
	b.ready = true
}

func (g *gen) defun(b *bind) {
	if old := g.cur.own[b.name]; old != nil && old.kind == "defun" && old.id == b.id && old.sig != nil {
		// a redefinition keeps the signature and result type, so the callers
		// generated against the first definition stay well typed
		g.defunWithSig(b, &sig{req: old.sig.req, opt: old.sig.opt, rest: old.sig.rest, keys: append([]string{}, old.sig.keys...), ret: old.sig.ret})
		return
	}
	s := &sig{}
	switch k := g.intn(100); {
	case k < 76:
		s.ret = tNum
	case k < 88:
		s.ret = tData
	default:
		s.ret = tFn(1)
	}
	for i, n := 0, g.intn(4); i < n; i++ {
		if g.chance(10) {
			s.req = append(s.req, tFn(1))
		} else {
			s.req = append(s.req, tNum)
		}
	}
	switch k := g.intn(100); {
	case k < 15:
		s.opt = 1 + g.intn(2)
	case k < 25:
		s.rest = true
	case k < 40:
		for i, n := 0, 1+g.intn(2); i < n; i++ {
			k := g.fixName(strings.TrimPrefix(g.pick(kwPool), ":"))
			dup := false
			for _, o := range s.keys {
				dup = dup || o == k
			}
			if !dup {
				s.keys = append(s.keys, k)
			}
		}
	}
	g.defunWithSig(b, s)
}

func (g *gen) defunWithSig(b *bind, s *sig) {
	b.sig = s
	g.e.head("defun")
	g.bindOcc(b)
	recursive := s.ret.K == 'n' && len(s.req) >= 1 && s.req[0].K == 'n' && g.chance(20)
	if recursive {
		s.opt, s.rest, s.keys = 0, false, nil
	}
	// key parameter names must not repeat a positional parameter
	ps := g.paramListKeys(s)
	if g.chance(10) {
		g.e.lit(`"docstring mentions helper and x1"`)
	}
	if recursive && g.lookupAfterParams(ps, b) {
		g.feat("recursion")
		g.cur.own[b.name] = b // visible to itself
		g.push()
		for _, p := range ps {
			g.add(p)
		}
		p0 := ps[0]
		ok := g.lookup(b.name) == b
		g.e.head("if")
		g.e.head("<=")
		g.ref(cand{p0, false}, "")
		g.e.lit("0")
		g.e.close()
		g.numLeaf()
		g.e.head("+")
		g.ref(cand{p0, false}, "")
		if ok {
			g.e.open()
			g.ref(cand{b, false}, "call")
			g.e.head("-")
			g.e.head("min")
			g.ref(cand{p0, false}, "")
			g.e.lit("3")
			g.e.close()
			g.e.lit("1")
			g.e.close()
			for _, ty := range s.req[1:] {
				if ty.K == 'n' {
					g.numLeaf()
				} else {
					g.fn(1, ty.A)
				}
			}
			g.e.close()
		}
		g.e.close()
		g.e.close()
		g.pop()
	} else {
		g.fnBody(3, ps, s.ret)
	}
	g.e.close()
	g.e.nl()
}

func (g *gen) paramListKeys(s *sig) []*bind {
	if len(s.keys) == 0 {
		return g.paramList(s)
	}
	keys := s.keys
	s.keys = nil
	// write positional part, then keys with de-duplicated names
	g.e.open()
	var ps []*bind
	names := map[string]bool{}
	for _, ty := range s.req {
		name := g.binderName(localPool)
		for names[name] {
			name += "p"
		}
		names[name] = true
		b := g.newLocal(name, "param", ty)
		ps = append(ps, b)
		g.bindOcc(b)
	}
	g.e.op("&key")
	for i, k := range keys {
		for names[k] {
			k += "k"
		}
		names[k] = true
		keys[i] = k
		b := g.newLocal(k, "param", Ty{'o', 0})
		ps = append(ps, b)
		s.keyIDs = append(s.keyIDs, b.id)
		g.bindOcc(b)
	}
	g.e.close()
	s.keys = keys
	return ps
}

func (g *gen) gset(b *bind) {
	switch k := g.intn(10); {
	case k < 6:
		b.ty = tNum
		b.mut = true
	case k < 8:
		b.ty = tData
	default:
		b.ty = tFn(1)
	}
	g.e.head("set")
	g.e.quote()
	g.bindOcc(b)
	g.typed(2, b.ty)
	if g.chance(8) {
		g.e.lit(`"doc"`)
	}
	g.e.close()
	g.e.nl()
}

// guardOpen writes (handler-bind ((condition (lambda (c &rest r) (list 'err c)))) and
// leaves the form open for the guarded expression.
func (g *gen) guardOpen() {
	g.e.head("handler-bind")
	g.e.open()
	g.e.open()
	g.e.sym(Occ{N: "condition", R: "cond", C: "handler-bind"})
	g.e.head("lambda")
	c := g.newLocal(g.fixName(g.pick(localPool)), "param", tData)
	r := g.newLocal(c.name+"-rest", "param", Ty{'x', 0})
	g.e.open()
	g.bindOcc(c)
	g.e.op("&rest")
	g.bindOcc(r)
	g.e.close()
	g.e.head("list")
	g.e.quote()
	g.e.sym(Occ{N: "err", R: "data", C: "quote"})
	g.e.sym(Occ{N: c.name, R: "ref", B: c.id, K: "param"})
	g.e.close()
	g.e.close()
	g.e.close()
	g.e.close()
}

func (g *gen) driver(b *bind) {
	g.ndrv++
	g.e.head("debug-print")
	g.e.lit(fmt.Sprintf(`"d%d"`, g.ndrv))
	guarded := g.chance(80)
	if guarded {
		g.guardOpen()
	}
	c := cand{b, g.lookup(b.name) != b}
	switch {
	case b.isMacro:
		if mc, ok := g.macroUsable(b); ok {
			g.macroCallOf(mc, 2)
		} else {
			g.e.lit("0")
		}
	case b.kind == "defun" && b.sig.ret.K == 'f':
		g.e.head("funcall")
		g.e.open()
		g.ref(c, "call")
		g.args(b.sig, 2)
		g.e.close()
		g.e.lit(g.intLit())
		g.e.close()
	case b.kind == "defun":
		g.e.open()
		g.ref(c, "call")
		g.args(b.sig, 2)
		g.e.close()
	case b.ty.K == 'f':
		g.e.open()
		g.ref(c, "call")
		g.e.lit(g.intLit())
		g.e.close()
	default:
		g.ref(c, "")
	}
	if guarded {
		g.e.close()
	}
	g.e.close()
	g.e.nl()
}

func (g *gen) comment() {
	if g.chance(20) {
		g.e.w([]string{"; plain comment\n", ";; (defun f (x1) helper) \"quoted\n", ";;; 'x1 ) ( [\n"}[g.intn(3)])
	}
}

// section writes the forms of one package section of a file.
func (g *gen) section(p *pkg, first bool, earlier []*pkg) {
	g.cur = p
	if p.name != "user" || !first {
		g.e.head("in-package")
		g.e.quote()
		g.e.sym(Occ{N: p.name, R: "pkg"})
		g.e.close()
		g.e.nl()
	}
	twin := g.twin
	g.twin = nil
	if twin != nil {
		// same leading text as the twin file: pad with comment lines up to the
		// line its first definition stands on; no use-package lines
		have := strings.Count(g.e.b.String(), "\n")
		if have > twin.lines || p.own[twin.name] != nil || p.imports[twin.name] != nil || p.name == twin.pkg {
			twin = nil
		} else {
			for ; have < twin.lines; have++ {
				g.e.w("; header\n")
			}
		}
	}
	for _, q := range earlier {
		if twin != nil || q == p || len(q.exports) == 0 || !g.chance(60) {
			continue
		}
		okAll := true
		for _, b := range q.exports {
			if !b.ready || q.own[b.name] != b || p.own[b.name] != nil {
				okAll = false
			}
		}
		if !okAll {
			continue
		}
		g.feat("use-package")
		g.e.head("use-package")
		g.e.quote()
		g.e.sym(Occ{N: q.name, R: "pkg"})
		g.e.close()
		g.e.nl()
		for _, b := range q.exports {
			if old := p.imports[b.name]; old != nil && old.pkg != b.pkg {
				g.feat("import-conflict")
				p.impConflict[b.name] = true
			}
			p.imports[b.name] = b
			p.impFile[b.name] = g.fileIdx
		}
	}
	// plan
	n := 1 + g.intn(4)
	var plan []planned
	if twin != nil {
		g.feat("twin-file")
		b := &bind{id: g.newID(), name: twin.name, kind: twin.kind, global: true, pkg: p.name, file: g.fileIdx, isMacro: twin.kind == "macro"}
		plan = append(plan, planned{b, false})
	}
	for i := 0; i < n; i++ {
		kind := "defun"
		switch k := g.intn(10); {
		case k < 2:
			kind = "gset"
		case k < 4:
			kind = "macro"
		}
		b := g.planGlobal(kind)
		dup := false
		for _, pl := range plan {
			dup = dup || pl.b.name == b.name
		}
		if dup {
			continue
		}
		plan = append(plan, planned{b, p.name != "user" && g.chance(45) || p.name == "user" && g.chance(10)})
	}
	exportAt := g.intn(len(plan) + 1)
	if twin != nil && exportAt == 0 {
		exportAt = len(plan)
	}
	writeExport := func() {
		var ex []*bind
		for _, pl := range plan {
			if pl.export {
				ex = append(ex, pl.b)
			}
		}
		if len(ex) == 0 {
			return
		}
		g.feat("export")
		g.e.head("export")
		for _, b := range ex {
			g.e.quote()
			g.e.sym(Occ{N: b.name, R: "ref", B: b.id, K: b.kind, C: "export-form"})
			b.exported = true
		}
		g.e.close()
		g.e.nl()
	}
	var driven = map[*bind]bool{}
	for i, pl := range plan {
		if i == exportAt {
			writeExport()
		}
		if !(twin != nil && i == 0) {
			g.comment()
		}
		b := pl.b
		if first && i == 0 {
			g.lead = &leadInfo{lines: strings.Count(g.e.b.String(), "\n"), kind: b.kind, name: b.name, pkg: p.name}
			if pl.export || g.excl[b.name] {
				g.lead = nil // preserved names cannot collide
			}
		}
		switch b.kind {
		case "defun":
			g.defun(b)
		case "gset":
			g.gset(b)
		default:
			g.defmacro(b)
			g.e.nl()
		}
		g.define(b)
		if b.kind == "gset" && b.ty.K == 'n' && g.chance(25) {
			// a second top-level set of the same name
			g.feat("top-level-reset")
			g.e.head("set")
			g.e.quote()
			g.e.sym(Occ{N: b.name, R: "ref", B: b.id, K: "gset", C: "set-target"})
			g.e.head("+")
			g.ref(cand{b, false}, "")
			g.e.lit("1")
			g.e.close()
			g.e.close()
			g.e.nl()
		}
		if g.chance(55) {
			g.driver(b)
			driven[b] = true
		}
	}
	if exportAt == len(plan) {
		writeExport()
	}
	for _, pl := range plan {
		if pl.export {
			p.exports = append(p.exports, pl.b)
		}
		if !driven[pl.b] && p.own[pl.b.name] == pl.b {
			g.driver(pl.b)
		}
	}
}

func (g *gen) finalExpr() {
	g.comment()
	if g.chance(6) {
		g.raise(2)
		g.e.nl()
		return
	}
	g.e.head("list")
	for i, n := 0, 1+g.intn(3); i < n; i++ {
		if g.chance(70) {
			g.num(3)
		} else {
			g.data(3)
		}
	}
	g.e.close()
	g.e.nl()
}

func (g *gen) client() (string, []SurfRef) {
	var refs []SurfRef
	ce := &em{}
	saved := g.e
	g.e = ce
	defer func() { g.e = saved }()
	g.e.w("(in-package 'client)\n")
	n := 0
	for _, b := range g.globals {
		if g.pkgs[b.pkg].own[b.name] != b || n >= 4 {
			continue
		}
		why := ""
		switch {
		case b.kind == "gset" && b.ty.K != 'f':
			why = "gset"
		case b.kind == "defun" && g.excl[b.name]:
			why = "excluded"
		case b.kind == "defun" && b.exported && !g.renameExports:
			why = "exported"
		}
		if why == "" || !g.chance(60) {
			continue
		}
		if b.kind == "defun" && (!allNum(b.sig.req) || b.sig.ret.K == 'f') {
			continue
		}
		n++
		refs = append(refs, SurfRef{B: b.id, Why: why})
		g.e.w(fmt.Sprintf("(debug-print \"client%d\" (handler-bind ((condition (lambda (c &rest r) (list 'err c)))) ", n))
		if b.kind == "gset" {
			g.e.w(b.pkg + ":" + b.name)
		} else {
			g.e.w("(" + b.pkg + ":" + b.name)
			for range b.sig.req {
				g.e.w(" " + g.intLit())
			}
			g.e.w(")")
		}
		g.e.w("))\n")
	}
	if n == 0 {
		return "", nil
	}
	return ce.b.String(), refs
}

func genCase() *rapid.Generator[Case] {
	return rapid.Custom(func(t *rapid.T) Case {
		g := &gen{t: t, feats: map[string]bool{}, pkgs: map[string]*pkg{}, excl: map[string]bool{}, avoid: map[string]bool{}, trig: map[string]bool{}}
		g.preserveParams = true
		mode := g.intn(100)
		switch {
		case mode < 40:
		case mode < 60:
			g.preserveParams = false
		case mode < 75:
			g.renameExports = true
		case mode < 90:
			g.pickExclusions()
		default:
			g.preserveParams = g.chance(50)
			g.renameExports = true
			g.pickExclusions()
		}
		g.overlap = g.chance(50)
		for _, tr := range triggerOrder {
			if g.chance(triggerRates[tr]) {
				g.trig[tr] = true
			}
		}
		// packages
		npk := 1 + g.intn(3)
		var pks []*pkg
		names := []string{"user"}
		names = append(names, pkgPool...)
		for len(pks) < npk {
			var name string
			if len(pks) == 0 && g.chance(50) {
				name = "user"
			} else {
				name = names[g.intn(len(names))]
			}
			if g.pkgs[name] != nil {
				continue
			}
			p := &pkg{name: name, own: map[string]*bind{}, imports: map[string]*bind{}, impFile: map[string]int{}, impConflict: map[string]bool{}}
			g.pkgs[name] = p
			pks = append(pks, p)
		}
		nfiles := 1 + g.intn(3)
		var c Case
		var loaded []*pkg // packages with a completed section in an earlier file
		var leads []*leadInfo
		usedPath := map[string]bool{}
		for fi := 0; fi < nfiles; fi++ {
			g.fileIdx = fi
			g.e = &em{}
			g.lead = nil
			// file names: directories and base names as in a one-directory-
			// per-package layout; a third of the later files deliberately
			// repeat an earlier file's base name and leading text
			var twin *leadInfo
			if len(leads) > 0 && len(pks) > 1 && g.chance(35) {
				twin = leads[g.intn(len(leads))]
			}
			path := ""
			for tries := 0; path == "" || usedPath[path]; tries++ {
				base := g.pick(basePool)
				if twin != nil {
					base = twin.base
				}
				path = g.pick(dirPool) + "/" + base
				if tries > 8 {
					path = fmt.Sprintf("d%d/%s", fi, base)
				}
			}
			usedPath[path] = true
			curBase := path[strings.LastIndex(path, "/")+1:]
			g.budget = 60 + g.intn(60)
			nsec := 1
			if g.chance(30) {
				nsec = 2
			}
			var inFile []*pkg
			for s := 0; s < nsec; s++ {
				p := pks[g.intn(len(pks))]
				if s > 0 && p == inFile[0] {
					continue
				}
				earlier := loaded
				if g.trig["samefile-import"] {
					earlier = append(append([]*pkg{}, loaded...), inFile...)
					if len(inFile) > 0 {
						g.feat("samefile-import")
					}
				}
				if s == 0 && twin != nil {
					// the twin lives in another package than its original
					for tries := 0; tries < 6 && p.name == twin.pkg; tries++ {
						p = pks[g.intn(len(pks))]
					}
					g.twin = twin
				}
				g.section(p, s == 0, earlier)
				inFile = append(inFile, p)
			}
			g.finalExpr()
			for _, p := range inFile {
				dup := false
				for _, q := range loaded {
					dup = dup || q == p
				}
				if !dup {
					loaded = append(loaded, p)
				}
			}
			if g.lead != nil {
				g.lead.base = curBase
				leads = append(leads, g.lead)
			}
			c.Files = append(c.Files, File{Path: path, Src: g.e.b.String(), Occ: g.e.occ})
		}
		if g.chance(60) {
			c.Client, c.ClientRefs = g.client()
		}
		c.PreserveParams = g.preserveParams
		c.RenameExports = g.renameExports
		for n := range g.excl {
			c.Exclusions = append(c.Exclusions, n)
		}
		sort.Strings(c.Exclusions)
		for f := range g.feats {
			c.Feat = append(c.Feat, f)
		}
		sort.Strings(c.Feat)
		return c
	})
}

func (g *gen) pickExclusions() {
	for i, n := 0, 1+g.intn(3); i < n; i++ {
		var name string
		switch g.intn(3) {
		case 0:
			name = g.pick(fnPool)
		case 1:
			name = g.pick(localPool)
		default:
			name = g.pick(gvarPool)
		}
		if !isXName(name) {
			g.excl[name] = true
		}
	}
}
