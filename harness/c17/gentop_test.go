package c17

import (
	"fmt"
	"os"
	"sort"
	"strconv"
	"strings"

	"pgregory.net/rapid"
)

// trigger rates (percent of cases that MAY use the construct).  The low rates
// belong to constructs for which the check has produced a finding that is still
// open; they stay in the domain (the property covers them) but rarely, so that
// most cases are free to reveal something new.  The three at 100 produced
// findings that have been repaired (63062d6, a3c3723, c5292fb): they are
// ordinary constructs again, so a regression is found within a few cases.
var triggerRates = map[string]int{
	"xname":           100,
	"dotimes-result":  100,
	"samefile-import": 100,
	"qqdata":          8,
	"macrolet":        6,
	"tmpl-shadow":     8,
	"redefine":        5,
	"defname":         6,
	// Constructs inside the property's domain for which the minifier changes
	// program meaning; recorded as known findings in round 6 (keys in
	// oracle_test.go r6Keys), so rationed like the ones above.  In the cases that
	// did not opt in, the decision points are still drawn and counted (feat
	// skip/<name>); C17_TRIG="export-list=40,nested-def=100" overrides a rate.
	"export-list":       6, // (export '(a b)) and (export "a")
	"export-other-file": 8, // (export 'f) in another file than (defun f ...)
	"headname":          6, // a user function called test / test-let (heads the analyzer special-cases)
	"nested-def":        6, // defun inside a top-level let (closure idiom) or progn
}

var triggerOrder = []string{"xname", "dotimes-result", "qqdata", "macrolet", "tmpl-shadow", "redefine", "samefile-import", "defname",
	"export-list", "export-other-file", "headname", "nested-def"}

func init() {
	// C17_TRIG=name=rate,... overrides trigger rates (configuration, not a
	// source of randomness: a case is still a pure function of the drawn bits)
	for _, kv := range strings.Split(os.Getenv("C17_TRIG"), ",") {
		if name, rate, ok := strings.Cut(kv, "="); ok {
			if n, err := strconv.Atoi(rate); err == nil {
				if _, known := triggerRates[name]; known {
					triggerRates[name] = n
				}
			}
		}
	}
}

type planned struct {
	b      *bind
	export bool
}

func (g *gen) planGlobal(kind string) *bind {
	var pool []string
	switch kind {
	case "defun":
		pool = fnPool
	case "gset":
		pool = gvarPool
	case "deftype":
		pool = typePool
	default:
		pool = macroPool
	}
	var name string
	for tries := 0; tries < 8; tries++ {
		name = g.fixName(g.pick(pool))
		if kind == "defun" && g.may("headname", 12) {
			name = []string{"test", "test-let"}[g.intn(2)]
			g.feat("head-special-cased-name")
		}
		homonym := false
		if hs := g.homonyms(kind); len(hs) > 0 && g.chance(35) {
			// the same bare name as a global of ANOTHER package of the session
			// (of any kind, exported or private; packages of this file twice as
			// likely): everything that resolves a bare name without its package
			// now has a wrong candidate
			name = hs[g.intn(len(hs))]
			homonym = true
		}
		if kind == "macro" && strings.HasPrefix(name, "def") {
			if !g.trig["defname"] {
				continue
			}
			g.feat("def-named-macro")
		}
		if g.chance(15) {
			// also draw from the exclusion list so exclusions matter
			var ex []string
			for n := range g.excl {
				ex = append(ex, n)
			}
			if len(ex) > 0 {
				sort.Strings(ex)
				name = ex[g.intn(len(ex))]
			}
		}
		old := g.cur.own[name]
		if g.cur.imports[name] != nil {
			// defining a name the package already imported would make the one
			// package-level binding refer to two different things over time
			name = ""
			continue
		}
		if old == nil {
			if homonym {
				g.feat("homonym")
			}
			break
		}
		if g.trig["redefine"] && old.kind == kind && kind == "defun" && old.ready && g.chance(50) {
			g.feat("redefine")
			break
		}
		name = ""
	}
	if name == "" {
		name = fmt.Sprintf("%s-%d", g.pick(pool), g.nid)
	}
	b := &bind{id: g.newID(), name: name, kind: kind, global: true, pkg: g.cur.name, file: g.fileIdx}
	if old := g.cur.own[name]; old != nil && old.kind == "defun" && kind == "defun" {
		// a redefinition is the SAME global binding assigned twice
		b.id = old.id
	}
	b.isMacro = kind == "macro"
	return b
}

// homonyms lists the names other packages of the session define; names of
// packages that have a section in the current file are listed twice.
func (g *gen) homonyms(kind string) []string {
	var out []string
	add := func(q *pkg) {
		var ns []string
		for n, b := range q.own {
			if strings.HasPrefix(n, "def") || n == "test" || n == "test-let" {
				continue // names with a trigger of their own
			}
			if g.cur.own[n] != nil || g.cur.imports[n] != nil || !b.ready {
				continue
			}
			ns = append(ns, n)
		}
		sort.Strings(ns)
		out = append(out, ns...)
	}
	for _, q := range g.pkgList {
		if q != g.cur {
			add(q)
		}
	}
	for _, q := range g.inFile {
		if q != g.cur {
			add(q)
		}
	}
	return out
}

// lateExportConflict: package p is about to export name, but a package that
// has ALREADY executed (use-package p) sees another binding of that name.  At
// run time use-package copies the exports of that moment, so the importer
// keeps its binding; an analysis that reads "use-package p" as "everything p
// exports anywhere in the session" resolves the name to p's.  The meaning of
// the name then depends on the order in which the forms run (the two-package
// form of this is the recorded finding misbound-ref/imported-conflict), so the
// generator does not let exports grow under an importer's feet.
func (g *gen) lateExportConflict(p *pkg, name string) bool {
	for _, q := range g.pkgList {
		if q != p && q.uses[p.name] && (q.own[name] != nil || q.imports[name] != nil && q.imports[name].pkg != p.name) {
			return true
		}
	}
	return false
}

func (g *gen) define(b *bind) {
	g.cur.own[b.name] = b
	g.globals = append(g.globals, b)
	b.ready = true
}

func (g *gen) defun(b *bind) {
	if b.presig {
		g.defunWithSig(b, b.sig)
		return
	}
	if old := g.cur.own[b.name]; old != nil && old.kind == "defun" && old.id == b.id && old.sig != nil {
		// a redefinition keeps the signature and result type, so the callers
		// generated against the first definition stay well typed
		g.defunWithSig(b, &sig{req: old.sig.req, opt: old.sig.opt, rest: old.sig.rest, keys: append([]string{}, old.sig.keys...), ret: old.sig.ret})
		return
	}
	s := &sig{}
	switch k := g.intn(100); {
	case k < 76:
		s.ret = tNum
	case k < 88:
		s.ret = tData
	default:
		s.ret = tFn(1)
	}
	for i, n := 0, g.intn(4); i < n; i++ {
		if g.chance(10) {
			s.req = append(s.req, tFn(1))
		} else {
			s.req = append(s.req, tNum)
		}
	}
	switch k := g.intn(100); {
	case k < 15:
		s.opt = 1 + g.intn(2)
	case k < 25:
		s.rest = true
	case k < 40:
		for i, n := 0, 1+g.intn(2); i < n; i++ {
			k := g.fixName(strings.TrimPrefix(g.pick(kwPool), ":"))
			dup := false
			for _, o := range s.keys {
				dup = dup || o == k
			}
			if !dup {
				s.keys = append(s.keys, k)
			}
		}
	}
	g.defunWithSig(b, s)
}

func (g *gen) defunWithSig(b *bind, s *sig) {
	b.sig = s
	g.e.head("defun")
	g.bindOcc(b)
	recursive := s.ret.K == 'n' && len(s.req) >= 1 && s.req[0].K == 'n' && g.chance(20)
	if recursive {
		s.opt, s.rest, s.keys = 0, false, nil
	}
	// key parameter names must not repeat a positional parameter
	ps := g.paramListKeys(s)
	if g.chance(10) {
		g.e.lit(`"docstring mentions helper and x1"`)
	}
	if recursive && g.lookupAfterParams(ps, b) {
		g.feat("recursion")
		g.cur.own[b.name] = b // visible to itself
		g.push()
		for _, p := range ps {
			g.add(p)
		}
		p0 := ps[0]
		ok := g.lookup(b.name) == b
		g.e.head("if")
		g.e.head("<=")
		g.ref(cand{p0, false}, "")
		g.e.lit("0")
		g.e.close()
		g.numLeaf()
		g.e.head("+")
		g.ref(cand{p0, false}, "")
		if ok {
			g.e.open()
			g.ref(cand{b, false}, "call")
			g.e.head("-")
			g.e.head("min")
			g.ref(cand{p0, false}, "")
			g.e.lit("3")
			g.e.close()
			g.e.lit("1")
			g.e.close()
			for _, ty := range s.req[1:] {
				if ty.K == 'n' {
					g.numLeaf()
				} else {
					g.fn(1, ty.A)
				}
			}
			g.e.close()
		}
		g.e.close()
		g.e.close()
		g.pop()
	} else {
		g.fnBody(3, ps, s.ret)
	}
	g.e.close()
	g.e.nl()
}

func (g *gen) paramListKeys(s *sig) []*bind {
	if len(s.keys) == 0 {
		return g.paramList(s)
	}
	keys := s.keys
	s.keys = nil
	// write positional part, then keys with de-duplicated names
	g.e.open()
	var ps []*bind
	names := map[string]bool{}
	for _, ty := range s.req {
		name := g.binderName(localPool)
		for names[name] {
			name += "p"
		}
		names[name] = true
		b := g.newLocal(name, "param", ty)
		ps = append(ps, b)
		g.bindOcc(b)
	}
	g.e.op("&key")
	for i, k := range keys {
		for names[k] {
			k += "k"
		}
		names[k] = true
		keys[i] = k
		b := g.newLocal(k, "param", Ty{'o', 0})
		ps = append(ps, b)
		s.keyIDs = append(s.keyIDs, b.id)
		g.bindOcc(b)
	}
	g.e.close()
	s.keys = keys
	return ps
}

// deftype writes (deftype name (params) body): the constructor computes the
// user data of (new name args...), here always a number.
func (g *gen) deftype(b *bind) {
	g.feat("deftype")
	s := &sig{ret: tNum}
	for i, n := 0, g.intn(3); i < n; i++ {
		s.req = append(s.req, tNum)
	}
	b.sig = s
	g.e.head("deftype")
	g.bindOcc(b)
	ps := g.paramList(s)
	g.fnBody(3, ps, tNum)
	g.e.close()
	g.e.nl()
}

// defconst writes (defconst name value "doc"...), i.e. a top-level set plus an
// export.  The value is never a bare (f a ...) list: with a docstring the form
// has four cells, and the analyzer's def-prefix heuristic would take such a
// list for a formals list -- the root cause already recorded as
// misparsed/def-macro-arg.
func (g *gen) defconstForm(b *bind) {
	g.feat("defconst")
	b.exported = true
	g.e.head("defconst")
	g.bindOcc(b)
	if g.chance(65) {
		b.ty = tNum
		b.mut = true
		g.e.head("+")
		g.e.lit(g.intLit())
		g.num(2)
		g.e.close()
	} else {
		b.ty = tData
		g.quotedList("quote", 1, true)
	}
	for i, n := 0, g.intn(3); i < n; i++ {
		g.e.lit([]string{`"doc"`, `""`, `"mentions helper and x1"`}[g.intn(3)])
	}
	g.e.close()
	g.e.nl()
}

func (g *gen) gset(b *bind) {
	if b.defconst {
		g.defconstForm(b)
		return
	}
	switch k := g.intn(10); {
	case k < 6:
		b.ty = tNum
		b.mut = true
	case k < 8:
		b.ty = tData
	default:
		b.ty = tFn(1)
	}
	g.e.head("set")
	g.e.quote()
	g.bindOcc(b)
	g.typed(2, b.ty)
	if g.chance(8) {
		g.e.lit(`"doc"`)
	}
	g.e.close()
	g.e.nl()
}

// guardOpen writes (handler-bind ((condition (lambda (c &rest r) (list 'err c)))) and
// leaves the form open for the guarded expression.
func (g *gen) guardOpen() {
	g.e.head("handler-bind")
	g.e.open()
	g.e.open()
	g.e.sym(Occ{N: "condition", R: "cond", C: "handler-bind"})
	g.e.head("lambda")
	c := g.newLocal(g.fixName(g.pick(localPool)), "param", tData)
	r := g.newLocal(c.name+"-rest", "param", Ty{'x', 0})
	g.e.open()
	g.bindOcc(c)
	g.e.op("&rest")
	g.bindOcc(r)
	g.e.close()
	g.e.head("list")
	g.e.quote()
	g.e.sym(Occ{N: "err", R: "data", C: "quote"})
	g.e.sym(Occ{N: c.name, R: "ref", B: c.id, K: "param"})
	g.e.close()
	g.e.close()
	g.e.close()
	g.e.close()
}

func (g *gen) driver(b *bind) {
	g.ndrv++
	g.e.head("debug-print")
	g.e.lit(fmt.Sprintf(`"d%d"`, g.ndrv))
	guarded := g.chance(80)
	if guarded {
		g.guardOpen()
	}
	c := cand{b, g.lookup(b.name) != b}
	switch {
	case b.isMacro:
		if mc, ok := g.macroUsable(b); ok {
			g.macroCallOf(mc, 2)
		} else {
			g.e.lit("0")
		}
	case b.kind == "deftype":
		g.newOf(c, 2)
	case b.kind == "defun" && b.sig.ret.K == 'f':
		g.e.head("funcall")
		g.e.open()
		g.ref(c, "call")
		g.args(b.sig, 2)
		g.e.close()
		g.e.lit(g.intLit())
		g.e.close()
	case b.kind == "defun":
		g.e.open()
		g.ref(c, "call")
		g.args(b.sig, 2)
		g.e.close()
	case b.ty.K == 'f':
		g.e.open()
		g.ref(c, "call")
		g.e.lit(g.intLit())
		g.e.close()
	default:
		g.ref(c, "")
	}
	if guarded {
		g.e.close()
	}
	g.e.close()
	g.e.nl()
}

func (g *gen) comment() {
	if g.chance(20) {
		g.e.w([]string{"; plain comment\n", ";; (defun f (x1) helper) \"quoted\n", ";;; 'x1 ) ( [\n"}[g.intn(3)])
	}
}

// pkgArg writes the argument of in-package / use-package: a quoted symbol or,
// a quarter of the time, a string.
func (g *gen) pkgArg(name string) {
	if g.chance(25) {
		g.feat("package-name-string")
		g.e.lit(strconv.Quote(name))
		return
	}
	g.e.quote()
	g.e.sym(Occ{N: name, R: "pkg"})
}

// section writes the forms of one package section of a file.  A consumer
// section belongs to the session's "main" package: it imports most of what the
// other packages export and defines little itself.
func (g *gen) section(p *pkg, first bool, earlier []*pkg, consumer bool) {
	g.cur = p
	if p.name != "user" || !first {
		g.e.head("in-package")
		g.pkgArg(p.name)
		g.e.close()
		g.e.nl()
	}
	twin := g.twin
	g.twin = nil
	if twin != nil {
		// same leading text as the twin file: pad with comment lines up to the
		// line its first definition stands on; no use-package lines
		have := strings.Count(g.e.b.String(), "\n")
		if have > twin.lines || p.own[twin.name] != nil || p.imports[twin.name] != nil || p.name == twin.pkg {
			twin = nil
		} else {
			for ; have < twin.lines; have++ {
				g.e.w("; header\n")
			}
		}
	}
	usePct := 60
	if consumer {
		usePct = 90
		g.feat("consumer-section")
	}
	for _, q := range earlier {
		if twin != nil || q == p || len(q.exports) == 0 || !g.chance(usePct) {
			continue
		}
		okAll := true
		for _, b := range q.exports {
			if !b.ready || q.own[b.name] != b || p.own[b.name] != nil {
				okAll = false
			}
			// Re-importing a name from ANOTHER package rebinds it for code
			// that is already written: a function of p that called the first
			// package's f would call the second's from now on (globals are
			// looked up when the call runs).  Such a name means two things
			// over time, so the conflict (the recorded finding
			// misbound-ref/imported-conflict) is only produced while p has not
			// referenced the name yet.
			if old := p.imports[b.name]; old != nil && old.pkg != b.pkg && p.refd[b.name] {
				okAll = false
				g.feat("skip/import-conflict-after-reference")
			}
		}
		if !okAll {
			continue
		}
		g.feat("use-package")
		p.uses[q.name] = true
		g.e.head("use-package")
		g.pkgArg(q.name)
		g.e.close()
		g.e.nl()
		for _, b := range q.exports {
			if old := p.imports[b.name]; old != nil && old.pkg != b.pkg {
				g.feat("import-conflict")
				p.impConflict[b.name] = true
			}
			p.imports[b.name] = b
			p.impFile[b.name] = g.fileIdx
		}
	}
	// a name this package defined in an EARLIER file is exported here
	var lateExports []*bind
	if twin == nil {
		var cs []*bind
		for _, b := range g.globals {
			if b.pkg == p.name && b.file < g.fileIdx && !b.exported && b.ready && p.own[b.name] == b && (b.kind == "defun" || b.kind == "gset" || b.kind == "deftype") {
				cs = append(cs, b)
			}
		}
		if len(cs) > 0 && g.may("export-other-file", 40) && !g.lateExportConflict(p, cs[0].name) {
			b := cs[0]
			g.feat("export-in-other-file")
			g.e.head("export")
			g.e.quote()
			g.e.sym(Occ{N: b.name, R: "ref", B: b.id, K: b.kind, C: "export-form", X: "export-other-file"})
			g.e.close()
			g.e.nl()
			b.exported = true
			lateExports = append(lateExports, b)
		}
	}
	// plan
	n := 1 + g.intn(4)
	if consumer {
		n = 1 + g.intn(2)
	}
	var plan []planned
	if twin != nil {
		g.feat("twin-file")
		b := &bind{id: g.newID(), name: twin.name, kind: twin.kind, global: true, pkg: p.name, file: g.fileIdx, isMacro: twin.kind == "macro"}
		plan = append(plan, planned{b, false})
	}
	for i := 0; i < n; i++ {
		kind := "defun"
		switch k := g.intn(100); {
		case k < 18:
			kind = "gset"
		case k < 36:
			kind = "macro"
		case k < 48:
			kind = "deftype"
		}
		b := g.planGlobal(kind)
		dup := false
		for _, pl := range plan {
			dup = dup || pl.b.name == b.name
		}
		if dup {
			continue
		}
		export := p.name != "user" && g.chance(45) || p.name == "user" && g.chance(10)
		dc := kind == "gset" && g.cur.own[b.name] == nil && g.chance(25)
		if (export || dc) && g.lateExportConflict(p, b.name) {
			g.feat("skip/export-after-use-conflict")
			export, dc = false, false
		}
		if dc {
			b.defconst = true
			export = false
		}
		plan = append(plan, planned{b, export})
	}
	// half of the planned functions get their signature now, so that functions
	// written before them can call them (forward references)
	for i, pl := range plan {
		if b := pl.b; i > 0 && b.kind == "defun" && p.own[b.name] == nil && g.chance(50) {
			b.presig = true
			b.sig = &sig{ret: tNum}
			for j, m := 0, g.intn(3); j < m; j++ {
				b.sig.req = append(b.sig.req, tNum)
			}
		}
	}
	exportAt := g.intn(len(plan) + 1)
	if twin != nil && exportAt == 0 {
		exportAt = len(plan)
	}
	writeExport := func() {
		var ex []*bind
		for _, pl := range plan {
			if pl.export {
				ex = append(ex, pl.b)
			}
		}
		if len(ex) == 0 {
			return
		}
		g.feat("export")
		// one form, or the names spread over two forms
		groups := [][]*bind{ex}
		if len(ex) > 1 && g.chance(30) {
			g.feat("export-two-forms")
			k := 1 + g.intn(len(ex)-1)
			groups = [][]*bind{ex[:k], ex[k:]}
		}
		for _, grp := range groups {
			g.e.head("export")
			switch {
			case g.may("export-list", 30):
				// (export '(a b)): the builtin walks nested lists of names
				g.feat("export-quoted-list")
				g.quoteMarkOpen()
				for _, b := range grp {
					g.e.sym(Occ{N: b.name, R: "ref", B: b.id, K: b.kind, C: "export-form", X: "export-list"})
				}
				g.e.close()
			case g.may("export-list", 15):
				// (export "a" "b"): names given as strings
				g.feat("export-string")
				for _, b := range grp {
					g.e.lit(strconv.Quote(b.name))
					// no symbol to annotate: mark the definition instead
					b.expSpell = "export-string"
					if b.occAt > 0 && b.occFile == g.fileIdx && b.occAt <= len(g.e.occ) {
						g.e.occ[b.occAt-1].X = b.expSpell
					}
				}
			default:
				for _, b := range grp {
					g.e.quote()
					g.e.sym(Occ{N: b.name, R: "ref", B: b.id, K: b.kind, C: "export-form"})
				}
			}
			g.e.close()
			g.e.nl()
		}
		for _, b := range ex {
			b.exported = true
		}
	}
	var driven = map[*bind]bool{}
	for i, pl := range plan {
		if i == exportAt {
			writeExport()
		}
		if !(twin != nil && i == 0) {
			g.comment()
		}
		b := pl.b
		if first && i == 0 {
			g.lead = &leadInfo{lines: strings.Count(g.e.b.String(), "\n"), kind: b.kind, name: b.name, pkg: p.name}
			if pl.export || g.excl[b.name] || b.defconst {
				g.lead = nil // preserved names cannot collide
			}
		}
		// a definition wrapped in another top-level form: the closure idiom
		// (let ((state 0)) (defun next () ...)) or a plain progn.  Neither is a
		// function body, so the defun still makes a package-level binding.
		wrapped := false
		if b.kind == "defun" && !(twin != nil && i == 0) && !(first && i == 0) && g.may("nested-def", 30) {
			wrapped = true
			g.feat("nested-def")
			if g.chance(60) {
				b.nested = "let"
				cv := g.newLocal(g.binderName(localPool), "let", tNum)
				// the analyzer registers the defun in the let's own scope: a let
				// variable of the same name is overwritten there, so what goes
				// wrong with the variable belongs to the same finding
				cv.nested = "let"
				g.e.head("let")
				g.e.open()
				g.e.open()
				g.bindOcc(cv)
				g.e.lit(g.intLit())
				g.e.close()
				g.e.close()
				g.push()
				g.add(cv)
			} else {
				b.nested = "progn"
				g.e.head("progn")
				g.push()
			}
		}
		switch b.kind {
		case "defun":
			g.curDef, g.fwd = b, nil
			for _, later := range plan[i+1:] {
				if later.b.presig {
					g.fwd = append(g.fwd, later.b)
				}
			}
			g.defun(b)
			g.curDef, g.fwd = nil, nil
		case "gset":
			g.gset(b)
		case "deftype":
			g.deftype(b)
		default:
			g.defmacro(b)
			g.e.nl()
		}
		if wrapped {
			g.pop()
			g.e.close()
			g.e.nl()
		}
		g.define(b)
		if b.fwdUsed {
			// not callable (and not driven) before everything it calls exists
			b.ready = false
			continue
		}
		if b.kind == "gset" && b.ty.K == 'n' && g.chance(25) {
			// a second top-level set of the same name
			g.feat("top-level-reset")
			g.e.head("set")
			g.e.quote()
			g.e.sym(Occ{N: b.name, R: "ref", B: b.id, K: "gset", C: "set-target"})
			g.e.head("+")
			g.ref(cand{b, false}, "")
			g.e.lit("1")
			g.e.close()
			g.e.close()
			g.e.nl()
		}
		if g.chance(55) {
			g.driver(b)
			driven[b] = true
		}
	}
	if exportAt == len(plan) {
		writeExport()
	}
	for _, pl := range plan {
		if pl.b.fwdUsed {
			pl.b.ready = true
		}
	}
	for _, pl := range plan {
		if pl.export || pl.b.defconst {
			p.exports = append(p.exports, pl.b)
		}
		if !driven[pl.b] && p.own[pl.b.name] == pl.b {
			g.driver(pl.b)
		}
	}
	p.exports = append(p.exports, lateExports...)
}

func (g *gen) finalExpr() {
	g.comment()
	if g.chance(6) {
		g.raise(2)
		g.e.nl()
		return
	}
	g.e.head("list")
	for i, n := 0, 1+g.intn(3); i < n; i++ {
		if g.chance(70) {
			g.num(3)
		} else {
			g.data(3)
		}
	}
	g.e.close()
	g.e.nl()
}

func (g *gen) client() (string, []SurfRef) {
	var refs []SurfRef
	ce := &em{}
	saved := g.e
	g.e = ce
	defer func() { g.e = saved }()
	g.e.w("(in-package 'client)\n")
	n := 0
	for _, b := range g.globals {
		if g.pkgs[b.pkg].own[b.name] != b || n >= 4 {
			continue
		}
		why := ""
		switch {
		case b.kind == "gset" && b.ty.K != 'f':
			why = "gset"
		case b.kind == "defun" && g.excl[b.name]:
			why = "excluded"
		case b.kind == "defun" && b.exported && !g.renameExports:
			why = "exported"
		}
		if why == "" || !g.chance(60) {
			continue
		}
		if b.kind == "defun" && (!allNum(b.sig.req) || b.sig.ret.K == 'f') {
			continue
		}
		n++
		refs = append(refs, SurfRef{B: b.id, Why: why})
		g.e.w(fmt.Sprintf("(debug-print \"client%d\" (handler-bind ((condition (lambda (c &rest r) (list 'err c)))) ", n))
		if b.kind == "gset" {
			g.e.w(b.pkg + ":" + b.name)
		} else {
			g.e.w("(" + b.pkg + ":" + b.name)
			for range b.sig.req {
				g.e.w(" " + g.intLit())
			}
			g.e.w(")")
		}
		g.e.w("))\n")
	}
	if n == 0 {
		return "", nil
	}
	return ce.b.String(), refs
}

func genCase() *rapid.Generator[Case] {
	return rapid.Custom(func(t *rapid.T) Case {
		g := &gen{t: t, feats: map[string]bool{}, pkgs: map[string]*pkg{}, excl: map[string]bool{}, avoid: map[string]bool{}, trig: map[string]bool{}}
		g.preserveParams = true
		mode := g.intn(100)
		switch {
		case mode < 40:
		case mode < 60:
			g.preserveParams = false
		case mode < 75:
			g.renameExports = true
		case mode < 90:
			g.pickExclusions()
		default:
			g.preserveParams = g.chance(50)
			g.renameExports = true
			g.pickExclusions()
		}
		g.overlap = g.chance(50)
		for _, tr := range triggerOrder {
			if g.chance(triggerRates[tr]) {
				g.trig[tr] = true
			}
		}
		// packages
		// one package 20 %, two 35 %, three 45 %
		npk := 3
		switch k := g.intn(100); {
		case k < 20:
			npk = 1
		case k < 55:
			npk = 2
		}
		var pks []*pkg
		names := []string{"user"}
		names = append(names, pkgPool...)
		for len(pks) < npk {
			var name string
			if len(pks) == 0 && g.chance(50) {
				name = "user"
			} else {
				name = names[g.intn(len(names))]
			}
			if g.pkgs[name] != nil {
				continue
			}
			p := &pkg{name: name, own: map[string]*bind{}, imports: map[string]*bind{}, impFile: map[string]int{}, impConflict: map[string]bool{}, uses: map[string]bool{}, refd: map[string]bool{}}
			g.pkgs[name] = p
			pks = append(pks, p)
			g.pkgList = append(g.pkgList, p)
		}
		// the consumer package: sections of it are appended to some files
		mainPkg := &pkg{name: "main", own: map[string]*bind{}, imports: map[string]*bind{}, impFile: map[string]int{}, impConflict: map[string]bool{}, uses: map[string]bool{}, refd: map[string]bool{}}
		g.pkgs["main"] = mainPkg
		g.pkgList = append(g.pkgList, mainPkg)
		nfiles := 1 + g.intn(3)
		var c Case
		var loaded []*pkg // packages with a completed section in an earlier file
		var leads []*leadInfo
		usedPath := map[string]bool{}
		for fi := 0; fi < nfiles; fi++ {
			g.fileIdx = fi
			g.e = &em{}
			g.lead = nil
			// file names: directories and base names as in a one-directory-
			// per-package layout; a third of the later files deliberately
			// repeat an earlier file's base name and leading text
			var twin *leadInfo
			if len(leads) > 0 && len(pks) > 1 && g.chance(35) {
				twin = leads[g.intn(len(leads))]
			}
			path := ""
			for tries := 0; path == "" || usedPath[path]; tries++ {
				base := g.pick(basePool)
				if twin != nil {
					base = twin.base
				}
				path = g.pick(dirPool) + "/" + base
				if tries > 8 {
					path = fmt.Sprintf("d%d/%s", fi, base)
				}
			}
			usedPath[path] = true
			curBase := path[strings.LastIndex(path, "/")+1:]
			g.budget = 60 + g.intn(60)
			// one package section per file 50 %, two 30 %, three 20 % (as far
			// as there are packages)
			nsec := 1
			switch k := g.intn(100); {
			case k < 50:
			case k < 80:
				nsec = 2
			default:
				nsec = 3
			}
			var inFile []*pkg
			g.inFile = nil
			for s := 0; s < nsec; s++ {
				p := pks[g.intn(len(pks))]
				again := false
				for _, q := range inFile {
					again = again || q == p
				}
				if again {
					continue
				}
				earlier := loaded
				if g.trig["samefile-import"] {
					earlier = append(append([]*pkg{}, loaded...), inFile...)
					if len(inFile) > 0 {
						g.feat("samefile-import")
					}
				}
				if s == 0 && twin != nil {
					// the twin lives in another package than its original
					for tries := 0; tries < 6 && p.name == twin.pkg; tries++ {
						p = pks[g.intn(len(pks))]
					}
					g.twin = twin
				}
				g.section(p, s == 0, earlier, false)
				inFile = append(inFile, p)
				g.inFile = inFile
				if len(inFile) > 1 {
					g.feat(fmt.Sprintf("sections-in-file/%d", len(inFile)))
				}
			}
			if g.chance(30) {
				earlier := append(append([]*pkg{}, loaded...), inFile...)
				if !g.trig["samefile-import"] {
					earlier = loaded
				}
				g.section(mainPkg, false, earlier, true)
				inFile = append(inFile, mainPkg)
				g.inFile = inFile
			}
			g.finalExpr()
			for _, p := range inFile {
				dup := false
				for _, q := range loaded {
					dup = dup || q == p
				}
				if !dup {
					loaded = append(loaded, p)
				}
			}
			if g.lead != nil {
				g.lead.base = curBase
				leads = append(leads, g.lead)
			}
			c.Files = append(c.Files, File{Path: path, Src: g.e.b.String(), Occ: g.e.occ})
		}
		if g.chance(60) {
			c.Client, c.ClientRefs = g.client()
		}
		c.PreserveParams = g.preserveParams
		c.RenameExports = g.renameExports
		for n := range g.excl {
			c.Exclusions = append(c.Exclusions, n)
		}
		sort.Strings(c.Exclusions)
		for f := range g.feats {
			c.Feat = append(c.Feat, f)
		}
		sort.Strings(c.Feat)
		return c
	})
}

func (g *gen) pickExclusions() {
	for i, n := 0, 1+g.intn(3); i < n; i++ {
		var name string
		switch g.intn(3) {
		case 0:
			name = g.pick(fnPool)
		case 1:
			name = g.pick(localPool)
		default:
			name = g.pick(gvarPool)
		}
		if !isXName(name) {
			g.excl[name] = true
		}
	}
}
