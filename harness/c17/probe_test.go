package c17

import (
	"fmt"
	"os"
	"testing"

	"github.com/luthersystems/elps/minifier"
	"github.com/luthersystems/elps/verifharness/vcommon"
)

func TestProbe(t *testing.T) {
	path := os.Getenv("PROBE")
	if path == "" {
		t.Skip()
	}
	b, _ := os.ReadFile(path)
	cfg := &minifier.Config{PreserveParams: os.Getenv("RP") == "", RenameExports: os.Getenv("RE") != ""}
	res, err := minifier.Minify([]minifier.InputFile{{Path: "a.lisp", Source: b}}, cfg)
	if err != nil {
		t.Fatal(err)
	}
	out := string(res.Files[0].Output)
	fmt.Println("MIN:\n" + out)
	for _, src := range []string{string(b), out} {
		rt := vcommon.NewRuntime(vcommon.Cfg{MaxSteps: 100000})
		o := rt.Load(src)
		fmt.Printf("=> %s msg=%q stderr=%q pkg=%s\n", o.Key(), o.Msg, rt.Stderr.String(), rt.Env.Runtime.Package.Name)
	}
}

func TestSample(t *testing.T) {
	if os.Getenv("SAMPLE") == "" {
		t.Skip()
	}
	for seed := 1; seed <= 3; seed++ {
		c := genCase().Example(seed)
		fmt.Printf("=== seed %d pp=%v re=%v excl=%v feat=%v\n%s", seed, c.PreserveParams, c.RenameExports, c.Exclusions, c.Feat, dumpCase(c))
		if c.Client != "" {
			fmt.Println("--- client\n" + c.Client)
		}
		f := checkCase(c, nil)
		if f != nil {
			fmt.Printf("FAIL [%s] %s\n", f.Key, f.Msg)
		}
	}
}
