// C17: minification preserves program meaning.
//
// types_test.go: the concrete case representation, the annotated token
// emitter and the generator's scope model.
package c17

import (
	"strings"
)

// Occ annotates one symbol token of a generated source file, in reading order.
// It is what lets the oracle name the failing behaviour (which role of symbol
// the minifier mistreated) instead of reporting a generic "transcript differs".
type Occ struct {
	N string `json:"n"`           // token text as written (with any package qualifier)
	R string `json:"r"`           // role: op bind ref data kw cond pkg free tmpl
	B int    `json:"b,omitempty"` // binder id (bind/ref/tmpl)
	K string `json:"k,omitempty"` // binder kind (defun gset macro deftype param let let* flet labels dotimes macrolet)
	C string `json:"c,omitempty"` // occurrence context
	Q bool   `json:"q,omitempty"` // written inside a [...] bracket list
	P string `json:"p,omitempty"` // package of a global binder
	// X marks a binder (on its bind occurrence or on its export form) as an
	// instance of a RECORDED finding class of round 6: nested-let nested-progn
	// export-list export-string export-other-file.  Every anomaly of that
	// binder is a consequence of the class and is reported under its key.
	X string `json:"x,omitempty"`
}

type File struct {
	Path string `json:"path"`
	Src  string `json:"src"`
	Occ  []Occ  `json:"occ,omitempty"`
}

// SurfRef records that the un-minified client file relies on binder B keeping
// its name, and why the property promises that.
type SurfRef struct {
	B   int    `json:"b"`
	Why string `json:"why"` // exported | gset | excluded
}

// Case is one minify session plus the configuration.
type Case struct {
	Files          []File    `json:"files"`
	Client         string    `json:"client,omitempty"` // loaded after the session files, never minified
	ClientRefs     []SurfRef `json:"client_refs,omitempty"`
	PreserveParams bool      `json:"preserve_params"`
	RenameExports  bool      `json:"rename_exports"`
	Exclusions     []string  `json:"exclusions,omitempty"`
	Feat           []string  `json:"feat,omitempty"`
	// Expect is only set on the hand-minimised sessions of the "fixed"
	// sub-property (which carry no annotations): the class signature to report
	// IF the differential oracle fails on them.
	Expect string `json:"expect,omitempty"`
}

// ---------- emitter ----------

type em struct {
	b    strings.Builder
	occ  []Occ
	last byte
	br   int    // open [ ] depth
	ctx  string // when set, overrides the context of every symbol written
	// a call whose head is a bare reference to a user function named test /
	// test-let (heads the analyzer special-cases): everything up to its closing
	// parenthesis is written with the context head-special-cased-arg
	depth    int
	hsDepth  int
	savedCtx string
}

func (e *em) sep() {
	switch e.last {
	case 0, '(', '[', '\'', '\n', '^':
	default:
		e.b.WriteByte(' ')
	}
}
func (e *em) w(s string) {
	e.b.WriteString(s)
	e.last = s[len(s)-1]
}
func (e *em) open()  { e.sep(); e.w("("); e.depth++ }
func (e *em) openB() { e.sep(); e.w("["); e.br++; e.depth++ }
func (e *em) close() {
	e.w(")")
	if e.hsDepth > 0 && e.hsDepth == e.depth {
		e.hsDepth, e.ctx = 0, e.savedCtx
	}
	e.depth--
}
func (e *em) closeB()      { e.w("]"); e.br--; e.depth-- }
func (e *em) lit(s string) { e.sep(); e.w(s) }
func (e *em) quote()       { e.sep(); e.w("'") }
func (e *em) nl()          { e.w("\n") }
func (e *em) sym(o Occ) {
	head := e.last == '('
	e.sep()
	e.w(o.N)
	o.Q = e.br > 0
	if e.ctx != "" {
		o.C = e.ctx
	}
	if head && o.R == "ref" && (o.N == "test" || o.N == "test-let") {
		o.C = "call-of-head-special-cased"
		if e.hsDepth == 0 {
			e.hsDepth, e.savedCtx, e.ctx = e.depth, e.ctx, "head-special-cased-arg"
		}
	}
	e.occ = append(e.occ, o)
}

// hidden records a symbol the reader synthesises (#' => lisp:function).
func (e *em) hidden(name string) { e.occ = append(e.occ, Occ{N: name, R: "op"}) }
func (e *em) op(name string)     { e.sym(Occ{N: name, R: "op"}) }
func (e *em) head(name string)   { e.open(); e.op(name) }

// ---------- types and bindings ----------

type Ty struct {
	K byte // 'n' number, 'd' closure-free data, 'f' function of A numbers returning a number
	A int
}

var (
	tNum  = Ty{'n', 0}
	tData = Ty{'d', 0}
)

func tFn(a int) Ty { return Ty{'f', a} }

type sig struct {
	req    []Ty
	opt    int // number of &optional (number typed) parameters
	rest   bool
	keys   []string
	keyIDs []int // binder ids of the &key parameters
	ret    Ty
}

type bind struct {
	id       int
	name     string
	kind     string
	ty       Ty
	global   bool
	pkg      string
	sig      *sig
	exported bool
	ready    bool // usable by ordinary references (false while being defined)
	mut      bool
	// macros
	tmplFree  []*bind  // globals the template refers to by bare name
	tmplAvoid []string // template-introduced binder names
	isMacro   bool
	file      int
	expSpell  string // "export-list" | "export-string": how the export form names it
	occAt     int    // index+1 of its bind occurrence in the current file's annotations
	occFile   int
	presig    bool   // signature fixed when the section was planned (callable before its definition)
	fwdUsed   bool   // the body calls a function defined further down
	defconst  bool   // written (defconst name value "doc"): a set plus an implicit export
	nested    string // "let" | "progn": the defining form is wrapped in another TOP-LEVEL form
}

type scope struct {
	parent *scope
	vars   []*bind
}

type pkg struct {
	name        string
	own         map[string]*bind
	imports     map[string]*bind
	impFile     map[string]int  // file index of the use-package form that imported the name
	impConflict map[string]bool // name imported from two different packages (the later use-package wins at run time)
	exports     []*bind
	uses        map[string]bool // packages this one has executed (use-package ...) on so far
	refd        map[string]bool // imported names this package's code has referenced bare so far
}
