package c17

import (
	"bytes"
	"fmt"
	"math"
	"sort"
	"strings"

	"github.com/luthersystems/elps/lisp"
	"github.com/luthersystems/elps/minifier"
	"github.com/luthersystems/elps/parser"
	"github.com/luthersystems/elps/verifharness/vcommon"
)

const maxSteps = 400000

func mkConfig(c Case) *minifier.Config {
	cfg := &minifier.Config{PreserveParams: c.PreserveParams, RenameExports: c.RenameExports}
	if len(c.Exclusions) > 0 {
		cfg.Exclusions = map[string]bool{}
		for _, n := range c.Exclusions {
			cfg.Exclusions[n] = true
		}
	}
	return cfg
}

func minifyCase(c Case) (*minifier.Result, error) {
	var in []minifier.InputFile
	for _, f := range c.Files {
		in = append(in, minifier.InputFile{Path: f.Path, Source: []byte(f.Src)})
	}
	return minifier.Minify(in, mkConfig(c))
}

// ---------- tree flattening ----------

type leaf struct {
	sym  bool
	text string
}

// flatten renders the SHAPE of a parsed tree (everything except symbol
// spellings) and the list of its leaves, through exported accessors only.
func flatten(exprs []*lisp.LVal) (shape string, leaves []leaf) {
	var b strings.Builder
	var walk func(v *lisp.LVal)
	walk = func(v *lisp.LVal) {
		if v == nil {
			b.WriteString("<nil>")
			return
		}
		if v.IsQuoted() {
			b.WriteByte('\'')
		}
		switch v.Type {
		case lisp.LSymbol:
			b.WriteString("S")
			leaves = append(leaves, leaf{true, v.Str})
		case lisp.LInt:
			fmt.Fprintf(&b, "i%d", v.Int)
		case lisp.LFloat:
			fmt.Fprintf(&b, "f%x", math.Float64bits(v.Float))
		case lisp.LString:
			fmt.Fprintf(&b, "%q", v.Str)
		case lisp.LSExpr:
			b.WriteByte('(')
			for i, c := range v.Cells {
				if i > 0 {
					b.WriteByte(' ')
				}
				walk(c)
			}
			b.WriteByte(')')
		case lisp.LQuote:
			b.WriteString("Q")
			for _, c := range v.Cells {
				walk(c)
			}
		default:
			fmt.Fprintf(&b, "<type %d %s>", int(v.Type), v.String())
		}
	}
	for _, e := range exprs {
		walk(e)
		b.WriteByte('\n')
	}
	return b.String(), leaves
}

func readAll(name, src string) ([]*lisp.LVal, error) {
	return parser.NewReader().Read(name, strings.NewReader(src))
}

func splitQual(s string) (pkg, name string) {
	if s == "" || s[0] == ':' {
		return "", s
	}
	for i := 1; i < len(s)-1; i++ {
		if s[i] == ':' {
			return s[:i], s[i+1:]
		}
	}
	return "", s
}

// ---------- execution ----------

type transcript struct {
	text     string
	budget   bool
	panicked bool
	last     string
}

func runSession(srcs []string, names []string) transcript {
	rt := vcommon.NewRuntime(vcommon.Cfg{MaxSteps: maxSteps, NoStdlib: true, NoProbes: true, MaxPhysical: 2000, MaxAlloc: 10 << 20})
	var b strings.Builder
	var tr transcript
	for i, src := range srcs {
		if src == "" {
			continue
		}
		o := rt.Observe(rt.Env.LoadString(names[i], src))
		fmt.Fprintf(&b, "%s => %s\n", names[i], o.Key())
		tr.last = o.Key()
		if o.Panic {
			tr.panicked = true
		}
		if o.IsErr {
			switch o.Cond {
			case lisp.CondStepLimitExceeded, lisp.CondContextCancelled, lisp.CondEvalNestingExceeded:
				tr.budget = true
			}
			if strings.Contains(o.Msg, "stack height exceeded") || strings.Contains(o.Msg, "alloc") {
				tr.budget = true
			}
			break
		}
	}
	b.WriteString("stderr:\n")
	b.WriteString(rt.Stderr.String())
	tr.text = b.String()
	return tr
}

// ---------- diagnosis ----------

type anomaly struct {
	key    string
	detail string
	b      int // binder the anomaly is about (0 = none)
}

// Round-6 finding classes (recorded in known_findings.json).  The generator
// marks the binder concerned (Occ.X) or, for calls of a user function named
// test / test-let, everything inside the call (context head-special-cased-arg);
// every anomaly about such a binder or inside such a call is a consequence of
// the class and gets its key.
var markerKey = map[string]string{
	"nested-let":        "stale-ref/ref-to-nested-def/let",
	"nested-progn":      "stale-ref/ref-to-nested-def/progn",
	"export-list":       "stale-ref/export-form:quoted-list",
	"export-string":     "stale-ref/export-form:string",
	"export-other-file": "stale-ref/export-form:definition-in-other-file",
}

const headSpecialKey = "stale-ref/call-of-head-special-cased"

func isR6Key(k string) bool {
	if k == headSpecialKey {
		return true
	}
	for _, v := range markerKey {
		if v == k {
			return true
		}
	}
	return false
}

// specificCtx lists reference contexts that identify a failing behaviour on
// their own (the binder kind does not matter).
var specificCtx = map[string]bool{
	"dotimes-result": true, "macrolet-tmpl": true, "tmpl": true, "export-form": true,
	"quoted-designator": true, "unquote": true, "function-form": true, "tmpl-qualified": true,
	"macrolet-tmpl-qualified": true, "qualified": true, "set!-target": true, "imported": true, "imported-other-file": true,
	"forward-call": true,
}

func refKey(kind string, o Occ) string {
	if strings.Contains(o.C, "head-special-cased") {
		// the head of, or anything inside, a call of a user function named
		// test / test-let: one cause whatever the reference looks like
		return headSpecialKey
	}
	if o.C == "def-macro-arg" {
		return kind + "/def-macro-arg"
	}
	if o.C == "imported-conflict" {
		// two used packages export this name; the evaluator lets the later
		// use-package win
		return "misbound-ref/imported-conflict"
	}
	if strings.HasSuffix(o.C, "-shadowed") {
		// the generator knows this template symbol has the spelling of a
		// parameter/local of the macro body: whatever happened to it, the
		// cause is that it was resolved against the macro's own scope
		return "misbound-ref/" + o.C
	}
	if q, _ := splitQual(o.N); q != "" {
		k := kind + "/qualified"
		if o.Q {
			k += "/in-brackets"
		}
		return k
	}
	if specificCtx[o.C] {
		return kind + "/" + o.C
	}
	c := o.C
	if c == "" || c == "call" || c == "fn-value" || c == "macro-call" {
		c = "plain"
	}
	return kind + "/" + o.K + "/" + c
}

// diagnose pairs the generator's annotations with the minified leaves and
// lists everything that is statically wrong with the renaming.
func diagnose(c Case, minLeaves [][]leaf, generated map[string]string) []anomaly {
	var out []anomaly
	marker := map[int]string{}
	for _, f := range c.Files {
		for _, o := range f.Occ {
			if o.X != "" && o.B != 0 {
				marker[o.B] = o.X
			}
		}
	}
	curB := 0 // binder the occurrence under inspection belongs to
	add := func(key, format string, a ...any) {
		if strings.HasSuffix(key, "/def-macro-arg") || strings.Contains(key, "/def-macro-arg/") {
			// whatever went wrong inside the arguments of a def-named macro
			// call has one cause: the call was analysed as a definition form
			key = "misparsed/def-macro-arg"
		}
		if strings.Contains(key, "head-special-cased") {
			key = headSpecialKey
		}
		if k, ok := markerKey[marker[curB]]; ok && curB != 0 {
			key = k
		}
		out = append(out, anomaly{key, fmt.Sprintf(format, a...), curB})
	}
	type nb struct {
		name  string
		file  int
		where string
	}
	binderNew := map[int][]nb{}
	binderOld := map[int]string{}
	// pass 1: binders
	for fi, f := range c.Files {
		if len(f.Occ) != len(symLeaves(minLeaves[fi])) {
			return nil
		}
		ml := symLeaves(minLeaves[fi])
		for i, o := range f.Occ {
			if o.R == "bind" {
				binderNew[o.B] = append(binderNew[o.B], nb{ml[i], fi, o.K})
				binderOld[o.B] = o.N
			}
		}
	}
	for id, ns := range binderNew {
		curB = id
		for _, n := range ns[1:] {
			if n.name != ns[0].name {
				add("split-binder/"+n.where, "binder %q (id %d) defined twice got two names: %q and %q", binderOld[id], id, ns[0].name, n.name)
			}
		}
	}
	splitBinder := map[int]bool{}
	for id, ns := range binderNew {
		for _, n := range ns[1:] {
			if n.name != ns[0].name {
				splitBinder[id] = true
			}
		}
	}
	exportAnomaly := map[int]bool{}
	for fi, f := range c.Files {
		ml := symLeaves(minLeaves[fi])
		for i, o := range f.Occ {
			if o.R == "ref" && o.C == "export-form" {
				if ns := binderNew[o.B]; len(ns) > 0 && ns[len(ns)-1].name != ml[i] {
					exportAnomaly[o.B] = true
				}
			}
		}
	}
	binderPkg := map[int]string{}
	usesPkg := make([]map[string]bool, len(c.Files))
	for fi, f := range c.Files {
		usesPkg[fi] = map[string]bool{}
		for i, o := range f.Occ {
			if o.R == "bind" && o.P != "" {
				binderPkg[o.B] = o.P
			}
			if o.R == "op" && o.N == "use-package" && i+1 < len(f.Occ) && f.Occ[i+1].R == "pkg" {
				usesPkg[fi][f.Occ[i+1].N] = true
			}
		}
	}
	// a definition exported by a STRING has no export-form symbol to compare:
	// the anomaly is the renamed definition itself
	for id, ns := range binderNew {
		if marker[id] == "export-string" && ns[len(ns)-1].name != binderOld[id] {
			curB = id
			add(markerKey["export-string"], "%q is exported by (export %q) but its definition was renamed to %q", binderOld[id], binderOld[id], ns[len(ns)-1].name)
			exportAnomaly[id] = true
		}
	}
	tmplNew := map[int]string{}
	for fi, f := range c.Files {
		ml := symLeaves(minLeaves[fi])
		for i, o := range f.Occ {
			nw := ml[i]
			curB = o.B
			switch o.R {
			case "op", "data", "kw", "cond", "pkg", "free":
				if o.R == "kw" && o.B != 0 {
					if ns := binderNew[o.B]; len(ns) > 0 && ns[0].name != binderOld[o.B] {
						add("keyword-arg/param-renamed", "keyword argument %s is passed but the &key parameter %q was renamed to %q", o.N, binderOld[o.B], ns[0].name)
					}
				}
				if nw != o.N {
					k := "renamed/" + o.R
					if o.C != "" {
						k += "/" + o.C
					}
					add(k, "%s symbol %q (context %q) became %q in %s", o.R, o.N, o.C, nw, f.Path)
				}
			case "tmpl":
				if prev, ok := tmplNew[o.B]; ok && prev != nw {
					add("split/template-binder", "template binder %q got two names %q and %q", o.N, prev, nw)
				}
				tmplNew[o.B] = nw
			case "ref":
				ns := binderNew[o.B]
				if len(ns) == 0 || splitBinder[o.B] {
					continue // nothing to compare with / already reported as split-binder
				}
				if exportAnomaly[o.B] && o.C != "export-form" {
					continue // consequence of the ignored export form
				}
				want := ns[len(ns)-1].name
				oq, on := splitQual(o.N)
				nq, nn := splitQual(nw)
				if oq != nq {
					add("renamed/qualifier", "qualifier of %q became %q", o.N, nw)
				}
				old := binderOld[o.B]
				if o.C == "export-form" && nn != want {
					// the one known way to get here: the file that exports the
					// name also use-packages the exporting package further down
					k := "stale-ref/export-form"
					if nn != on {
						// rewritten, but to the name of something else
						k = "misbound-ref/export-form"
					}
					if usesPkg[fi][binderPkg[o.B]] {
						k += ":same-file-use-package"
					} else if ns[len(ns)-1].file != fi {
						k += ":definition-in-other-file"
					}
					add(k, "export form names %q (now %q) in %s but the definition was renamed to %q", o.N, nw, f.Path, want)
					continue
				}
				switch {
				case nn == want:
				case nn == on && want != old:
					add(refKey("stale-ref", o), "reference %q (binder kind %s, context %q) kept its name in %s but its binder was renamed to %q", o.N, o.K, o.C, f.Path, want)
				case want == old:
					add(refKey("orphan-rename", o), "reference %q (binder kind %s, context %q) became %q in %s but its binder kept its name", o.N, o.K, o.C, nw, f.Path)
				default:
					add(refKey("split-ref", o), "reference %q (binder kind %s, context %q) became %q but its binder became %q", o.N, o.K, o.C, nw, want)
				}
			}
		}
	}
	// the un-minified client relies on these names
	for _, sr := range c.ClientRefs {
		curB = sr.B
		if exportAnomaly[sr.B] || splitBinder[sr.B] {
			continue // already reported as stale-ref/export-form
		}
		for _, n := range binderNew[sr.B] {
			if n.name != binderOld[sr.B] {
				add("surface-renamed/"+sr.Why, "%s name %q was renamed to %q although code outside the session uses it", sr.Why, binderOld[sr.B], n.name)
			}
		}
	}
	// a generated name that is also the spelling of a preserved identifier
	for fi, f := range c.Files {
		ml := symLeaves(minLeaves[fi])
		for i, o := range f.Occ {
			if o.R == "data" || o.R == "kw" || o.R == "op" || o.R == "pkg" || o.R == "cond" {
				continue
			}
			_, nn := splitQual(ml[i])
			_, on := splitQual(o.N)
			curB = o.B
			if nn == on {
				if _, ok := generated[nn]; ok {
					add("collision/generated-name-in-use", "generated name %q is also the preserved identifier %q (%s %s) in %s", nn, o.N, o.R, o.K, f.Path)
				}
			}
		}
	}
	sort.SliceStable(out, func(i, j int) bool {
		pi, pj := anomalyRank(out[i].key), anomalyRank(out[j].key)
		if pi != pj {
			return pi < pj
		}
		return out[i].key < out[j].key
	})
	var ded []anomaly
	for i, a := range out {
		if i == 0 || a.key != out[i-1].key {
			ded = append(ded, a)
		}
	}
	return ded
}

// anomalyRank orders anomalies so that the one closest to a root cause names
// the failure: a binder split in two explains the stale references that
// follow from it, and so on.
func anomalyRank(key string) int {
	for i, p := range []string{"misparsed/", "split-binder/", "misbound-ref/", "keyword-arg/", "renamed/", "split/", "stale-ref/export-form", "stale-ref/ref-to-nested-def", "stale-ref/", "split-ref/", "orphan-rename/", "surface-renamed/", "collision/"} {
		if strings.HasPrefix(key, p) {
			return i
		}
	}
	return 99
}

func symLeaves(ls []leaf) []string {
	var out []string
	for _, l := range ls {
		if l.sym {
			out = append(out, l.text)
		}
	}
	return out
}

// ---------- the oracle ----------

func classify(c Case, ctx *vcommon.Ctx) {
	switch {
	case !c.PreserveParams && c.RenameExports:
		ctx.Class("opt/rename-params+exports")
	case !c.PreserveParams:
		ctx.Class("opt/rename-params")
	case c.RenameExports:
		ctx.Class("opt/rename-exports")
	default:
		ctx.Class("opt/default")
	}
	if len(c.Exclusions) > 0 {
		ctx.Class("opt/exclusions")
	}
	ctx.Class(fmt.Sprintf("files/%d", len(c.Files)))
	if c.Client != "" {
		ctx.Class("client")
	}
	for _, f := range c.Feat {
		ctx.Class("feat/" + f)
	}
}

func hasFeat(c Case, names ...string) bool {
	for _, f := range c.Feat {
		for _, n := range names {
			if f == n {
				return true
			}
		}
	}
	return false
}

func checkCase(c Case, ctx *vcommon.Ctx) *vcommon.Failure {
	classify(c, ctx)
	res, err := minifyCase(c)
	if err != nil {
		// the generator only writes readable source
		return vcommon.Failf("minify/error", "Minify failed on readable source: %v\n%s", err, dumpCase(c))
	}
	if len(res.Files) != len(c.Files) {
		return vcommon.Failf("minify/file-count", "%d outputs for %d inputs", len(res.Files), len(c.Files))
	}
	// determinism: run again with a fresh configuration (hand-minimised
	// determinism sessions repeat more often: a map-order dependence shows
	// with probability < 1 per run)
	reps := 1
	if strings.HasPrefix(c.Expect, "determinism/") {
		reps = 24
	}
	j1, _ := res.SymbolMap.JSON()
	for r := 0; r < reps; r++ {
		res2, err2 := minifyCase(c)
		if err2 != nil {
			return vcommon.Failf("determinism/error", "second Minify failed: %v", err2)
		}
		for i := range res.Files {
			if !bytes.Equal(res.Files[i].Output, res2.Files[i].Output) {
				key := "determinism/output" + determinismCause(c)
				if strings.HasPrefix(c.Expect, "determinism/") {
					key = c.Expect
				}
				return vcommon.Failf(key, "minifying %s twice gives different output:\n%s\nvs\n%s", c.Files[i].Path, res.Files[i].Output, res2.Files[i].Output)
			}
		}
		j2, _ := res2.SymbolMap.JSON()
		if !bytes.Equal(j1, j2) {
			key := "determinism/map" + determinismCause(c)
			if strings.HasPrefix(c.Expect, "determinism/") {
				key = c.Expect
			}
			return vcommon.Failf(key, "minifying twice gives different symbol maps:\n%s\nvs\n%s", j1, j2)
		}
	}

	// the symbol map is a function
	sm := res.SymbolMap
	seen := map[string]string{}
	o2m := map[string][]string{}
	for _, e := range sm.Entries {
		if prev, ok := seen[e.Minified]; ok {
			return vcommon.Failf("map/not-a-function", "minified name %q reported twice (for %q and %q)", e.Minified, prev, e.Original)
		}
		seen[e.Minified] = e.Original
		o2m[e.Original] = append(o2m[e.Original], e.Minified)
		if sm.MinifiedToOriginal[e.Minified] != e.Original {
			return vcommon.Failf("map/entries-vs-index", "entry %q->%q but MinifiedToOriginal says %q", e.Minified, e.Original, sm.MinifiedToOriginal[e.Minified])
		}
	}
	if len(sm.MinifiedToOriginal) != len(sm.Entries) {
		return vcommon.Failf("map/entries-vs-index", "%d entries but %d keys in MinifiedToOriginal", len(sm.Entries), len(sm.MinifiedToOriginal))
	}
	for orig, ms := range o2m {
		sort.Strings(ms)
		if fmt.Sprint(ms) != fmt.Sprint(sm.OriginalToMinified[orig]) {
			return vcommon.Failf("map/original-index", "OriginalToMinified[%q]=%v, entries say %v", orig, sm.OriginalToMinified[orig], ms)
		}
	}
	if len(sm.OriginalToMinified) != len(o2m) {
		return vcommon.Failf("map/original-index", "OriginalToMinified has %d keys, entries name %d originals", len(sm.OriginalToMinified), len(o2m))
	}

	// the minified text parses, has the original's shape, and the map inverts
	// every rename that was applied
	minLeaves := make([][]leaf, len(c.Files))
	nRenamedTokens := 0
	ambiguous := ""
	annotated := true
	for i, f := range c.Files {
		oe, err := readAll(f.Path, f.Src)
		if err != nil {
			return vcommon.Failf("harness/unreadable-original", "generator wrote unreadable source: %v\n%s", err, f.Src)
		}
		me, err := readAll(f.Path, string(res.Files[i].Output))
		if err != nil {
			return vcommon.Failf("parse/minified-rejected", "minified output of %s does not read: %v\n%s", f.Path, err, res.Files[i].Output)
		}
		os, ol := flatten(oe)
		ms, ml := flatten(me)
		minLeaves[i] = ml
		if os != ms {
			return vcommon.Failf("shape/changed", "minified %s is not the original tree up to symbol spelling:\n%s\nvs\n%s\nsource:\n%s\nminified:\n%s", f.Path, os, ms, f.Src, res.Files[i].Output)
		}
		osy, msy := symLeaves(ol), symLeaves(ml)
		if len(f.Occ) > 0 {
			if len(f.Occ) != len(osy) {
				return vcommon.Failf("harness/occ-count", "annotation count %d != symbol count %d in\n%s", len(f.Occ), len(osy), f.Src)
			}
			for k := range osy {
				if f.Occ[k].N != osy[k] {
					return vcommon.Failf("harness/occ-name", "annotation %d is %q but symbol is %q in\n%s", k, f.Occ[k].N, osy[k], f.Src)
				}
			}
		} else {
			annotated = false
		}
		for k := range osy {
			oq, on := splitQual(osy[k])
			mq, mn := splitQual(msy[k])
			if oq != mq {
				return vcommon.Failf("map/inverse-qualifier", "package qualifier changed: %q -> %q", osy[k], msy[k])
			}
			if mn != on {
				nRenamedTokens++
				back, ok := sm.MinifiedToOriginal[mn]
				if !ok {
					return vcommon.Failf("map/unreported-rename", "%q was renamed to %q in %s but the symbol map does not report %q", osy[k], msy[k], f.Path, mn)
				}
				if back != on {
					return vcommon.Failf("map/inverse", "%q was renamed to %q in %s but the symbol map sends %q back to %q", osy[k], msy[k], f.Path, mn, back)
				}
			} else if _, ok := sm.MinifiedToOriginal[mn]; ok && ambiguous == "" {
				ambiguous = mn
			}
		}
	}

	// differential execution
	var osrc, msrc, names []string
	for i, f := range c.Files {
		osrc = append(osrc, f.Src)
		msrc = append(msrc, string(res.Files[i].Output))
		names = append(names, f.Path)
	}
	osrc = append(osrc, c.Client)
	msrc = append(msrc, c.Client)
	names = append(names, "client.lisp")
	to := runSession(osrc, names)
	if to.budget {
		ctx.Class("discard/budget")
		return nil
	}
	if strings.Contains(to.text, "(lambda ") || strings.Contains(to.text, "#<builtin") {
		// the ORIGINAL program prints a function: its output legitimately
		// depends on parameter and local names, i.e. the case is outside
		// "results forced to closure-free data"
		ctx.Class("discard/prints-function")
		return nil
	}
	tm := runSession(msrc, names)
	if strings.HasPrefix(to.last, "ERR<") {
		ctx.Class("outcome/error")
	} else {
		ctx.Class("outcome/value")
	}
	if strings.Contains(to.text, "'err ") {
		ctx.Class("outcome/guarded-error")
	}

	var anomalies []anomaly
	if annotated {
		anomalies = diagnose(c, minLeaves, sm.MinifiedToOriginal)
	}
	if len(anomalies) > 0 {
		ctx.Class("static-anomaly")
		if to.text == tm.text {
			for _, a := range anomalies {
				ctx.Class("static-anomaly-without-effect/" + a.key)
			}
		}
	}

	if to.text != tm.text {
		key := "mismatch/unexplained"
		detail := ""
		if !annotated {
			key = "mismatch/unannotated"
			if c.Expect != "" {
				key = c.Expect
			}
		}
		if len(anomalies) > 0 {
			pick := anomalies[0] // ranked: the one closest to a root cause
			if isR6Key(pick.key) {
				// a recorded round-6 class must not hide anything else that is
				// wrong in the same case: its own consequences all carry its key
				// (see markerKey), so any other anomaly is independent of it
				for _, a := range anomalies {
					if !isR6Key(a.key) {
						pick = a
						break
					}
				}
			}
			key = "mismatch:" + pick.key
			var ds []string
			for _, a := range anomalies {
				ds = append(ds, "  ["+a.key+"] "+a.detail)
			}
			detail = "static diagnosis:\n" + strings.Join(ds, "\n") + "\n"
		}
		return vcommon.Failf(key, "original and minified programs behave differently (options preserve-params=%v rename-exports=%v exclusions=%v)\n%s--- original transcript\n%s--- minified transcript\n%s%s",
			c.PreserveParams, c.RenameExports, c.Exclusions, detail, to.text, tm.text, dumpMin(c, res))
	}
	if to.panicked || tm.panicked {
		ctx.Class("internal-panic-seen")
	}

	if ambiguous != "" {
		// every APPLIED rename is inverted (checked above), which is what the
		// property states; a generated name that is also a preserved spelling
		// only matters when it changes behaviour (caught by the transcripts).
		ctx.Class("latent/generated-name-also-preserved")
	}

	if nRenamedTokens > 0 && len(sm.Entries) > 0 && hasFeat(c, "shadow-local", "shadow-global", "shadow-builtin", "template", "xpkg", "let*-rebind") {
		var b strings.Builder
		for _, f := range c.Files {
			b.WriteString(f.Src)
			b.WriteByte(0)
		}
		fmt.Fprintf(&b, "%v%v%v", c.PreserveParams, c.RenameExports, c.Exclusions)
		ctx.NonTrivial(b.String())
		ctx.Note(fmt.Sprintf("%d symbols renamed, %d tokens rewritten; final outcome %s", len(sm.Entries), nRenamedTokens, to.last))
	}
	return nil
}

// determinismCause names the one situation known to make the output depend on
// Go map iteration order: one global binding defined in two files of the
// session (the generator gives both definitions the same binder id).
func determinismCause(c Case) string {
	where := map[int]map[int]bool{}
	pkgsOf := map[string]map[string]bool{}
	for fi, f := range c.Files {
		for _, o := range f.Occ {
			if o.R == "bind" && (o.K == "defun" || o.K == "gset" || o.K == "macro" || o.K == "deftype") {
				if pkgsOf[o.N] == nil {
					pkgsOf[o.N] = map[string]bool{}
				}
				pkgsOf[o.N][o.P] = true
				if where[o.B] == nil {
					where[o.B] = map[int]bool{}
				}
				where[o.B][fi] = true
			}
		}
	}
	for _, fs := range where {
		if len(fs) > 1 {
			return ":global-defined-in-two-files"
		}
	}
	for _, ps := range pkgsOf {
		if len(ps) > 1 {
			return ":same-name-in-two-packages"
		}
	}
	return ""
}

func dumpCase(c Case) string {
	var b strings.Builder
	for _, f := range c.Files {
		fmt.Fprintf(&b, "--- %s\n%s", f.Path, f.Src)
	}
	return b.String()
}

func dumpMin(c Case, res *minifier.Result) string {
	var b strings.Builder
	for i, f := range c.Files {
		fmt.Fprintf(&b, "--- %s (original)\n%s--- %s (minified)\n%s", f.Path, f.Src, f.Path, res.Files[i].Output)
	}
	if c.Client != "" {
		fmt.Fprintf(&b, "--- client (not minified)\n%s", c.Client)
	}
	return b.String()
}
