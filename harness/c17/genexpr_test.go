package c17

import "strconv"

func isNumVar(b *bind) bool  { return b.ty.K == 'n' && !b.isMacro && b.kind != "defun" }
func isDataVar(b *bind) bool { return b.ty.K == 'd' && !b.isMacro && b.kind != "defun" }
func isCallable(b *bind) bool {
	if b.isMacro {
		return false
	}
	if b.kind == "defun" || b.kind == "flet" || b.kind == "labels" {
		return b.sig != nil && b.sig.ret.K == 'n'
	}
	return b.ty.K == 'f'
}

// ---------- numbers ----------

func (g *gen) numLeaf() {
	if g.chance(60) {
		if cs := g.cands(isNumVar); len(cs) > 0 {
			g.ref(g.pickCand(cs), "")
			return
		}
	}
	g.e.lit(g.intLit())
}

func (g *gen) num(d int) {
	if d <= 0 || g.budget <= 0 {
		g.numLeaf()
		return
	}
	g.budget--
	if g.chance(9) {
		g.otherForms(d)
		return
	}
	switch k := g.intn(100); {
	case k < 10:
		g.numLeaf()
	case k < 22:
		g.e.head([]string{"+", "-", "*"}[g.intn(3)])
		for i, n := 0, 2+g.intn(2); i < n; i++ {
			g.num(d - 1)
		}
		g.e.close()
	case k < 28:
		g.e.head("if")
		g.cnd(d - 1)
		g.num(d - 1)
		g.num(d - 1)
		g.e.close()
	case k < 32:
		g.e.head("cond")
		for i, n := 0, 1+g.intn(2); i < n; i++ {
			g.e.open()
			g.cnd(d - 1)
			if g.chance(30) {
				g.sideEffect(d - 1)
			}
			g.num(d - 1)
			g.e.close()
		}
		g.e.open()
		g.e.op([]string{"else", "true", ":else"}[g.intn(3)])
		g.num(d - 1)
		g.e.close()
		g.e.close()
	case k < 44:
		g.letForm(d, tNum)
	case k < 50:
		g.fletForm(d)
	case k < 64:
		if !g.callSome(d) {
			g.numLeaf()
		}
	case k < 68:
		// immediate lambda
		g.e.open()
		// ((lambda (x) ...) x): the argument reads the outer x
		outerBefore := map[string]*bind{}
		for s := g.sc; s != nil; s = s.parent {
			for _, b := range s.vars {
				if outerBefore[b.name] == nil && g.lookup(b.name) == b {
					outerBefore[b.name] = b
				}
			}
		}
		params := g.lambda(d-1, 1+g.intn(2))
		for _, p := range params {
			if ob := outerBefore[p.name]; ob != nil && isNumVar(ob) && ob.ready && !g.avoid[ob.name] && g.chance(70) {
				g.feat("lambda-arg-reads-shadowed")
				g.ref(cand{ob, false}, "arg-of-same-name")
			} else {
				g.num(d - 1)
			}
		}
		g.e.close()
	case k < 72:
		g.e.head("progn")
		g.sideEffect(d - 1)
		g.num(d - 1)
		g.e.close()
	case k < 78:
		g.dotimesForm(d)
	case k < 82:
		g.setBang(d)
	case k < 86:
		g.handlerBind(d)
	case k < 90:
		if !g.macroCall(d) {
			g.closureCounter(d)
		}
	case k < 92:
		g.closureCounter(d)
	case k < 95:
		// data consumed into a number
		switch g.intn(3) {
		case 0:
			g.e.head("length")
			g.dataList(d - 1)
			g.e.close()
		case 1:
			g.e.head("if")
			g.e.head("equal?")
			g.data(d - 1)
			g.data(d - 1)
			g.e.close()
			g.num(d - 1)
			g.num(d - 1)
			g.e.close()
		default:
			g.e.head("get")
			g.e.head("sorted-map")
			k1 := g.pick(kwPool)
			g.e.sym(Occ{N: k1, R: "kw"})
			g.num(d - 1)
			g.e.sym(Occ{N: ":zz", R: "kw"})
			g.num(d - 1)
			g.e.close()
			g.e.sym(Occ{N: k1, R: "kw"})
			g.e.close()
		}
	case k < 97:
		if g.trig["macrolet"] {
			g.macroletForm(d)
		} else {
			g.numLeaf()
		}
	case k < 98:
		g.raise(d)
	default:
		if g.chance(30) {
			// deliberate defect of the PROGRAM: unbound reference or type error
			g.feat("program-error")
			if g.chance(50) {
				g.e.sym(Occ{N: g.fixName(g.pick(freePool)), R: "free"})
			} else {
				g.e.head("+")
				g.e.lit("1")
				g.e.quote()
				g.e.sym(Occ{N: g.dataSym(), R: "data", C: "quote"})
				g.e.close()
			}
		} else {
			g.numLeaf()
		}
	}
}

// otherForms: assert, ignore-errors, thread-first / thread-last, and tagged
// values (new / user-data / type?) -- operators with an evaluation rule of
// their own that the scope analysis has to walk like ordinary calls.
func (g *gen) otherForms(d int) {
	switch k := g.intn(10); {
	case k < 2:
		// (progn (assert C "msg" v) v)
		g.feat("assert")
		g.e.head("progn")
		g.e.head("assert")
		if g.chance(75) {
			g.e.head("or")
			g.cnd(d - 1)
			g.e.op("true")
			g.e.close()
		} else {
			g.cnd(d - 1)
		}
		if g.chance(50) {
			g.e.lit(`"assertion about helper {}"`)
			g.numLeaf()
		}
		g.e.close()
		g.num(d - 1)
		g.e.close()
	case k < 4:
		// (or (ignore-errors body...) 0)
		g.feat("ignore-errors")
		g.e.head("or")
		g.e.head("ignore-errors")
		if g.chance(30) {
			g.sideEffect(d - 1)
		}
		if g.chance(30) {
			g.e.head("+")
			g.num(d - 1)
			g.raise(d - 1)
			g.e.close()
		} else {
			g.num(d - 1)
		}
		g.e.close()
		g.e.lit(g.intLit())
		g.e.close()
	case k < 7:
		g.threadForm(d)
	default:
		cs := g.cands(func(b *bind) bool { return b.kind == "deftype" && b.sig != nil })
		if len(cs) == 0 {
			g.threadForm(d)
			return
		}
		c := g.pickCand(cs)
		if g.chance(30) {
			// (if (type? T (new T ...)) a b)
			g.feat("type?")
			g.e.head("if")
			g.e.head("type?")
			g.ref(c, "type-spec-arg")
			g.e.head("new")
			g.ref(c, "type-spec-arg")
			g.args(c.b.sig, d)
			g.e.close()
			g.e.close()
			g.num(d - 1)
			g.num(d - 1)
			g.e.close()
			return
		}
		g.newOf(c, d)
	}
}

// newOf writes (user-data (new T args...)); the tagged value itself never
// reaches the transcript (it prints the type's name).
func (g *gen) newOf(c cand, d int) {
	g.feat("new")
	g.e.head("user-data")
	g.e.head("new")
	g.ref(c, "type-spec-arg")
	g.args(c.b.sig, d)
	g.e.close()
	g.e.close()
}

// threadForm: (thread-first v (f b) (+ 1)) = (+ (f v b) 1); thread-last puts
// the threaded value last.  Steps are arithmetic or calls of visible functions
// of at least one required number and nothing else.
func (g *gen) threadForm(d int) {
	last := g.chance(50)
	if last {
		g.feat("thread-last")
		g.e.head("thread-last")
	} else {
		g.feat("thread-first")
		g.e.head("thread-first")
	}
	g.num(d - 1)
	var fs []cand
	for _, c := range g.cands(isCallable) {
		s := c.b.sig
		if s != nil && len(s.req) >= 1 && allNum(s.req) && s.opt == 0 && !s.rest && len(s.keys) == 0 {
			fs = append(fs, c)
		}
	}
	for i, n := 0, 1+g.intn(3); i < n; i++ {
		if len(fs) > 0 && g.chance(60) {
			c := g.pickCand(fs)
			g.feat("thread-call")
			g.e.open()
			g.ref(c, "threaded-call")
			for range c.b.sig.req[1:] {
				g.num(d - 1)
			}
			g.e.close()
			continue
		}
		g.e.head([]string{"+", "*", "-"}[g.intn(3)])
		g.num(d - 1)
		g.e.close()
	}
	g.e.close()
}

func (g *gen) raise(d int) {
	g.feat("raise")
	g.e.head("error")
	g.e.quote()
	g.e.sym(Occ{N: g.condName(), R: "cond", C: "error"})
	g.e.lit(g.pick(stringPool))
	if g.chance(50) {
		g.num(d - 1)
	}
	g.e.close()
}

// sideEffect writes a form evaluated for effect (output).
func (g *gen) sideEffect(d int) {
	g.e.head("debug-print")
	g.e.lit(g.pick(stringPool))
	if g.chance(70) {
		g.num(d - 1)
	} else {
		g.data(d - 1)
	}
	g.e.close()
}

// ---------- conditions ----------

func (g *gen) cnd(d int) {
	if g.chance(12) {
		// a bare variable in test position (numbers are truthy)
		if cs := g.cands(isNumVar); len(cs) > 0 {
			g.feat("bare-test")
			g.ref(g.pickCand(cs), "")
			return
		}
	}
	if d <= 0 || g.budget <= 0 {
		g.e.head([]string{"<", "=", ">", "<="}[g.intn(4)])
		g.numLeaf()
		g.numLeaf()
		g.e.close()
		return
	}
	g.budget--
	switch k := g.intn(10); {
	case k < 5:
		g.e.head([]string{"<", "=", ">", "<="}[g.intn(4)])
		g.num(d - 1)
		g.num(d - 1)
		g.e.close()
	case k < 6:
		g.e.head("not")
		g.cnd(d - 1)
		g.e.close()
	case k < 8:
		g.e.head([]string{"and", "or"}[g.intn(2)])
		g.cnd(d - 1)
		g.cnd(d - 1)
		g.e.close()
	case k < 9:
		g.e.op([]string{"true", "false"}[g.intn(2)])
	default:
		g.e.head([]string{"symbol?", "nil?", "list?"}[g.intn(3)])
		g.data(d - 1)
		g.e.close()
	}
}

// ---------- data ----------

func (g *gen) quotedAtom(ctx string) {
	switch g.intn(6) {
	case 0:
		g.e.lit(g.intLit())
	case 1:
		g.e.sym(Occ{N: g.pick(kwPool), R: "kw"})
	case 2:
		g.e.lit(g.pick(stringPool))
	default:
		g.e.sym(Occ{N: g.dataSym(), R: "data", C: ctx})
	}
}

// quotedList writes '(...) with nested structure; ctx labels the occurrences.
func (g *gen) quotedList(ctx string, depth int, quoteMark bool) {
	if quoteMark {
		g.quoteMarkOpen()
	} else {
		g.e.open()
	}
	for i, n := 0, g.intn(4); i < n; i++ {
		if depth > 0 && g.chance(25) {
			g.quotedList(ctx, depth-1, false)
		} else {
			g.quotedAtom(ctx)
		}
	}
	g.e.close()
}

func (g *gen) quoteMarkOpen() {
	g.e.quote()
	g.e.w("(")
	g.e.depth++
}

func (g *gen) dataList(d int) {
	if d <= 0 || g.budget <= 0 || g.chance(40) {
		g.quotedList("quote", 1, true)
		return
	}
	g.budget--
	switch g.intn(4) {
	case 0:
		g.e.head("list")
		for i, n := 0, g.intn(3); i < n; i++ {
			if g.chance(50) {
				g.num(d - 1)
			} else {
				g.data(d - 1)
			}
		}
		g.e.close()
	case 1:
		g.e.head("cons")
		g.num(d - 1)
		g.quotedList("quote", 1, true)
		g.e.close()
	case 2:
		g.e.head("map")
		g.e.quote()
		g.e.sym(Occ{N: "list", R: "data", C: "type-spec"})
		g.fn(d-1, 1)
		g.e.head("list")
		g.num(d - 1)
		g.num(d - 1)
		g.e.close()
		g.e.close()
	default:
		g.qqData(d)
	}
}

// qqData: quasiquote used to build DATA in ordinary code (not a macro body).
func (g *gen) qqData(d int) {
	if !g.trig["qqdata"] {
		g.quotedList("quote", 1, true)
		return
	}
	g.feat("qq-data")
	g.e.head("quasiquote")
	g.e.open()
	for i, n := 0, 1+g.intn(3); i < n; i++ {
		if g.chance(35) {
			g.e.head("unquote")
			g.num(d - 1)
			g.e.close()
		} else {
			g.quotedAtom("qq")
		}
	}
	g.e.close()
	g.e.close()
}

func (g *gen) data(d int) {
	if d > 0 && g.budget > 0 && g.chance(25) {
		if cs := g.cands(isDataVar); len(cs) > 0 {
			g.ref(g.pickCand(cs), "")
			return
		}
	}
	if d <= 0 || g.budget <= 0 {
		g.e.quote()
		g.e.sym(Occ{N: g.dataSym(), R: "data", C: "quote"})
		return
	}
	g.budget--
	switch k := g.intn(12); {
	case k < 3:
		g.e.quote()
		g.e.sym(Occ{N: g.dataSym(), R: "data", C: "quote"})
	case k < 4:
		g.e.sym(Occ{N: g.pick(kwPool), R: "kw"})
	case k < 5:
		g.e.lit(g.pick(stringPool))
	case k < 8:
		g.dataList(d)
	case k < 9:
		g.e.head("if")
		g.cnd(d - 1)
		g.data(d - 1)
		g.data(d - 1)
		g.e.close()
	case k < 10:
		g.letForm(d, tData)
	case k < 11:
		g.e.head("quote")
		g.e.sym(Occ{N: g.dataSym(), R: "data", C: "quote-form"})
		g.e.close()
	default:
		g.e.head("sorted-map")
		g.e.sym(Occ{N: g.pick(kwPool), R: "kw"})
		g.num(d - 1)
		g.e.close()
	}
}

// ---------- functions ----------

// paramList writes a formals list and returns the bindings (not yet in scope).
func (g *gen) paramList(s *sig) []*bind {
	var ps []*bind
	names := map[string]bool{}
	mk := func(ty Ty) *bind {
		var name string
		for tries := 0; ; tries++ {
			name = g.binderName(localPool)
			if !names[name] {
				break
			}
			if tries > 5 {
				name = name + strconv.Itoa(len(names))
				if !names[name] {
					break
				}
			}
		}
		names[name] = true
		b := g.newLocal(name, "param", ty)
		ps = append(ps, b)
		return b
	}
	g.e.open()
	for _, ty := range s.req {
		g.bindOcc(mk(ty))
	}
	if s.opt > 0 {
		g.e.op("&optional")
		for i := 0; i < s.opt; i++ {
			b := mk(tNum)
			b.kind = "param"
			b.ty = Ty{'o', 0} // may be (): only used through (if p p 0)
			g.bindOcc(b)
		}
	}
	if s.rest {
		g.e.op("&rest")
		b := mk(tData)
		g.bindOcc(b)
	}
	if len(s.keys) > 0 {
		g.e.op("&key")
		for _, k := range s.keys {
			b := g.newLocal(k, "param", Ty{'o', 0})
			ps = append(ps, b)
			g.bindOcc(b)
		}
	}
	g.e.close()
	return ps
}

// fnBody writes 1..3 body forms, the last of type ret, with ps in scope.
func (g *gen) fnBody(d int, ps []*bind, ret Ty) {
	g.push()
	for _, p := range ps {
		g.add(p)
	}
	saved := g.inFn
	g.inFn = true
	if len(g.lateNames) > 0 {
		var ln []string
		for n := range g.lateNames {
			ln = append(ln, n)
		}
		savedAvoid, savedLate := g.avoid, g.lateNames
		g.lateNames = nil
		defer func() { g.avoid, g.lateNames = savedAvoid, savedLate }()
		na := map[string]bool{}
		for k := range savedAvoid {
			na[k] = true
		}
		for _, n := range ln {
			na[n] = true
		}
		g.avoid = na
	}
	if g.chance(25) {
		g.sideEffect(d - 1)
	}
	// use optional/key params defensively so they are exercised
	var opts []*bind
	for _, p := range ps {
		if p.ty.K == 'o' && g.lookup(p.name) == p {
			opts = append(opts, p)
		}
	}
	if len(opts) > 0 && ret.K == 'n' {
		g.e.head("+")
		for _, p := range opts {
			g.e.head("if")
			g.ref(cand{p, false}, "")
			g.ref(cand{p, false}, "")
			g.e.lit("0")
			g.e.close()
		}
		g.typed(d, ret)
		g.e.close()
	} else {
		g.typed(d, ret)
	}
	g.inFn = saved
	g.pop()
}

func (g *gen) typed(d int, ty Ty) {
	switch ty.K {
	case 'n':
		g.num(d)
	case 'd':
		g.data(d)
	case 'f':
		g.fn(d, ty.A)
	}
}

// lambda writes (lambda (p...) body) and returns its parameters.
func (g *gen) lambda(d, arity int) []*bind {
	g.feat("lambda")
	g.e.head("lambda")
	s := &sig{ret: tNum}
	for i := 0; i < arity; i++ {
		s.req = append(s.req, tNum)
	}
	ps := g.paramList(s)
	if g.chance(8) {
		g.e.lit(`"doc"`)
	}
	g.fnBody(d, ps, tNum)
	g.e.close()
	return ps
}

// fn writes an expression evaluating to a function of `arity` numbers.
func (g *gen) fn(d, arity int) {
	match := func(b *bind) bool {
		if b.isMacro {
			return false
		}
		if b.kind == "defun" || b.kind == "flet" || b.kind == "labels" {
			return b.sig != nil && b.sig.ret.K == 'n' && len(b.sig.req) == arity && allNum(b.sig.req)
		}
		return b.ty.K == 'f' && b.ty.A == arity
	}
	if g.chance(45) {
		if cs := g.cands(match); len(cs) > 0 {
			c := g.pickCand(cs)
			switch {
			case c.b.kind == "defun" && g.chance(30):
				g.e.sep()
				g.e.w("#'")
				g.e.hidden("lisp:function")
				g.ref(c, "function-form")
			case c.b.kind == "defun" && g.chance(25):
				g.e.head("function")
				g.ref(c, "function-form")
				g.e.close()
			default:
				g.ref(c, "fn-value")
			}
			return
		}
	}
	if arity == 1 && !g.noPrefixLambda && g.chance(12) {
		g.feat("prefix-lambda")
		g.e.sep()
		g.e.w("#^")
		g.e.hidden("lisp:expr")
		g.e.w("(")
		g.e.depth++
		g.e.op([]string{"+", "*", "-"}[g.intn(3)])
		g.e.op("%")
		saved := g.noPrefixLambda
		g.noPrefixLambda = true
		var ln []string
		for n := range g.lateNames {
			ln = append(ln, n)
		}
		g.withAvoid(ln, g.numLeaf)
		g.noPrefixLambda = saved
		g.e.close()
		return
	}
	g.lambda(d-1, arity)
}

func allNum(ts []Ty) bool {
	for _, t := range ts {
		if t.K != 'n' {
			return false
		}
	}
	return true
}

// callSome calls a visible function.
func (g *gen) callSome(d int) bool {
	if g.curDef != nil && g.inFn && len(g.fwd) > 0 && g.chance(45) && g.forwardCall(d) {
		return true
	}
	cs := g.cands(isCallable)
	if len(cs) == 0 {
		return false
	}
	g.call(g.pickCand(cs), d)
	return true
}

// forwardCall calls, from inside a function body, a function of this package
// that is DEFINED FURTHER DOWN in the file (its signature was fixed when the
// section was planned).  The calling function is not run before the section is
// complete (see section), so the call is bound when it executes.
func (g *gen) forwardCall(d int) bool {
	var ts []*bind
	for _, b := range g.fwd {
		if g.lookup(b.name) == nil && !g.avoid[b.name] {
			ts = append(ts, b)
		}
	}
	if len(ts) == 0 {
		return false
	}
	b := ts[g.intn(len(ts))]
	g.feat("forward-call")
	g.curDef.fwdUsed = true
	g.e.open()
	g.e.sym(Occ{N: b.name, R: "ref", B: b.id, K: "defun", C: "forward-call"})
	for range b.sig.req {
		g.num(d - 1)
	}
	g.e.close()
	return true
}

func (g *gen) args(s *sig, d int) {
	for _, ty := range s.req {
		g.typed(d-1, ty)
	}
	if s.opt > 0 {
		for i, n := 0, g.intn(s.opt+1); i < n; i++ {
			g.num(d - 1)
		}
	} else if s.rest {
		for i, n := 0, g.intn(3); i < n; i++ {
			g.num(d - 1)
		}
	}
	if len(s.keys) > 0 && g.preserveParams {
		for i, k := range s.keys {
			if g.chance(60) {
				g.feat("keyword-args")
				id := 0
				if i < len(s.keyIDs) {
					id = s.keyIDs[i]
				}
				g.e.sym(Occ{N: ":" + k, R: "kw", C: "keyword-arg", B: id})
				g.num(d - 1)
			}
		}
	}
}

func (g *gen) call(c cand, d int) {
	b := c.b
	s := b.sig
	if s == nil {
		s = &sig{ret: tNum}
		for i := 0; i < b.ty.A; i++ {
			s.req = append(s.req, tNum)
		}
	}
	isGlobalFn := b.kind == "defun"
	switch k := g.intn(20); {
	case k < 13:
		g.e.open()
		g.ref(c, "call")
		g.args(s, d)
		g.e.close()
	case k < 16:
		g.e.head("funcall")
		switch {
		case isGlobalFn && g.excl[b.name] && !c.qual && b.pkg == g.cur.name && g.chance(60):
			// an EXCLUDED global may be named by a quoted symbol
			g.feat("quoted-designator-excluded")
			g.e.quote()
			g.e.sym(Occ{N: b.name, R: "ref", B: b.id, K: b.kind, C: "quoted-designator"})
		case isGlobalFn && g.chance(40):
			g.e.sep()
			g.e.w("#'")
			g.e.hidden("lisp:function")
			g.ref(c, "function-form")
		default:
			g.ref(c, "fn-value")
		}
		g.args(s, d)
		g.e.close()
	case k < 18 && len(s.keys) == 0:
		g.e.head("apply")
		g.ref(c, "fn-value")
		for _, ty := range s.req {
			g.typed(d-1, ty)
		}
		g.e.head("list")
		if s.opt > 0 || s.rest {
			g.num(d - 1)
		}
		g.e.close()
		g.e.close()
	default:
		g.e.open()
		g.ref(c, "call")
		g.args(s, d)
		g.e.close()
	}
}
