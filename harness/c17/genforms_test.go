package c17

// Binding forms.

func (g *gen) bindingOpen() bool {
	br := g.chance(35)
	if br {
		g.e.openB()
	} else {
		g.e.open()
	}
	return br
}
func (g *gen) bindingClose(br bool) {
	if br {
		g.e.closeB()
	} else {
		g.e.close()
	}
}

// letForm writes let / let* with 1..3 bindings and a body of type ret.
func (g *gen) letForm(d int, ret Ty) {
	seq := g.chance(45)
	kind := "let"
	if seq {
		kind = "let*"
	}
	g.e.head(kind)
	g.e.open()
	n := 1 + g.intn(3)
	var bs []*bind
	// The evaluator keeps all bindings of one let/let* form in a single frame
	// that closures created in the init expressions capture (lisp/op.go calls
	// this a BUG for let*), so a closure in an init expression would see a
	// binding of the same form instead of the outer one the documentation
	// promises.  Such programs are not statically scoped: closures inside init
	// expressions never refer to a name the form (re)binds at or after them.
	var planned []string
	count := map[string]int{}
	for i := 0; i < n; i++ {
		name := g.binderName(localPool)
		if !seq && count[name] > 0 {
			continue // parallel let never binds one name twice
		}
		if seq && count[name] > 0 {
			g.feat("let*-rebind")
		}
		count[name]++
		planned = append(planned, name)
	}
	if seq {
		g.push()
	}
	savedLate := g.lateNames
	for i, name := range planned {
		var ty Ty
		switch k := g.intn(10); {
		case k < 6:
			ty = tNum
		case k < 8:
			ty = tData
		default:
			ty = tFn(1 + g.intn(2))
		}
		late := map[string]bool{}
		for k := range savedLate {
			late[k] = true
		}
		for j, nm := range planned {
			if !seq || j >= i || count[nm] > 1 {
				late[nm] = true
			}
		}
		g.lateNames = late
		// (let ((x (+ x 1))) ...): the init expression reads the binding of
		// the same name that is being shadowed
		var outer *bind
		if ob := g.lookup(name); ob != nil && isNumVar(ob) && ob.ready && !g.avoid[name] && g.chance(60) {
			outer = ob
			ty = tNum
		}
		b := g.newLocal(name, kind, ty)
		br := g.bindingOpen()
		g.bindOcc(b)
		// the init expression sees the outer scope (let) or the earlier
		// bindings (let*), never the binding itself
		if outer != nil {
			g.feat("init-reads-shadowed")
			if g.chance(50) {
				g.ref(cand{outer, false}, "init-of-same-name")
			} else {
				g.e.head("+")
				g.ref(cand{outer, false}, "init-of-same-name")
				g.num(d - 1)
				g.e.close()
			}
		} else {
			g.typed(d-1, ty)
		}
		g.bindingClose(br)
		if seq {
			g.add(b)
		} else {
			bs = append(bs, b)
		}
	}
	g.lateNames = savedLate
	g.e.close()
	if !seq {
		g.push()
		for _, b := range bs {
			g.add(b)
		}
	}
	if g.chance(25) {
		g.sideEffect(d - 1)
	}
	g.typed(d-1, ret)
	g.pop()
	g.e.close()
}

// fletForm writes flet or labels.
func (g *gen) fletForm(d int) {
	labels := g.chance(50)
	kind := "flet"
	if labels {
		kind = "labels"
	}
	g.feat(kind)
	g.e.head(kind)
	g.e.open()
	n := 1 + g.intn(2)
	names := map[string]bool{}
	var fs []*bind
	type pending struct {
		b  *bind
		br bool
	}
	// decide names and signatures first (labels functions see each other)
	outerOf := map[*bind]cand{}
	for i := 0; i < n; i++ {
		name := g.binderName(fnPool)
		if g.may("headname", 8) {
			name = "test"
			g.feat("head-special-cased-name")
		}
		// (flet ((f (a) (f a))) ...): in flet the inner call is the OUTER f
		var outer *cand
		if !labels && g.chance(35) {
			var cs []cand
			for _, c := range g.cands(isCallable) {
				if !c.qual && c.b.sig != nil && allNum(c.b.sig.req) && len(c.b.sig.req) > 0 && len(c.b.sig.keys) == 0 {
					cs = append(cs, c)
				}
			}
			if len(cs) > 0 {
				c := g.pickCand(cs)
				outer = &c
				name = c.b.name
			}
		}
		if names[name] {
			continue
		}
		names[name] = true
		b := g.newLocal(name, kind, tFn(0))
		b.mut = false
		b.sig = &sig{ret: tNum}
		if outer != nil {
			outerOf[b] = *outer
			g.feat("flet-calls-outer-same-name")
			b.sig.req = append([]Ty{}, outer.b.sig.req...)
			b.ty = Ty{'F', 0}
			fs = append(fs, b)
			continue
		}
		for j, m := 0, 1+g.intn(2); j < m; j++ {
			b.sig.req = append(b.sig.req, tNum)
		}
		if g.chance(20) {
			b.sig.opt = 1
		} else if g.chance(15) {
			b.sig.rest = true
		}
		b.ty = Ty{'F', 0} // called through its signature only
		fs = append(fs, b)
	}
	if labels {
		g.push()
		for _, b := range fs {
			g.add(b)
		}
	}
	for i, b := range fs {
		br := g.bindingOpen()
		g.bindOcc(b)
		ps := g.paramList(b.sig)
		if oc, ok := outerOf[b]; ok {
			g.push()
			for _, p := range ps {
				g.add(p)
			}
			if g.lookup(oc.b.name) == oc.b {
				g.e.head("+")
				g.e.open()
				g.ref(oc, "flet-body-outer-call")
				for _, p := range ps {
					if g.lookup(p.name) == p {
						g.ref(cand{p, false}, "")
					} else {
						g.e.lit("1")
					}
				}
				g.e.close()
				g.e.lit("1")
				g.e.close()
			} else {
				g.numLeaf()
			}
			g.pop()
			g.bindingClose(br)
			continue
		}
		if labels && i == 0 && g.chance(40) && g.lookupAfterParams(ps, b) {
			// bounded self recursion: (if (<= p 0) base (f (- p 1) ...))
			g.feat("labels-recursion")
			g.push()
			for _, p := range ps {
				g.add(p)
			}
			p0 := ps[0]
			g.e.head("if")
			g.e.head("<=")
			g.ref(cand{p0, false}, "")
			g.e.lit("0")
			g.e.close()
			g.numLeaf()
			g.e.head("+")
			g.ref(cand{p0, false}, "")
			g.e.open()
			g.ref(cand{b, false}, "call")
			g.e.head("-")
			g.ref(cand{p0, false}, "")
			g.e.lit("1")
			g.e.close()
			for range b.sig.req[1:] {
				g.numLeaf()
			}
			g.e.close()
			g.e.close()
			g.e.close()
			g.pop()
		} else {
			// a labels function may call its siblings but not itself (no
			// unbounded recursion): hide it while its body is generated
			b.ready = false
			if labels {
				for _, o := range fs {
					if o != b {
						o.ready = i > 0 && indexOf(fs, o) < i // only earlier siblings: no cycles
					}
				}
			}
			g.fnBody(d-1, ps, tNum)
		}
		g.bindingClose(br)
	}
	for _, b := range fs {
		b.ready = true
	}
	g.e.close()
	if !labels {
		g.push()
		for _, b := range fs {
			g.add(b)
		}
	}
	// body: make sure at least one of the functions is called
	if len(fs) > 0 && g.lookup(fs[0].name) == fs[0] {
		g.e.head("+")
		g.call(cand{fs[0], false}, d-1)
		g.num(d - 1)
		g.e.close()
	} else {
		g.num(d - 1)
	}
	g.pop()
	g.e.close()
}

func indexOf(fs []*bind, b *bind) int {
	for i, o := range fs {
		if o == b {
			return i
		}
	}
	return -1
}

// lookupAfterParams reports whether, with ps in scope, the bare name of b and
// of the first parameter still resolve to them (no parameter shadows them).
func (g *gen) lookupAfterParams(ps []*bind, b *bind) bool {
	if len(ps) == 0 || ps[0].ty.K != 'n' {
		return false
	}
	for i, p := range ps {
		if p.name == b.name {
			return false
		}
		if i > 0 && p.name == ps[0].name {
			return false
		}
	}
	return true
}

// dotimesForm: (let ((acc N)) (dotimes (i K [acc]) (set! acc ...)) acc)
func (g *gen) dotimesForm(d int) {
	g.feat("dotimes")
	accName := g.binderName(localPool)
	acc := g.newLocal(accName, "let", tNum)
	g.e.head("let")
	g.e.open()
	br := g.bindingOpen()
	g.bindOcc(acc)
	g.num(d - 1)
	g.bindingClose(br)
	g.e.close()
	g.push()
	g.add(acc)
	// The count expression is evaluated BEFORE the loop variable is bound, so
	// it reads the enclosing scope even when the loop variable has the same
	// name: (dotimes (n (mod n 4)) ...).  Half of the counts read a variable,
	// and half of those loops reuse that variable's name.
	var countVar *cand
	if g.chance(50) {
		var bare []cand
		for _, c := range g.cands(isNumVar) {
			if !c.qual {
				bare = append(bare, c)
			}
		}
		if len(bare) > 0 {
			c := g.pickCand(bare)
			countVar = &c
		}
	}
	ivName := g.binderName(localPool)
	if countVar != nil && g.chance(50) {
		ivName = countVar.b.name
		g.feat("dotimes-var-shadows-count-var")
	}
	iv := g.newLocal(ivName, "dotimes", tNum)
	iv.mut = false
	withResult := g.trig["dotimes-result"] && g.chance(50)
	g.e.head("dotimes")
	g.e.open()
	g.bindOcc(iv)
	if countVar != nil {
		g.feat("dotimes-count-expr")
		g.e.head("mod")
		g.ref(*countVar, "dotimes-count")
		g.e.lit("4")
		g.e.close()
	} else {
		g.e.lit([]string{"0", "1", "2", "3"}[g.intn(4)])
	}
	g.push()
	g.add(iv)
	if withResult {
		g.feat("dotimes-result")
		// the result form is evaluated in the loop scope
		if g.lookup(acc.name) == acc && g.chance(70) {
			g.ref(cand{acc, false}, "dotimes-result")
		} else {
			g.ref(cand{iv, false}, "dotimes-result")
		}
	}
	g.e.close()
	if g.lookup(acc.name) == acc {
		g.e.head("set!")
		g.ref(cand{acc, false}, "set!-target")
		g.e.head("+")
		g.ref(cand{acc, false}, "")
		g.num(d - 1)
		g.e.close()
		g.e.close()
	} else {
		g.sideEffect(d - 1)
	}
	g.pop()
	g.e.close()
	if !withResult {
		if g.lookup(acc.name) == acc {
			g.ref(cand{acc, false}, "")
		} else {
			g.numLeaf()
		}
	}
	g.pop()
	g.e.close()
}

// setBang: (progn (set! v e) v) on a mutable number variable.
func (g *gen) setBang(d int) {
	cs := g.cands(func(b *bind) bool { return isNumVar(b) && b.mut })
	var bare []cand
	for _, c := range cs {
		if !c.qual {
			bare = append(bare, c)
		}
	}
	if len(bare) == 0 {
		g.numLeaf()
		return
	}
	c := g.pickCand(bare)
	g.feat("set!")
	if c.b.global {
		g.feat("set!-global")
	}
	g.e.head("progn")
	g.e.head("set!")
	g.ref(c, "set!-target")
	g.num(d - 1)
	g.e.close()
	g.ref(c, "")
	g.e.close()
}

// handlerBind: (handler-bind ((cname (lambda (c &rest args) H))) body)
func (g *gen) handlerBind(d int) {
	g.feat("handler-bind")
	g.e.head("handler-bind")
	g.e.open()
	cname := g.condName()
	catchAll := g.chance(35)
	if catchAll {
		cname = "condition"
	}
	g.e.open()
	g.e.sym(Occ{N: cname, R: "cond", C: "handler-bind"})
	g.e.head("lambda")
	c := g.newLocal(g.binderName(localPool), "param", tData)
	rest := g.newLocal(g.binderName(localPool), "param", Ty{'x', 0})
	if rest.name == c.name {
		rest.name = rest.name + "s"
	}
	g.e.open()
	g.bindOcc(c)
	g.e.op("&rest")
	g.bindOcc(rest)
	g.e.close()
	g.push()
	g.add(c)
	g.add(rest)
	if g.chance(40) {
		g.e.head("progn")
		g.e.head("debug-print")
		g.e.lit(`"handled"`)
		g.ref(cand{c, false}, "")
		g.e.close()
		g.num(d - 1)
		g.e.close()
	} else {
		g.num(d - 1)
	}
	g.pop()
	g.e.close()
	g.e.close()
	g.e.close()
	// body: raises the condition some of the time
	if g.chance(60) {
		g.e.head("+")
		g.num(d - 1)
		g.e.head("if")
		g.cnd(d - 1)
		g.e.head("error")
		g.e.quote()
		name := cname
		if catchAll || g.chance(20) {
			name = g.condName()
		}
		g.e.sym(Occ{N: name, R: "cond", C: "error"})
		g.e.lit(g.pick(stringPool))
		g.e.close()
		g.num(d - 1)
		g.e.close()
		g.e.close()
	} else {
		g.num(d - 1)
	}
	g.e.close()
}

// closureCounter: a let-bound counter captured and mutated by a closure.
func (g *gen) closureCounter(d int) {
	g.feat("closure-set!")
	cv := g.newLocal(g.binderName(localPool), "let*", tNum)
	g.e.head("let*")
	g.e.open()
	br := g.bindingOpen()
	g.bindOcc(cv)
	g.e.lit(g.intLit())
	g.bindingClose(br)
	g.push()
	g.add(cv)
	fv := g.newLocal(g.binderName(localPool), "let*", tFn(1))
	if fv.name == cv.name {
		fv.name += "-fn"
	}
	br = g.bindingOpen()
	g.bindOcc(fv)
	g.e.head("lambda")
	p := g.newLocal(g.binderName(localPool), "param", tNum)
	g.e.open()
	g.bindOcc(p)
	g.e.close()
	g.push()
	g.add(p)
	if g.lookup(cv.name) == cv {
		g.e.head("set!")
		g.ref(cand{cv, false}, "set!-target")
		g.e.head("+")
		g.ref(cand{cv, false}, "")
		g.ref(cand{p, false}, "")
		g.e.close()
		g.e.close()
		g.ref(cand{cv, false}, "")
	} else {
		g.ref(cand{p, false}, "")
	}
	g.pop()
	g.e.close()
	g.bindingClose(br)
	g.add(fv)
	g.e.close()
	if g.lookup(fv.name) == fv {
		g.e.open()
		g.ref(cand{fv, false}, "call")
		g.num(d - 1)
		g.e.close()
		g.e.head("+")
		g.e.head("funcall")
		g.ref(cand{fv, false}, "fn-value")
		g.e.lit("2")
		g.e.close()
		g.numLeaf()
		g.e.close()
	} else {
		g.numLeaf()
	}
	g.pop()
	g.e.close()
}
