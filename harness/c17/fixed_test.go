package c17

import "github.com/luthersystems/elps/verifharness/vcommon"

// Hand-minimised sessions, one per finding of this check (see NOTES.md).  They
// go through the same oracle as the generated cases; Expect names the class
// signature to report if the oracle fails.  When a defect is repaired the
// session simply passes.
func one(expect string, pp, re bool, excl []string, client string, srcs ...string) Case {
	c := Case{PreserveParams: pp, RenameExports: re, Exclusions: excl, Client: client, Expect: expect, Feat: []string{"fixed"}}
	for i, s := range srcs {
		c.Files = append(c.Files, File{Path: string(rune('a'+i)) + ".lisp", Src: s})
	}
	return c
}

var fixedCases = []Case{
	// 1. dotimes result form is not analysed
	one("mismatch:stale-ref/dotimes-result", true, false, nil, "",
		"(defun run (n) (let ((acc 0)) (dotimes (i n acc) (set! acc (+ acc i)))))\n(run 4)\n"),
	// 2. a generated name collides with a preserved identifier
	one("mismatch:collision/generated-name-in-use", true, false, nil, "",
		"(defun f (v) (+ v 1))\n(defun g (x1) (f x1))\n(g 4)\n"),
	// 3. export ignored when the same file use-packages the exporting package
	one("mismatch:stale-ref/export-form:same-file-use-package", true, false, nil, "",
		"(in-package 'lib)\n(export 'add2)\n(defun add2 (a) (+ a 2))\n(in-package 'app)\n(use-package 'lib)\n(add2 1)\n"),
	// 4. qualified reference inside a [bracket] binding is not seen
	one("mismatch:stale-ref/qualified/in-brackets", true, false, nil, "",
		"(in-package 'lib)\n(defun priv (a) (- a 1))\n",
		"(in-package 'app)\n(let ([v (lib:priv 5)]) v)\n"),
	// 5. macrolet templates are not analysed
	one("mismatch:stale-ref/macrolet-tmpl", true, false, nil, "",
		"(defun helper (v) (* v 2))\n(defun f (a) (macrolet ((m (e) (quasiquote (helper (unquote e))))) (m a)))\n(f 3)\n"),
	// 6. template symbol resolved against the macro body's own locals
	one("mismatch:misbound-ref/tmpl-shadowed", true, false, nil, "",
		"(defun tt (v) (* v 2))\n(defmacro m (e) (let ((tt 1)) (quasiquote (tt (unquote e)))))\n(defun f (a) (m a))\n(f 3)\n"),
	// 7. quoted list inside a macro template is renamed
	one("mismatch:renamed/data/tmpl-quote-list", true, false, nil, "",
		"(defmacro m (e) (let ((n 2)) (quasiquote (list '(n) (* (unquote n) (unquote e))))))\n(m 3)\n"),
	// 8. quasiquote used to build data in ordinary code is renamed
	one("mismatch:renamed/data/qq", true, false, nil, "",
		"(defun helper () 1)\n(defun f (a) (quasiquote (helper (unquote a))))\n(f 3)\n"),
	// 9. one global defined twice is split into two names
	one("mismatch:split-binder/defun", true, false, nil, "",
		"(defun f () 1)\n(set 'a (f))\n(defun f () 2)\n(list a (f))\n"),
	// 10. call of a def-named macro is analysed as a definition form
	one("mismatch:misparsed/def-macro-arg", false, false, nil, "",
		"(defmacro def-thing (a b c) (quasiquote (+ (unquote a) (unquote b) (unquote c))))\n(defun f (v) (def-thing (+ v v) 1 2))\n(f 2)\n"),
	// 11. rename-exports: import made in another file of the session
	one("mismatch:stale-ref/imported-other-file", true, true, nil, "",
		"(in-package 'lib)\n(export 'f)\n(defun f (a) (+ a 1))\n",
		"(use-package 'lib)\n(f 1)\n",
		"(f 2)\n"),
	// 12. rename-exports: two used packages export the same name (the later use-package wins at run time)
	one("mismatch:misbound-ref/imported-conflict", true, true, nil, "",
		"(in-package 'p1)\n(export 'f)\n(defun f () 1)\n",
		"(in-package 'p2)\n(export 'f)\n(defun f () 2)\n",
		"(in-package 'app)\n(use-package 'p1)\n(use-package 'p2)\n(f)\n"),
	// 13. (no finding; guards the cross-file identity key) two files with one
	// base name in different directories, same-named private definitions at the
	// same line and column, referenced from a third file
	paths(one("mismatch:cross-file-identity/same-base-name", true, false, nil, "",
		"(in-package 'billing)\n(defun scale (v) (* v 2))\n",
		"(in-package 'shipping)\n(defun scale (v) (* v 3))\n",
		"(in-package 'billing)\n(scale 5)\n"),
		"billing/util.lisp", "shipping/util.lisp", "app/main.lisp"),
	// 14. (no finding; guards the package of an export form) one file, two
	// packages with the same bare name: exported by the earlier package, private
	// in the later one; a third package imports the first.  With rename-exports
	// the export form has to follow the definition of ITS package.
	one("mismatch:misbound-ref/export-form:homonym-in-later-package", true, true, nil, "",
		"(in-package 'shapes)\n(export 'area)\n(defun area (r) (* r r))\n(in-package 'rooms)\n(export 'describe)\n(defun area (w h) (* w h))\n(defun describe (w h) (list 'sq (area w h)))\n(in-package 'user)\n(use-package 'shapes)\n(use-package 'rooms)\n(debug-print (area 3) (describe 2 5))\n(shapes:area 4)\n"),
	// 15. the same with the homonym being a top-level set variable (never
	// renamed) and parameter renaming on
	one("mismatch:stale-ref/export-form:homonym-in-later-package", false, true, nil, "",
		"(in-package 'shapes)\n(export 'area)\n(defun area (r) (* r r))\n(in-package 'rooms)\n(set 'area 12)\n(in-package 'user)\n(use-package 'shapes)\n(list (area 3) rooms:area)\n"),
}

func paths(c Case, ps ...string) Case {
	for i := range c.Files {
		c.Files[i].Path = ps[i]
	}
	return c
}

func enumFixed(shard, nshards int, emit func(Case) bool) {
	for i, c := range fixedCases {
		if i%nshards == shard {
			if !emit(c) {
				return
			}
		}
	}
}

func checkFixed(c Case, ctx *vcommon.Ctx) *vcommon.Failure {
	return checkCase(c, ctx)
}
