package c17

import (
	"math/bits"
	"sort"
	"strconv"

	"pgregory.net/rapid"
)

// Name pools.  They overlap on purpose: the same spelling is used for globals,
// locals, template binders, quoted data, keywords and condition names so that
// shadowing and "same name, different role" arise constantly.  x1..x4 collide
// with the names the minifier generates.  first/rest/max/min are builtins the
// generator never calls, so locals may shadow them.
var (
	localPool  = []string{"a", "b", "n", "k", "v", "acc", "tmp", "val", "item", "res", "x1", "x2", "x3", "max", "first", "f", "helper", "counter"}
	fnPool     = []string{"f", "g", "h", "helper", "run", "calc", "step", "get-val", "apply-fn", "acc", "val", "x1", "x2", "tmp", "is-ok?", "bump!"}
	gvarPool   = []string{"counter", "*state*", "limit", "table", "v", "k", "x3", "x4", "base", "helper"}
	typePool   = []string{"point", "pair", "box", "acc", "helper", "item", "f", "table"}
	macroPool  = []string{"with-val", "my-when", "twice", "m", "wrap", "calc", "def-thing"}
	tmplPool   = []string{"t1", "t2", "tv", "x1", "x2"}
	dataPool   = []string{"alpha", "beta", "gamma", "delta", "foo", "bar"}
	condPool   = []string{"my-error", "bad-thing", "oops"}
	kwPool     = []string{":a", ":scale", ":k", ":val", ":x1", ":helper", ":acc"}
	pkgPool    = []string{"lib", "util", "app", "core"}
	dirPool    = []string{"billing", "shipping", "core", "svc/api", "lib/v2", "."}
	basePool   = []string{"util.lisp", "main.lisp", "defs.lisp", "handlers.lisp"}
	freePool   = []string{"zz", "nope", "x9", "undefined-thing"}
	stringPool = []string{`"s"`, `"a b"`, `"x1"`, `"helper"`, `""`, `"q\"uote"`}
)

// leadInfo describes the first top-level definition of a file: files that share
// a base name (pkg-a/util.lisp, pkg-b/util.lisp) and start with the same
// boilerplate put same-named definitions at the same line and column, which is
// exactly when an identity keyed on (name, kind, file, line, col) must still
// tell the files apart.
type leadInfo struct {
	lines int
	kind  string
	name  string
	pkg   string
	base  string
}

type gen struct {
	t   *rapid.T
	e   *em
	sc  *scope
	nid int

	pkgs    map[string]*pkg
	cur     *pkg
	globals []*bind

	feats          map[string]bool
	preserveParams bool
	renameExports  bool
	excl           map[string]bool
	overlap        bool
	avoid          map[string]bool
	lateNames      map[string]bool // names closures must not reference (see letForm)
	budget         int
	inFn           bool
	noPrefixLambda bool
	fileIdx        int
	trig           map[string]bool // which known-defect triggers this case may use
	ndrv           int
	lead           *leadInfo // where the first definition of the current file landed
	pkgList        []*pkg    // every package of the session, in creation order
	curDef         *bind     // the top-level defun whose body is being written
	fwd            []*bind   // functions planned further down in this section, callable from bodies
	inFile         []*pkg    // packages with a completed section in the current file
	twin           *leadInfo // make the current file's first definition coincide with this one
}

// bitGens[k] draws exactly k fair bits in one call.  rapid.IntRange is
// deliberately biased towards small values (measured: a nominal 7 % choice was
// taken 13 % of the time), which would make every rate in this generator a
// guess; single bits are unbiased and still shrink towards 0 = the first, i.e.
// simplest, alternative.
var bitGens = func() (out [21]*rapid.Generator[[]bool]) {
	for k := 1; k <= 20; k++ {
		out[k] = rapid.SliceOfN(rapid.Bool(), k, k)
	}
	return
}()

func (g *gen) intn(n int) int {
	if n <= 1 {
		return 0
	}
	k := bits.Len(uint(n - 1))
	for tries := 0; tries < 16; tries++ {
		v := 0
		for _, b := range bitGens[k].Draw(g.t, "bits") {
			v <<= 1
			if b {
				v |= 1
			}
		}
		if v < n {
			return v
		}
	}
	return 0
}
func (g *gen) chance(pct int) bool { return g.intn(100) < pct }
func (g *gen) pick(xs []string) string {
	return xs[g.intn(len(xs))]
}
func (g *gen) feat(f string) { g.feats[f] = true }

// may decides whether the construct guarded by trigger tr is produced here
// (pct = rate at this decision point).  The decision is drawn whether or not
// the case opted into the trigger; a wanted-but-excluded construct is counted
// as feat "skip/<trigger>", so the evidence shows how often the exclusion bit.
func (g *gen) may(tr string, pct int) bool {
	want := g.chance(pct)
	if want && !g.trig[tr] {
		g.feat("skip/" + tr)
		return false
	}
	return want
}

func (g *gen) newID() int { g.nid++; return g.nid }

func (g *gen) push() { g.sc = &scope{parent: g.sc} }
func (g *gen) pop()  { g.sc = g.sc.parent }
func (g *gen) add(b *bind) {
	g.sc.vars = append(g.sc.vars, b)
}

// lookup resolves a bare name the way the evaluator would at this point of the
// generated program: lexical scopes innermost first, then the current
// package's own and imported globals.
func (g *gen) lookup(name string) *bind {
	for s := g.sc; s != nil; s = s.parent {
		for i := len(s.vars) - 1; i >= 0; i-- {
			if s.vars[i].name == name {
				return s.vars[i]
			}
		}
	}
	if b := g.cur.own[name]; b != nil {
		return b
	}
	if b := g.cur.imports[name]; b != nil {
		return b
	}
	return nil
}

type cand struct {
	b    *bind
	qual bool
}

// cands lists every binding satisfying pred that can be referenced here, and
// how (bare or package qualified).
func (g *gen) cands(pred func(*bind) bool) []cand {
	var out []cand
	seen := map[*bind]bool{}
	for s := g.sc; s != nil; s = s.parent {
		for i := len(s.vars) - 1; i >= 0; i-- {
			b := s.vars[i]
			if seen[b] || !b.ready || g.avoid[b.name] || !pred(b) {
				continue
			}
			if g.lookup(b.name) == b {
				seen[b] = true
				out = append(out, cand{b, false})
			}
		}
	}
	for _, b := range g.globals {
		if !b.ready || !pred(b) || g.pkgs[b.pkg].own[b.name] != b {
			continue
		}
		if !g.avoid[b.name] && g.lookup(b.name) == b {
			out = append(out, cand{b, false})
			if g.intn(12) == 0 {
				out = append(out, cand{b, true})
			}
		} else {
			out = append(out, cand{b, true})
		}
	}
	return out
}

func (g *gen) pickCand(cs []cand) cand { return cs[g.intn(len(cs))] }

// refOcc writes a reference to b.
func (g *gen) ref(c cand, ctx string) {
	name := c.b.name
	if c.qual {
		name = c.b.pkg + ":" + name
		g.feat("xpkg")
		if ctx == "" {
			ctx = "qualified"
		}
	} else if c.b.global && c.b.pkg != g.cur.name {
		g.feat("xpkg")
		g.cur.refd[c.b.name] = true
		// a bare reference to an imported name: where the use-package form
		// stands decides what a per-file analysis can know about it
		if g.cur.impConflict[c.b.name] {
			ctx = "imported-conflict"
		} else if g.cur.impFile[c.b.name] == g.fileIdx {
			ctx = "imported"
		} else {
			g.feat("import-from-other-file")
			ctx = "imported-other-file"
		}
	}
	g.e.sym(Occ{N: name, R: "ref", B: c.b.id, K: c.b.kind, C: ctx})
}

func (g *gen) bindOcc(b *bind) {
	x := b.expSpell
	if b.nested != "" {
		x = "nested-" + b.nested
	}
	g.e.sym(Occ{N: b.name, R: "bind", B: b.id, K: b.kind, P: b.pkg, X: x})
	b.occAt, b.occFile = len(g.e.occ), g.fileIdx
}

// binderName chooses a name for a new local binder; a third of the time it
// deliberately shadows something visible.
func (g *gen) binderName(pool []string) string {
	var name string
	if g.chance(35) {
		var vis []string
		for s := g.sc; s != nil; s = s.parent {
			for _, b := range s.vars {
				vis = append(vis, b.name)
			}
		}
		for n, b := range g.cur.own {
			if !b.isMacro {
				vis = append(vis, n)
			}
		}
		if len(vis) > 0 {
			sort.Strings(vis)
			name = vis[g.intn(len(vis))]
		}
	}
	if name == "" {
		name = g.pick(pool)
	}
	name = g.fixName(name)
	if ex := g.lookup(name); ex != nil {
		if ex.global {
			g.feat("shadow-global")
		} else {
			g.feat("shadow-local")
		}
	} else if name == "max" || name == "first" {
		g.feat("shadow-builtin")
	}
	return name
}

// fixName keeps the spellings x<N> (the minifier's own output alphabet) out of
// the program unless this case opted into the generated-name-collision trigger.
func (g *gen) fixName(name string) string {
	if !g.trig["xname"] && isXName(name) {
		return "w" + name[1:]
	}
	if isXName(name) {
		g.feat("xname")
	}
	return name
}

func isXName(s string) bool {
	if len(s) < 2 || s[0] != 'x' {
		return false
	}
	_, err := strconv.Atoi(s[1:])
	return err == nil
}

func (g *gen) newLocal(name, kind string, ty Ty) *bind {
	return &bind{id: g.newID(), name: name, kind: kind, ty: ty, ready: true, mut: ty.K == 'n'}
}

func (g *gen) intLit() string {
	switch g.intn(10) {
	case 0:
		return strconv.Itoa(-g.intn(5) - 1)
	case 1:
		return strconv.Itoa(10 + g.intn(1000))
	default:
		return strconv.Itoa(g.intn(6))
	}
}

// dataSym picks a symbol spelling for quoted data: from a pool disjoint from
// every binder name, or (overlap mode) from the binder pools.
func (g *gen) dataSym() string { return g.fixName(g.dataSym0()) }

func (g *gen) dataSym0() string {
	if g.overlap && g.chance(60) {
		switch g.intn(4) {
		case 0:
			return g.pick(localPool)
		case 1:
			return g.pick(fnPool)
		case 2:
			return g.pick(gvarPool)
		default:
			// something actually bound right now
			var vis []string
			for s := g.sc; s != nil; s = s.parent {
				for _, b := range s.vars {
					vis = append(vis, b.name)
				}
			}
			for _, b := range g.globals {
				vis = append(vis, b.name)
			}
			if len(vis) > 0 {
				sort.Strings(vis)
				return vis[g.intn(len(vis))]
			}
			return g.pick(macroPool)
		}
	}
	return g.pick(dataPool)
}

func (g *gen) condName() string {
	if g.overlap && g.chance(40) {
		return g.pick(fnPool)
	}
	return g.pick(condPool)
}
