// C16 generators.  All randomness is rapid draws; choice 0 is always the
// simplest alternative so that shrinking moves towards small plain sources.
package c16

import (
	"bytes"
	"fmt"
	"strings"
	"unicode/utf8"

	"github.com/luthersystems/elps/parser/lexer"
	"github.com/luthersystems/elps/parser/token"
	"pgregory.net/rapid"
)

// ---------- configurations ----------

var heads = []string{
	"f", "defun", "let", "if", "progn", "lambda", "cond", "let*", "defmacro", "handler-bind", "thread-first",
	"def-route", "when", "unless", "dotimes", "flet", "labels", "test", "test-let", "quasiquote", "unquote",
	"ignore-errors", "pkg:defun", "lisp:let", "set", "+", "list", "sorted-map", "deftype", "do", "assert-equal",
	"lisp:function", "lisp:expr", "quote", "function", "expr",
}

func genCfg(t *rapid.T) Cfg {
	c := Cfg{IndentSize: 2, MaxBlank: 1}
	switch rapid.IntRange(0, 11).Draw(t, "cfgkind") {
	case 0:
		return c
	case 1, 2:
		c.Compact = true
	case 3, 4:
		c.Compact, c.Strip = true, true
	case 5:
		c.Strip = true
	}
	c.IndentSize = rapid.IntRange(1, 8).Draw(t, "indent")
	c.MaxBlank = rapid.IntRange(0, 3).Draw(t, "maxblank")
	c.RulesKind = rapid.IntRange(0, 3).Draw(t, "ruleskind")
	if c.RulesKind >= 2 {
		n := rapid.IntRange(0, 6).Draw(t, "nrules")
		for i := 0; i < n; i++ {
			name := rapid.SampledFrom(heads).Draw(t, "rulehead")
			if k := strings.LastIndex(name, ":"); k >= 0 && rapid.Bool().Draw(t, "unq") {
				name = name[k+1:] // RuleFor looks the unqualified name up
			}
			c.Rules = append(c.Rules, Rule{Name: name, Style: rapid.IntRange(0, 2).Draw(t, "style"), Header: rapid.IntRange(0, 4).Draw(t, "hdr")})
		}
	}
	return c
}

func mkCase(src []byte, cfg Cfg) Case {
	c := Case{Src: src, Cfg: cfg}
	if utf8.Valid(src) {
		c.Text = string(src)
	}
	return c
}

// ---------- layout generator: accepted source by construction ----------

const (
	cNone = iota
	cAtom
	cOpen
	cClose
	cQuote   // '
	cFunRef  // #'   (operand must be glued)
	cUnbound // #^   (no whitespace may follow; a comment may)
)

type lay struct {
	t      *rapid.T
	b      strings.Builder
	last   int
	depth  int
	ncom   int
	style  int // 0 one-line, 1 pretty (newline+indent), 2 wild
	budget int
}

var commentShapes = []string{"; c%d", ";c%d", ";; c%d", ";;; c%d (x", "; c%d \"q", "; c%d  ", "; c%d\t.", "; c%d é", "; c%d ; more", "; c%d )]", ";%d", "; nolint:c%d"}

func (g *lay) commentText() string {
	g.ncom++
	k := rapid.IntRange(0, len(commentShapes)+1).Draw(g.t, "cshape")
	switch {
	case k < len(commentShapes):
		return fmt.Sprintf(commentShapes[k], g.ncom)
	case k == len(commentShapes):
		return ";"
	default:
		return ";;"
	}
}

func (g *lay) indent() string {
	if g.style == 0 {
		return ""
	}
	n := g.depth * 2
	if g.style == 2 {
		n = rapid.IntRange(0, 9).Draw(g.t, "ind")
	}
	return strings.Repeat(" ", n)
}

func (g *lay) nl() string {
	if g.style == 2 && rapid.IntRange(0, 19).Draw(g.t, "crlf") == 0 {
		return "\r\n"
	}
	return "\n"
}

// commentBlock: 1-3 own-line comments, possibly separated and followed by blank lines
func (g *lay) commentBlock(col0 bool) string {
	var b strings.Builder
	n := rapid.IntRange(1, 3).Draw(g.t, "ncomments")
	for i := 0; i < n; i++ {
		if !col0 || rapid.Bool().Draw(g.t, "col0") {
			b.WriteString(g.indent())
		}
		b.WriteString(g.commentText())
		b.WriteString(g.nl())
		for k := rapid.IntRange(0, 7).Draw(g.t, "blankafter"); k >= 6; k-- {
			b.WriteString(g.nl())
		}
	}
	return b.String()
}

// gap draws the trivia between the previous token and the next one.
func (g *lay) gap(required bool) string {
	t := g.t
	if g.last == cFunRef {
		return ""
	}
	if g.last == cUnbound {
		if rapid.IntRange(0, 5).Draw(t, "ubgap") < 5 {
			return ""
		}
		// a comment may follow #^ directly (whitespace may not)
		return g.commentText() + g.nl() + g.commentBlockMaybe() + g.indent()
	}
	w := rapid.IntRange(0, 99).Draw(t, "gap")
	if g.style == 0 && w >= 60 && w < 90 && rapid.IntRange(0, 2).Draw(t, "calm") > 0 {
		w = 0
	}
	if g.style == 1 && w < 40 && g.last == cClose {
		w = 60
	}
	switch {
	case w < 40:
		return " "
	case w < 50:
		if required {
			return " "
		}
		return ""
	case w < 56:
		return rapid.SampledFrom([]string{"  ", "   ", "\t", "      ", " \t "}).Draw(t, "spaces")
	case w < 68:
		return g.nl() + g.indent()
	case w < 74:
		return strings.Repeat(g.nl(), rapid.IntRange(2, 5).Draw(t, "blank")) + g.indent()
	case w < 82: // trailing comment on the previous token's line
		sp := rapid.SampledFrom([]string{" ", "  ", "", "    ", "\t"}).Draw(t, "tsp")
		return sp + g.commentText() + g.nl() + g.commentBlockMaybe() + g.indent()
	case w < 92: // own-line comments
		return g.nl() + g.blankMaybe() + g.commentBlock(false) + g.indent()
	case w < 96: // flush-left comments
		return g.nl() + g.commentBlock(true) + g.indent()
	case w < 98:
		return rapid.SampledFrom([]string{" \n", "\n \n", "\f", "\v", " \r\n", "\n\t", "\u00a0", "\u2028", "\u0085 ", "\r"}).Draw(t, "odd")
	default:
		if required {
			return " "
		}
		return ""
	}
}

func (g *lay) commentBlockMaybe() string {
	if rapid.IntRange(0, 3).Draw(g.t, "more") == 3 {
		return g.blankMaybe() + g.commentBlock(false)
	}
	return ""
}

func (g *lay) blankMaybe() string {
	switch rapid.IntRange(0, 5).Draw(g.t, "blankbefore") {
	case 4:
		return g.nl()
	case 5:
		return g.nl() + g.nl() + g.nl()
	}
	return ""
}

func (g *lay) tok(s string, class int) {
	required := false
	switch {
	case g.last == cNone:
	case g.last == cAtom && (class == cAtom || class == cFunRef || class == cUnbound):
		required = true
	case g.last == cAtom && class == cQuote:
		required = false
	}
	if g.last != cNone {
		g.b.WriteString(g.gap(required))
	}
	g.b.WriteString(s)
	g.last = class
	g.budget--
}

var plainSyms = []string{"a", "b", "x", "foo", "foo-bar", "n", "acc", "true", "false", "else", "&rest", "&optional", "%", "%1", "%&rest", "_",
	"é", "λ", "-", "--", "-a", "+", "+1", ".5", "a.b", "<=", "set!", "*x*", "?", "$v", "x1", "-x-1", "e5"}
var keywordSyms = []string{":k", ":key-2", ":1", ":-", ":true"}
var qualifiedSyms = []string{"pkg:name", "lisp:set", "a:b", "math:pi", "s:len<"}

var intLits = []string{"1", "0", "42", "-7", "007", "00", "-0", "9223372036854775807", "-9223372036854775808", "-007", "1000000"}
var hexLits = []string{"#xFF", "#xff", "#XFF", "#x0", "#x7fffffffffffffff", "#xDeadBeef", "#x00a"}
var octLits = []string{"#o17", "#O7", "#o0", "#o777", "#o007"}
var floatLits = []string{"1.50", "1e5", "1E5", "1e+5", "1.5e-3", "0.5", "-0.0", "2.0", "100.0", "1e21", "1e-7", "3.14", "-2.5E+10",
	"1.0e0", "0.10", "123456789.123456789", "1e308", "5e-324", "00.5", "1e05", "-1e5", "0.0", "1.0", "12.0e1"}
var strLits = []string{`"s"`, `""`, `"hello world"`, `"a\"b"`, `"a\\"`, `"\n"`, `"\t\x41\u00e9\101"`, `"é"`, `"; not a comment"`, `"(paren"`,
	`"]"`, `"\\\""`, `"\U0001F600"`, `"\a\b\f\r\v"`, `"'"`, `" lead"`, `"#'f"`, `"\u0041"`, "\"tab\there\""}
var rawLits = []string{`"""raw"""`, `""""""`, "\"\"\"multi\nline\"\"\"", `"""with "quote" inside"""`, "\"\"\"a\n\n\n; x\n   b\"\"\"", `"""\n not an escape"""`,
	"\"\"\"\n\"\"\"", `"""(unbalanced"""`, `"""'"""`}

func (g *lay) atomText() string {
	t := g.t
	switch rapid.IntRange(0, 13).Draw(t, "atomkind") {
	case 0, 1, 2:
		return rapid.SampledFrom(plainSyms).Draw(t, "sym")
	case 3:
		return rapid.SampledFrom(intLits).Draw(t, "int")
	case 4:
		return rapid.SampledFrom(floatLits).Draw(t, "float")
	case 5:
		return rapid.SampledFrom(strLits).Draw(t, "str")
	case 6:
		return rapid.SampledFrom(hexLits).Draw(t, "hex")
	case 7:
		return rapid.SampledFrom(octLits).Draw(t, "oct")
	case 8:
		return rapid.SampledFrom(rawLits).Draw(t, "raw")
	case 9:
		return rapid.SampledFrom(keywordSyms).Draw(t, "kw")
	case 10:
		return rapid.SampledFrom(qualifiedSyms).Draw(t, "qsym")
	case 11:
		return fmt.Sprint(rapid.Int64().Draw(t, "i64"))
	case 12:
		// digits '.' digits ['e' sign digits]
		s := fmt.Sprintf("%d.%s", rapid.IntRange(0, 999).Draw(t, "ip"), rapid.StringMatching(`[0-9]{1,6}`).Draw(t, "fp"))
		if rapid.Bool().Draw(t, "exp") {
			s += rapid.SampledFrom([]string{"e", "E"}).Draw(t, "e") + rapid.SampledFrom([]string{"", "+", "-"}).Draw(t, "es") + fmt.Sprint(rapid.IntRange(0, 30).Draw(t, "ex"))
		}
		if rapid.IntRange(0, 3).Draw(t, "neg") == 0 {
			s = "-" + s
		}
		return s
	default:
		return rapid.SampledFrom(heads).Draw(t, "headsym")
	}
}

func (g *lay) atom() { g.tok(g.atomText(), cAtom) }

func (g *lay) brackets() (string, string) {
	if rapid.IntRange(0, 3).Draw(g.t, "br") == 3 {
		return "[", "]"
	}
	return "(", ")"
}

func (g *lay) list(depth int, head string, n int) {
	o, c := g.brackets()
	g.tok(o, cOpen)
	g.depth++
	if head != "" {
		g.tok(head, cAtom)
	}
	for i := 0; i < n && g.budget > 0; i++ {
		g.expr(depth - 1)
	}
	g.depth--
	g.tok(c, cClose)
}

// flatItem: something allowed directly inside a #^ operand (no unquoted list)
func (g *lay) flatItem() {
	t := g.t
	switch rapid.IntRange(0, 5).Draw(t, "flat") {
	case 0, 1, 2:
		g.atom()
	case 3:
		g.tok("'", cQuote)
		g.atom()
	case 4:
		g.tok("'", cQuote)
		g.tok("(", cOpen)
		for i := rapid.IntRange(0, 2).Draw(t, "n"); i > 0; i-- {
			g.atom()
		}
		g.tok(")", cClose)
	default:
		g.tok("[", cOpen)
		for i := rapid.IntRange(0, 2).Draw(t, "n"); i > 0; i-- {
			g.atom()
		}
		g.tok("]", cClose)
	}
}

func (g *lay) unboundOperand() {
	t := g.t
	switch rapid.IntRange(0, 4).Draw(t, "ubop") {
	case 0, 1, 2:
		g.tok("(", cOpen)
		g.depth++
		g.tok(rapid.SampledFrom([]string{"+", "f", "list", "pkg:name", "if"}).Draw(t, "ubhead"), cAtom)
		for i := rapid.IntRange(0, 3).Draw(t, "n"); i > 0; i-- {
			g.flatItem()
		}
		g.depth--
		g.tok(")", cClose)
	case 3:
		g.tok(rapid.SampledFrom([]string{"%", "x", "1", "\"s\"", ":k", "1.50", "-1", "'x", "#^x", "#'f", "''y", "#xFF"}).Draw(t, "ubatom"), cAtom)
	default:
		g.tok("[", cOpen)
		for i := rapid.IntRange(0, 2).Draw(t, "n"); i > 0; i-- {
			g.flatItem()
		}
		g.tok("]", cClose)
	}
}

var funNames = []string{"f", "car", "pkg:name", "+", "-", "--", "-a", "string:join", "é", "set!", "<="}

func (g *lay) expr(depth int) {
	t := g.t
	k := rapid.IntRange(0, 99).Draw(t, "expr")
	if (depth <= 0 && k >= 35 && k < 65) || depth < -2 {
		k = 0
	}
	switch {
	case k < 35:
		g.atom()
	case k < 52:
		head := ""
		if rapid.IntRange(0, 4).Draw(t, "hashead") > 0 {
			head = rapid.SampledFrom(heads).Draw(t, "head")
		}
		g.list(depth, head, rapid.IntRange(0, 4).Draw(t, "n"))
	case k < 58: // binding-list shape
		o, c := g.brackets()
		g.tok(o, cOpen)
		g.depth++
		g.tok(rapid.SampledFrom([]string{"let", "let*", "flet", "test-let"}).Draw(t, "lethead"), cAtom)
		g.tok("(", cOpen)
		g.depth++
		for i := rapid.IntRange(0, 3).Draw(t, "nb"); i > 0; i-- {
			bo, bc := g.brackets()
			g.tok(bo, cOpen)
			g.tok(rapid.SampledFrom(plainSyms).Draw(t, "bname"), cAtom)
			g.expr(depth - 2)
			g.tok(bc, cClose)
		}
		g.depth--
		g.tok(")", cClose)
		for i := rapid.IntRange(0, 2).Draw(t, "nbody"); i > 0 && g.budget > 0; i-- {
			g.expr(depth - 1)
		}
		g.depth--
		g.tok(c, cClose)
	case k < 65: // empty lists, also with only comments inside
		o, c := g.brackets()
		g.tok(o, cOpen)
		g.tok(c, cClose)
	case k < 75: // quote chain
		for q := rapid.IntRange(1, 6).Draw(t, "nq"); q > 0; q -= 3 {
			g.tok("'", cQuote)
		}
		g.expr(depth - 1)
	case k < 80:
		g.tok("#'", cFunRef)
		g.tok(rapid.SampledFrom(funNames).Draw(t, "fn"), cAtom)
	case k < 86:
		g.tok("#^", cUnbound)
		g.unboundOperand()
	case k < 90: // longhand function
		o, c := g.brackets()
		g.tok(o, cOpen)
		g.depth++
		g.tok(rapid.SampledFrom([]string{"lisp:function", "function", "lisp:function", "'lisp:function"}).Draw(t, "lf"), cAtom)
		switch rapid.IntRange(0, 5).Draw(t, "lfop") {
		case 0, 1, 2:
			g.tok(rapid.SampledFrom(funNames).Draw(t, "fn"), cAtom)
		case 3:
			g.tok(rapid.SampledFrom([]string{":k", "1", "-1", "\"s\"", "a:b", "'f", "+1", ".5"}).Draw(t, "odd"), cAtom)
		case 4:
			g.expr(depth - 1)
		default:
			g.tok("f", cAtom)
			g.tok("g", cAtom)
		}
		g.depth--
		g.tok(c, cClose)
	case k < 94: // longhand expr
		o, c := g.brackets()
		g.tok(o, cOpen)
		g.depth++
		g.tok(rapid.SampledFrom([]string{"lisp:expr", "expr", "lisp:expr", "'lisp:expr", "\"lisp:expr\""}).Draw(t, "le"), cAtom)
		if rapid.IntRange(0, 2).Draw(t, "leop") < 2 {
			g.unboundOperand()
		} else {
			g.expr(depth - 1)
		}
		g.depth--
		g.tok(c, cClose)
	case k < 97: // longhand quote
		o, c := g.brackets()
		g.tok(o, cOpen)
		g.depth++
		g.tok(rapid.SampledFrom([]string{"quote", "lisp:quote"}).Draw(t, "lq"), cAtom)
		g.expr(depth - 1)
		g.depth--
		g.tok(c, cClose)
	default: // quoted shorthand / shorthand of quoted
		g.tok("'", cQuote)
		if rapid.Bool().Draw(t, "qfun") {
			g.tok("#'", cFunRef)
			g.tok(rapid.SampledFrom(funNames).Draw(t, "fn"), cAtom)
		} else {
			g.tok("#^", cUnbound)
			g.unboundOperand()
		}
	}
}

// alignPair: an aligned call of a head (first argument beside the head, later
// arguments wrapped) and a call of the SAME head whose first argument is
// wrapped onto the next line.  With an IndentAlign rule for the head in the
// Config's table the second one takes the body-indent fallback; the first one
// must not be affected by that, in either order, on any pass.
var alignHeads = []string{"thread-first", "thread-last", "thread-first", "thread-last", "f", "pipeline", "list", "assert-equal", "pkg:defun", "when"}

func (g *lay) alignForm(head string, wrappedFirst bool) string {
	t := g.t
	arg := rapid.SampledFrom([]string{"xs", "x", "(g 1)", "'(1 2)", "acc"}).Draw(t, "aparg")
	rest := rapid.SampledFrom([]string{"(f 1)\n (g 2)", "(map 'list #'f)\n(foldl #'+ 0)", "a\n  b\n c", "(f) ; t\n (g)", "(f)\n ; own\n (g)"}).Draw(t, "aprest")
	if wrappedFirst {
		return "(" + head + "\n  " + arg + "\n  " + rest + ")"
	}
	return "(" + head + " " + arg + "\n   " + rest + ")"
}

func genLayoutSource(t *rapid.T) ([]byte, string) {
	g := &lay{t: t, budget: 60}
	g.style = rapid.IntRange(0, 2).Draw(t, "style")
	pairHead := ""
	var pairFirst, pairSecond string
	if rapid.IntRange(0, 5).Draw(t, "alignpair") == 5 {
		pairHead = rapid.SampledFrom(alignHeads).Draw(t, "pairhead")
		order := rapid.IntRange(0, 3).Draw(t, "pairorder") // 0-2: aligned call first, then the wrapped one
		pairFirst, pairSecond = g.alignForm(pairHead, order == 3), g.alignForm(pairHead, order != 3)
		if rapid.IntRange(0, 3).Draw(t, "pairthird") == 3 {
			pairSecond += "\n" + g.alignForm(pairHead, false)
		}
	}
	// optional hash-bang line, then optional leading trivia
	switch rapid.IntRange(0, 11).Draw(t, "hashbang") {
	case 9:
		g.b.WriteString("#!/usr/bin/env elps\n")
	case 10:
		g.b.WriteString(rapid.SampledFrom([]string{"#!\n", "#! x\n\n", "#!/bin/elps ; c\n", "#!a\r\n", " #!x\n"}).Draw(t, "hb"))
	case 11:
		g.b.WriteString("#!/usr/bin/env elps\n")
		g.b.WriteString(g.commentBlock(false))
	}
	if rapid.IntRange(0, 5).Draw(t, "leadtrivia") == 5 {
		g.b.WriteString(rapid.SampledFrom([]string{"\n", "\n\n", "  ", "; lead\n", "\n; lead\n\n", "\t\n"}).Draw(t, "lead"))
	}
	n := rapid.IntRange(0, 6).Draw(t, "nforms")
	if n == 0 && rapid.IntRange(0, 3).Draw(t, "really-empty") > 0 {
		n = 1
	}
	nested := pairHead != "" && rapid.IntRange(0, 3).Draw(t, "pairnested") == 3
	if nested {
		// both calls inside one enclosing form
		g.b.WriteString("(defun h ()\n  " + pairFirst + "\n  " + pairSecond + ")\n")
		g.last = cClose
	} else if pairHead != "" {
		g.b.WriteString(pairFirst + "\n")
		g.last = cClose
	}
	for i := 0; i < n && g.budget > 0; i++ {
		if i == 0 && pairHead != "" {
			g.b.WriteString("\n ")
		}
		if i > 0 && g.style != 2 {
			// top-level forms normally start on their own line
			{
				g.b.WriteString("\n")
				if rapid.IntRange(0, 3).Draw(t, "topblank") == 3 {
					g.b.WriteString(strings.Repeat("\n", rapid.IntRange(1, 3).Draw(t, "nb")))
				}
				if rapid.IntRange(0, 3).Draw(t, "topcomment") == 3 {
					g.b.WriteString(g.commentBlock(false))
				}
				g.last = cClose
				g.b.WriteString(" ")
				// (the single space keeps tokens apart; the formatter removes it)
			}
		}
		g.expr(3)
	}
	if pairHead != "" && !nested {
		g.b.WriteString("\n" + pairSecond)
		g.last = cClose
	}
	// trailing trivia at EOF
	switch rapid.IntRange(0, 9).Draw(t, "eof") {
	case 0:
	case 1, 2, 3:
		g.b.WriteString("\n")
	case 4:
		if n > 0 {
			g.b.WriteString(" " + g.commentText())
		} else {
			g.b.WriteString(g.commentText())
		}
	case 5:
		g.b.WriteString("\n" + g.commentBlock(false))
	case 6:
		g.b.WriteString("\n\n\n" + g.commentText() + "\n\n" + g.commentText())
	case 7:
		g.b.WriteString(" " + g.commentText() + "\n" + g.commentText() + "\n")
	case 8:
		g.b.WriteString("\n\n\n")
	case 9:
		g.b.WriteString("  \t")
	}
	return []byte(g.b.String()), pairHead
}

func genLayoutCase() *rapid.Generator[Case] {
	return rapid.Custom(func(t *rapid.T) Case {
		src, pairHead := genLayoutSource(t)
		cfg := genCfg(t)
		if pairHead != "" && !strings.HasPrefix(pairHead, "thread-") {
			// give the pair's head an explicit align rule in the drawn table
			if cfg.RulesKind < 2 {
				cfg.RulesKind = 2 + rapid.IntRange(0, 1).Draw(t, "pairruleskind")
			}
			name := pairHead
			if k := strings.LastIndex(name, ":"); k >= 0 {
				name = name[k+1:]
			}
			cfg.Rules = append(cfg.Rules, Rule{Name: name, Style: 0})
			if cfg.IndentSize == 2 && cfg.MaxBlank == 1 && !cfg.Compact && !cfg.Strip && cfg.RulesKind == 0 {
				cfg.RulesKind = 2
			}
		}
		return mkCase(src, cfg)
	})
}

// ---------- mutated repo snippets ----------

var boundaryCache = map[int][]int{}

// boundaries: byte offsets at which a token of the snippet starts.
func boundaries(i int) []int {
	if b, ok := boundaryCache[i]; ok {
		return b
	}
	src := []byte(repoSnippets[i])
	lx := lexer.New(token.NewScanner("snip", bytes.NewReader(src)))
	var out []int
	for n := 0; n < len(src)+8; n++ {
		stop := false
		for _, tk := range lx.ReadToken() {
			if tk.Type == token.EOF || tk.Type == token.ERROR || tk.Type == token.INVALID {
				stop = true
				break
			}
			if tk.Source != nil {
				out = append(out, tk.Source.Pos)
			}
		}
		if stop {
			break
		}
	}
	out = append(out, len(src))
	boundaryCache[i] = out
	return out
}

var inserts = []string{" ; m\n", "\n; m\n", "\n\n\n", "\n", "  ", "; m\n", "\n\n; m\n\n", " ;; m1\n ;; m2\n", "'", "#^", "\n;m\n\n\n", "\t", " ; m\r\n", "#'f "}

var soupLexemes = []string{
	"(", ")", "[", "]", "'", "#'", "#^", "#!", "#x", "#o", "#xFF", "#o17", "#x-1", "#o8", "-", "--", "-1", "1", "007",
	"1.5", "1.", ".5", "1e5", "1e", "1e+5", "1.50", "9223372036854775808", "1e400", "abc", "a:b", ":k", "a:", ":", "a:b:c", "a:1",
	"\"s\"", "\"\"", "\"a\\\"b\"", "\"\\q\"", "\"unterminated", "\"\"\"raw\"\"\"", "\"\"\"\"", ";c\n", "; c", ";", " ", "\n", "\n\n\n", "\t", "\r", "\x00", "\xff",
	"é", "#", "#a", "{", "}", "`", ",", "@", "|", "\\", "()", "'()", "''a", "#'f", "#'a:b", "#'1", "#'-1", "#^(+ % 1)", "#^%", "#^(a (b))", "#^ x",
	"(lisp:function f)", "(lisp:expr (a (b)))", "(lisp:function (f))", "#!/x\n", "\u2028", "\u00a0", "\u0085", "-a", "-.5", "(-)", "(- )",
}

func mutateBytes(t *rapid.T, b []byte, max int) []byte {
	n := rapid.IntRange(0, max).Draw(t, "muts")
	for i := 0; i < n && len(b) > 0; i++ {
		pos := rapid.IntRange(0, len(b)-1).Draw(t, "pos")
		switch rapid.IntRange(0, 3).Draw(t, "op") {
		case 0:
			b = append(append([]byte{}, b[:pos]...), b[pos+1:]...)
		case 1:
			lex := rapid.SampledFrom(soupLexemes).Draw(t, "ins")
			b = append(append(append([]byte{}, b[:pos]...), lex...), b[pos:]...)
		case 2:
			b = append([]byte{}, b...)
			b[pos] = rapid.Byte().Draw(t, "byte")
		case 3:
			b = append([]byte{}, b[:pos]...)
		}
	}
	return b
}

func genSnippetCase() *rapid.Generator[Case] {
	return rapid.Custom(func(t *rapid.T) Case {
		i := rapid.IntRange(0, len(repoSnippets)-1).Draw(t, "snippet")
		src := []byte(repoSnippets[i])
		bs := boundaries(i)
		// trivia insertions at token boundaries, applied right to left so the
		// offsets stay valid
		n := rapid.IntRange(0, 4).Draw(t, "ninserts")
		type ins struct {
			at int
			s  string
		}
		var list []ins
		for k := 0; k < n; k++ {
			list = append(list, ins{bs[rapid.IntRange(0, len(bs)-1).Draw(t, "at")], rapid.SampledFrom(inserts).Draw(t, "what")})
		}
		for k := 0; k < len(list); k++ { // insertion sort by offset, descending (deterministic)
			for j := k; j > 0 && list[j].at > list[j-1].at; j-- {
				list[j], list[j-1] = list[j-1], list[j]
			}
		}
		for k, x := range list {
			x.s = strings.ReplaceAll(x.s, "m", fmt.Sprintf("m%d", k)) // distinct comment texts
			src = append(append(append([]byte{}, src[:x.at]...), x.s...), src[x.at:]...)
		}
		// bracket-kind swap of one balanced pair (text-level: finds a '(' outside
		// strings/comments only approximately; any result is a legitimate input)
		if rapid.IntRange(0, 3).Draw(t, "swap") == 3 {
			src = swapBracketPair(src, rapid.IntRange(0, 40).Draw(t, "which"))
		}
		if rapid.IntRange(0, 3).Draw(t, "bytemut") == 3 {
			src = mutateBytes(t, src, 2)
		}
		return mkCase(src, genCfg(t))
	})
}

// swapBracketPair turns the k-th '(' and its matching ')' into '[' ... ']'.
func swapBracketPair(src []byte, k int) []byte {
	out := append([]byte{}, src...)
	var opens []int
	inStr, inCom := false, false
	for i := 0; i < len(out); i++ {
		ch := out[i]
		switch {
		case inCom:
			if ch == '\n' {
				inCom = false
			}
		case inStr:
			if ch == '\\' {
				i++
			} else if ch == '"' {
				inStr = false
			}
		case ch == ';':
			inCom = true
		case ch == '"':
			inStr = true
		case ch == '(':
			opens = append(opens, i)
		}
	}
	if len(opens) == 0 {
		return out
	}
	start := opens[k%len(opens)]
	depth := 0
	inStr, inCom = false, false
	for i := start; i < len(out); i++ {
		ch := out[i]
		switch {
		case inCom:
			if ch == '\n' {
				inCom = false
			}
		case inStr:
			if ch == '\\' {
				i++
			} else if ch == '"' {
				inStr = false
			}
		case ch == ';':
			inCom = true
		case ch == '"':
			inStr = true
		case ch == '(' || ch == '[':
			depth++
		case ch == ')' || ch == ']':
			depth--
			if depth == 0 {
				if ch == ')' {
					out[start], out[i] = '[', ']'
				}
				return out
			}
		}
	}
	return out
}

// ---------- soup: mostly for the rejection direction ----------

func genSoupCase() *rapid.Generator[Case] {
	return rapid.Custom(func(t *rapid.T) Case {
		var src []byte
		switch rapid.IntRange(0, 5).Draw(t, "soup") {
		case 0:
			src = rapid.SliceOfN(rapid.Byte(), 0, 40).Draw(t, "bytes")
		case 1, 2, 3:
			n := rapid.IntRange(0, 14).Draw(t, "n")
			var b strings.Builder
			for i := 0; i < n; i++ {
				b.WriteString(rapid.SampledFrom(soupLexemes).Draw(t, "lex"))
				if rapid.IntRange(0, 2).Draw(t, "sp") > 0 {
					b.WriteString(rapid.SampledFrom([]string{" ", "\n", "  ", "\t", "\n\n"}).Draw(t, "sep"))
				}
			}
			src = []byte(b.String())
		case 4:
			lsrc, _ := genLayoutSource(t)
			src = mutateBytes(t, lsrc, 3)
		default:
			s := rapid.SampledFrom(repoSnippets).Draw(t, "snip")
			src = mutateBytes(t, []byte(s), 3)
		}
		return mkCase(src, genCfg(t))
	})
}
