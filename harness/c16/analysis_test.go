// C16 observation layer: everything the oracle knows about a source text is
// computed here from (1) the STRICT reader's tree and the byte positions it
// reports and (2) the lexer's token stream.  Nothing is read from the
// format-preserving parser or from its metadata: the formatter's own idea of
// which comment belongs to which node is exactly what is under test.
package c16

import (
	"bytes"
	"fmt"
	"math"
	"strconv"
	"strings"
	"unicode"
	"unicode/utf8"

	"github.com/luthersystems/elps/lisp"
	"github.com/luthersystems/elps/parser"
	"github.com/luthersystems/elps/parser/lexer"
	"github.com/luthersystems/elps/parser/token"
)

type node struct {
	v      *lisp.LVal
	start  int // byte offset of the first byte (the prefix token for prefix forms)
	end    int // one past the last byte
	parent int // pre-order index, -1 at top level
	inner  int // start after an absorbed leading quote (== start otherwise)
}

type comment struct {
	text    string
	pos     int
	rawNext int // pre-order index of the first node starting after the comment (-1: none)
	rawEncl int // pre-order index of the innermost node whose span contains it (-1: top level)
	next    int // same, after hoisting out of prefix gaps (see normalise)
	encl    int
	inGap   bool // between a prefix token (' #^) and its operand
	sameLn  bool // something other than whitespace precedes it on its line
}

type literal struct {
	text string
	kind string // int | hex | octal | float | string | raw
}

type analysis struct {
	src      []byte
	exprs    []*lisp.LVal
	err      error // strict reader's error (nil: accepted)
	dump     string
	nodes    []node
	lists    []int  // pre-order indices of the list nodes
	brackets []byte // '(' '[' or '#' for each list node
	lits     []literal
	comments []comment
	hashBang bool
	harness  string // non-empty: the observation layer itself is inconsistent
	nTokens  int
	prefixTk int // number of ' #' #^ tokens
}

func strictRead(src []byte) ([]*lisp.LVal, error) {
	return parser.NewReader().Read("c16.lisp", bytes.NewReader(src))
}

// dump renders the typed structural dump: kind, quoted flag, name / string
// bytes / Int / Float bits, children.  LQuote wrappers are nodes of their own,
// so the quote depth is part of the dump.
func dump(b *strings.Builder, v *lisp.LVal) {
	if v == nil {
		b.WriteString("<nil>")
		return
	}
	fmt.Fprintf(b, "{%d", int(v.Type))
	if v.IsQuoted() {
		b.WriteString("q")
	}
	switch v.Type {
	case lisp.LInt:
		fmt.Fprintf(b, " %d", v.Int)
	case lisp.LFloat:
		fmt.Fprintf(b, " %x", math.Float64bits(v.Float))
	case lisp.LString, lisp.LSymbol, lisp.LQSymbol:
		fmt.Fprintf(b, " %q", v.Str)
	}
	for _, c := range v.Cells {
		b.WriteString(" ")
		dump(b, c)
	}
	b.WriteString("}")
}

func isSpaceAt(src []byte, i int) (bool, int) {
	r, n := utf8.DecodeRune(src[i:])
	return unicode.IsSpace(r), n
}

// skipTrivia skips whitespace and comments.
func skipTrivia(src []byte, i int) int {
	for i < len(src) {
		if src[i] == ';' {
			for i < len(src) && src[i] != '\n' {
				i++
			}
			continue
		}
		sp, n := isSpaceAt(src, i)
		if !sp {
			break
		}
		i += n
	}
	return i
}

func (a *analysis) walk(v *lisp.LVal, parent int) {
	idx := len(a.nodes)
	loc, ok := v.Source()
	n := node{v: v, parent: parent, start: loc.Pos, end: loc.EndPos}
	if !ok || loc.Pos < 0 || loc.EndPos <= loc.Pos || loc.EndPos > len(a.src) {
		if a.harness == "" {
			a.harness = fmt.Sprintf("node %d (%s) has no usable source span: ok=%v pos=%d end=%d len=%d", idx, v.Type, ok, loc.Pos, loc.EndPos, len(a.src))
		}
		n.start, n.end = 0, 0
	}
	n.inner = n.start
	if a.harness == "" && v.Type != lisp.LQuote && a.src[n.start] == '\'' {
		n.inner = skipTrivia(a.src, n.start+1)
		if n.inner >= len(a.src) {
			a.harness = fmt.Sprintf("node %d: nothing after the quote at %d", idx, n.start)
			n.inner = n.start
		}
	}
	if parent >= 0 && a.harness == "" {
		p := a.nodes[parent]
		if n.start < p.start || n.end > p.end {
			a.harness = fmt.Sprintf("node %d span [%d,%d) not inside its parent's [%d,%d)", idx, n.start, n.end, p.start, p.end)
		}
	}
	if idx > 0 && a.harness == "" && n.start < a.nodes[idx-1].start {
		a.harness = fmt.Sprintf("node %d starts at %d before its pre-order predecessor at %d", idx, n.start, a.nodes[idx-1].start)
	}
	a.nodes = append(a.nodes, n)
	if v.Type == lisp.LSExpr {
		a.lists = append(a.lists, idx)
		var b byte
		if a.harness == "" {
			b = a.src[n.inner]
			if b != '(' && b != '[' && b != '#' {
				a.harness = fmt.Sprintf("list node %d: byte %q at %d is not a bracket or a #-prefix", idx, b, n.inner)
			}
		}
		a.brackets = append(a.brackets, b)
	}
	for _, c := range v.Cells {
		a.walk(c, idx)
	}
}

// isHashForm: the node was written #'x or #^x (possibly behind an absorbed quote).
func (a *analysis) isHashForm(i int) bool {
	n := a.nodes[i]
	return n.v.Type == lisp.LSExpr && len(n.v.Cells) == 2 && n.inner+1 < len(a.src) &&
		a.src[n.inner] == '#' && (a.src[n.inner+1] == '^' || a.src[n.inner+1] == '\'')
}

// sugarable: a two-cell form headed lisp:function / lisp:expr, the longhand of
// #' / #^ (both spellings read to the same tree, so the bracket is neutral).
func sugarable(v *lisp.LVal) bool {
	return v.Type == lisp.LSExpr && len(v.Cells) == 2 && v.Cells[0].Type == lisp.LSymbol &&
		(v.Cells[0].Str == "lisp:function" || v.Cells[0].Str == "lisp:expr")
}

// inPrefixGap: comment at p, innermost enclosing node i — is p between i's
// prefix token and i's operand?
func (a *analysis) inPrefixGap(i, p int) bool {
	n := a.nodes[i]
	if n.v.Type == lisp.LQuote {
		return i+1 < len(a.nodes) && p < a.nodes[i+1].start
	}
	if n.inner != n.start && p < n.inner {
		return true // after an absorbed quote, before the operand's first byte
	}
	if a.isHashForm(i) {
		// cells: head symbol (i+1, synthesised at the prefix), operand (i+2)
		return i+2 < len(a.nodes) && p < a.nodes[i+2].start
	}
	return false
}

func (a *analysis) isPrefixOperand(encl, next int) bool {
	n := a.nodes[encl]
	if n.v.Type == lisp.LQuote {
		return next == encl+1
	}
	if a.isHashForm(encl) {
		return next == encl+2
	}
	return false
}

// normalise hoists a comment written in the gap between a prefix token and its
// operand to "before the whole prefix form".  A prefix token and its operand
// are one expression; nothing else can stand between them, so both spellings
// put the comment before the same expression.  Applied to input and output
// alike, so it only ever forgives movement WITHIN a prefix chain.
func (a *analysis) normalise(c *comment) {
	c.next, c.encl = c.rawNext, c.rawEncl
	if c.encl < 0 || !a.inPrefixGap(c.encl, c.pos) {
		return
	}
	c.inGap = true
	c.next, c.encl = c.encl, a.nodes[c.encl].parent
	for c.encl >= 0 && a.isPrefixOperand(c.encl, c.next) {
		c.next, c.encl = c.encl, a.nodes[c.encl].parent
	}
}

func (a *analysis) anchor(c *comment) {
	c.rawNext, c.rawEncl = -1, -1
	for i, n := range a.nodes {
		if n.start > c.pos {
			c.rawNext = i
			break
		}
	}
	for i, n := range a.nodes {
		if n.start < c.pos && c.pos < n.end {
			c.rawEncl = i // pre-order: later matches are deeper
		}
	}
	a.normalise(c)
}

func canonicalLiteral(l literal) bool {
	switch l.kind {
	case "int":
		n, err := strconv.Atoi(l.text)
		return err == nil && strconv.Itoa(n) == l.text
	case "float":
		f, err := strconv.ParseFloat(l.text, 64)
		return err == nil && strconv.FormatFloat(f, 'g', -1, 64) == l.text
	case "string":
		s, err := strconv.Unquote(l.text)
		return err == nil && strconv.Quote(s) == l.text
	}
	return false // hex, octal, raw strings are never what the value printer writes
}

// lex walks the lexer's token stream: literal spellings, comment tokens with
// byte positions, prefix-token count.  Returns false when the stream ends in an
// error token (cannot happen for accepted text).
func (a *analysis) lex() bool {
	// Small sources: a window sized to the source (cheap, identical tokens).
	// Anything that could hold a token near the reader's fixed 128 KiB window
	// is lexed through the very same window the reader uses, so an oversized
	// token is split / refused here exactly as the reader does it.
	sc := token.NewScannerString("c16.lisp", string(a.src))
	if len(a.src) >= token.DefaultBufSize/2 {
		sc = token.NewScanner("c16.lisp", bytes.NewReader(a.src))
	}
	lx := lexer.New(sc)
	var toks []*token.Token
	limit := len(a.src) + 16
	for len(toks) <= limit {
		batch := lx.ReadToken()
		stop := false
		for _, t := range batch {
			if t.Type == token.EOF {
				stop = true
				break
			}
			if t.Type == token.ERROR || t.Type == token.INVALID {
				return false
			}
			toks = append(toks, t)
		}
		if stop || len(batch) == 0 {
			break
		}
	}
	a.nTokens = len(toks)
	for i := 0; i < len(toks); i++ {
		t := toks[i]
		pos := -1
		if t.Source != nil {
			pos = t.Source.Pos
		}
		switch t.Type {
		case token.HASH_BANG:
			c := comment{text: t.Text, pos: pos}
			if i+1 < len(toks) && toks[i+1].Type == token.COMMENT {
				c.text += toks[i+1].Text
				i++
			}
			a.hashBang = true
			a.comments = append(a.comments, c)
		case token.COMMENT:
			a.comments = append(a.comments, comment{text: t.Text, pos: pos})
		case token.INT:
			a.lits = append(a.lits, literal{t.Text, "int"})
		case token.FLOAT:
			a.lits = append(a.lits, literal{t.Text, "float"})
		case token.STRING:
			a.lits = append(a.lits, literal{t.Text, "string"})
		case token.STRING_RAW:
			a.lits = append(a.lits, literal{t.Text, "raw"})
		case token.INT_HEX_MACRO, token.INT_OCTAL_MACRO:
			l := literal{t.Text, "hex"}
			if t.Type == token.INT_OCTAL_MACRO {
				l.kind = "octal"
			}
			if i+1 < len(toks) && (toks[i+1].Type == token.INT_HEX || toks[i+1].Type == token.INT_OCTAL) {
				l.text += toks[i+1].Text
				i++
			}
			a.lits = append(a.lits, l)
		case token.NEGATIVE:
			// the sign of a numeric literal is part of its spelling
			if i+1 < len(toks) && (toks[i+1].Type == token.INT || toks[i+1].Type == token.FLOAT) {
				k := "int"
				if toks[i+1].Type == token.FLOAT {
					k = "float"
				}
				a.lits = append(a.lits, literal{t.Text + toks[i+1].Text, k})
				i++
			}
		case token.QUOTE, token.FUN_REF, token.UNBOUND:
			a.prefixTk++
		}
	}
	for i := range a.comments {
		c := &a.comments[i]
		if c.pos < 0 || c.pos >= len(a.src) || (a.src[c.pos] != ';' && a.src[c.pos] != '#') {
			if a.harness == "" {
				a.harness = fmt.Sprintf("comment %d %q: position %d does not point at it", i, c.text, c.pos)
			}
			continue
		}
		for j := c.pos - 1; j >= 0 && a.src[j] != '\n'; j-- {
			if a.src[j] != ' ' && a.src[j] != '\t' && a.src[j] != '\r' {
				c.sameLn = true
				break
			}
		}
	}
	return true
}

func analyse(src []byte) *analysis {
	a := &analysis{src: src}
	exprs, err := strictRead(src)
	if err != nil {
		a.err = err
		return a
	}
	a.exprs = exprs
	var b strings.Builder
	for _, e := range exprs {
		dump(&b, e)
		b.WriteString("\n")
		a.walk(e, -1)
	}
	a.dump = b.String()
	if !a.lex() && a.harness == "" {
		a.harness = "the lexer reports an error token in text the strict reader accepted"
	}
	if a.harness == "" {
		for i := range a.comments {
			a.anchor(&a.comments[i])
		}
	}
	return a
}

func (a *analysis) describe(c comment) string {
	d := func(i int) string {
		if i < 0 {
			return "-"
		}
		n := a.nodes[i]
		s := string(a.src[n.start:n.end])
		if len(s) > 24 {
			s = s[:24] + "…"
		}
		return fmt.Sprintf("#%d %q", i, s)
	}
	return fmt.Sprintf("%q next=%s enclosing=%s", c.text, d(c.next), d(c.encl))
}

// treeDiff names the first structural difference between two programs; the
// label becomes part of the failure key.
func treeDiff(a, b []*lisp.LVal) string {
	if len(a) != len(b) {
		return "toplevel-count"
	}
	for i := range a {
		if d := nodeDiff(a[i], b[i], nil); d != "" {
			return d
		}
	}
	return "unknown"
}

func nodeDiff(a, b, parent *lisp.LVal) string {
	ctx := ""
	if parent != nil && len(parent.Cells) > 0 && parent.Cells[0].Type == lisp.LSymbol &&
		(parent.Cells[0].Str == "lisp:function" || parent.Cells[0].Str == "lisp:expr") {
		ctx = "/in-prefix-longhand"
	}
	switch {
	case a.Type != b.Type:
		return "node-kind" + ctx
	case a.IsQuoted() != b.IsQuoted():
		return "quoted-flag" + ctx
	case a.Type == lisp.LSymbol && a.Str != b.Str:
		return "symbol-name" + ctx
	case a.Type == lisp.LString && a.Str != b.Str:
		return "string-bytes" + ctx
	case a.Type == lisp.LInt && a.Int != b.Int:
		return "int-value" + ctx
	case a.Type == lisp.LFloat && math.Float64bits(a.Float) != math.Float64bits(b.Float):
		return "float-bits" + ctx
	case len(a.Cells) != len(b.Cells):
		return "child-count" + ctx
	}
	for i := range a.Cells {
		if d := nodeDiff(a.Cells[i], b.Cells[i], a); d != "" {
			return d
		}
	}
	return ""
}
