package c16

import (
	"fmt"
	"os"
	"strings"
	"testing"

	"github.com/luthersystems/elps/formatter"
)

func TestProbe(t *testing.T) {
	for _, s := range strings.Split(os.Getenv("PROBE"), "|||") {
		s = strings.ReplaceAll(s, `\n`, "\n")
		var cfg *formatter.Config
		if os.Getenv("PROBE_CFG") == "compact" {
			cfg = &formatter.Config{Compact: true, IndentSize: 2, MaxBlankLines: 1}
		}
		out, err := formatter.Format([]byte(s), cfg)
		out2, _ := formatter.Format(out, cfg)
		fmt.Printf("%q\n -> %q %v\n -> %q same=%v\n", s, out, err, out2, string(out) == string(out2))
	}
}
