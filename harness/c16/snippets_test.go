package c16

// Small excerpts of the repository's own .lisp files (editors/vscode/test/grammar,
// _examples/sicp, _examples/user-defined-types, analysis/perf/testdata,
// lisp/x/debugger/dapserver/testdata, lisp/lisplib/*_test.lisp), embedded so the
// check does not depend on the working directory.
var repoSnippets = []string{
	// editors/vscode/test/grammar/basics.lisp (syntax-test assertions are column-aligned comments)
	"; SYNTAX TEST \"source.elps\" \"Basic syntax elements\"\n\n; This is a comment\n; <------------------ comment.line.semicolon.elps\n\n\"hello world\"\n; <---------- string.quoted.double.elps\n\n\"\"\"raw string\"\"\"\n; <------------- string.quoted.raw.elps\n\n42\n; <- constant.numeric.integer.elps\n\n-7\n; <- constant.numeric.integer.elps\n",
	"3.14\n; <-- constant.numeric.float.elps\n\n1e10\n; <-- constant.numeric.float.elps\n\n2.5e-3\n; <---- constant.numeric.float.elps\n\n#xFF\n; <-- constant.numeric.hex.elps\n\n#o77\n; <-- constant.numeric.octal.elps\n\n:my-keyword\n; <-------- constant.other.keyword.elps\n\n()\n; <- constant.language.nil.elps\n",
	"(if true \"yes\" \"no\")\n;   ^^^^ constant.language.boolean.elps\n\n'quoted\n; <- keyword.operator.quote.elps\n\n#'func-ref\n; <- keyword.operator.function-quote.elps\n\n#^expr-shorthand\n; <- keyword.control.definition.elps\n\n(defun f (x &optional y)\n;           ^^^^^^^^^ variable.parameter.elps\n  (+ x y))\n",
	// _examples/sicp/approx.lisp
	"; Copyright © 2018 The ELPS authors\n\n(in-package 'sicp/approx)\n\n(load-file \"stream.lisp\")\n\n(use-package 'sicp/stream)\n\n(defun sqrt-improve (guess x)\n  ; average guess and x/guess\n  (/ (+ guess (/ x guess)) 2))\n",
	"(defun sqrt-stream (x)\n  (let ([guesses (stream-cons 1.0\n                              (stream-map #^(sqrt-improve % x)\n                                          guesses))]) ; nolint:undefined-symbol\n    guesses))\n\n(debug-print '(sqrt-stream 2))\n(stream-debug (stream-take (sqrt-stream 2) 7))\n",
	"(defun pi-summands (n)\n  (stream-cons (/ 1.0 n)\n               (stream-map '- (pi-summands (+ n 2)))))\n\n(defun partial-sums (s)\n  (if (stream-null? s)\n    the-empty-stream\n    (stream-cons (stream-car s)\n                 (partial-sums (stream-cdr s)))))\n",
	// analysis/perf/testdata/suppressed.lisp
	"; This function should be excluded from analysis\n;; elps-analyze-disable\n(defun noisy-but-ok (items) ; nolint:unused-function\n  \"Known hot path, intentionally excluded.\"\n  (map 'list (lambda (item) (db-put item)) items)) ; nolint:undefined-symbol\n",
	// lisp/x/debugger/dapserver/testdata/structured.lisp
	"; structured.lisp — test program with structured types for variable expansion tests.\n(defun test-structured ()\n  (let ((my-list (list 10 20 30))\n        (my-map (sorted-map \"a\" 1 \"b\" 2))\n        (my-array (vector \"x\" \"y\" \"z\")))\n    (debug-print my-map my-array)\n    my-list))\n\n(test-structured)\n",
	// _examples/user-defined-types/option_solved.lisp
	"(in-package 'option)\n(export 'x)\n(set 'x 1)\n(deftype none ())\n(defun nothing () (new none))\n(defun nothing? (v) (type? none v))\n\n(deftype some (v) v)\n\n;(map 'something fn v)\n(defun something-map (fn v)\n  (something (funcall fn (get-something v))))\n\n(export 'optional?)\n(defun optional? (v) (or (nothing? v)\n                         (something? v)))\n",
	"(export 'lookup)\n(defun lookup (m k) ; nolint:shadowing\n  \"\"\"\n  returns an optional which contains the value of `k` in `m`.\n\n  returns none if k is not m.\n  \"\"\"\n  (if (key? m k)\n    (something (get m k))\n    (nothing)))\n",
	// lisp/lisplib/libjson style tests
	"#!/usr/bin/env elps\n; Copyright © 2018 The ELPS authors\n\n(use-package 'testing)\n\n(test \"dump\"\n  (assert-string= \"\"\"{\"a\":1}\"\"\" (to-string (json:dump-bytes (sorted-map \"a\" 1))))\n  ; floats\n  (assert-string= \"1.5\" (json:dump-string 1.50))   ; trailing zero\n  (assert-equal #xFF (json:load-string \"255\")))\n",
	"(test-let \"handlers\" ((x 1)\n                      (y '(1 2 3)))\n  (handler-bind ((condition (lambda (c &rest _)\n                              ; swallow\n                              c)))\n    (error 'boom \"x\" 1.5e3 -2))\n  (assert (all? #'int? y))\n  (thread-first x\n                (+ 1)     ; add\n                (* 2)))   ; double\n",
	"(defmacro m (x &rest ys)\n  (quasiquote (list (unquote x)\n                    (unquote-splicing ys))))\n\n(cond\n  ((< a b) \"lt\")   ; less\n  ((> a b) \"gt\")\n  (else \"eq\")\n  ; done\n  )\n(funcall (lisp:function +) 1 2)\n((lisp:expr (+ % %2)) 1 2) '''deep\n",
	// thread-first / thread-last: aligned call, then a call whose first argument is wrapped
	"(defun total (xs)\n  (thread-last xs\n               (map 'list #'price)\n               (foldl #'+ 0)))\n\n(defun total2 (xs)\n  (thread-last\n    xs\n    (map 'list #'price)   ; each\n    (foldl #'+ 0)))\n\n(thread-first m\n              (assoc \"a\" 1)\n              (assoc \"b\" 2))\n(thread-first\n  m\n  (assoc \"c\" 3))\n",
}
