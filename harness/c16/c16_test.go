// C16: formatting preserves the program and its comments and is idempotent.
package c16

import (
	"bytes"
	"fmt"
	"reflect"
	"sort"
	"testing"

	"github.com/luthersystems/elps/formatter"
	"github.com/luthersystems/elps/lisp"
	"github.com/luthersystems/elps/verifharness/vcommon"
)

// ---------- case ----------

type Rule struct {
	Name   string `json:"name"`
	Style  int    `json:"style"`
	Header int    `json:"header"`
}

// Cfg is the JSON form of a formatter.Config.
type Cfg struct {
	IndentSize int    `json:"indent"`
	MaxBlank   int    `json:"max_blank"`
	Compact    bool   `json:"compact"`
	Strip      bool   `json:"strip"`
	RulesKind  int    `json:"rules_kind"` // 0 default table, 1 nil map, 2 Rules only, 3 default table overridden by Rules
	Rules      []Rule `json:"rules,omitempty"`
}

type Case struct {
	Src  []byte `json:"src"`
	Text string `json:"text,omitempty"` // Src again when it is valid UTF-8 (readability only; Src is authoritative)
	Cfg  Cfg    `json:"cfg"`
}

func (c Cfg) build() *formatter.Config {
	out := &formatter.Config{IndentSize: c.IndentSize, MaxBlankLines: c.MaxBlank, Compact: c.Compact, StripComments: c.Strip}
	switch c.RulesKind {
	case 0:
		out.Rules = formatter.DefaultRules()
	case 1:
		out.Rules = nil
	case 2:
		out.Rules = map[string]*formatter.IndentRule{}
	default:
		out.Rules = formatter.DefaultRules()
	}
	if c.RulesKind >= 2 {
		for _, r := range c.Rules {
			out.Rules[r.Name] = &formatter.IndentRule{Style: formatter.IndentStyle(r.Style), HeaderArgs: r.Header}
		}
	}
	return out
}

// mode is the key prefix: it depends on the two flags that select a printer
// path and on nothing else (indentation settings never change the key).
func (c Cfg) mode() string {
	switch {
	case c.Compact && c.Strip:
		return "compactstrip"
	case c.Compact:
		return "compact"
	case c.Strip:
		return "strip"
	}
	return "default"
}

type namedCfg struct {
	label string
	cfg   Cfg
	nilOK bool // pass a nil *Config (documented: DefaultConfig is used)
}

func configsFor(c Case) []namedCfg {
	out := []namedCfg{
		{"default(nil)", Cfg{IndentSize: 2, MaxBlank: 1}, true},
		{"compact", Cfg{IndentSize: 2, MaxBlank: 1, Compact: true}, false},
		{"compact+strip", Cfg{IndentSize: 2, MaxBlank: 1, Compact: true, Strip: true}, false},
		// the default layout with StripComments: "all formatter configurations"
		// -- tree preservation and idempotence apply (the comment clause cannot)
		{"strip", Cfg{IndentSize: 2, MaxBlank: 1, Strip: true}, false},
	}
	k := c.Cfg
	if k.IndentSize == 2 && k.MaxBlank == 1 && k.RulesKind == 0 && !k.Strip && !k.Compact {
		return out // the drawn configuration IS the default one
	}
	return append(out, namedCfg{"custom", c.Cfg, false})
}

// live returns the ONE *formatter.Config value used for every Format call of
// this configuration within a case (first pass, idempotence pass, repeated
// first pass): callers reuse a Config, so state leaking through it is part of
// "formatting its own output changes nothing ... under any indentation rules".
func (nc namedCfg) live() *formatter.Config {
	if nc.nilOK {
		return formatter.DefaultConfig()
	}
	return nc.cfg.build()
}

// pristine is what live() must still look like after any number of calls.
func (nc namedCfg) pristine() *formatter.Config { return nc.live() }

func describeCfgDiff(got, want *formatter.Config) string {
	if got.IndentSize != want.IndentSize || got.MaxBlankLines != want.MaxBlankLines || got.Compact != want.Compact || got.StripComments != want.StripComments {
		return fmt.Sprintf("scalar fields now %+v, were %+v", *got, *want)
	}
	if len(got.Rules) != len(want.Rules) {
		return fmt.Sprintf("Rules has %d entries, had %d", len(got.Rules), len(want.Rules))
	}
	names := make([]string, 0, len(want.Rules))
	for k := range want.Rules {
		names = append(names, k)
	}
	sort.Strings(names)
	for _, k := range names {
		g, ok := got.Rules[k]
		if !ok || g == nil {
			return fmt.Sprintf("Rules[%q] is gone", k)
		}
		if *g != *want.Rules[k] {
			return fmt.Sprintf("Rules[%q] is now %+v, was %+v", k, *g, *want.Rules[k])
		}
	}
	return "differs (reflect.DeepEqual)"
}

// ---------- oracle ----------

type fails struct {
	known knownFn
	list  []*vcommon.Failure
}

func (f *fails) add(key, format string, a ...any) {
	f.list = append(f.list, vcommon.Failf(key, format, a...))
}

// result: an unknown failure wins over a known one, so the search continues
// past a listed finding without hiding anything else in the same case.
func (f *fails) result() *vcommon.Failure {
	for _, x := range f.list {
		if !f.known(x.Key) {
			return x
		}
	}
	if len(f.list) > 0 {
		return f.list[0]
	}
	return nil
}

func where(c comment) string {
	switch {
	case c.encl >= 0:
		return "inner" // after hoisting out of prefix gaps: still inside a list
	case c.inGap:
		return "top-prefix-gap"
	}
	return "top"
}

func checkCase(c Case, ctx *vcommon.Ctx) *vcommon.Failure {
	return oracle(c, ctx, knownFromCtx(ctx))
}

type knownFn func(string) bool

func knownFromCtx(ctx *vcommon.Ctx) knownFn { return func(k string) bool { return ctx.Known(k) } }

func oracle(c Case, ctx *vcommon.Ctx, known knownFn) *vcommon.Failure {
	src := c.Src
	in := analyse(src)
	fs := &fails{known: known}
	cfgs := configsFor(c)
	ctx.Class("cfg:" + c.Cfg.mode())

	// (f) rejected input: an error and no bytes, in every configuration
	if in.err != nil {
		ctx.Class("rejected")
		for _, nc := range cfgs {
			out, err := formatter.Format(src, nc.live())
			if err == nil {
				return vcommon.Failf(nc.cfg.mode()+"/accepts-rejected", "[%s] the reader rejects %q (%v) but Format returns %q", nc.label, src, in.err, out)
			}
			if len(out) != 0 {
				return vcommon.Failf(nc.cfg.mode()+"/output-with-error", "[%s] Format(%q) returns error %v together with %d bytes %q", nc.label, src, err, len(out), out)
			}
		}
		return nil
	}
	ctx.Class("accepted")
	if in.harness != "" {
		// positions reported by the strict reader are inconsistent with the
		// text: the anchors cannot be computed.  Not a C16 statement; surfaced
		// with its own key so it is never silently skipped.
		return vcommon.Failf("harness/positions", "cannot observe %q: %s", src, in.harness)
	}
	classify(in, ctx)

	for _, nc := range cfgs {
		mode := nc.cfg.mode()
		stripOnly := mode == "strip"
		if stripOnly {
			mode = "default" // same printer path; comments are not compared
		}
		cfg := nc.live() // ONE value for every call below
		out, err := formatter.Format(src, cfg)
		if nc.nilOK && err == nil {
			// a nil config is documented to mean DefaultConfig()
			if outNil, errNil := formatter.Format(src, nil); errNil != nil || !bytes.Equal(outNil, out) {
				fs.add("default/nil-config-differs", "Format(x, nil) = %q (%v) but Format(x, DefaultConfig()) = %q\n source %q", outNil, errNil, out, src)
			}
		}
		if err != nil {
			fs.add(mode+"/rejects-accepted", "[%s] the reader accepts %q but Format fails: %v", nc.label, src, err)
			continue
		}
		o := analyse(out)
		if o.err != nil {
			fs.add(mode+"/output-unreadable", "[%s] Format(%q) = %q which the reader rejects: %v", nc.label, src, out, o.err)
			continue
		}
		if o.harness != "" {
			fs.add("harness/positions", "[%s] cannot observe output %q of %q: %s", nc.label, out, src, o.harness)
			continue
		}
		// (a) typed tree identity
		if in.dump != o.dump {
			fs.add(mode+"/tree/"+treeDiff(in.exprs, o.exprs), "[%s] Format changes the tree\n source %q\n output %q\n before %s after  %s", nc.label, src, out, in.dump, o.dump)
			continue
		}
		// (b) literal spellings and bracket kinds
		if d := cmpLiterals(in, o); d != "" {
			fs.add(mode+"/literal-spelling", "[%s] %s\n source %q\n output %q", nc.label, d, src, out)
		}
		if d := cmpBrackets(in, o); d != "" {
			fs.add(mode+"/bracket-kind", "[%s] %s\n source %q\n output %q", nc.label, d, src, out)
		}
		// (c) comments
		if !nc.cfg.Strip {
			if key, d := cmpComments(in, o, mode, known); key != "" {
				fs.add(key, "[%s] %s\n source %q\n output %q", nc.label, d, src, out)
			}
		}
		// (d) idempotence
		again, err := formatter.Format(out, cfg)
		if err != nil {
			fs.add(mode+"/idempotence-rejects", "[%s] Format rejects its own output %q (from %q): %v", nc.label, out, src, err)
		} else if !bytes.Equal(again, out) && stripOnly {
			fs.add("strip/idempotence"+idemClass(in, o), "[%s] Format(Format(x)) != Format(x)\n source %q\n pass 1 %q\n pass 2 %q", nc.label, src, out, again)
		} else if !bytes.Equal(again, out) {
			fs.add(mode+"/idempotence"+idemClass(in, o), "[%s] Format(Format(x)) != Format(x)\n source %q\n pass 1 %q\n pass 2 %q", nc.label, src, out, again)
		}
		// (d') the same Config value reused: formatting the same source again
		// gives the same bytes, and the caller's Config is left as it was
		if out2, err2 := formatter.Format(src, cfg); err2 != nil || !bytes.Equal(out2, out) {
			fs.add(mode+"/config-reuse/second-format-differs", "[%s] the same source formatted twice with the same *Config gives two results (%v)\n source %q\n first  %q\n second %q", nc.label, err2, src, out, out2)
		}
		if want := nc.pristine(); !reflect.DeepEqual(cfg, want) {
			fs.add(mode+"/config-reuse/config-mutated", "[%s] Format modified the caller's Config: %s\n source %q", nc.label, describeCfgDiff(cfg, want), src)
		}
		// one trailing newline exactly (formatter.go: normalisation), unless empty
		if len(out) > 0 && (out[len(out)-1] != '\n' || (len(out) > 1 && out[len(out)-2] == '\n')) {
			// not part of the property statement: class only
			ctx.Class("output-trailing-newline-not-single")
		}
	}
	return fs.result()
}

// idemClass refines the idempotence key by what the first pass did to the
// text: a longhand (lisp:expr x)/(lisp:function x) that was re-sugared takes a
// different metadata path on the second pass.
func idemClass(in, o *analysis) string {
	cls := ""
	for i := range in.brackets {
		if i < len(o.brackets) && in.brackets[i] == '(' && o.brackets[i] == '#' {
			n := o.nodes[o.lists[i]]
			if bytes.IndexByte(o.src[n.start:n.end], '\n') >= 0 {
				return "/resugared-multiline-operand"
			}
			cls = "/resugared"
		}
	}
	return cls
}

func cmpLiterals(in, o *analysis) string {
	if len(in.lits) != len(o.lits) {
		return fmt.Sprintf("literal tokens: %d before, %d after (%v vs %v)", len(in.lits), len(o.lits), litTexts(in.lits), litTexts(o.lits))
	}
	for i := range in.lits {
		if in.lits[i].text != o.lits[i].text {
			return fmt.Sprintf("literal %d respelled: %q -> %q", i, in.lits[i].text, o.lits[i].text)
		}
	}
	return ""
}

func litTexts(l []literal) []string {
	out := make([]string, len(l))
	for i := range l {
		out[i] = l[i].text
	}
	return out
}

func cmpBrackets(in, o *analysis) string {
	if len(in.brackets) != len(o.brackets) {
		return fmt.Sprintf("list nodes: %d before, %d after", len(in.brackets), len(o.brackets))
	}
	for i := range in.brackets {
		a, b := in.brackets[i], o.brackets[i]
		if a == b {
			continue
		}
		// longhand <-> shorthand of #' / #^ reads to the same tree: neutral
		if (a == '#' && b == '(' || a == '(' && b == '#') && sugarable(in.nodes[in.lists[i]].v) {
			continue
		}
		return fmt.Sprintf("list %d (node #%d) bracket %q -> %q", i, in.lists[i], a, b)
	}
	return ""
}

// cmpComments: ordered comment texts unchanged, every anchor unchanged.
func cmpComments(in, o *analysis, mode string, known knownFn) (key, detail string) {
	ic, oc := in.comments, o.comments
	same := len(ic) == len(oc)
	if same {
		for i := range ic {
			if ic[i].text != oc[i].text {
				same = false
				break
			}
		}
	}
	if !same {
		key, detail = diffCommentTexts(in, o, mode)
		if !known(key) {
			return key, detail
		}
		// a listed finding drops comments of one class: keep checking the
		// survivors of the other classes
		cls := key[len(mode)+len("/comment-dropped/"):]
		var kept []comment
		for _, c := range ic {
			if where(c) != cls {
				kept = append(kept, c)
			}
		}
		if len(kept) != len(oc) {
			return mode + "/comment-text/beyond-" + cls, fmt.Sprintf("beyond the listed loss of %s comments: %d comments expected to survive, %d present", cls, len(kept), len(oc))
		}
		for i := range kept {
			if kept[i].text != oc[i].text {
				return mode + "/comment-text/beyond-" + cls, fmt.Sprintf("beyond the listed loss of %s comments: survivor %d is %q, expected %q", cls, i, oc[i].text, kept[i].text)
			}
		}
		if k2, d2 := cmpAnchors(in, o, kept, oc, mode); k2 != "" {
			return k2, d2
		}
		return key, detail
	}
	return cmpAnchors(in, o, ic, oc, mode)
}

func diffCommentTexts(in, o *analysis, mode string) (string, string) {
	ic, oc := in.comments, o.comments
	// hypothesis first: exactly the comments of one position class are gone
	// (texts may repeat, so a greedy alignment alone can blame the wrong one)
	for _, cls := range []string{"inner", "top-prefix-gap", "top"} {
		var kept []comment
		for _, c := range ic {
			if where(c) != cls {
				kept = append(kept, c)
			}
		}
		if len(kept) < len(ic) && len(kept) == len(oc) {
			eq := true
			for i := range kept {
				if kept[i].text != oc[i].text {
					eq = false
					break
				}
			}
			if eq {
				return mode + "/comment-dropped/" + cls, fmt.Sprintf("every %s comment is gone (%d of %d): before %q after %q", cls, len(ic)-len(kept), len(ic), texts(ic), texts(oc))
			}
		}
	}
	// first input comment that is not matched in order by the output
	j := 0
	for i := range ic {
		if j < len(oc) && oc[j].text == ic[i].text {
			j++
			continue
		}
		// is it present later (reordered) or absent (dropped)?
		later := false
		for k := j; k < len(oc); k++ {
			if oc[k].text == ic[i].text {
				later = true
				break
			}
		}
		if later {
			return mode + "/comment-order", fmt.Sprintf("comment %d %q is no longer at its place in the order: before %q after %q", i, ic[i].text, texts(ic), texts(oc))
		}
		// changed text (same count) or dropped
		if len(ic) == len(oc) {
			return mode + "/comment-text-changed", fmt.Sprintf("comment %d %q became %q", i, ic[i].text, oc[i].text)
		}
		return mode + "/comment-dropped/" + where(ic[i]), fmt.Sprintf("comment %d (%s) is gone: before %q after %q", i, in.describe(ic[i]), texts(ic), texts(oc))
	}
	return mode + "/comment-added", fmt.Sprintf("output has comments the source does not: before %q after %q", texts(ic), texts(oc))
}

func texts(cs []comment) []string {
	out := make([]string, len(cs))
	for i := range cs {
		out[i] = cs[i].text
	}
	return out
}

func cmpAnchors(in, o *analysis, ic, oc []comment, mode string) (string, string) {
	for i := range ic {
		if ic[i].next != oc[i].next || ic[i].encl != oc[i].encl {
			kind := "next"
			if ic[i].next == oc[i].next {
				kind = "enclosing"
			}
			return mode + "/comment-anchor/" + where(ic[i]) + "-" + kind,
				fmt.Sprintf("comment %d moved to a different expression:\n before %s\n after  %s", i, in.describe(ic[i]), o.describe(oc[i]))
		}
	}
	return "", ""
}

// classify fills the class histogram and applies the non-triviality rule:
// >= 1 comment not at top level, or >= 1 non-canonical literal spelling, or a
// comment adjacent to a prefix form.
func classify(in *analysis, ctx *vcommon.Ctx) {
	nontrivial := false
	seen := map[string]bool{}
	cl := func(s string) {
		if !seen[s] {
			seen[s] = true
			ctx.Class(s)
		}
	}
	if in.hashBang {
		cl("hash-bang")
	}
	for i, c := range in.comments {
		switch {
		case c.inGap:
			cl("comment:in-prefix-gap")
			nontrivial = true
		case c.encl >= 0 && (c.rawNext < 0 || !within(in, c.rawNext, c.encl)):
			cl("comment:before-closing-bracket")
			nontrivial = true
		case c.encl >= 0:
			cl("comment:inner-before-child")
			nontrivial = true
		case c.rawNext < 0:
			cl("comment:at-eof")
		default:
			cl("comment:top-level-leading")
		}
		if c.sameLn {
			cl("comment:same-line-trailing")
		}
		if in.hashBang && i == 1 {
			cl("comment:after-hash-bang")
		}
		if c.next >= 0 {
			b := in.src[in.nodes[c.next].start]
			if b == '\'' || b == '#' {
				cl("comment:before-prefix-form")
				nontrivial = true
			}
		}
	}
	if len(in.comments) == 0 {
		cl("no-comments")
	}
	for _, l := range in.lits {
		cl("lit:" + l.kind)
		if !canonicalLiteral(l) {
			cl("lit:non-canonical")
			nontrivial = true
		}
	}
	for i, b := range in.brackets {
		switch b {
		case '[':
			cl("bracket:[")
		case '#':
			cl("prefix:#-shorthand")
		case '(':
			if sugarable(in.nodes[in.lists[i]].v) {
				cl("prefix:longhand-function/expr")
			}
		}
	}
	for _, n := range in.nodes {
		if n.inner != n.start {
			cl("prefix:quote")
		}
	}
	if bytes.Contains(in.src, []byte("\n\n\n")) {
		cl("blank-run>=2")
	} else if bytes.Contains(in.src, []byte("\n\n")) {
		cl("blank-run=1")
	}
	for _, n := range in.nodes {
		if n.v.Type == lisp.LSExpr && len(n.v.Cells) == 2 && n.v.Cells[0].Type == lisp.LSymbol && (n.v.Cells[0].Str == "quote" || n.v.Cells[0].Str == "lisp:quote") {
			cl("prefix:longhand-quote")
		}
	}
	if len(in.nodes) == 0 {
		cl("no-expressions")
	}
	if nontrivial {
		ctx.NonTrivial(string(in.src))
		ctx.Note(fmt.Sprintf("source: %q", in.src))
	}
}

// within: is node i inside node anc's subtree?
func within(a *analysis, i, anc int) bool {
	for i >= 0 {
		if i == anc {
			return true
		}
		i = a.nodes[i].parent
	}
	return false
}

func TestCheck(t *testing.T) {
	vcommon.Main(t, "C16",
		vcommon.S("layout", 32000, 1600000, genLayoutCase(), checkCase),
		vcommon.S("snippets", 12000, 500000, genSnippetCase(), checkCase),
		vcommon.E("bigtoken", enumBig, checkBig),
		vcommon.E("deepnest", enumDeep, checkDeep),
		vcommon.S("soup", 12000, 500000, genSoupCase(), checkCase),
	)
}
