package c16

// Deep nesting: the default printer aligns the wrapped arguments of a call
// under its first argument, so every level of `(<head> a⏎ (<head> a⏎ ...` moves
// the next level right by len(head)+2 columns, and the indentation the
// formatter WRITES grows with depth x head length although no token of the
// source is long.  Once it passes token.DefaultBufSize (128 KiB, the scanner's
// window) the formatter's own output holds white-space runs longer than the
// window: "Format returns text that reads back to the identical expression
// trees ... and formatting its own output changes nothing" then depends on the
// lexer treating a run of white space of ANY length as one separator.  (Before
// /repo 3487844 it did not: 1 400 nested 100-character heads, 147 KB accepted
// by the reader, formatted to ~100 MB that Format itself rejected.)
//
// The space is finite and enumerated; a case is a recipe, not the text.  Sizes
// are chosen so that the LONGEST indentation run lands just below, at, and
// above the window with few levels (output 0.25 - 5 MB per recipe), plus a few
// recipes with many levels and short heads.

import (
	"fmt"
	"strings"

	"github.com/luthersystems/elps/formatter"
	"github.com/luthersystems/elps/parser/rdparser"
	"github.com/luthersystems/elps/parser/token"
	"github.com/luthersystems/elps/verifharness/vcommon"
)

type DeepCase struct {
	Shape  string `json:"shape"`  // align | comments | closing | bracket | let | ws-spaces | ws-lines | limit-*
	Depth  int    `json:"depth"`  // nesting levels
	Target int    `json:"target"` // intended length of the longest white-space run the OUTPUT (or, for ws-*, the input) holds
}

// headLen: head length such that level Depth is indented by about Target.
func (c DeepCase) headLen(perLevelExtra int) int {
	h := c.Target/c.Depth - perLevelExtra
	if h < 1 {
		h = 1
	}
	return h
}

func (c DeepCase) source() []byte {
	var b strings.Builder
	switch c.Shape {
	case "align":
		// (hhh a⏎ (hhh a⏎ ... x)))   child indent = firstArgCol = col + len(head) + 2
		head := strings.Repeat("h", c.headLen(2))
		for i := 0; i < c.Depth; i++ {
			b.WriteString("(" + head + " a\n ")
		}
		b.WriteString("x" + strings.Repeat(")", c.Depth))
	case "comments":
		// the same with an own-line comment before, and a trailing comment after,
		// every nested form: the comments are indented like the form
		head := strings.Repeat("h", c.headLen(2))
		for i := 0; i < c.Depth; i++ {
			fmt.Fprintf(&b, "(%s a ; t%d\n ; c%d\n ", head, i, i)
		}
		b.WriteString("x ; tx\n ; before-close\n" + strings.Repeat(")", c.Depth) + " ; end\n; eof")
	case "closing":
		// closing brackets on lines of their own: the indentation precedes ")"
		head := strings.Repeat("h", c.headLen(2))
		for i := 0; i < c.Depth; i++ {
			b.WriteString("(" + head + " a\n ")
		}
		b.WriteString("#xFF")
		for i := 0; i < c.Depth; i++ {
			b.WriteString("\n)")
		}
	case "bracket":
		// [sss⏎ [sss⏎ ... — writeListInner aligns under the first element: one
		// column per level, so the head is a leading STRING that widens the line
		// instead: ("sss" [ ... on the same line
		str := `"` + strings.Repeat("s", c.headLen(3)) + `"`
		for i := 0; i < c.Depth; i++ {
			b.WriteString("[" + str + " [1.50\n ")
		}
		b.WriteString("x" + strings.Repeat("]]", c.Depth))
	case "let":
		// (let ((vvv (let ((vvv ... 1)) body⏎)) body⏎)   every let opens to the
		// right of the name it initialises; its body and its closing bracket are
		// indented from there
		name := strings.Repeat("v", c.headLen(7))
		for i := 0; i < c.Depth; i++ {
			b.WriteString("(let ((" + name + " ")
		}
		b.WriteString("1" + strings.Repeat(")) body\n)", c.Depth))
	case "limit-parens": // innermost list at nesting level Depth
		b.WriteString(strings.Repeat("(", c.Depth) + strings.Repeat(")", c.Depth))
	case "limit-brackets":
		b.WriteString(strings.Repeat("[", c.Depth) + strings.Repeat("]", c.Depth))
	case "limit-comment": // ... holding only a comment
		b.WriteString(strings.Repeat("(", c.Depth) + " ; c1\n; c2\n" + strings.Repeat(")", c.Depth) + " ; end")
	case "limit-quotes": // the atom at level Depth
		b.WriteString(strings.Repeat("'", c.Depth-1) + "x")
	case "limit-funref": // the #'f form at level Depth (its operand is read without descending)
		b.WriteString(strings.Repeat("(", c.Depth-1) + "#'f" + strings.Repeat(")", c.Depth-1))
	case "limit-unbound": // the #^ form at level Depth, its operand one below
		b.WriteString(strings.Repeat("(", c.Depth-1) + "#^x" + strings.Repeat(")", c.Depth-1))
	case "limit-longhand": // (lisp:function f) at level Depth, f one below: the default printer re-sugars it
		b.WriteString(strings.Repeat("(", c.Depth-1) + "(lisp:function f)" + strings.Repeat(")", c.Depth-1))
	case "limit-negative": // a signed literal descends once more than an unsigned one
		b.WriteString(strings.Repeat("[", c.Depth-1) + "-1.50 2" + strings.Repeat("]", c.Depth-1))
	case "ws-spaces":
		// the INPUT holds the long run: spaces between two atoms on one line
		// (the default printer keeps same-line spacing), and before a comment
		b.WriteString("(f a" + strings.Repeat(" ", c.Target) + "b" + strings.Repeat(" ", c.Target) + "; c\n c)")
	case "ws-lines":
		// ... and blank lines + indentation before a child and before a comment
		run := strings.Repeat("\n", c.Target/2) + strings.Repeat(" ", c.Target-c.Target/2)
		b.WriteString("(f a" + run + "b" + run + "; c" + run + "c" + run + ")" + run + "; eof" + run)
	}
	return []byte(b.String())
}

func enumDeep(shard, nshards int, emit func(DeepCase) bool) {
	w := token.DefaultBufSize
	var all []DeepCase
	for _, shape := range []string{"align", "comments", "closing", "bracket", "let"} {
		// few levels, long heads (each head stays far below the window): output
		// is about target x (depth+1) / 2 bytes
		for _, depth := range []int{3, 5} {
			for _, target := range []int{w - 1024, w - depth, w, w + depth, w + 1024, 2*w + 5} {
				all = append(all, DeepCase{shape, depth, target})
			}
		}
		all = append(all, DeepCase{shape, 24, w + 1024})
		// many levels, short heads: runs stay far below the window (crossing it
		// with n levels costs n x 64 KiB of output)
		all = append(all, DeepCase{shape, 400, 6 * 400}, DeepCase{shape, 1000, 3 * 1000})
	}
	for _, shape := range []string{"ws-spaces", "ws-lines"} {
		for _, target := range []int{w - 1024, w - 1, w, w + 1, w + 1024, 2*w + 5, 3 * w} {
			all = append(all, DeepCase{shape, 1, target})
		}
	}
	// nesting at the reader's limit: what the reader refuses Format must refuse
	// (error, no bytes), what it accepts must format, read back and be a fixed
	// point -- in every configuration (the compact printer and the default one
	// do not spell #' / #^ / longhand forms alike, and the spellings do not
	// descend alike)
	for _, shape := range []string{"limit-parens", "limit-brackets", "limit-comment", "limit-quotes", "limit-funref", "limit-unbound", "limit-longhand", "limit-negative"} {
		for _, d := range []int{rdparser.DefaultMaxParseDepth - 2, rdparser.DefaultMaxParseDepth - 1, rdparser.DefaultMaxParseDepth, rdparser.DefaultMaxParseDepth + 1, rdparser.DefaultMaxParseDepth + 2} {
			all = append(all, DeepCase{shape, d, 0})
		}
	}
	for i, c := range all {
		if i%nshards == shard {
			if !emit(c) {
				return
			}
		}
	}
}

// longestSpaceRun: the longest run of white-space bytes in b.
func longestSpaceRun(b []byte) int {
	best, cur := 0, 0
	for _, ch := range b {
		if ch == ' ' || ch == '\n' {
			cur++
			if cur > best {
				best = cur
			}
		} else {
			cur = 0
		}
	}
	return best
}

func checkDeep(c DeepCase, ctx *vcommon.Ctx) *vcommon.Failure {
	src := c.source()
	if strings.HasPrefix(c.Shape, "limit-") {
		_, err := strictRead(src)
		ctx.Class(fmt.Sprintf("%s:%s", c.Shape, map[bool]string{true: "accepted", false: "rejected"}[err == nil]))
		ctx.NonTrivial(fmt.Sprintf("%+v", c))
		ctx.Note(fmt.Sprintf("%+v: source %d bytes, reader error: %v", c, len(src), err))
		// GENUINE DEFECT of the unchanged tree, excluded by construction and
		// counted (NOTES.md "Anchor audit"): the compact printer spells #'f in
		// longhand, (lisp:function f), and the reader descends one level more
		// for the f of the longhand than for the operand of #' (ParseFunRef
		// reads it with ParseSymbol, not ParseExpression).  A #'f at exactly
		// DefaultMaxParseDepth is accepted, and Format(.., {Compact:true})
		// returns text the reader refuses.  Only this one recipe, and only the
		// two compact configurations' read-back, are excused.
		excused := func(k string) bool {
			return c.Shape == "limit-funref" && c.Depth == rdparser.DefaultMaxParseDepth &&
				(k == "compact/output-unreadable" || k == "compactstrip/output-unreadable")
		}
		f := oracle(mkCase(src, Cfg{IndentSize: 1, MaxBlank: 0, RulesKind: 2}), nil, func(k string) bool { return ctx.Known(k) || excused(k) })
		if f != nil && excused(f.Key) {
			// a registered known finding (known_findings.json), keyed by the recipe
			ctx.Class("known:compact/funref-longhand-one-level-deeper")
			return vcommon.Failf(f.Key+"/deep-"+c.Shape, "%+v: %s", c, clip(f.Msg))
		}
		if f != nil {
			return vcommon.Failf(f.Key+"/deep-"+c.Shape, "%+v: %s", c, clip(f.Msg))
		}
		return nil
	}
	if _, err := strictRead(src); err != nil {
		// by construction the reader accepts every recipe (no token is near
		// the window; only white-space runs are): a rejection is the lexer
		// failing to treat a long run as one separator
		return vcommon.Failf("harness/deep-reader-rejects/"+c.Shape, "%+v (%s): the reader rejects text whose only long lexeme is white space: %v", c, short(src), err)
	}
	ctx.NonTrivial(fmt.Sprintf("%+v", c))
	// the full C16 oracle (default, compact, compact+strip, strip, a custom
	// configuration): output reads back to the same trees, literals, brackets,
	// comments and anchors, and is a fixed point
	f := oracle(mkCase(src, Cfg{IndentSize: 4, MaxBlank: 2, RulesKind: 1}), nil, func(k string) bool { return ctx.Known(k) })
	// classify by what the DEFAULT output actually holds
	if out, err := formatDefault(src); err == nil {
		run := longestSpaceRun(out)
		rel := "below"
		if run > token.DefaultBufSize {
			rel = "above"
		} else if run >= token.DefaultBufSize-16 {
			rel = "at"
		}
		ctx.Class(fmt.Sprintf("%s:output-run-%s-window", c.Shape, rel))
		ctx.Note(fmt.Sprintf("%+v: source %d bytes, default output %d bytes, longest white-space run %d", c, len(src), len(out), run))
	}
	if f != nil {
		return vcommon.Failf(f.Key+"/deep-"+c.Shape, "%+v: %s", c, clip(f.Msg))
	}
	return nil
}

func formatDefault(src []byte) ([]byte, error) { return formatter.Format(src, nil) }

func clip(msg string) string {
	if len(msg) > 1500 {
		return msg[:700] + " …… " + msg[len(msg)-500:]
	}
	return msg
}
