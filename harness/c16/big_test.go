package c16

// Tokens around and above the scanner window.  token.NewScanner reads through
// a fixed token.DefaultBufSize (128 KiB) window, which is also the reader's
// maximum token size: what the reader does with a larger string, raw string,
// comment or symbol (reject, split, ...) the formatter must do as well —
// "input the reader rejects is rejected without producing output", and
// everything the reader accepts must format.  The space is finite and
// enumerated; a case is a recipe, not the 400 KiB text.

import (
	"bytes"
	"fmt"
	"strings"
	"unicode/utf8"

	"github.com/luthersystems/elps/formatter"
	"github.com/luthersystems/elps/parser"
	"github.com/luthersystems/elps/parser/token"
	"github.com/luthersystems/elps/verifharness/vcommon"
)

type BigCase struct {
	Kind  string `json:"kind"`  // string | raw | comment | symbol | hashbang | int
	Size  int    `json:"size"`  // length in bytes of the whole token
	Fill  string `json:"fill"`  // repeated content unit
	Place string `json:"place"` // alone | between | nested
}

func (c BigCase) source() []byte {
	body := func(n int) string {
		if n <= 0 {
			return ""
		}
		s := strings.Repeat(c.Fill, n/len(c.Fill)+1)[:n]
		// do not cut a multi-byte rune or an escape pair in half
		for len(s) > 0 {
			if r, w := utf8.DecodeLastRuneInString(s); r == utf8.RuneError && w == 1 {
				s = s[:len(s)-1]
				continue
			}
			break
		}
		bs := 0
		for i := len(s) - 1; i >= 0 && s[i] == '\\'; i-- {
			bs++
		}
		if bs%2 == 1 {
			s = s[:len(s)-1]
		}
		if len(s) < n {
			s += strings.Repeat("a", n-len(s))
		}
		return s
	}
	var tok string
	switch c.Kind {
	case "string":
		tok = `"` + body(c.Size-2) + `"`
	case "raw":
		tok = `"""` + body(c.Size-6) + `"""`
	case "comment":
		tok = ";" + body(c.Size-1) + "\n"
	case "hashbang":
		tok = "#!" + body(c.Size-2) + "\n"
	case "symbol":
		tok = body(c.Size)
	case "int":
		tok = "1" + strings.Repeat("0", c.Size-1)
	}
	switch c.Place {
	case "between":
		if c.Kind == "hashbang" {
			return []byte(tok + "; c1\n(defun f (x) x) ; c2\n")
		}
		return []byte("(defun f (x) x) ; c1\n\n; c2\n" + tok + "\n; c3\n'(1 #xFF) ; c4\n")
	case "nested":
		if c.Kind == "hashbang" {
			return []byte(tok + "\n\n(a)")
		}
		return []byte("(set 'blob ; c1\n  [a " + tok + " b]\n  ; c2\n  )\n")
	}
	return []byte(tok)
}

func enumBig(shard, nshards int, emit func(BigCase) bool) {
	w := token.DefaultBufSize
	sizes := []int{w - 1024, w - 2, w - 1, w, w + 1, w + 2, w + 1024, 200 << 10, 400 << 10}
	type kf struct {
		kind  string
		fills []string
	}
	kinds := []kf{
		{"string", []string{"a", "é", `\n`, "a b"}},
		{"raw", []string{"a", "é", "a\n", "\"q\" ; x\n\n"}},
		{"comment", []string{"a", "é ", "; "}},
		{"hashbang", []string{"a"}},
		{"symbol", []string{"a", "é", "a-b"}},
		{"int", []string{"0"}},
	}
	i := 0
	for _, k := range kinds {
		for _, f := range k.fills {
			for _, sz := range sizes {
				for _, pl := range []string{"alone", "between", "nested"} {
					if i%nshards == shard {
						if !emit(BigCase{Kind: k.kind, Size: sz, Fill: f, Place: pl}) {
							return
						}
					}
					i++
				}
			}
		}
	}
}

func short(b []byte) string {
	if len(b) <= 120 {
		return fmt.Sprintf("%q", b)
	}
	return fmt.Sprintf("%q…(%d bytes)…%q", b[:60], len(b), b[len(b)-40:])
}

func checkBig(c BigCase, ctx *vcommon.Ctx) *vcommon.Failure {
	src := c.source()
	_, errStrict := strictRead(src)
	_, errFmtReader := parser.NewReader(parser.WithFormatPreserving()).Read("c16.lisp", bytes.NewReader(src))
	accepted := errStrict == nil
	rel := "below"
	if c.Size > token.DefaultBufSize {
		rel = "above"
	} else if c.Size >= token.DefaultBufSize-2 {
		rel = "at"
	}
	ctx.Class(fmt.Sprintf("%s-%s-window:%s", c.Kind, rel, map[bool]string{true: "accepted", false: "rejected"}[accepted]))
	ctx.NonTrivial(fmt.Sprintf("%+v", c))
	ctx.Note(fmt.Sprintf("%+v -> %d bytes, reader error: %v", c, len(src), errStrict))
	if (errFmtReader == nil) != accepted {
		return vcommon.Failf("bigtoken/readers-disagree/"+c.Kind, "%+v (%s): strict reader error %v, format-preserving reader error %v", c, short(src), errStrict, errFmtReader)
	}
	for _, nc := range configsFor(Case{Cfg: Cfg{IndentSize: 4, MaxBlank: 2, RulesKind: 1}}) {
		out, err := formatter.Format(src, nc.live())
		mode := nc.cfg.mode()
		switch {
		case !accepted && err == nil:
			return vcommon.Failf(mode+"/accepts-rejected/bigtoken-"+c.Kind, "[%s] the reader rejects %+v (%s): %v — but Format returns %d bytes %s", nc.label, c, short(src), errStrict, len(out), short(out))
		case !accepted && len(out) != 0:
			return vcommon.Failf(mode+"/output-with-error/bigtoken-"+c.Kind, "[%s] Format(%+v) returns error %v together with %d bytes", nc.label, c, err, len(out))
		case accepted && err != nil:
			return vcommon.Failf(mode+"/rejects-accepted/bigtoken-"+c.Kind, "[%s] the reader accepts %+v (%s) but Format fails: %v", nc.label, c, short(src), err)
		}
	}
	if accepted && c.Size > token.DefaultBufSize && (c.Kind == "comment" || c.Kind == "symbol" || c.Kind == "hashbang") {
		// The reader does not refuse an oversized comment or symbol: it SPLITS
		// it at the window, and the tail of a comment is then read as code.
		// Where the split falls depends on the token's offset, so the full
		// oracle (comment texts, anchors) is not meaningful on such input;
		// reader and formatter agreeing on acceptance is what is checked.
		ctx.Class("oversized-" + c.Kind + ":acceptance-agreement-only")
		return nil
	}
	if accepted {
		// the whole C16 oracle on the big text (messages shortened)
		if f := oracle(mkCase(src, Cfg{IndentSize: 3, MaxBlank: 0, RulesKind: 0}), nil, func(k string) bool { return ctx.Known(k) }); f != nil {
			msg := f.Msg
			if len(msg) > 1500 {
				msg = msg[:700] + " …… " + msg[len(msg)-500:]
			}
			return vcommon.Failf(f.Key+"/bigtoken-"+c.Kind, "%+v: %s", c, msg)
		}
	}
	return nil
}
