package c16

import (
	"encoding/json"
	"os"
	"testing"
)

func loadKnown() knownFn {
	set := map[string]bool{}
	if p := os.Getenv("VERIF_KNOWN"); p != "" {
		if b, err := os.ReadFile(p); err == nil {
			var kf struct {
				Findings []struct {
					Property string `json:"property"`
					Key      string `json:"key"`
					Status   string `json:"status"`
				} `json:"findings"`
			}
			if json.Unmarshal(b, &kf) == nil {
				for _, f := range kf.Findings {
					if f.Property == "C16" && f.Status == "known" {
						set[f.Key] = true
					}
				}
			}
		}
	}
	return func(k string) bool { return set[k] }
}

// cfgFromBits decodes a formatter configuration from fuzz bytes.
func cfgFromBits(a, b uint8) Cfg {
	c := Cfg{IndentSize: 1 + int(a&7), MaxBlank: int(a>>3) & 3, Compact: a&32 != 0, Strip: a&64 != 0, RulesKind: int(b & 3)}
	if c.RulesKind >= 2 {
		for i := 0; i < int(b>>2)&3; i++ {
			h := heads[(int(b>>4)+i*7)%len(heads)]
			c.Rules = append(c.Rules, Rule{Name: h, Style: (int(b>>4) + i) % 3, Header: (int(a) + i) % 5})
		}
	}
	return c
}

// FuzzFormatPreserve: byte-level search with the full semantic oracle inside.
func FuzzFormatPreserve(f *testing.F) {
	for _, s := range repoSnippets {
		f.Add([]byte(s), uint8(9), uint8(0))
	}
	for _, s := range []string{
		"'; c\n a", "#^; c\n(+ % 1)", "(a ; c\n)", "(\n; c\n)", "#!x\n; c\n\n(a)", "(lisp:function ; c\n f)", "'#^0", "#'-", "(-- )",
		"[a '(b) '[c] ''d]", "1.50 #xFF #o17 1e5 -0.0 \"\"\"r\n\n\"\"\" \"a\\x41\"", "(a ; c\n-1)", ";\n'\n\n0", "(a)\n; c\n\n#'f\n",
		"(f ''; c\n x)", "(thread-last xs\n (f)\n (g))\n(thread-last\n xs\n (f))", "((a) ; c\n ; d\n\n\n b)", "(defun f (x)\n;flush\n  ; in\n  x)",
	} {
		f.Add([]byte(s), uint8(9), uint8(0))
		f.Add([]byte(s), uint8(0x29), uint8(7))
		f.Add([]byte(s), uint8(0x49), uint8(0)) // default layout + StripComments
	}
	known := loadKnown()
	f.Fuzz(func(t *testing.T, src []byte, a, b uint8) {
		if len(src) > 4096 {
			return
		}
		c := mkCase(src, cfgFromBits(a, b))
		if fl := oracle(c, nil, known); fl != nil && !known(fl.Key) {
			t.Fatalf("[%s] %s", fl.Key, fl.Msg)
		}
	})
}
