// C04 sub-property ref-truncation: what a program may still do AFTER its step
// budget ran out (or its context was cancelled) is predicted by the reference
// interpreter (refint, shares no code with /repo) with a fault injected at an
// evaluation entry: "from the k-th evaluation entry on, every evaluation of an
// expression fails with the limit condition".  The real run under budget n must
// behave like SOME injection point k -- no model of what a construct costs is
// assumed, only that nothing is evaluated after the limit tripped.
package c04

import (
	"fmt"
	"sort"
	"strings"

	"github.com/luthersystems/elps/verifharness/gen"
	"github.com/luthersystems/elps/verifharness/refint"
	"github.com/luthersystems/elps/verifharness/vcommon"
	"pgregory.net/rapid"
)

type RefTrunc struct {
	P    gen.Program `json:"p"`
	Mode string      `json:"mode"` // budget | cancel
}

// rtGen builds programs whose loops sit inside error-swallowing forms that sit
// in NON-terminal slots, followed by literals, symbols and calls.
type rtGen struct {
	t       *rapid.T
	probeID int64
	vars    []string
	stats   map[string]int
}

func (g *rtGen) n(lo, hi int, label string) int { return rapid.IntRange(lo, hi).Draw(g.t, label) }

func (g *rtGen) probe(v gen.Val) gen.Val {
	g.probeID++
	return gen.Call("probe", gen.I(g.probeID), v)
}

func (g *rtGen) lit() gen.Val {
	switch g.n(0, 8, "lit") {
	case 0:
		return gen.I(int64(g.n(-2, 9, "int")))
	case 1:
		return gen.Str(rapid.SampledFrom([]string{"gave-up", "", "ok"}).Draw(g.t, "str"))
	case 2:
		return gen.F(rapid.SampledFrom([]float64{0.5, 2, -1.25}).Draw(g.t, "float"))
	case 3:
		return gen.QS(rapid.SampledFrom([]string{"finished", "gave-up", "a"}).Draw(g.t, "qsym"))
	case 4:
		return gen.QL(gen.I(1), gen.S("b"))
	case 5:
		return gen.L() // ()
	case 6:
		return gen.S(rapid.SampledFrom([]string{"true", "false", ":kw"}).Draw(g.t, "const"))
	case 7:
		return gen.L(gen.S("quote"), gen.S("q"))
	default:
		return gen.I(int64(g.n(0, 3, "int2")))
	}
}

// work: something that takes many evaluation steps (or raises).
func (g *rtGen) work() gen.Val {
	n := int64(g.n(1, 9, "turns"))
	switch g.n(0, 9, "work") {
	case 0, 1:
		g.stats["work/tail-loop"]++
		return gen.Call("spin", gen.I(n))
	case 2:
		g.stats["work/recursion"]++
		return gen.Call("dig", gen.I(n))
	case 3:
		g.stats["work/dotimes"]++
		return gen.L(gen.S("dotimes"), gen.L(gen.S("i"), gen.I(n)), g.probe(gen.S("i")))
	case 4:
		g.stats["work/dotimes-result"]++
		return gen.L(gen.S("dotimes"), gen.L(gen.S("i"), gen.I(n), g.lit()), g.probe(gen.S("i")))
	case 5:
		g.stats["work/map"]++
		return gen.Call("map", gen.QS("list"), gen.L(gen.S("lambda"), gen.L(gen.S("x")), g.probe(gen.S("x"))), gen.QL(gen.I(1), gen.I(2), gen.I(3)))
	case 6:
		g.stats["work/foldl"]++
		return gen.Call("foldl", gen.L(gen.S("lambda"), gen.L(gen.S("a"), gen.S("x")), gen.Call("+", gen.S("a"), gen.S("x"))), gen.I(0), gen.QL(gen.I(1), gen.I(2), gen.I(3), gen.I(4)))
	case 7:
		g.stats["work/probe-then-loop"]++
		return gen.L(gen.S("progn"), g.probe(gen.I(n)), gen.Call("spin", gen.I(n)))
	case 8:
		g.stats["work/raise"]++
		return gen.Call("error", gen.QS("boom"), gen.I(n))
	default:
		g.stats["work/empty-dotimes"]++
		return gen.L(gen.S("dotimes"), gen.L(gen.S("i"), gen.I(n)))
	}
}

// swallow: an error-swallowing form around work.
func (g *rtGen) swallow(depth int) gen.Val {
	inner := g.work()
	if depth > 0 && g.n(0, 3, "nest") == 0 {
		inner = g.ctx(depth - 1)
	}
	switch g.n(0, 6, "swallow") {
	case 0, 1, 2:
		g.stats["swallow/ignore-errors"]++
		return gen.L(gen.S("ignore-errors"), inner)
	case 3:
		g.stats["swallow/ignore-errors-2"]++
		return gen.L(gen.S("ignore-errors"), inner, g.cont(depth-1))
	case 4:
		g.stats["swallow/handler-lambda"]++
		h := gen.L(gen.S("lambda"), gen.L(gen.S("c"), gen.S("&rest"), gen.S("d")), g.cont(0))
		return gen.L(gen.S("handler-bind"), gen.L(gen.L(gen.S("condition"), h)), inner)
	case 5:
		g.stats["swallow/handler-builtin"]++
		return gen.L(gen.S("handler-bind"), gen.L(gen.L(gen.S("condition"), gen.S("list"))), inner)
	default:
		// no swallowing at all: the limit error propagates
		g.stats["swallow/none"]++
		return inner
	}
}

// cont: what follows the swallowing form -- literals, symbols, calls, or another context.
func (g *rtGen) cont(depth int) gen.Val {
	k := g.n(0, 11, "cont")
	switch {
	case k <= 5:
		g.stats["cont/literal"]++
		return g.lit()
	case k == 6 && len(g.vars) > 0:
		g.stats["cont/variable"]++
		return gen.S(g.vars[g.n(0, len(g.vars)-1, "var")])
	case k == 7:
		g.stats["cont/probe"]++
		return g.probe(g.lit())
	case k == 8:
		g.stats["cont/builtin-call"]++
		return gen.Call("list", g.lit(), g.lit())
	case k == 9 && depth > 0:
		return g.ctx(depth - 1)
	case k == 10 && depth > 0:
		return g.swallow(depth - 1)
	default:
		g.stats["cont/literal"]++
		return g.lit()
	}
}

// ctx: an operator with a swallowing form in a non-terminal slot.
func (g *rtGen) ctx(depth int) gen.Val {
	s := g.swallow(depth)
	k1, k2 := g.cont(depth), g.cont(depth)
	switch g.n(0, 15, "ctx") {
	case 0, 1:
		g.stats["slot/if-test"]++
		return gen.L(gen.S("if"), s, k1, k2)
	case 2:
		g.stats["slot/cond-test"]++
		last := rapid.SampledFrom([]string{"else", "true", ":else"}).Draw(g.t, "else")
		return gen.L(gen.S("cond"), gen.L(s, k1), gen.L(gen.S(last), k2))
	case 3:
		g.stats["slot/cond-test-negated"]++
		return gen.L(gen.S("cond"), gen.L(gen.Call("not", s), k1), gen.L(gen.S("else"), k2))
	case 4:
		g.stats["slot/let-init"]++
		g.vars = append(g.vars, "v")
		body := g.cont(depth)
		g.vars = g.vars[:len(g.vars)-1]
		return gen.L(gen.S("let"), gen.L(gen.L(gen.S("v"), s)), body)
	case 5:
		g.stats["slot/let*-init"]++
		g.vars = append(g.vars, "v", "w")
		body := g.cont(depth)
		g.vars = g.vars[:len(g.vars)-2]
		return gen.L(gen.S("let*"), gen.L(gen.L(gen.S("v"), s), gen.L(gen.S("w"), k1)), body)
	case 6:
		g.stats["slot/progn-early"]++
		return gen.L(gen.S("progn"), s, k1)
	case 7:
		g.stats["slot/argument"]++
		return gen.Call("list", s, k1)
	case 8:
		g.stats["slot/argument"]++
		return gen.Call("list", k1, s, k2)
	case 9:
		g.stats["slot/user-call-argument"]++
		return gen.Call(rapid.SampledFrom([]string{"snd", "konst", "fst"}).Draw(g.t, "ufn"), s, k1)
	case 10:
		g.stats["slot/and-operand"]++
		if g.n(0, 1, "andpos") == 0 {
			return gen.L(gen.S("and"), s, k1)
		}
		return gen.L(gen.S("and"), k1, s, k2)
	case 11:
		g.stats["slot/or-operand"]++
		if g.n(0, 1, "orpos") == 0 {
			return gen.L(gen.S("or"), s, k1)
		}
		return gen.L(gen.S("or"), k1, s, k2)
	case 12:
		g.stats["slot/dotimes-body"]++
		return gen.L(gen.S("dotimes"), gen.L(gen.S("j"), gen.I(int64(g.n(1, 3, "outer"))), k1), s)
	case 13:
		g.stats["slot/lambda-argument"]++
		g.vars = append(g.vars, "a")
		body := g.cont(depth)
		g.vars = g.vars[:len(g.vars)-1]
		return gen.Call("funcall", gen.L(gen.S("lambda"), gen.L(gen.S("a")), body), s)
	case 14:
		g.stats["slot/macro-argument"]++
		return gen.Call("unless2", s, k1)
	default:
		g.stats["slot/terminal"]++
		return gen.L(gen.S("progn"), k1, s)
	}
}

var rtPrelude = []gen.Val{
	// (defun spin (n) (if (= n 0) true (spin (- n 1))))
	gen.L(gen.S("defun"), gen.S("spin"), gen.L(gen.S("n")),
		gen.L(gen.S("if"), gen.Call("=", gen.S("n"), gen.I(0)), gen.S("true"), gen.Call("spin", gen.Call("-", gen.S("n"), gen.I(1))))),
	// (defun dig (k) (if (<= k 0) 0 (+ 1 (dig (- k 1)))))
	gen.L(gen.S("defun"), gen.S("dig"), gen.L(gen.S("k")),
		gen.L(gen.S("if"), gen.Call("<=", gen.S("k"), gen.I(0)), gen.I(0), gen.Call("+", gen.I(1), gen.Call("dig", gen.Call("-", gen.S("k"), gen.I(1)))))),
	gen.L(gen.S("defun"), gen.S("snd"), gen.L(gen.S("a"), gen.S("b")), gen.S("b")),
	gen.L(gen.S("defun"), gen.S("fst"), gen.L(gen.S("a"), gen.S("b")), gen.S("a")),
	gen.L(gen.S("defun"), gen.S("konst"), gen.L(gen.S("a"), gen.S("&optional"), gen.S("b")), gen.QS("k")),
	// (defmacro unless2 (c x) (quasiquote (if (unquote c) () (unquote x))))
	gen.L(gen.S("defmacro"), gen.S("unless2"), gen.L(gen.S("c"), gen.S("x")),
		gen.L(gen.S("quasiquote"), gen.L(gen.S("if"), gen.L(gen.S("unquote"), gen.S("c")), gen.L(), gen.L(gen.S("unquote"), gen.S("x"))))),
}

func genRefTrunc() *rapid.Generator[RefTrunc] {
	return rapid.Custom(func(t *rapid.T) RefTrunc {
		g := &rtGen{t: t, stats: map[string]int{}}
		forms := append([]gen.Val{}, rtPrelude...)
		nf := g.n(1, 3, "nforms")
		for i := 0; i < nf; i++ {
			if i > 0 && g.n(0, 2, "plain") == 0 {
				forms = append(forms, g.cont(1))
				continue
			}
			forms = append(forms, g.ctx(g.n(0, 2, "depth")))
		}
		return RefTrunc{
			P:    gen.Program{Forms: forms, Stats: g.stats},
			Mode: rapid.SampledFrom([]string{"budget", "budget", "cancel"}).Draw(t, "mode"),
		}
	})
}

func refForms(p gen.Program) []*refint.V {
	pos := 0
	forms := make([]*refint.V, len(p.Forms))
	for i, f := range p.Forms {
		forms[i] = refint.FromVal(f, &pos)
	}
	return forms
}

func refKey(in *refint.Interp, v *refint.V, e *refint.Err) string {
	var b strings.Builder
	for _, ev := range in.Trace {
		b.WriteString(ev.Tag)
		b.WriteByte('|')
		b.WriteString(ev.Payload)
		b.WriteByte('\n')
	}
	b.WriteString("=> ")
	if e != nil {
		b.WriteString("ERR<" + e.Cond + ">")
	} else {
		b.WriteString(refint.Canon(v))
	}
	return b.String()
}

func realKey(rt *vcommon.Rt, o vcommon.Outcome) string {
	return vcommon.TraceString(rt.Trace) + "=> " + outcome(o)
}

func checkRefTrunc(c RefTrunc, ctx *vcommon.Ctx) *vcommon.Failure {
	if len(c.P.Forms) == 0 {
		return nil
	}
	np := len(rtPrelude)
	if len(c.P.Forms) <= np {
		return nil
	}
	// the helper definitions are loaded without any limit; the limit applies to
	// the top-level load of the generated forms
	pre := gen.Program{Forms: c.P.Forms[:np]}
	main := gen.Program{Forms: c.P.Forms[np:]}
	preSrc, src := pre.Source(), main.Source()
	cond := "step-limit-exceeded"
	if c.Mode == "cancel" {
		cond = "context-cancelled"
	}
	all := refForms(c.P)
	refRun := func(k int) (*refint.Interp, *refint.V, *refint.Err, string) {
		in := refint.New()
		if _, e, ab := in.Run(all[:np]); e != nil || ab != "" {
			return in, nil, e, "prelude failed"
		}
		in.Entries, in.FaultAt, in.FaultCond = 0, k, cond
		v, e, ab := in.Run(all[np:])
		return in, v, e, ab
	}
	// reference, no fault
	in0, rv, rerr, abort := refRun(0)
	if abort != "" || in0.Unsupported != "" {
		ctx.Class("skip/reference-gave-up")
		return nil
	}
	M := in0.Entries
	if M > 1500 {
		ctx.Class("skip/too-long")
		return nil
	}
	want0 := refKey(in0, rv, rerr)
	// real, unlimited
	cfg := vcommon.Cfg{NoStdlib: true, MaxPhysical: 5000, MaxAlloc: 200000}
	run := func(n int64) (*vcommon.Rt, vcommon.Outcome) {
		rt := vcommon.NewRuntime(cfg)
		if o := rt.Load(preSrc); o.IsErr {
			panic("ref-truncation prelude: " + o.Msg)
		}
		rt.Trace = nil
		if c.Mode == "cancel" {
			return rt, rt.Observe(rt.Env.LoadStringContext(&countCtx{after: n - 1}, "test.lisp", src))
		}
		lc := cfg
		lc.MaxSteps = n
		rt.Apply(lc)
		return rt, rt.Load(src)
	}
	rt0, out0 := run(unlimited)
	if out0.Panic {
		return vcommon.Failf("internal-panic", "internal panic in the unlimited run: %s\n%s", out0.Msg, src)
	}
	S := rt0.Env.Runtime.Steps()
	if got := realKey(rt0, out0); got != want0 {
		// a disagreement without any limit is C01's business, not this property's
		ctx.Class("skip/unlimited-runs-disagree")
		return nil
	}
	if S > 3000 {
		ctx.Class("skip/too-long")
		return nil
	}
	// the reference with the fault injected at every entry
	allowed := map[string]int{}
	for k := 1; k <= M; k++ {
		in, v, e, ab := refRun(k)
		if ab != "" {
			ctx.Class("skip/reference-gave-up")
			return nil
		}
		key := refKey(in, v, e)
		if _, ok := allowed[key]; !ok {
			allowed[key] = k
		}
	}
	for k := range c.P.Stats {
		ctx.Class(k)
	}
	ctx.Class("mode/" + c.Mode)
	sawValue, sawOther := false, false
	for n := int64(1); n <= S+1; n++ {
		rt, out := run(n)
		if out.Panic {
			return vcommon.Failf("internal-panic", "internal panic under %s %d: %s\n%s", c.Mode, n, out.Msg, src)
		}
		got := realKey(rt, out)
		if (c.Mode == "budget" && n >= S) || (c.Mode == "cancel" && n > S) {
			if got != want0 {
				return vcommon.Failf("reftrunc/early-trip/"+c.Mode, "%s %d is enough for the %d steps needed, yet the run differs from the unlimited one\nlimited:\n%s\nunlimited:\n%s\nprogram:\n%s", c.Mode, n, S, got, want0, src)
			}
			continue
		}
		if _, ok := allowed[got]; !ok {
			var ks []string
			for k := range allowed {
				ks = append(ks, k)
			}
			sort.Strings(ks)
			return vcommon.Failf("reftrunc/evaluated-after-limit/"+c.Mode,
				"%s: limit %d of the %d steps needed: the run's effects and outcome are not those of ANY point at which evaluation could have stopped for good (reference interpreter, fault injected at each of its %d evaluation entries): something was still evaluated after the limit tripped\nreal:\n%s\n%d possible truncated behaviours, e.g.:\n%s\nprogram:\n%s",
				c.Mode, n, S, M, got, len(allowed), strings.Join(firstN(ks, 4), "\n--\n"), src)
		}
		switch {
		case !out.IsErr:
			sawValue = true
		case out.Cond != cond:
			sawOther = true
		}
		if len(rt.Env.Runtime.Stack.Frames) != 0 || rt.Env.Runtime.EvalNesting() != 0 {
			return vcommon.Failf("reftrunc/dirty-runtime", "after %s %d: %d frames, nesting %d\n%s", c.Mode, n, len(rt.Env.Runtime.Stack.Frames), rt.Env.Runtime.EvalNesting(), src)
		}
	}
	if S >= 10 {
		ctx.NonTrivial(c.Mode + src)
		ctx.Note(fmt.Sprintf("%s S=%d entries=%d truncated-behaviours=%d\n%s", c.Mode, S, M, len(allowed), src))
	}
	if sawValue {
		ctx.Class("post-limit/ended-with-a-value")
	}
	if sawOther {
		ctx.Class("post-limit/ended-with-another-error")
	}
	if len(allowed) >= 3 {
		ctx.Class("truncated-behaviours>=3")
	}
	return nil
}

func firstN(s []string, n int) []string {
	if len(s) > n {
		return s[:n]
	}
	return s
}
