// C04 sub-property bound-routes: the macro-expansion, tail-iteration and
// physical-height bounds hold at their DEFAULTS as well as at configured
// values, and through every route that expands or loops (plain evaluation, the
// eval builtin, macroexpand, macroexpand-1 driven by a lisp loop, funcall /
// apply / map callbacks, host FunCall, nested load-string / load-file from
// inside a function).  Three-part oracle of the property's statement: the work
// is bounded, exceeding the bound is an ordinary catchable error, and the
// runtime is usable afterwards; plus exactness (no early trip, no late trip).
package c04

import (
	"fmt"
	"os"
	"strconv"
	"strings"
	"time"

	"github.com/luthersystems/elps/lisp"
	"github.com/luthersystems/elps/verifharness/vcommon"
	"pgregory.net/rapid"
)

type Route struct {
	Kind    string `json:"kind"`    // macro | tail | physical
	Default bool   `json:"default"` // the bound is left at the interpreter's default
	Limit   int    `json:"limit"`   // the configured bound otherwise
	Route   string `json:"route"`
	Delta   int    `json:"delta"`   // size of the work relative to the largest that fits (<=0 fits)
	Runaway bool   `json:"runaway"` // work without an end
	Catch   string `json:"catch"`   // "", handler-bind, ignore-errors
	// Heavy: a loop of a million turns (the default tail-iteration bound) costs
	// seconds; the quick tier runs such a case only when Heavy is 0 (1 in 16).
	Heavy int `json:"heavy"`
}

// the documented defaults (docs + doc comments of lisp/runtime.go, lisp/config.go)
const (
	defaultMacroDepth = 1000
	defaultTailIter   = 1000000
	defaultPhysical   = 25000
)

var routeNames = map[string][]string{
	"macro":    {"eval", "eval-builtin", "macroexpand", "macroexpand", "macroexpand-1-loop", "load-string", "load-file", "in-defun", "argument", "host-eval"},
	"tail":     {"eval", "funcall", "apply", "map-callback", "load-string", "host-funcall"},
	"physical": {"eval", "funcall", "load-string", "host-funcall"},
}

func genRoute() *rapid.Generator[Route] {
	return rapid.Custom(func(t *rapid.T) Route {
		r := Route{
			Kind:    rapid.SampledFrom([]string{"macro", "macro", "macro", "macro", "tail", "tail", "physical"}).Draw(t, "kind"),
			Default: rapid.Bool().Draw(t, "default"),
			Delta:   rapid.IntRange(-3, 3).Draw(t, "delta"),
			Runaway: rapid.IntRange(0, 5).Draw(t, "runaway") == 0,
			Catch:   rapid.SampledFrom([]string{"", "", "handler-bind", "ignore-errors"}).Draw(t, "catch"),
			Heavy:   rapid.IntRange(0, 15).Draw(t, "heavy"),
		}
		r.Route = rapid.SampledFrom(routeNames[r.Kind]).Draw(t, "route")
		switch r.Kind {
		case "macro":
			r.Limit = rapid.IntRange(1, 40).Draw(t, "limit")
		case "tail":
			r.Limit = rapid.IntRange(1, 60).Draw(t, "limit")
		default:
			r.Limit = rapid.IntRange(30, 90).Draw(t, "limit")
		}
		return r
	})
}

const routeDefs = `
(defmacro down (n) (if (<= n 0) ''bottom (quasiquote (down (unquote (- n 1))))))
(defmacro forever () (quasiquote (forever)))
(defun grind (form k) (if (<= k 0) form (grind (macroexpand-1 form) (- k 1))))
(defun g (n acc) (if (<= n 0) (probe 'h acc) (g (- n 1) (+ acc 1))))
(defun g-forever (n) (g-forever (+ n 1)))
(defun f (n) (if (<= (probe 'h n) 0) 0 (+ 1 (f (- n 1)))))
(defun f-forever (n) (+ 1 (f-forever (+ n 1))))
`

func (r Route) bound() int {
	if !r.Default {
		return r.Limit
	}
	switch r.Kind {
	case "macro":
		return defaultMacroDepth
	case "tail":
		return defaultTailIter
	}
	return defaultPhysical
}

// call renders the unit of work of size n (or the endless one).
func (r Route) work(n int) string {
	switch r.Kind {
	case "macro":
		if r.Runaway {
			return "(forever)"
		}
		return fmt.Sprintf("(down %d)", n)
	case "tail":
		if r.Runaway {
			return "(g-forever 0)"
		}
		return fmt.Sprintf("(g %d 0)", n)
	}
	if r.Runaway {
		return "(f-forever 0)"
	}
	return fmt.Sprintf("(f %d)", n)
}

// source wraps the work in the route.  lib receives files for load-file.
func (r Route) source(n int, lib memLib) string {
	w := r.work(n)
	fn, args := "g", fmt.Sprintf("%d 0", n)
	if r.Kind == "physical" {
		fn, args = "f", fmt.Sprint(n)
	}
	if r.Runaway {
		fn, args = fn+"-forever", "0"
	}
	switch r.Route {
	case "eval-builtin":
		return "(eval '" + w + ")"
	case "macroexpand":
		return "(macroexpand '" + w + ")"
	case "macroexpand-1-loop":
		k := n + 1
		if r.Runaway {
			k = 50
		}
		return fmt.Sprintf("(grind '%s %d)", w, k)
	case "load-string":
		return "(defun run-nested () (list 1) (load-string " + strconv.Quote(w) + "))\n(run-nested)"
	case "load-file":
		lib["work.lisp"] = w
		return "(defun run-nested () (list 1) (load-file \"work.lisp\"))\n(run-nested)"
	case "in-defun":
		return "(defun user-of-macro () " + w + ")\n(user-of-macro)"
	case "argument":
		return "(car (list " + w + "))"
	case "funcall":
		return "(funcall " + fn + " " + args + ")"
	case "apply":
		return "(apply " + fn + " (list " + args + "))"
	case "map-callback":
		return "(car (map 'list (lambda (x) " + w + ") '(1)))"
	}
	return w // eval, host-*
}

func (r Route) wrap(src string) string {
	// the catching form goes around the LAST form of the source
	i := strings.LastIndex(src, "\n")
	head, last := src[:i+1], src[i+1:]
	switch r.Catch {
	case "handler-bind":
		return head + "(handler-bind ((condition (lambda (c &rest d) (list 'caught c)))) " + last + ")"
	case "ignore-errors":
		return head + "(ignore-errors " + last + ")"
	}
	return src
}

func (r Route) cfg(limit int) vcommon.Cfg {
	// The step budget is a safety net only: a missing bound then shows as
	// step-limit-exceeded instead of a run that never returns.
	c := vcommon.Cfg{NoStdlib: true, MaxAlloc: 200000, MaxSteps: 80000000}
	switch r.Kind {
	case "macro":
		c.MaxMacroDepth = limit
		c.MaxSteps = 3000000
	case "tail":
		c.MaxTailIter = limit
	default:
		c.MaxPhysical = limit
		c.MaxSteps = 800000 // endless recursion must not reach the Go stack's end either
	}
	return c
}

func checkRoute(r Route, c *vcommon.Ctx) *vcommon.Failure {
	if len(routeNames[r.Kind]) == 0 || r.Limit < 1 {
		return nil
	}
	B := r.bound()
	if r.Kind == "tail" && r.Default && r.Heavy != 0 && os.Getenv("VERIF_TIER") != "thorough" && os.Getenv("VERIF_REPLAY_FILE") == "" {
		c.Class("skip/million-turn-loop-in-quick-tier")
		return nil
	}
	limit := 0 // 0: leave the default
	if !r.Default {
		limit = r.Limit
	}
	lib := memLib{}
	newRt := func(cfg vcommon.Cfg) *vcommon.Rt {
		cfg.Library = lib
		rt := vcommon.NewRuntime(cfg)
		if o := rt.Load(routeDefs); o.IsErr {
			panic("bound-routes defs: " + o.Msg)
		}
		rt.Trace = nil
		return rt
	}
	// size of the work: the largest that fits, plus Delta
	var n int
	fits := r.Delta <= 0
	switch r.Kind {
	case "macro":
		// (down n) is a chain of n+1 successive expansions
		n = B - 1 + r.Delta
	case "tail":
		// (g n 0) is a loop of n turns
		n = B + r.Delta
	default:
		// the frame count at the deepest point is measured through this very
		// route on two small sizes (it is linear in the recursion depth)
		h := func(k int) int {
			rr := r
			rr.Runaway = false
			rt := newRt(rr.cfg(5000))
			var o vcommon.Outcome
			if rr.Route != "host-funcall" {
				o = rt.Load(rr.wrap(rr.source(k, lib)))
			} else {
				o = rt.Observe(rt.Env.FunCall(rt.Env.GetGlobal(lisp.Symbol("f")), lisp.SExpr([]*lisp.LVal{lisp.Int(k)})))
			}
			m := 0
			for _, e := range rt.Trace {
				if e.Height > m {
					m = e.Height
				}
			}
			if o.IsErr {
				return -1
			}
			return m
		}
		h3, h5 := h(3), h(5)
		per := (h5 - h3) / 2
		if h3 < 0 || h5 < 0 || per < 1 || (h5-h3)%2 != 0 {
			return vcommon.Failf("harness/route-height", "cannot measure the frame count of route %s: %d %d", r.Route, h3, h5)
		}
		base := h3 - 3*per
		n = (B + r.Delta - base) / per
		fits = base+per*n <= B
	}
	if n < 0 {
		n = 0
		fits = true
	}
	either := false
	if r.Kind == "macro" && r.Route == "macroexpand" && r.Delta == 1 {
		// The macroexpand builtin admits one more expansion than evaluation does
		// (observed on the unchanged tree; the documentation does not say which
		// count is meant): exactly one over the bound, either outcome is accepted.
		either = true
	}
	if r.Runaway {
		fits, either = false, false
	}
	if r.Route == "macroexpand-1-loop" {
		// one expansion per call: the bound on SUCCESSIVE expansions never applies
		if r.Kind != "macro" {
			return nil
		}
		fits = true
	}
	c.Class("kind/" + r.Kind)
	c.Class("route/" + r.Kind + "/" + r.Route)
	which := "configured"
	if r.Default {
		which = "default"
	}
	c.Class("bound/" + which)
	c.Class(r.Kind + "/" + which + "/" + map[bool]string{true: "fits", false: "exceeds"}[fits])
	if r.Runaway {
		c.Class("runaway")
	}
	src := r.wrap(r.source(n, lib))
	what := fmt.Sprintf("%s bound %d (%s), route %s, work size %d", r.Kind, B, which, r.Route, n)
	c.NonTrivial(what + r.Catch + fmt.Sprint(r.Runaway))
	c.Note(what + "\n" + src)

	rt := newRt(r.cfg(limit))
	done := make(chan vcommon.Outcome, 1)
	go func() {
		switch r.Route {
		case "host-funcall":
			name := map[string]string{"tail": "g", "physical": "f"}[r.Kind]
			args := []*lisp.LVal{lisp.Int(n), lisp.Int(0)}
			if r.Kind == "physical" {
				args = args[:1]
			}
			if r.Runaway {
				name, args = name+"-forever", []*lisp.LVal{lisp.Int(0)}
			}
			done <- rt.Observe(rt.Env.FunCall(rt.Env.GetGlobal(lisp.Symbol(name)), lisp.SExpr(args)))
		case "host-eval":
			done <- rt.Observe(rt.Env.Eval(epParse(r.work(n))))
		default:
			done <- rt.Load(src)
		}
	}()
	var out vcommon.Outcome
	select {
	case out = <-done:
	case <-time.After(600 * time.Second):
		return vcommon.Failf("route/unbounded/"+r.Kind, "%s: did not return within 600s\n%s", what, src)
	}
	if out.Panic {
		return vcommon.Failf("internal-panic", "%s: internal panic: %s\n%s", what, out.Msg, src)
	}
	host := strings.HasPrefix(r.Route, "host-")
	if out.IsErr && (out.Cond == "step-limit-exceeded" || out.Cond == "context-cancelled") {
		return vcommon.Failf("route/unbounded/"+r.Kind+"/"+r.Route, "%s: the bound did not stop the work; only the safety-net step budget did (%s: %s)\n%s", what, out.Cond, out.Msg, src)
	}
	if r.Kind == "physical" {
		for _, e := range rt.Trace {
			if e.Height > B {
				return vcommon.Failf("route/physical-exceeded/"+r.Route, "%s: probe observed %d frames\n%s", what, e.Height, src)
			}
		}
	}
	if either {
		c.Class("macroexpand/one-over-either-outcome")
		fits = !out.IsErr && r.Catch == "" || r.Catch == "handler-bind" && !strings.HasPrefix(out.Canon, "'('caught") || r.Catch == "ignore-errors" && out.Canon != "()"
	}
	if fits {
		var want string
		switch {
		case r.Route == "macroexpand-1-loop" && r.Runaway:
			want = out.Canon // 50 single expansions of an endless chain: any value, no error
		case r.Route == "macroexpand" || r.Route == "macroexpand-1-loop":
			// metamorphic: the full expansion is what single expansions add up
			// to -- each route is checked against the OTHER one, run under a
			// bound far above the chain's length
			ref := newRt(vcommon.Cfg{NoStdlib: true, MaxSteps: unlimited, MaxMacroDepth: 100000})
			other := fmt.Sprintf("(grind '%s %d)", r.work(n), n+1)
			if r.Route == "macroexpand-1-loop" {
				other = "(macroexpand '" + r.work(n) + ")"
			}
			o := ref.Load(other)
			if o.IsErr {
				return vcommon.Failf("harness/route-reference", "reference expansion failed: %s", o.Msg)
			}
			want = o.Canon
		case r.Kind == "macro":
			want = "'bottom"
		case r.Kind == "tail":
			want = fmt.Sprint(n)
		default:
			want = fmt.Sprint(n)
		}
		if out.IsErr || out.Canon != want {
			return vcommon.Failf("route/early-trip/"+r.Kind+"/"+r.Route, "%s fits, yet the outcome is %s (%s), want %s\n%s", what, outcome(out), out.Msg, want, src)
		}
	} else {
		catch := r.Catch
		if host {
			catch = ""
		}
		switch catch {
		case "":
			if !out.IsErr {
				return vcommon.Failf("route/late-trip/"+r.Kind+"/"+r.Route, "%s exceeds the bound, yet the run returned %s\n%s", what, outcome(out), src)
			}
			if out.Cond != "error" {
				return vcommon.Failf("route/not-ordinary-error/"+r.Kind+"/"+r.Route, "%s exceeds the bound: condition %s (%s), want an ordinary error\n%s", what, out.Cond, out.Msg, src)
			}
		case "handler-bind":
			if out.IsErr || out.Canon != "'('caught 'error)" {
				return vcommon.Failf("route/not-catchable/"+r.Kind+"/"+r.Route, "%s exceeds the bound; handler-bind gives %s (%s), want '('caught 'error)\n%s", what, outcome(out), out.Msg, src)
			}
		case "ignore-errors":
			if out.IsErr || out.Canon != "()" {
				return vcommon.Failf("route/not-catchable/"+r.Kind+"/"+r.Route, "%s exceeds the bound; ignore-errors gives %s (%s), want ()\n%s", what, outcome(out), out.Msg, src)
			}
		}
	}
	// usable afterwards
	rn := rt.Env.Runtime
	if len(rn.Stack.Frames) != 0 || rn.EvalNesting() != 0 || rn.CurrentCondition() != nil {
		return vcommon.Failf("route/dirty-runtime", "%s: afterwards %d frames, nesting %d, pending condition %v\n%s", what, len(rn.Stack.Frames), rn.EvalNesting(), rn.CurrentCondition() != nil, src)
	}
	rt.Apply(vcommon.Cfg{MaxSteps: unlimited, MaxPhysical: 1000, MaxTailIter: 100000, MaxMacroDepth: 1000})
	if o := rt.Load(sanity); o.IsErr || o.Canon != "'(10 'h 2)" {
		return vcommon.Failf("route/unusable-after", "%s: afterwards the sanity program gives %s (%s)\n%s", what, outcome(o), o.Msg, src)
	}
	return nil
}
