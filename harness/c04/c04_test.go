// C04: execution limits only truncate a computation and bound work and stack
// exactly.
package c04

import (
	"strconv"
	"context"
	"fmt"
	"strings"
	"testing"
	"time"

	"github.com/luthersystems/elps/lisp"
	"github.com/luthersystems/elps/parser"
	"github.com/luthersystems/elps/verifharness/gen"
	"github.com/luthersystems/elps/verifharness/vcommon"
	"pgregory.net/rapid"
)

const unlimited = int64(1) << 40

type evs []vcommon.Event

func render(tr []vcommon.Event, upto int64) string {
	var b strings.Builder
	for _, e := range tr {
		if upto >= 0 && e.Steps > upto {
			continue
		}
		fmt.Fprintf(&b, "%d|%s|%s\n", e.Steps, e.Tag, e.Payload)
	}
	return b.String()
}

func outcome(o vcommon.Outcome) string {
	if o.IsErr {
		return "ERR<" + o.Cond + ">"
	}
	return o.Canon
}


// marked renders the program with a top-level marker probe before every form,
// so the baseline trace carries the step index at which each form starts, and
// returns for every probe tag the index of the top-level form that owns it.
func marked(p gen.Program) (string, map[string]int) {
	var b strings.Builder
	owner := map[string]int{}
	var scan func(v gen.Val, i int)
	scan = func(v gen.Val, i int) {
		if v.K == "list" && len(v.L) >= 2 && v.L[0].K == "sym" && string(v.L[0].B) == "probe" && v.L[1].K == "int" {
			owner[fmt.Sprint(v.L[1].I)] = i
		}
		for _, c := range v.L {
			scan(c, i)
		}
	}
	for i, f := range p.Forms {
		fmt.Fprintf(&b, "(probe 'form %d)\n", i)
		b.WriteString(gen.Render(f))
		b.WriteByte('\n')
		scan(f, i)
	}
	return b.String(), owner
}

// truncation checks the relation between a limited run and the measured
// unlimited run.  lastOK is the last step index that may still succeed (n for a
// step budget, n-1 for cancellation at the n-th poll).  Effects up to lastOK
// must be EXACTLY the unlimited run's effects up to lastOK.  Later effects can
// only exist when an error-swallowing form intercepted the limit error: then a
// builtin application whose arguments were already evaluated may still
// complete, but only inside the top-level form in which the limit tripped --
// every later top-level form needs an evaluation step and so cannot start.
func truncation(limited, base []vcommon.Event, lastOK int64, swallow bool, owner map[string]int) string {
	var pre, post []vcommon.Event
	for _, e := range limited {
		if e.Steps <= lastOK {
			pre = append(pre, e)
		} else {
			post = append(post, e)
		}
	}
	if got, want := render(pre, -1), render(base, lastOK); got != want {
		return fmt.Sprintf("effects up to step %d differ from the unlimited run's\nlimited:\n%s\nunlimited (restricted):\n%s", lastOK, got, want)
	}
	if len(post) == 0 {
		return ""
	}
	if !swallow {
		return fmt.Sprintf("effects happened after the limit tripped (no error-swallowing form present):\n%s", render(post, -1))
	}
	started := -1
	for _, e := range base {
		if e.Tag == "'form" && e.Steps <= lastOK {
			started++
		}
	}
	for _, e := range post {
		if e.Tag == "'form" {
			return fmt.Sprintf("a later top-level form started after the limit tripped:\n%s", render(post, -1))
		}
		// effects written in EARLIER forms are fine (a function defined there
		// may be the pending application); effects of LATER forms cannot run
		if o, ok := owner[e.Tag]; ok && o > started {
			return fmt.Sprintf("an effect of top-level form %d happened after the limit tripped inside form %d:\n%s", o, started, render(post, -1))
		}
	}
	return ""
}

// ---------- step budget: fault enumeration over every n ----------

type Budget struct {
	P1 gen.Program `json:"p1"`
	P2 gen.Program `json:"p2"`
	// Pick selects sampled budgets when the program is too long to enumerate.
	Pick []uint16 `json:"pick"`
}

func genBudget() *rapid.Generator[Budget] {
	return rapid.Custom(func(t *rapid.T) Budget {
		return Budget{
			P1:   gen.GenProgramWith(gen.ProgOpts{MaxForms: 4, Budget: 45, Depth: 5, Extra: true}).Draw(t, "p1"),
			P2:   gen.GenProgramWith(gen.ProgOpts{MaxForms: 2, Budget: 20, Depth: 4, Extra: true, Prefix: "q"}).Draw(t, "p2"),
			Pick: rapid.SliceOfN(rapid.Uint16(), 48, 48).Draw(t, "pick"),
		}
	})
}

type baseline struct {
	trace []vcommon.Event
	out   vcommon.Outcome
	steps int64
	err   string
}

func baseRun(src string, pre string) (baseline, bool) {
	rt := vcommon.NewRuntime(vcommon.Cfg{MaxSteps: unlimited, NoStdlib: true, MaxPhysical: 5000, MaxAlloc: 200000})
	if pre != "" {
		rt.Load(pre)
		rt.Trace = nil
		rt.Stderr.Reset()
	}
	out := rt.Load(src)
	b := baseline{trace: rt.Trace, out: out, steps: rt.Env.Runtime.Steps(), err: rt.Stderr.String()}
	// a baseline that hits another limit is not a usable reference
	if out.IsErr && (strings.Contains(out.Msg, "stack height exceeded") || strings.Contains(out.Msg, "tail-call iteration") ||
		out.Cond == "eval-nesting-exceeded" || strings.Contains(out.Msg, "exceeds maximum") || strings.Contains(out.Msg, "macro expansion depth")) {
		return b, false
	}
	return b, true
}

func swallows(src string) bool {
	return strings.Contains(src, "(ignore-errors") || strings.Contains(src, "(handler-bind")
}

func budgets(s int64, pick []uint16) []int64 {
	var ns []int64
	if s <= 400 {
		for n := int64(1); n <= s+2; n++ {
			ns = append(ns, n)
		}
		return ns
	}
	seen := map[int64]bool{}
	add := func(n int64) {
		if n >= 1 && !seen[n] {
			seen[n] = true
			ns = append(ns, n)
		}
	}
	for n := int64(1); n <= 64; n++ {
		add(n)
	}
	for n := s - 32; n <= s+2; n++ {
		add(n)
	}
	for _, p := range pick {
		add(1 + int64(p)%s)
	}
	return ns
}

func checkBudget(b Budget, c *vcommon.Ctx) *vcommon.Failure {
	src1, own1 := marked(b.P1)
	src2, own2 := marked(b.P2)
	base1, ok1 := baseRun(src1, "")
	base2, ok2 := baseRun(src2, "")
	if !ok1 || !ok2 || base1.steps > 200000 {
		c.Class("skip/baseline-hit-other-limit")
		return nil
	}
	if base1.out.Panic || base2.out.Panic {
		return vcommon.Failf("internal-panic", "internal panic in the unlimited run: %s %s\n%s", base1.out.Msg, base2.out.Msg, src1)
	}
	S := base1.steps
	if S >= 10 && len(base1.trace) >= 2 {
		c.NonTrivial(src1)
		c.Note(fmt.Sprintf("S=%d S2=%d\n%s", S, base2.steps, src1))
	}
	if swallows(src1) {
		c.Class("has/error-swallowing-form")
	}
	if strings.Contains(src1, "(dotimes") {
		c.Class("has/dotimes")
	}
	ns := budgets(S, b.Pick)
	if S <= 400 {
		c.Class("budgets/exhaustive")
	} else {
		c.Class("budgets/sampled")
	}
	for _, n := range ns {
		rt := vcommon.NewRuntime(vcommon.Cfg{MaxSteps: n, NoStdlib: true, MaxPhysical: 5000, MaxAlloc: 200000})
		done := make(chan vcommon.Outcome, 1)
		go func() { done <- rt.Load(src1) }()
		var out vcommon.Outcome
		select {
		case out = <-done:
		case <-time.After(60 * time.Second):
			return vcommon.Failf("budget/no-termination", "evaluation under a budget of %d steps did not terminate within 60s (unlimited run needs %d steps)\n%s", n, S, src1)
		}
		if out.Panic {
			return vcommon.Failf("internal-panic", "internal panic under budget %d: %s\n%s", n, out.Msg, src1)
		}
		// (ii) exactly the prefix of the unlimited run
		if d := truncation(rt.Trace, base1.trace, n, swallows(src1), own1); d != "" {
			return vcommon.Failf("budget/trace-not-prefix", "under a budget of %d steps (unlimited needs %d): %s\nprogram:\n%s", n, S, d, src1)
		}
		if n >= S {
			// (iii) identical outcome
			if outcome(out) != outcome(base1.out) || rt.Stderr.String() != base1.err {
				return vcommon.Failf("budget/early-trip", "budget %d >= %d needed steps, yet the outcome differs: limited %s (%s) unlimited %s\n%s",
					n, S, outcome(out), out.Msg, outcome(base1.out), src1)
			}
		} else {
			if !(out.IsErr && out.Cond == "step-limit-exceeded") && !swallows(src1) {
				return vcommon.Failf("budget/late-trip", "budget %d < %d needed steps, yet the run ended with %s (%s) instead of step-limit-exceeded\n%s",
					n, S, outcome(out), out.Msg, src1)
			}
		}
		// runtime left clean
		if len(rt.Env.Runtime.Stack.Frames) != 0 || rt.Env.Runtime.EvalNesting() != 0 {
			return vcommon.Failf("budget/dirty-runtime", "after budget %d: %d frames, nesting %d\n%s", n, len(rt.Env.Runtime.Stack.Frames), rt.Env.Runtime.EvalNesting(), src1)
		}
		// (iv) a new top-level evaluation starts with a full budget
		rt.Trace = nil
		rt.Stderr.Reset()
		out2 := rt.Load(src2)
		if d := truncation(rt.Trace, base2.trace, n, swallows(src2), own2); d != "" {
			return vcommon.Failf("budget/no-refill", "second top-level load under budget %d (needs %d steps; first load needed %d): %s\nfirst:\n%s\nsecond:\n%s",
				n, base2.steps, S, d, src1, src2)
		}
		if n >= base2.steps {
			if outcome(out2) != outcome(base2.out) {
				return vcommon.Failf("budget/no-refill", "second top-level load needs %d <= %d steps but its outcome is %s (%s), unlimited %s\nfirst:\n%s\nsecond:\n%s",
					base2.steps, n, outcome(out2), out2.Msg, outcome(base2.out), src1, src2)
			}
		} else if !(out2.IsErr && out2.Cond == "step-limit-exceeded") && !swallows(src2) {
			return vcommon.Failf("budget/late-trip", "second load: budget %d < %d needed steps, yet outcome %s\n%s", n, base2.steps, outcome(out2), src2)
		}
	}
	return nil
}

// ---------- cancellation at every step index ----------

// countCtx reports cancellation after a fixed number of Err() polls: the
// harness owns the schedule, no wall clock involved.
type countCtx struct {
	polls int64
	after int64
}

func (c *countCtx) Deadline() (time.Time, bool) { return time.Time{}, false }
func (c *countCtx) Done() <-chan struct{}       { return nil }
func (c *countCtx) Value(any) any               { return nil }
func (c *countCtx) Err() error {
	c.polls++
	if c.polls > c.after {
		return context.Canceled
	}
	return nil
}

// memLib is a one-directory in-memory source library.
type memLib map[string]string

func (m memLib) LoadSource(ctx lisp.SourceContext, loc string) (string, string, []byte, error) {
	src, ok := m[loc]
	if !ok {
		return "", "", nil, fmt.Errorf("no such file: %s", loc)
	}
	return loc, loc, []byte(src), nil
}

type Cancel struct {
	P    gen.Program `json:"p"`
	Pick []uint16    `json:"pick"`
	// Nested: the program is not loaded directly but by a nested load made from
	// inside a function ("load-string", "load-bytes") -- the context of the
	// outer entry point governs the nested evaluation too.
	Nested string `json:"nested"`
}

func genCancel() *rapid.Generator[Cancel] {
	return rapid.Custom(func(t *rapid.T) Cancel {
		return Cancel{
			P:    gen.GenProgramWith(gen.ProgOpts{MaxForms: 3, Budget: 40, Depth: 5, Extra: true}).Draw(t, "p"),
			Pick:   rapid.SliceOfN(rapid.Uint16(), 32, 32).Draw(t, "pick"),
			Nested: rapid.SampledFrom([]string{"", "", "load-string", "load-bytes", "load-file", "host-load-file"}).Draw(t, "nested"),
		}
	})
}

func checkCancel(cs Cancel, c *vcommon.Ctx) *vcommon.Failure {
	src, own := marked(cs.P)
	direct := src
	switch cs.Nested {
	case "load-string":
		src = "(defun run-nested () (list 1) (load-string " + strconv.Quote(src) + "))\n(run-nested)\n"
		c.Class("nested/load-string")
	case "load-bytes":
		src = "(defun run-nested () (let ((k 1)) (load-bytes (to-bytes " + strconv.Quote(src) + "))))\n(list (run-nested))\n"
		c.Class("nested/load-bytes")
	case "load-file":
		// the program is a FILE of the source library, loaded from inside a function
		src = "(defun run-nested () (list 1) (load-file \"prog.lisp\"))\n(run-nested)\n"
		c.Class("nested/load-file")
	case "host-load-file":
		// ... or by the host, through the LoadFileContext entry point
		c.Class("nested/host-load-file")
	}
	lib := memLib{"prog.lisp": direct}
	load := func(rt *vcommon.Rt, ctx context.Context) *lisp.LVal {
		if cs.Nested == "host-load-file" {
			return rt.Env.LoadFileContext(ctx, "prog.lisp")
		}
		return rt.Env.LoadStringContext(ctx, "test.lisp", src)
	}
	// baseline: a context that never cancels (so steps are counted the same way)
	never := &countCtx{after: 1 << 60}
	rt0 := vcommon.NewRuntime(vcommon.Cfg{NoStdlib: true, MaxPhysical: 5000, MaxAlloc: 200000, Library: lib})
	out0 := rt0.Observe(load(rt0, never))
	S := rt0.Env.Runtime.Steps()
	if out0.IsErr && (strings.Contains(out0.Msg, "stack height exceeded") || out0.Cond == "eval-nesting-exceeded") || S > 100000 {
		c.Class("skip/baseline-hit-other-limit")
		return nil
	}
	if cs.Nested != "" && !out0.IsErr {
		// every evaluation step of the program is still a step -- counted and
		// polled -- when the program is loaded by a nested load
		nv := &countCtx{after: 1 << 60}
		rtd := vcommon.NewRuntime(vcommon.Cfg{NoStdlib: true, MaxPhysical: 5000, MaxAlloc: 200000})
		outd := rtd.Observe(rtd.Env.LoadStringContext(nv, "test.lisp", direct))
		if sd := rtd.Env.Runtime.Steps(); !outd.IsErr && S < sd {
			return vcommon.Failf("cancel/nested-load-not-polled", "loaded directly the program takes %d steps (context polled %d times); loaded through %s from inside a function the whole run takes only %d steps (%d polls): the nested evaluation is neither counted nor cancellable\n%s", sd, nv.polls, cs.Nested, S, never.polls, src)
		}
	}
	if never.polls != S {
		return vcommon.Failf("cancel/poll-count", "the context was polled %d times in %d steps: cancellation is not checked at every step\n%s", never.polls, S, src)
	}
	if S >= 10 {
		c.NonTrivial(src)
		c.Note(fmt.Sprintf("S=%d\n%s", S, src))
	}
	if strings.Contains(src, "(dotimes (i ") {
		c.Class("has/dotimes")
	}
	for _, n := range budgets(S, cs.Pick) {
		ctx := &countCtx{after: n - 1} // the n-th poll reports cancellation
		rt := vcommon.NewRuntime(vcommon.Cfg{NoStdlib: true, MaxPhysical: 5000, MaxAlloc: 200000, Library: lib})
		out := rt.Observe(load(rt, ctx))
		if out.Panic {
			return vcommon.Failf("internal-panic", "internal panic when cancelled at poll %d: %s\n%s", n, out.Msg, src)
		}
		// every effect strictly before the cancelling step happened, nothing after
		if d := truncation(rt.Trace, rt0.Trace, n-1, swallows(src+direct), own); d != "" {
			return vcommon.Failf("cancel/trace-not-prefix", "cancelled at step %d of %d: %s\n%s", n, S, d, src)
		}
		if n <= S {
			if !(out.IsErr && out.Cond == "context-cancelled") && !swallows(src+direct) {
				return vcommon.Failf("cancel/not-stopped", "context cancelled at step %d of %d but the run ended with %s (%s)\n%s", n, S, outcome(out), out.Msg, src)
			}
		} else if outcome(out) != outcome(out0) {
			return vcommon.Failf("cancel/early", "context never reported cancellation within %d steps, yet outcome %s differs from %s\n%s", S, outcome(out), outcome(out0), src)
		}
		if len(rt.Env.Runtime.Stack.Frames) != 0 || rt.Env.Runtime.EvalNesting() != 0 {
			return vcommon.Failf("cancel/dirty-runtime", "after cancellation at %d: %d frames, nesting %d\n%s", n, len(rt.Env.Runtime.Stack.Frames), rt.Env.Runtime.EvalNesting(), src)
		}
	}
	return nil
}

// ---------- stack / nesting / tail-iteration / macro-depth bounds ----------

type Depth struct {
	Kind  string `json:"kind"`  // physical | nesting | tail | macro
	Shape int    `json:"shape"` // body variant
	N     int    `json:"n"`     // recursion depth / iterations / expansions
	Delta int    `json:"delta"` // limit = threshold + delta (delta in -3..+3)
	Catch string `json:"catch"` // "", "handler-bind", "ignore-errors"
	Dig   int    `json:"dig"`   // tail kind: depth of a non-tail excursion on the loop's second turn (0 = none)
}

func genDepth() *rapid.Generator[Depth] {
	return rapid.Custom(func(t *rapid.T) Depth {
		return Depth{
			Kind:  rapid.SampledFrom([]string{"physical", "physical", "nesting", "tail", "macro"}).Draw(t, "kind"),
			Shape: rapid.IntRange(0, 4).Draw(t, "shape"),
			N:     rapid.IntRange(1, 60).Draw(t, "n"),
			Delta: rapid.IntRange(-3, 3).Draw(t, "delta"),
			Catch: rapid.SampledFrom([]string{"", "", "handler-bind", "ignore-errors"}).Draw(t, "catch"),
			Dig:   rapid.SampledFrom([]int{0, 0, 0, 40, 300, 700}).Draw(t, "dig"),
		}
	})
}

func (d Depth) program() (defs, call string) {
	switch d.Kind {
	case "physical", "nesting":
		// non-tail recursion; the probe sits in the deepest argument position
		bodies := []string{
			"(if (<= (probe 'h n) 0) 0 (+ 1 (f (- n 1))))",
			"(cond ((<= (probe 'h n) 0) 0) (else (+ 1 (f (- n 1)))))",
			"(let ([m n]) (if (<= (probe 'h m) 0) 0 (+ 1 (f (- m 1)))))",
			"(if (<= (probe 'h n) 0) 0 (+ 1 (funcall f (- n 1))))",
			"(if (<= (probe 'h n) 0) 0 (car (list (+ 1 (apply f (list (- n 1)))))))",
		}
		return "(defun f (n) " + bodies[d.Shape] + ")", fmt.Sprintf("(f %d)", d.N)
	case "tail":
		bodies := []string{
			"(if (<= n 0) (probe 'h acc) (g (- n 1) (+ acc 1)))",
			"(cond ((<= n 0) (probe 'h acc)) (else (g (- n 1) (+ acc 1))))",
			"(progn (probe 'p n) (if (<= n 0) (probe 'h acc) (g (- n 1) (+ acc 1))))",
			"(if (<= n 0) (probe 'h acc) (funcall g (- n 1) (+ acc 1)))",
			"(let ([m (- n 1)]) (if (< m 0) (probe 'h acc) (g m (+ acc 1))))",
		}
		if d.Dig > 0 {
			// on its second turn the loop's body makes a deep non-tail
			// excursion: the call stack grows far beyond anything this runtime
			// has held so far while the loop's own frame is live
			return fmt.Sprintf("(defun dig (k) (if (<= k 0) 0 (+ 1 (dig (- k 1)))))\n(defun g (n acc) (if (= acc 1) (dig %d) 0) %s)", d.Dig, bodies[d.Shape]), fmt.Sprintf("(g %d 0)", d.N)
		}
		return "(defun g (n acc) " + bodies[d.Shape] + ")", fmt.Sprintf("(g %d 0)", d.N)
	default: // macro: a chain of exactly N re-expansions
		return "(defmacro m (n) (if (<= n 0) (quasiquote (probe 'h 42)) (quasiquote (m (unquote (- n 1))))))", fmt.Sprintf("(m %d)", d.N)
	}
}

func (d Depth) cfg(limit int) vcommon.Cfg {
	c := vcommon.Cfg{MaxSteps: unlimited, NoStdlib: true, MaxAlloc: 200000}
	switch d.Kind {
	case "physical":
		c.MaxPhysical = limit
	case "nesting":
		c.MaxNesting = limit
	case "tail":
		c.MaxTailIter = limit
	case "macro":
		c.MaxMacroDepth = limit
	}
	return c
}

const sanity = "(defun sane (n acc) (if (<= n 0) acc (sane (- n 1) (+ acc n)))) (list (sane 4 0) (handler-bind ((condition (lambda (c &rest d) 'h))) (error 'x)) (let ([x 1]) (set! x (+ x 1)) x))"

func checkDepth(d Depth, c *vcommon.Ctx) *vcommon.Failure {
	if d.N < 1 || d.Shape < 0 || d.Shape > 4 {
		return nil
	}
	defs, call := d.program()
	// unlimited observation
	rt0 := vcommon.NewRuntime(vcommon.Cfg{MaxSteps: unlimited, NoStdlib: true, MaxAlloc: 200000})
	wrapped := call
	switch d.Catch {
	case "handler-bind":
		wrapped = "(handler-bind ((condition (lambda (c &rest d) (list 'caught c)))) " + call + ")"
	case "ignore-errors":
		wrapped = "(ignore-errors " + call + ")"
	}
	out0 := rt0.Load(defs + "\n" + wrapped)
	if out0.IsErr {
		return vcommon.Failf("depth/baseline-error", "baseline failed: %s (%s)\n%s %s", out0.Cond, out0.Msg, defs, call)
	}
	maxH, maxN := 0, 0
	for _, e := range rt0.Trace {
		if e.Height > maxH {
			maxH = e.Height
		}
		if e.Nesting > maxN {
			maxN = e.Nesting
		}
	}
	var threshold int // smallest limit under which the program must succeed
	switch d.Kind {
	case "physical":
		threshold = maxH
	case "nesting":
		threshold = maxN + 1 // the probe's own arguments are evaluated one level below it
	case "tail":
		threshold = d.N
	case "macro":
		threshold = d.N + 1 // (m N) ... (m 0): N+1 successive expansions
	}
	limit := threshold + d.Delta
	if limit < 1 {
		limit = 1
	}
	c.Class("kind/" + d.Kind)
	if limit >= threshold {
		c.Class("fits")
	} else {
		c.Class("exceeds")
	}
	c.NonTrivial(fmt.Sprintf("%s/%d/%d/%d/%s", d.Kind, d.Shape, d.N, limit, d.Catch))
	c.Note(fmt.Sprintf("%s limit=%d threshold=%d\n%s\n%s", d.Kind, limit, threshold, defs, call))
	rt := vcommon.NewRuntime(d.cfg(limit))
	if o := rt.Load(defs); o.IsErr {
		return vcommon.Failf("depth/def-error", "definition failed under limit: %s", o.Msg)
	}
	out := rt.Load(wrapped)
	if out.Panic {
		return vcommon.Failf("internal-panic", "exceeding the %s bound produced an internal panic: %s", d.Kind, out.Msg)
	}
	// the bound is never exceeded while running
	for _, e := range rt.Trace {
		if d.Kind == "physical" && e.Height > limit {
			return vcommon.Failf("depth/physical-exceeded", "probe observed %d frames under a physical maximum of %d\n%s %s", e.Height, limit, defs, call)
		}
		if d.Kind == "nesting" && e.Nesting > limit {
			return vcommon.Failf("depth/nesting-exceeded", "probe observed evaluator nesting %d under a maximum of %d\n%s %s", e.Nesting, limit, defs, call)
		}
	}
	if limit >= threshold {
		// no early trip: identical value and trace
		want := out0.Canon
		if out.IsErr || out.Canon != want {
			return vcommon.Failf("depth/early-trip/"+d.Kind, "%s limit %d >= needed %d, yet outcome %s (%s), want %s\n%s %s", d.Kind, limit, threshold, outcome(out), out.Msg, want, defs, wrapped)
		}
		if vcommon.TraceString(rt.Trace) != vcommon.TraceString(rt0.Trace) {
			return vcommon.Failf("depth/early-trip/"+d.Kind, "%s limit %d >= needed %d, yet the trace differs\n%s %s", d.Kind, limit, threshold, defs, wrapped)
		}
	} else {
		// no late trip: an ordinary, catchable error
		switch d.Catch {
		case "":
			wantCond := "error"
			if d.Kind == "nesting" {
				wantCond = "eval-nesting-exceeded"
			}
			if !out.IsErr || out.Cond != wantCond {
				return vcommon.Failf("depth/late-trip/"+d.Kind, "%s limit %d < needed %d, yet outcome %s (%s)\n%s %s", d.Kind, limit, threshold, outcome(out), out.Msg, defs, wrapped)
			}
		case "handler-bind":
			if out.IsErr || !strings.HasPrefix(out.Canon, "'('caught ") {
				return vcommon.Failf("depth/not-catchable/"+d.Kind, "exceeding the %s bound (limit %d < %d) was not catchable by handler-bind: %s (%s)\n%s %s", d.Kind, limit, threshold, outcome(out), out.Msg, defs, wrapped)
			}
		case "ignore-errors":
			if out.IsErr || out.Canon != "()" {
				return vcommon.Failf("depth/not-catchable/"+d.Kind, "exceeding the %s bound (limit %d < %d) was not swallowed by ignore-errors: %s (%s)\n%s %s", d.Kind, limit, threshold, outcome(out), out.Msg, defs, wrapped)
			}
		}
	}
	// the runtime is still usable and clean
	r := rt.Env.Runtime
	if len(r.Stack.Frames) != 0 || r.EvalNesting() != 0 || r.CurrentCondition() != nil {
		return vcommon.Failf("depth/dirty-runtime", "after the %s bound: %d frames, nesting %d, pending condition %v", d.Kind, len(r.Stack.Frames), r.EvalNesting(), r.CurrentCondition() != nil)
	}
	rt.Apply(vcommon.Cfg{MaxSteps: unlimited, MaxPhysical: 1000, MaxNesting: 10000, MaxTailIter: 100000, MaxMacroDepth: 1000})
	if o := rt.Load(sanity); o.IsErr || o.Canon != "'(10 'h 2)" {
		return vcommon.Failf("depth/unusable-after", "runtime not usable after the %s bound: sanity program gives %s (%s)", d.Kind, outcome(o), o.Msg)
	}
	return nil
}

// ---------- pending sleep is interrupted by cancellation (wall clock, wide margins) ----------

type Sleep struct {
	CancelMs int `json:"cancel_ms"`
	// Kind: "" plain WithCancel; "timeout" the cancel func of a WithTimeout far
	// longer than the sleep; "child" a WithCancel child of such a context.
	Kind string `json:"kind"`
}

func checkSleep(s Sleep, c *vcommon.Ctx) *vcommon.Failure {
	if s.CancelMs < 1 {
		return nil
	}
	rt := vcommon.NewRuntime(vcommon.Cfg{})
	var ctx context.Context
	var cancel context.CancelFunc
	switch s.Kind {
	case "timeout":
		// the deadline (10 min) cannot cut the 20 s sleep short; cancel can
		ctx, cancel = context.WithTimeout(context.Background(), 10*time.Minute)
	case "child":
		parent, pcancel := context.WithDeadline(context.Background(), time.Now().Add(10*time.Minute))
		defer pcancel()
		ctx, cancel = context.WithCancel(parent)
	default:
		ctx, cancel = context.WithCancel(context.Background())
	}
	defer cancel()
	c.Class("context/" + s.Kind)
	time.AfterFunc(time.Duration(s.CancelMs)*time.Millisecond, cancel)
	start := time.Now()
	done := make(chan *lisp.LVal, 1)
	go func() {
		done <- rt.Env.LoadStringContext(ctx, "sleep.lisp", `(time:sleep (time:parse-duration "20s") :max (time:parse-duration "30s"))`)
	}()
	select {
	case v := <-done:
		el := time.Since(start)
		o := rt.Observe(v)
		c.NonTrivial(fmt.Sprint(s.CancelMs))
		if !o.IsErr || o.Cond != "context-cancelled" {
			return vcommon.Failf("sleep/not-cancelled", "a pending 20s sleep (context kind %q) cancelled after %dms returned %s (%s) after %v", s.Kind, s.CancelMs, outcome(o), o.Msg, el)
		}
		if el > 8*time.Second {
			c.Class("slow-inconclusive")
		}
	case <-time.After(15 * time.Second):
		return vcommon.Failf("sleep/not-interrupted", "a pending 20s sleep (context kind %q) was not interrupted within 15s of cancelling its context after %dms", s.Kind, s.CancelMs)
	}
	return nil
}

// ---------- an empty dotimes is bounded and interruptible ----------

type EmptyLoop struct {
	N      int  `json:"n"`
	Budget int  `json:"budget"`
	Huge   bool `json:"huge"`
}

func checkEmptyLoop(e EmptyLoop, c *vcommon.Ctx) *vcommon.Failure {
	if e.N < 1 || e.Budget < 1 {
		return nil
	}
	n := e.N
	if e.Huge {
		n = 2000000000
		c.Class("huge")
	}
	src := fmt.Sprintf("(dotimes (i %d))", n)
	c.NonTrivial(fmt.Sprintf("%d/%d", n, e.Budget))
	rt := vcommon.NewRuntime(vcommon.Cfg{MaxSteps: int64(e.Budget), NoStdlib: true})
	done := make(chan vcommon.Outcome, 1)
	go func() { done <- rt.Load(src) }()
	var out vcommon.Outcome
	select {
	case out = <-done:
	case <-time.After(20 * time.Second):
		return vcommon.Failf("budget/no-termination", "%s under a budget of %d steps did not stop within 20s: the loop's turns are not counted as steps", src, e.Budget)
	}
	if e.Budget < n {
		if !out.IsErr || out.Cond != "step-limit-exceeded" {
			return vcommon.Failf("budget/empty-loop-not-counted", "%s finished with %s under a budget of only %d steps: turns of an empty loop must each cost a step", src, outcome(out), e.Budget)
		}
	}
	// cancellation inside the loop
	ctx := &countCtx{after: int64(e.Budget)}
	rt2 := vcommon.NewRuntime(vcommon.Cfg{NoStdlib: true})
	done2 := make(chan vcommon.Outcome, 1)
	go func() { done2 <- rt2.Observe(rt2.Env.LoadStringContext(ctx, "t.lisp", src)) }()
	select {
	case out = <-done2:
	case <-time.After(20 * time.Second):
		return vcommon.Failf("cancel/not-stopped", "%s was not interrupted within 20s of its context reporting cancellation at poll %d", src, e.Budget)
	}
	if e.Budget < n && !(out.IsErr && out.Cond == "context-cancelled") {
		return vcommon.Failf("cancel/not-stopped", "%s with a context cancelled at poll %d ended with %s", src, e.Budget, outcome(out))
	}
	return nil
}

// ---------- a counted loop under a budget runs exactly the turns that fit ----------

type LoopBudget struct {
	Count  int    `json:"count"`
	Huge   bool   `json:"huge"`   // count 2e9 instead
	ExitAt int    `json:"exit_at"` // >=0: the body signals at that turn and a handler outside the loop ends it
	Where  string `json:"where"`  // top | defun | after-work | nested
	Budget int    `json:"budget"`
}

func (l LoopBudget) source(count int) string {
	body := "(probe 1 i)"
	if l.ExitAt >= 0 {
		body = fmt.Sprintf("(probe 1 i) (if (= i %d) (error 'stop i) ())", l.ExitAt)
	}
	loop := fmt.Sprintf("(dotimes (i %d) %s)", count, body)
	if l.ExitAt >= 0 {
		loop = "(handler-bind ((stop (lambda (c &rest d) (probe 2 d) 'stopped))) " + loop + ")"
	}
	switch l.Where {
	case "defun":
		return "(defun run () (probe 0) " + loop + ")\n(list (run))"
	case "after-work":
		return "(progn (probe 0) (list 1 2 (+ 1 2)) " + loop + ")"
	case "nested":
		return "(let ((k 1)) (probe 0 k) (list (dotimes (j 2) (probe 3 j) " + loop + ")))"
	}
	return loop
}

func checkLoopBudget(l LoopBudget, c *vcommon.Ctx) *vcommon.Failure {
	if l.Count < 1 || l.Budget < 1 {
		return nil
	}
	count := l.Count
	if l.Huge {
		count = 2000000000
		c.Class("huge-count")
	}
	c.Class("where/" + l.Where)
	if l.ExitAt >= 0 {
		c.Class("early-exit")
	}
	// reference: the unlimited run.  A loop without an exit is measured with at
	// most 300 turns: a turn's cost does not depend on the count, and 300 turns
	// cost more steps than any budget drawn here.
	refCount := count
	if l.ExitAt < 0 || l.ExitAt >= count {
		if refCount > 300 {
			refCount = 300
		}
	}
	base, ok := baseRun(l.source(refCount), "")
	if !ok || base.out.Panic {
		return vcommon.Failf("harness/loop-baseline", "baseline unusable: %s\n%s", base.out.Msg, l.source(refCount))
	}
	n := int64(l.Budget)
	exact := refCount == count
	if !exact && base.steps <= n {
		c.Class("skip/budget-beyond-reference")
		return nil
	}
	src := l.source(count)
	if count > l.Budget {
		c.NonTrivial(src + fmt.Sprint(l.Budget))
		c.Class("count-exceeds-budget")
	}
	rt := vcommon.NewRuntime(vcommon.Cfg{MaxSteps: n, NoStdlib: true})
	done := make(chan vcommon.Outcome, 1)
	go func() { done <- rt.Load(src) }()
	var out vcommon.Outcome
	select {
	case out = <-done:
	case <-time.After(30 * time.Second):
		return vcommon.Failf("budget/no-termination", "%s under a budget of %d steps did not stop within 30s", src, n)
	}
	if out.Panic {
		return vcommon.Failf("internal-panic", "internal panic: %s\n%s", out.Msg, src)
	}
	if got, want := render(rt.Trace, n), render(base.trace, n); got != want {
		return vcommon.Failf("budget/loop-turns-lost", "under a budget of %d steps the loop's effects up to step %d differ from the unlimited run's (which needs %d steps): the turns that fit must run\nlimited:\n%sunlimited (restricted):\n%sprogram:\n%s", n, n, base.steps, got, want, src)
	}
	if exact && n >= base.steps {
		if outcome(out) != outcome(base.out) {
			return vcommon.Failf("budget/early-trip", "budget %d >= %d needed steps, yet the outcome is %s (%s), unlimited %s\n%s", n, base.steps, outcome(out), out.Msg, outcome(base.out), src)
		}
	} else if l.ExitAt < 0 && !(out.IsErr && out.Cond == "step-limit-exceeded") {
		return vcommon.Failf("budget/late-trip", "budget %d < %d needed steps, yet the run ended with %s\n%s", n, base.steps, outcome(out), src)
	}
	return nil
}

func genLoopBudget() *rapid.Generator[LoopBudget] {
	return rapid.Custom(func(t *rapid.T) LoopBudget {
		l := LoopBudget{
			Count:  rapid.IntRange(1, 4000).Draw(t, "count"),
			Huge:   rapid.IntRange(0, 5).Draw(t, "huge") == 0,
			ExitAt: -1,
			Where:  rapid.SampledFrom([]string{"top", "defun", "after-work", "nested"}).Draw(t, "where"),
			Budget: rapid.IntRange(1, 400).Draw(t, "budget"),
		}
		if rapid.IntRange(0, 1).Draw(t, "exit") == 0 {
			l.ExitAt = rapid.IntRange(0, 12).Draw(t, "exitat")
		}
		return l
	})
}

// ---------- every entry point starts with a full budget, and only entry points do ----------

type EPCall struct {
	Entry string `json:"entry"`
	Work  int    `json:"work"`
}

type EPCase struct {
	Budget int      `json:"budget"`
	Calls  []EPCall `json:"calls"`
}

var epEntries = []string{"load", "loadctx", "eval", "evalctx", "evalsexpr", "funcall", "funcallctx", "funcall-map", "funcallctx-map",
	"funcall-sort", "specialop-progn", "macrocall", "loadprogram", "funcall-apply"}

const epPrelude = `
(defun burn (n) (if (<= n 0) 'done (burn (- n 1))))
(defun burn-each (x) (burn 3) x)
(defmacro mburn (n) (burn n) ''expanded)
`

func genEP() *rapid.Generator[EPCase] {
	return rapid.Custom(func(t *rapid.T) EPCase {
		c := EPCase{Budget: rapid.IntRange(20, 400).Draw(t, "budget")}
		n := rapid.IntRange(2, 8).Draw(t, "ncalls")
		for i := 0; i < n; i++ {
			c.Calls = append(c.Calls, EPCall{Entry: rapid.SampledFrom(epEntries).Draw(t, "entry"), Work: rapid.IntRange(0, 60).Draw(t, "work")})
		}
		return c
	})
}

func epParse(src string) *lisp.LVal {
	exprs, err := parser.NewReader().Read("ep.lisp", strings.NewReader(src))
	if err != nil || len(exprs) != 1 {
		panic(fmt.Sprintf("epParse %q: %v", src, err))
	}
	return exprs[0]
}

func epDo(rt *vcommon.Rt, c EPCall) *lisp.LVal {
	env := rt.Env
	ctx := context.Background()
	w := c.Work
	src := fmt.Sprintf("(burn %d)", w)
	get := func(name string) *lisp.LVal { return env.GetGlobal(lisp.Symbol(name)) }
	ints := func(n int) *lisp.LVal {
		cells := make([]*lisp.LVal, n)
		for i := range cells {
			cells[i] = lisp.Int(n - i)
		}
		return lisp.QExpr(cells)
	}
	switch c.Entry {
	case "load":
		return env.LoadString("ep.lisp", src)
	case "loadctx":
		return env.LoadStringContext(ctx, "ep.lisp", src)
	case "eval":
		return env.Eval(epParse(src))
	case "evalctx":
		return env.EvalContext(ctx, epParse(src))
	case "evalsexpr":
		return env.EvalSExpr(epParse(src))
	case "funcall":
		return env.FunCall(get("burn"), lisp.SExpr([]*lisp.LVal{lisp.Int(w)}))
	case "funcallctx":
		return env.FunCallContext(ctx, get("burn"), lisp.SExpr([]*lisp.LVal{lisp.Int(w)}))
	case "funcall-map":
		// a host-applied builtin whose callbacks re-enter evaluation
		return env.FunCall(get("lisp:map"), lisp.SExpr([]*lisp.LVal{lisp.Quote(lisp.Symbol("list")), get("burn-each"), ints(w / 4)}))
	case "funcallctx-map":
		return env.FunCallContext(ctx, get("lisp:map"), lisp.SExpr([]*lisp.LVal{lisp.Quote(lisp.Symbol("list")), get("burn-each"), ints(w / 4)}))
	case "funcall-sort":
		return env.FunCall(get("lisp:stable-sort"), lisp.SExpr([]*lisp.LVal{get("lisp:<"), ints(w / 4), get("burn-each")}))
	case "funcall-apply":
		return env.FunCall(get("lisp:apply"), lisp.SExpr([]*lisp.LVal{get("burn"), lisp.QExpr([]*lisp.LVal{lisp.Int(w)})}))
	case "specialop-progn":
		return env.SpecialOpCall(get("lisp:progn"), lisp.SExpr([]*lisp.LVal{epParse(fmt.Sprintf("(burn %d)", w/2)), epParse(fmt.Sprintf("(burn %d)", w-w/2))}))
	case "macrocall":
		return env.MacroCall(get("mburn"), lisp.SExpr([]*lisp.LVal{lisp.Int(w)}))
	default: // loadprogram
		p, err := lisp.ReadProgram(parser.NewReader(), "ep.lisp", strings.NewReader(src))
		if err != nil {
			panic(err)
		}
		return env.LoadProgram(p)
	}
}

func epRuntime(budget int64) *vcommon.Rt {
	rt := vcommon.NewRuntime(vcommon.Cfg{NoStdlib: true, MaxSteps: unlimited})
	if o := rt.Load(epPrelude); o.IsErr {
		panic("ep prelude: " + o.Msg)
	}
	rt.Apply(vcommon.Cfg{MaxSteps: budget})
	return rt
}

func checkEP(c EPCase, ctx *vcommon.Ctx) *vcommon.Failure {
	if c.Budget < 1 || len(c.Calls) == 0 {
		return nil
	}
	rt := epRuntime(int64(c.Budget))
	var log strings.Builder
	total := int64(0)
	for i, call := range c.Calls {
		// the call's own cost, measured alone in a fresh runtime
		fresh := epRuntime(unlimited)
		fo := fresh.Observe(epDo(fresh, call))
		if fo.IsErr {
			return vcommon.Failf("entry/baseline-error", "baseline %s work=%d failed: %s", call.Entry, call.Work, fo.Msg)
		}
		cost := fresh.Env.Runtime.Steps()
		total += cost
		out := rt.Observe(epDo(rt, call))
		fmt.Fprintf(&log, "#%d %s work=%d cost=%d -> %s\n", i, call.Entry, call.Work, cost, outcome(out))
		ctx.Class("entry/" + call.Entry)
		if out.Panic {
			return vcommon.Failf("internal-panic", "internal panic: %s\n%s", out.Msg, log.String())
		}
		if cost <= int64(c.Budget) {
			if out.IsErr {
				return vcommon.Failf("entry/no-refill/"+call.Entry, "budget %d: call #%d (%s) needs only %d steps on its own but failed with %s: a new top-level evaluation did not start with a full budget\n%s", c.Budget, i, call.Entry, cost, outcome(out), log.String())
			}
			if got := rt.Env.Runtime.Steps(); got != cost {
				return vcommon.Failf("entry/step-count/"+call.Entry, "budget %d: call #%d (%s) used %d steps, %d when run alone\n%s", c.Budget, i, call.Entry, got, cost, log.String())
			}
		} else {
			ctx.Class("over-budget")
			if !(out.IsErr && out.Cond == "step-limit-exceeded") {
				return vcommon.Failf("entry/over-budget-not-stopped/"+call.Entry, "budget %d: call #%d (%s) needs %d steps but ended with %s: nested evaluation refilled the budget\n%s", c.Budget, i, call.Entry, cost, outcome(out), log.String())
			}
		}
		if len(rt.Env.Runtime.Stack.Frames) != 0 || rt.Env.Runtime.EvalNesting() != 0 {
			return vcommon.Failf("entry/dirty-runtime", "frames %d nesting %d\n%s", len(rt.Env.Runtime.Stack.Frames), rt.Env.Runtime.EvalNesting(), log.String())
		}
	}
	if total > int64(c.Budget) {
		ctx.NonTrivial(log.String())
		ctx.Note(log.String())
	}
	return nil
}

// ---------- builtins that loop on float arithmetic terminate ----------

// Absorbed: (make-sequence start stop step) where adding step to start does not
// change it (the step is below the spacing of floats at that magnitude).  Under
// a step budget and an allocation limit the call must still come back -- with a
// value or with an ordinary error.
type Absorbed struct {
	Start float64 `json:"start"`
	Span  float64 `json:"span"`
	Step  float64 `json:"step"`
}

var absorbedHung bool // a hung case leaks a goroutine that allocates: never run a second one

func checkAbsorbed(a Absorbed, c *vcommon.Ctx) *vcommon.Failure {
	src := fmt.Sprintf("(length (make-sequence %s (+ %s %s) %s))", gen.FloatLit(a.Start), gen.FloatLit(a.Start), gen.FloatLit(a.Span), gen.FloatLit(a.Step))
	if absorbedHung {
		return vcommon.Failf("budget/no-termination", "%s did not return (not re-run: an earlier hung case is still allocating)", src)
	}
	if a.Start+a.Step == a.Start {
		c.Class("step-absorbed")
		c.NonTrivial(src)
	}
	rt := vcommon.NewRuntime(vcommon.Cfg{MaxSteps: 1000, MaxAlloc: 1000, NoStdlib: true})
	done := make(chan vcommon.Outcome, 1)
	go func() { done <- rt.Load(src) }()
	select {
	case o := <-done:
		if o.Panic {
			return vcommon.Failf("internal-panic", "internal panic: %s\n%s", o.Msg, src)
		}
	case <-time.After(10 * time.Second):
		absorbedHung = true
		return vcommon.Failf("budget/no-termination", "%s did not return within 10s under a budget of 1000 steps and an allocation limit of 1000 elements", src)
	}
	return nil
}

func TestCheck(t *testing.T) {
	vcommon.Main(t, "C04",
		vcommon.S("budget", 2400, 50000, genBudget(), checkBudget),
		vcommon.S("cancel", 1600, 30000, genCancel(), checkCancel),
		vcommon.S("ref-truncation", 1200, 40000, genRefTrunc(), checkRefTrunc),
		vcommon.S("bound-routes", 1200, 40000, genRoute(), checkRoute),
		vcommon.S("bounds", 24000, 500000, genDepth(), checkDepth),
		vcommon.S("entry-points", 6000, 150000, genEP(), checkEP),
		vcommon.S("empty-dotimes", 800, 20000, rapid.Custom(func(t *rapid.T) EmptyLoop {
			return EmptyLoop{N: rapid.IntRange(2, 300).Draw(t, "n"), Budget: rapid.IntRange(1, 320).Draw(t, "budget"), Huge: rapid.IntRange(0, 19).Draw(t, "huge") == 0}
		}), checkEmptyLoop),
		vcommon.S("loop-budget", 4000, 100000, genLoopBudget(), checkLoopBudget),
		vcommon.S("absorbed-step", 1600, 20000, rapid.Custom(func(t *rapid.T) Absorbed {
			return Absorbed{
				Start: rapid.SampledFrom([]float64{1e16, 1.7e18, -1e17, 9.1e15, 4e15, 1e300, 3, 0}).Draw(t, "start"),
				Span:  rapid.SampledFrom([]float64{8, 1000, 2, 1e5, 0.5}).Draw(t, "span"),
				Step:  rapid.SampledFrom([]float64{1, 100, 0.5, 0.001, 3, 1e-9}).Draw(t, "step"),
			}
		}), checkAbsorbed),
		vcommon.S("sleep-cancel", 32, 200, rapid.Custom(func(t *rapid.T) Sleep {
			return Sleep{CancelMs: rapid.IntRange(5, 120).Draw(t, "ms"), Kind: rapid.SampledFrom([]string{"", "timeout", "child"}).Draw(t, "kind")}
		}), checkSleep),
	)
}
