package c11

import (
	"fmt"
	"os"
	"sort"
	"strconv"
	"strings"

	"github.com/luthersystems/elps/lisp"
	"github.com/luthersystems/elps/verifharness/vcommon"
)

// ---------- the serialisable case ----------

// Arg is a value written into a form: an int, a string from a small pool, a
// reference to a live name (a container stored inside a container) or a
// nested list of ints.
type Arg struct {
	K int   `json:"k"` // 0 int, 1 string, 2 ref, 3 nested list, 4 ref to slot I (direct), 5 float I+0.5, 6 symbol, 7 keyword
	I int   `json:"i"`
	L []int `json:"l,omitempty"`
}

type KeySpec struct {
	N   int  `json:"n"`
	Sym bool `json:"sym"`
}

// Step is one operation.  Operand fields are raw indices, resolved modulo
// what is live / how long the operand is at execution time, so every
// shrunken step list is still a valid history.
type Step struct {
	Op    string    `json:"op"`
	Dst   int       `json:"dst"` // -1: bare form, else (set 'gDst ...)
	A     int       `json:"a"`
	B     int       `json:"b"`
	Loose bool      `json:"loose,omitempty"` // operand may be of any type (error paths)
	T     int       `json:"t"`               // 0 list, 1 vector, 2 bytes, 3 string
	I     int       `json:"i"`
	J     int       `json:"j"`
	Args  []Arg     `json:"args,omitempty"`
	Keys  []KeySpec `json:"keys,omitempty"`
	Fn    int       `json:"fn"`
	Pred  int       `json:"pred"`
	KeyFn int       `json:"keyfn"`
	Bad   int       `json:"bad,omitempty"`  // error injection flavour, 0 = none
	Pref  int       `json:"pref,omitempty"` // operand preference: 1 views, 2 aliased, 3 shared storage
	// Direct: operands name slots directly (gA = slot A mod 10) when that slot
	// is live and of a fitting type; lets one step aim at the value a previous
	// step has just produced.
	Direct bool `json:"direct,omitempty"`
	// Again: take the operands the step two positions earlier resolved to.
	Again bool `json:"again,omitempty"`
	// Via > 0: the principal operand is not a name but an ELEMENT of a live
	// holder that fits the operation -- (nth gS i), (aref gV i), (first gS),
	// (get gM 'k), up to three levels deep.  Via/8 chooses among the fitting
	// elements (with Direct: of holder slot A, when it has any), Via%8 the
	// accessor spelling.
	Via int `json:"via,omitempty"`
}

type Case struct {
	Steps []Step `json:"steps"`
}

var strPool = []string{"x", "yy", "a", "b", "zed"}

// keyPool: pairwise different lengths among the first five (so that sorting a
// key list by length is order-changing); the last two are KEYWORDS -- a
// keyword is a symbol whose name starts with a colon, so :q and ":q" name one
// key.  Pools only ever grow at the end: raw indices in stored replays keep
// their meaning.
var keyPool = []string{"a", "bb", "ccc", "k1xx", "Bzzzz", ":q", ":key77", "", "!z", " sp"}

// symbolOK: the last three names of keyPool (the EMPTY string and two names
// that start below the double quote in byte order) can only be spelled as
// strings; they pin the place of the empty key in the enumeration order.
func symbolOK(name string) bool { return name != "" && name[0] != '!' && name[0] != ' ' }

// symSpell is the symbol spelling of a key name where it has one.
func symSpell(name string) string {
	if !symbolOK(name) {
		return strconv.Quote(name)
	}
	return "'" + name
}
var symPool = []string{"p", "qq", "sym", "s4x2", "long-name"}
var typeNames = []string{"list", "vector", "bytes", "string"}

func mod(x, n int) int {
	if n <= 0 {
		return 0
	}
	x %= n
	if x < 0 {
		x += n
	}
	return x
}

// ---------- resolution: Step -> concrete op + lisp source ----------

type kind func(o obj) bool

func kSeq(o obj) bool   { _, ok := o.(*mSeq); return ok }
func kList(o obj) bool  { s, ok := o.(*mSeq); return ok && !s.vec }
func kVec(o obj) bool   { s, ok := o.(*mSeq); return ok && s.vec }
func kBytes(o obj) bool { _, ok := o.(*mBytes); return ok }
func kMap(o obj) bool   { _, ok := o.(*mMap); return ok }
func kAny(o obj) bool   { return true }
func kVecOrBytes(o obj) bool {
	return kVec(o) || kBytes(o)
}
func kSeqOrBytes(o obj) bool { return kSeq(o) || kBytes(o) }
func kSliceable(o obj) bool {
	_, isStr := o.(mStr)
	return kSeq(o) || kBytes(o) || isStr
}
func kMapOrNil(o obj) bool { return kMap(o) || isNilObj(o) }
func kByteSeqish(o obj) bool {
	if kBytes(o) {
		return true
	}
	_, ok := byteSeq(o)
	return ok
}

// prefKind is a generator-steering preference (Step.Pref): among the fitting
// operands, favour views / multiply referenced values / values whose storage
// another live header shares.
func (h *heap) prefKind(p int) kind {
	switch mod(p, 4) {
	case 1:
		return func(o obj) bool { s, ok := o.(*mSeq); return ok && s.view }
	case 2:
		cnt, _ := h.refs()
		return func(o obj) bool { return cnt[o] >= 2 }
	case 3:
		_, order := h.refs()
		n := map[*backing]int{}
		for _, o := range order {
			if s, ok := o.(*mSeq); ok {
				n[s.b]++
			}
		}
		return func(o obj) bool { s, ok := o.(*mSeq); return ok && n[s.b] >= 2 }
	}
	return nil
}

func (h *heap) pick(k kind, raw int, loose bool) int {
	var fit, all, best []int
	for i, o := range h.g {
		if o == nil {
			continue
		}
		if _, isArr := o.(*mArr); isArr && h.noArr {
			continue
		}
		all = append(all, i)
		if k(o) {
			fit = append(fit, i)
			if h.pref != nil && h.pref(o) {
				best = append(best, i)
			}
		}
	}
	if len(all) == 0 {
		return -1
	}
	if slot, ok := h.again[raw]; ok && !loose && h.g[slot] != nil && k(h.g[slot]) {
		return slot
	}
	if h.direct && !loose {
		if o := h.g[mod(raw, NSlots)]; o != nil && k(o) {
			return mod(raw, NSlots)
		}
	}
	if !loose && len(best) > 0 {
		return best[mod(raw, len(best))]
	}
	if loose || len(fit) == 0 {
		return all[mod(raw, len(all))]
	}
	return fit[mod(raw, len(fit))]
}

func gname(i int) string { return "g" + strconv.Itoa(i) }

// viaCands lists the elements of kind k reachable THROUGH the live holders
// (only holder slot `only` when >= 0), up to three levels deep, in a fixed
// order.
func (h *heap) viaCands(k kind, only int) []*via {
	var out []*via
	var walk func(slot int, o obj, path []pstep)
	walk = func(slot int, o obj, path []pstep) {
		if len(out) >= 64 {
			return
		}
		visit := func(p pstep, e obj) {
			np := append(append([]pstep(nil), path...), p)
			if k(e) {
				switch e.(type) {
				case *mSeq, *mBytes, *mMap, mStr:
					out = append(out, &via{slot: slot, path: np})
				}
			}
			if _, isArr := e.(*mArr); isArr {
				return
			}
			if len(np) < 3 {
				walk(slot, e, np)
			}
		}
		switch x := o.(type) {
		case *mSeq:
			for i, e := range x.cells() {
				visit(pstep{idx: i}, e)
			}
		case *mArr:
			for i, e := range x.cells {
				visit(pstep{idx: i}, e)
			}
		case *mMap:
			for _, key := range sortedKeys(x) {
				visit(pstep{key: key, isKey: true}, x.ents[key].v)
			}
		}
	}
	for i, o := range h.g {
		if o != nil && (only < 0 || only == i) {
			walk(i, o, nil)
		}
	}
	return out
}

// renderVia spells the path as nested accessor calls.
func (h *heap) renderVia(v *via) string {
	e := gname(v.slot)
	o := h.g[v.slot]
	for _, p := range v.path {
		switch x := o.(type) {
		case *mSeq:
			opts := []string{fmt.Sprintf("(nth %s %d)", e, p.idx)}
			if x.vec {
				opts = append(opts, fmt.Sprintf("(aref %s %d)", e, p.idx))
			}
			if p.idx == 0 {
				opts = append(opts, "(first "+e+")")
				if !x.vec {
					opts = append(opts, "(car "+e+")")
				}
			}
			if p.idx == 1 {
				opts = append(opts, "(second "+e+")")
			}
			e = opts[mod(p.acc, len(opts))]
			o = x.cells()[p.idx]
		case *mArr:
			// row-major position -> one index per dimension
			idx := make([]string, len(x.dims))
			rem := p.idx
			for d := len(x.dims) - 1; d >= 0; d-- {
				idx[d] = strconv.Itoa(rem % x.dims[d])
				rem /= x.dims[d]
			}
			e = "(aref " + e + " " + strings.Join(idx, " ") + ")"
			o = x.cells[p.idx]
		case *mMap:
			e = "(get " + e + " " + renderKey(ckey{name: p.key, sym: mod(p.acc, 2) == 0 && symbolOK(p.key)}) + ")"
			o = x.ents[p.key].v
		}
	}
	return e
}

// holders counts the distinct live containers (sequence windows, maps) that
// hold target directly as an element, and reports the holders' ids.
func (h *heap) holders(target obj) []int {
	_, order := h.refs()
	var ids []int
	for _, o := range order {
		held := false
		switch x := o.(type) {
		case *mSeq:
			for _, c := range x.cells() {
				if c == target {
					held = true
				}
			}
		case *mArr:
			for _, c := range x.cells {
				if c == target {
					held = true
				}
			}
		case *mMap:
			for _, e := range x.ents {
				if e.v == target {
					held = true
				}
			}
		}
		if held {
			id, _, _ := objIDOf(o)
			ids = append(ids, id)
		}
	}
	return ids
}

func (h *heap) resolveArg(a Arg) carg {
	switch mod(a.K, 8) {
	case 0:
		return carg{kind: 0, i: a.I}
	case 1:
		return carg{kind: 1, s: strPool[mod(a.I, len(strPool))]}
	case 2:
		// (a multi-dimensional array is never stored inside another value:
		// the key functions of the sorts could not measure it)
		h.noArr = true
		s := h.pick(kAny, a.I, true)
		h.noArr = false
		if s < 0 {
			return carg{kind: 0, i: a.I}
		}
		return carg{kind: 2, i: s}
	case 4:
		// the value of one particular slot (scenarios store the container
		// they have just made)
		if s := mod(a.I, NSlots); h.g[s] != nil {
			if _, isArr := h.g[s].(*mArr); !isArr {
				return carg{kind: 2, i: s}
			}
		}
		return carg{kind: 0, i: a.I}
	case 5:
		return carg{kind: 5, i: a.I}
	case 6:
		return carg{kind: 6, s: symPool[mod(a.I, len(symPool))]}
	case 7:
		return carg{kind: 7, s: symPool[mod(a.I, len(symPool))]}
	default:
		return carg{kind: 3, l: append([]int(nil), a.L...)}
	}
}

func renderArg(a carg, quoted bool) string {
	switch a.kind {
	case 0:
		return strconv.Itoa(a.i)
	case 1:
		return strconv.Quote(a.s)
	case 2:
		return gname(a.i)
	case 5:
		return strconv.FormatFloat(float64(a.i)+0.5, 'g', -1, 64)
	case 6:
		if quoted {
			return a.s
		}
		return "'" + a.s
	case 7:
		return ":" + a.s
	default:
		parts := make([]string, len(a.l))
		for i, x := range a.l {
			parts[i] = strconv.Itoa(x)
		}
		if quoted {
			return "(" + strings.Join(parts, " ") + ")"
		}
		return "(list" + lead(parts) + ")"
	}
}

func lead(parts []string) string {
	if len(parts) == 0 {
		return ""
	}
	return " " + strings.Join(parts, " ")
}

func renderKey(k ckey) string {
	if k.bad {
		return "7"
	}
	if k.sym && symbolOK(k.name) {
		if strings.HasPrefix(k.name, ":") {
			return k.name // a keyword evaluates to itself
		}
		return "'" + k.name
	}
	return strconv.Quote(k.name)
}

var mapFns = []string{
	"(lambda (x) x)",
	"(lambda (x) (if (int? x) (+ x 1) x))",
	"(lambda (x) (list x))",
}
var predFns = []string{
	"int?",
	"(lambda (x) (if (int? x) (< x 3) true))",
	"(lambda (x) (not (int? x)))",
}
var keyFns = []string{
	"",
	// total: ints by value, symbols and strings by the length of their text,
	// containers by their length -- so sorting a key list, a list of strings
	// or a list of containers really permutes it
	"(lambda (x) (if (number? x) x (if (symbol? x) (length (to-string x)) (length x))))",
	"(lambda (x) (- 0 (if (number? x) x (if (symbol? x) (length (to-string x)) (length x)))))",
}
var predNames = []string{"<", ">"}

// anyNonNum: without a key function < only orders numbers.
func anyNonNum(cells []obj) bool {
	for _, c := range cells {
		if !isNum(c) {
			return true
		}
	}
	return false
}

func isNum(o obj) bool {
	switch o.(type) {
	case mInt, mFloat:
		return true
	}
	return false
}

func lenOf(o obj) (int, bool) {
	switch o := o.(type) {
	case *mSeq:
		return o.n, true
	case *mBytes:
		return len(o.data), true
	case mStr:
		return len(o), true
	case *mMap:
		return len(o.ents), true
	}
	return 0, false
}

func principalKind(op string, t int) (kind, string) {
	switch op {
	case "append":
		if t == 2 {
			return kBytes, "to-bytes"
		}
		return kSeq, "vector"
	case "append-bytes", "append-bytes!":
		return kBytes, "to-bytes"
	case "concat":
		if t >= 2 {
			return kByteSeqish, "to-bytes"
		}
		return kSeq, "vector"
	case "cons", "cdr":
		return kList, "list"
	case "reverse", "map", "select", "reject", "zip", "insert-index", "insert-sorted", "rest", "nth", "stable-sort":
		return kSeq, "vector"
	case "slice":
		return kSliceable, "vector"
	case "assoc", "dissoc", "get":
		return kMapOrNil, "sorted-map"
	case "keys", "assoc!", "dissoc!":
		return kMap, "sorted-map"
	case "append!":
		if t == 2 {
			return kBytes, "to-bytes"
		}
		return kVecOrBytes, "vector"
	}
	return nil, ""
}

var creates = map[string]bool{"list": true, "vector": true, "quote": true, "sorted-map": true, "make-sequence": true, "array2": true}

// resolve turns st into a concrete operation against the current model state
// h (hypothesis 0; every surviving hypothesis agrees on types, lengths and
// contents, which is all resolution looks at).
func resolve(st Step, h *heap) *cop {
	c := &cop{op: st.Op, dst: -1, a: -1, b: -1, t: mod(st.T, 4), fn: mod(st.Fn, 3), pred: mod(st.Pred, 2), keyfn: mod(st.KeyFn, 3)}
	if st.Dst >= 0 {
		c.dst = mod(st.Dst, NSlots)
	}
	for _, a := range st.Args {
		c.args = append(c.args, h.resolveArg(a))
	}
	for _, k := range st.Keys {
		kn := keyPool[mod(k.N, len(keyPool))]
		c.keys = append(c.keys, ckey{name: kn, sym: k.Sym && symbolOK(kn)})
	}
	if len(c.keys) == 0 {
		c.keys = []ckey{{name: keyPool[0]}}
	}
	if st.Bad == 2 {
		c.keys[0].bad = true
	}
	needArg := func() {
		if len(c.args) == 0 {
			c.args = []carg{{kind: 0, i: 5}}
		}
	}
	h.pref = h.prefKind(st.Pref)
	h.direct = st.Direct
	defer func() { h.pref, h.direct = nil, false }()
	live := h.pick(kAny, 0, true) >= 0
	if !live && !creates[c.op] && !(c.op == "to-bytes") {
		c.op = "list"
	}
	// An operation whose principal operand has no live value of a fitting type
	// would only exercise the type-error path (Loose does that on purpose);
	// turn it into the creation of such a value instead.
	if k, fallback := principalKind(c.op, c.t); k != nil && !st.Loose && live {
		fit := false
		for _, o := range h.g {
			if o != nil && k(o) {
				fit = true
			}
		}
		if !fit {
			c.op = fallback
		}
	}
	T := func() string { return "'" + typeNames[c.t] }
	T2 := func() string { // ops that only know list/vector
		if c.t == 2 {
			c.t = 1
		}
		if c.t == 3 {
			c.t = 0
		}
		return "'" + typeNames[c.t]
	}
	// pickA chooses the principal operand: a live name of kind k, or (Via) an
	// element of kind k reached through a live holder.
	pickA := func(k kind) {
		c.a = h.pick(k, st.A, st.Loose)
		if st.Via <= 0 || st.Loose {
			return
		}
		var cands []*via
		if st.Direct {
			cands = h.viaCands(k, mod(st.A, NSlots))
		}
		if len(cands) == 0 {
			cands = h.viaCands(k, -1)
		}
		if len(cands) == 0 {
			return
		}
		v := cands[mod(st.Via/8, len(cands))]
		for i := range v.path {
			v.path[i].acc = st.Via%8 + i
		}
		c.via, c.a = v, -1
	}
	A := func() obj { return h.opA(c) }
	nameA := func() string {
		if c.via != nil {
			return h.renderVia(c.via)
		}
		return gname(c.a)
	}
	renderArgs := func() string {
		parts := make([]string, len(c.args))
		for i, a := range c.args {
			parts[i] = renderArg(a, false)
		}
		return lead(parts)
	}
	// avoidCycle: a reference stored INTO an existing container must not
	// reach that container (self-containing values are outside the domain).
	avoidCycle := func(target obj) {
		for i, a := range c.args {
			if a.kind == 2 && reaches(h.g[a.i], target) {
				c.args[i] = carg{kind: 0, i: 40 + i}
			}
		}
	}
	byteArgs := func() {
		for i, a := range c.args {
			if st.Bad == 5 && a.kind != 0 {
				continue // a string, float, symbol or container where a byte is wanted
			}
			c.args[i] = carg{kind: 0, i: mod(a.i, 256)}
		}
		if st.Bad == 5 && len(c.args) > 0 {
			// one element that is not a byte, at ANY position: the refused
			// call must leave nothing of the elements before it behind
			c.args[mod(st.J, len(c.args))] = carg{kind: 0, i: []int{256, -1, 300, 1000}[mod(st.I, 4)]}
		}
	}

	switch c.op {
	case "list", "vector":
		c.form = "(" + c.op + renderArgs() + ")"
	case "quote":
		parts := make([]string, len(c.args))
		for i, a := range c.args {
			if a.kind == 2 {
				c.args[i] = carg{kind: 0, i: a.i}
			}
			parts[i] = renderArg(c.args[i], true)
		}
		c.form = "'(" + strings.Join(parts, " ") + ")"
	case "array2":
		// a multi-dimensional array bound by the HOST (the language cannot
		// build one): 2 x cols, or 1 x 2 x cols, over the rendered values
		cols := 1 + mod(st.J, 3)
		c.dims = []int{2, cols}
		if mod(st.I, 4) == 0 {
			c.dims = []int{1, 2, cols}
		}
		for len(c.args) < 2*cols {
			c.args = append(c.args, carg{kind: 0, i: len(c.args)})
		}
		c.args = c.args[:2*cols]
		if c.dst < 0 {
			c.dst = mod(st.A, NSlots)
		}
		c.form = "(list" + renderArgs() + ")"
	case "sorted-map":
		n := len(st.Keys)
		if len(c.args) < n {
			n = len(c.args)
		}
		c.keys, c.args = c.keys[:n], c.args[:n]
		var parts []string
		for i := range c.keys {
			parts = append(parts, renderKey(c.keys[i]), renderArg(c.args[i], false))
		}
		c.form = "(sorted-map" + lead(parts) + ")"
	case "to-bytes":
		c.a = h.pick(kBytes, st.A, st.Loose)
		if c.a < 0 || (!st.Loose && (mod(st.Fn, 3) != 0 || !kBytes(h.g[c.a]))) {
			c.a = -1
			c.useStr = true
			c.str = strPool[mod(st.I, len(strPool))]
			c.form = "(to-bytes " + strconv.Quote(c.str) + ")"
		} else {
			c.form = "(to-bytes " + gname(c.a) + ")"
		}
	case "make-sequence":
		c.i = mod(st.I, 7) - 2
		c.j = c.i + mod(st.J, 7)
		c.fn = 1 + mod(st.Fn, 3)
		c.form = fmt.Sprintf("(make-sequence %d %d %d)", c.i, c.j, c.fn)
	case "alias":
		c.a = h.pick([]kind{kAny, kMap, kBytes, kSeq}[mod(st.Fn, 4)], st.A, false)
		c.form = gname(c.a)
	case "append":
		if c.t == 2 {
			pickA(kBytes)
			byteArgs()
		} else {
			pickA(kSeq)
		}
		c.form = "(append " + T() + " " + nameA() + renderArgs() + ")"
	case "append-bytes", "append-bytes!":
		pickA(kBytes)
		if mod(st.Fn, 2) == 0 {
			c.useStr = true
			c.str = strPool[mod(st.I, len(strPool))]
			c.form = "(" + c.op + " " + nameA() + " " + strconv.Quote(c.str) + ")"
		} else {
			c.b = h.pick(kByteSeqish, st.B, st.Loose || st.Bad == 5)
			c.form = "(" + c.op + " " + nameA() + " " + gname(c.b) + ")"
		}
	case "concat":
		c.nops = 1 + mod(st.J, 2)
		k := kind(kSeq)
		if c.t >= 2 {
			k = kByteSeqish
		}
		pickA(k)
		c.b = h.pick(k, st.B, st.Loose)
		c.form = "(concat " + T() + " " + nameA()
		if c.nops == 2 {
			c.form += " " + gname(c.b)
		}
		c.form += ")"
	case "cons":
		needArg()
		c.args = c.args[:1]
		pickA(kList)
		c.form = "(cons " + renderArg(c.args[0], false) + " " + nameA() + ")"
	case "reverse":
		pickA(kSeq)
		c.form = "(reverse " + T2() + " " + nameA() + ")"
	case "map":
		pickA(kSeq)
		c.form = "(map " + T2() + " " + mapFns[c.fn] + " " + nameA() + ")"
	case "select", "reject":
		pickA(kSeq)
		c.form = "(" + c.op + " " + T2() + " " + predFns[c.fn] + " " + nameA() + ")"
	case "zip":
		pickA(kSeq)
		c.b = h.pick(kSeq, st.B, st.Loose)
		c.form = "(zip " + T2() + " " + nameA() + " " + gname(c.b) + ")"
	case "insert-index":
		needArg()
		c.args = c.args[:1]
		pickA(kSeq)
		n, _ := lenOf(A())
		c.i = mod(st.I, n+1) // I = -1: at the end
		if st.Bad == 3 {
			c.i = n + 1
		}
		c.form = fmt.Sprintf("(insert-index %s %s %d %s)", T2(), nameA(), c.i, renderArg(c.args[0], false))
	case "insert-sorted":
		needArg()
		c.args = c.args[:1]
		pickA(kSeq)
		srcForm := nameA()
		if s, ok := asSeq(A()); ok {
			item := h.argObj(c.args[0], false)
			if c.keyfn == 0 {
				if !isNum(item) || anyNonNum(s.cells()) {
					c.keyfn = 1
				}
			}
			// insert-sorted presupposes a sequence sorted by the predicate;
			// on anything else its binary search is unspecified, so the
			// source is then replaced by a sorted copy of itself.
			prev, mono := false, true
			for _, x := range s.cells() {
				f := lessBy(c.pred, sortKey(item, c.keyfn), sortKey(x, c.keyfn))
				if prev && !f {
					mono = false
				}
				prev = prev || f
			}
			if !mono {
				c.wrap = true
				srcForm = "(stable-sort " + predNames[c.pred] + " (concat 'list " + nameA() + ")" + optFn(keyFns[c.keyfn]) + ")"
			}
		}
		c.form = "(insert-sorted " + T2() + " " + srcForm + " " + predNames[c.pred] + " " + renderArg(c.args[0], false) + optFn(keyFns[c.keyfn]) + ")"
	case "slice":
		pickA(kSliceable)
		if c.t == 2 && !st.Loose && mod(st.Fn, 4) != 0 && c.via == nil {
			// bytes -> bytes views: favour a bytes source
			if b := h.pick(kBytes, st.A, false); b >= 0 && kBytes(h.g[b]) {
				c.a = b
			}
		}
		n, _ := lenOf(A())
		c.i = mod(st.I, n+1)
		c.j = c.i + mod(st.J, n-c.i+1)
		if st.Bad == 1 {
			c.j = n + 1 + mod(st.J, 2)
		}
		c.form = fmt.Sprintf("(slice %s %s %d %d)", T(), nameA(), c.i, c.j)
	case "cdr":
		pickA(kList)
		c.form = "(cdr " + nameA() + ")"
	case "rest":
		pickA(kSeq)
		c.form = "(rest " + nameA() + ")"
	case "assoc":
		needArg()
		c.args, c.keys = c.args[:1], c.keys[:1]
		pickA(kMapOrNil)
		c.form = "(assoc " + nameA() + " " + renderKey(c.keys[0]) + " " + renderArg(c.args[0], false) + ")"
	case "dissoc":
		c.keys = c.keys[:1]
		pickA(kMapOrNil)
		c.form = "(dissoc " + nameA() + " " + renderKey(c.keys[0]) + ")"
	case "keys":
		pickA(kMap)
		c.form = "(keys " + nameA() + ")"
	case "nth":
		pickA(kSeq)
		n, _ := lenOf(A())
		c.i = mod(st.I, n+2)
		if st.Bad == 4 {
			c.i = -1
		}
		c.form = fmt.Sprintf("(nth %s %d)", nameA(), c.i)
	case "get":
		c.keys = c.keys[:1]
		pickA(kMapOrNil)
		c.form = "(get " + nameA() + " " + renderKey(c.keys[0]) + ")"
	case "assoc!":
		needArg()
		c.args, c.keys = c.args[:1], c.keys[:1]
		pickA(kMap)
		avoidCycle(A())
		c.form = "(assoc! " + nameA() + " " + renderKey(c.keys[0]) + " " + renderArg(c.args[0], false) + ")"
	case "dissoc!":
		c.keys = c.keys[:1]
		pickA(kMap)
		c.form = "(dissoc! " + nameA() + " " + renderKey(c.keys[0]) + ")"
	case "append!":
		pickA(kVecOrBytes)
		if c.t == 2 && !st.Loose && c.via == nil {
			if b := h.pick(kBytes, st.A, false); b >= 0 && kBytes(h.g[b]) {
				c.a = b
			}
		}
		if kBytes(A()) {
			byteArgs()
		}
		avoidCycle(A())
		c.form = "(append! " + nameA() + renderArgs() + ")"
	case "call":
		needArg()
		c.args = c.args[:1]
		c.i, c.j = mod(st.I, 8), mod(st.J, 4)
		if c.keyfn == 0 {
			c.keyfn = 1 // arguments may be anything: always a total key function
		}
		h.noArr = true // ... except an array of several dimensions, which has no length
		defer func() { h.noArr = false }()
		k := kind(kSeq)
		if c.i <= 2 {
			k = kList
		}
		pickA(k)
		c.b = h.pick(kAny, st.B, true)
		if !st.Loose && !k(A()) {
			c.op = "list"
			c.form = "(list" + renderArgs() + ")"
			break
		}
		srt := func(v string) string {
			return "(stable-sort " + predNames[c.pred] + " " + v + " " + keyFns[c.keyfn] + ")"
		}
		F := []string{
			"(lambda (&rest xs) " + srt("xs") + ")",
			"(lambda (h &rest xs) " + srt("xs") + ")",
			"(lambda (&optional a b &rest xs) (list a b " + srt("xs") + "))",
			"(lambda (x &optional y) (if (or (list? x) (vector? x)) " + srt("x") + " x))",
		}[c.j]
		sA, sB, sV := nameA(), gname(c.b), renderArg(c.args[0], false)
		switch c.i {
		case 0:
			c.form = "(apply " + F + " " + sA + ")"
		case 1:
			c.form = "(apply " + F + " " + sV + " " + sA + ")"
		case 2:
			c.form = "(unpack " + F + " " + sA + ")"
		case 3:
			c.form = "(funcall " + F + " " + sA + ")"
		case 4:
			c.form = "(funcall " + F + " " + sA + " " + sV + " " + sB + ")"
		case 5:
			c.form = "(map 'list " + F + " " + sA + ")"
		case 6:
			c.form = "(thread-last " + sA + " (funcall " + F + "))"
		default:
			c.form = "(foldl (lambda (acc x) (append! acc x)) (vector) " + sA + ")"
		}
	case "stable-sort":
		pickA(kSeq)
		if s, ok := asSeq(A()); ok && c.keyfn == 0 && anyNonNum(s.cells()) {
			// without a key function < fails on the first non-number and
			// leaves the target half sorted; not a case the property speaks
			// about
			c.keyfn = 1
		}
		c.form = "(stable-sort " + predNames[c.pred] + " " + nameA() + optFn(keyFns[c.keyfn]) + ")"
	default:
		// unknown op name in a hand-edited replay: treat as a list create
		c.op = "list"
		c.form = "(list" + renderArgs() + ")"
	}
	if c.op == "array2" {
		c.src = "; host: bind " + gname(c.dst) + " to lisp.Array(dims " + dimsText(c.dims) + ") over the cells of\n" + c.form
	} else if c.dst >= 0 {
		c.src = "(set '" + gname(c.dst) + " " + c.form + ")"
	} else {
		c.src = c.form
	}
	return c
}

func optFn(s string) string {
	if s == "" {
		return ""
	}
	return " " + s
}

// ---------- observation of the real interpreter ----------

func norm(s string) string { return strings.ReplaceAll(s, "'(", "(") }

type snap struct {
	bound [NSlots]bool
	canon [NSlots]string
	text  [NSlots]string
}

func observe(rt *vcommon.Rt) (snap, *vcommon.Failure) {
	var s snap
	for i := 0; i < NSlots; i++ {
		v := rt.Env.GetGlobal(lisp.Symbol(gname(i)))
		if v == nil {
			return s, vcommon.Failf("harness/nil-global", "GetGlobal(%s) returned nil", gname(i))
		}
		if v.Type == lisp.LError {
			if lisp.IsInternalPanic(v) {
				return s, vcommon.Failf("internal-panic/get-global", "GetGlobal(%s): %v", gname(i), v)
			}
			continue
		}
		s.bound[i] = true
		s.canon[i] = norm(vcommon.Canon(v))
		s.text[i] = norm(v.String())
	}
	return s, nil
}

func (h *heap) matches(s *snap) (bool, int) {
	for i := 0; i < NSlots; i++ {
		if (h.g[i] != nil) != s.bound[i] {
			return false, i
		}
		if h.g[i] == nil {
			continue
		}
		if canonOf(h.g[i]) != s.canon[i] || printOf(h.g[i]) != s.text[i] {
			return false, i
		}
	}
	return true, -1
}

// ---------- the oracle ----------

type hyp struct {
	h      *heap
	res    obj
	resErr bool
}

const maxHyps = 48

var mutatingOps = map[string]bool{"call": true, "assoc!": true, "dissoc!": true, "append!": true, "append-bytes!": true, "stable-sort": true}
var appendOps = map[string]bool{"append": true, "append-bytes": true}

// extendOps build a longer value from their principal operand: the operations
// through which a write could land in the operand's spare capacity.
var extendOps = map[string]bool{"append": true, "append-bytes": true, "cons": true, "insert-index": true, "insert-sorted": true, "concat": true, "append!": true, "append-bytes!": true}

// expand applies c to h under every combination of open choices.
func expand(h *heap, c *cop) []hyp {
	var out []hyp
	queue := [][]bool{nil}
	for len(queue) > 0 {
		pre := queue[0]
		queue = queue[1:]
		n := h.clone()
		ch := &chooser{pre: pre}
		res, isErr := n.apply(c, ch)
		if ch.overflow {
			queue = append(queue, append(append([]bool(nil), pre...), false), append(append([]bool(nil), pre...), true))
			continue
		}
		out = append(out, hyp{n, res, isErr})
	}
	return out
}

func script(srcs []string) string { return strings.Join(srcs, "\n") }

func checkHistory(cs Case, ctx *vcommon.Ctx) *vcommon.Failure {
	rt := vcommon.NewRuntime(vcommon.Cfg{NoProbes: true})
	hyps := []*heap{{}}
	var srcs []string
	classes := map[string]bool{}
	nontrivial := false
	finding := ""
	prev, f := observe(rt)
	if f != nil {
		return f
	}
	fail := func(key, format string, a ...any) *vcommon.Failure {
		msg := fmt.Sprintf(format, a...)
		return vcommon.Failf(key, "%s\nhistory:\n%s", msg, script(srcs))
	}

	origin := map[int]string{} // object id -> the operation that produced it
	extended := map[int]int{}  // object id -> successful extend operations from it
	cops := make([]*cop, len(cs.Steps))
	for si, st := range cs.Steps {
		if si >= 60 {
			break
		}
		h0 := hyps[0]
		h0.again = nil
		if st.Again && si >= 2 && cops[si-2] != nil {
			// same operands as the step two back (derive, mutate, derive AGAIN)
			p := cops[si-2]
			h0.again = map[int]int{}
			if p.b >= 0 {
				h0.again[st.B] = p.b
			}
			if p.a >= 0 {
				h0.again[st.A] = p.a
			}
		}
		c := resolve(st, h0)
		h0.again = nil
		cops[si] = c
		srcs = append(srcs, c.src)
		classes["op/"+c.op] = true

		// classification against the pre-state (hypothesis 0)
		pending := map[string]bool{}
		var target obj
		if c.a >= 0 || c.via != nil {
			target = h0.opA(c)
		}
		targetID, _, targetIsObj := objIDOf(target)
		if c.via != nil {
			pending["via-operand"] = true
			pending[c.op+"-via-holder"] = true
		}
		if extendOps[c.op] && targetIsObj {
			if org, ok := origin[targetID]; ok {
				pending["extend-from/"+org] = true
				if extended[targetID] >= 1 {
					pending["second-extend-from/"+org] = true
				}
			}
		}
		if c.op == "stable-sort" && targetIsObj {
			if org, ok := origin[targetID]; ok {
				pending["stable-sort-of-result-of/"+org] = true
			}
		}
		if mutatingOps[c.op] && c.op != "call" && targetIsObj {
			hs := h0.holders(target)
			if len(hs) >= 1 {
				pending[c.op+"-on-nested"] = true
			}
			if len(hs) >= 2 {
				pending[c.op+"-on-nested-in-2+-holders"] = true
			}
			for _, hid := range hs {
				if org, ok := origin[hid]; ok && !creates[org] && org != "list-0/1" && org != "vector-0/1" {
					pending["mutate-nested-held-by-result-of/"+org] = true
				}
			}
		}
		for _, a := range c.args {
			switch a.kind {
			case 5:
				pending["atom/float"] = true
			case 6:
				pending["atom/symbol"] = true
			case 7:
				pending["atom/keyword"] = true
			}
		}
		for _, k := range c.keys {
			if strings.HasPrefix(k.name, ":") && (c.op == "sorted-map" || c.op == "assoc" || c.op == "assoc!" || c.op == "dissoc" || c.op == "dissoc!" || c.op == "get") {
				pending["keyword-key"] = true
			}
		}
		if c.t == 3 && (c.op == "concat" || c.op == "slice") {
			pending["string-result"] = true
		}
		if _, isArr := target.(*mArr); isArr {
			pending["multi-dim-array-as-operand"] = true
		}
		if c.via != nil {
			if _, isArr := h0.g[c.via.slot].(*mArr); isArr {
				pending["element-of-multi-dim-array-as-operand"] = true
			}
		}
		isMut, isApp := mutatingOps[c.op], appendOps[c.op]
		ntHere := ""
		if (isMut || isApp) && target != nil {
			cnt, order := h0.refs()
			if s, ok := target.(*mSeq); ok && s.view {
				ntHere = "view-target"
				pending[c.op+"-on-view"] = true
				// is the source still live?
				for _, o := range order {
					if o2, ok := o.(*mSeq); ok && o2 != s && o2.b == s.b {
						pending[c.op+"-on-view-with-live-source"] = true
					}
				}
			}
			if cnt[target] >= 2 {
				ntHere = "aliased-target"
				pending[c.op+"-on-aliased"] = true
			}
			if id, _, ok := objIDOf(target); ok {
				for _, o := range order {
					if o == target {
						continue
					}
					_, ps, _ := objIDOf(o)
					for _, p := range ps {
						if p == id {
							ntHere = "derived-live"
							pending[c.op+"-with-derived-live"] = true
						}
					}
				}
			}
			if s, ok := target.(*mSeq); ok {
				for _, o := range order {
					if o2, ok := o.(*mSeq); ok && o2 != s && o2.b == s.b {
						pending["shared-storage-at-"+c.op] = true
						if o2.view && s.view {
							pending["views-of-views-or-siblings"] = true
						}
					}
				}
				if s.b.sealed {
					pending[c.op+"-on-literal"] = true
				}
			}
		}
		for _, a := range c.args {
			if a.kind == 2 {
				if _, _, ok := objIDOf(h0.g[a.i]); ok {
					pending["container-stored-in-container"] = true
				}
			}
		}

		// model: all outcomes of all hypotheses
		var cands []hyp
		for _, h := range hyps {
			cands = append(cands, expand(h, c)...)
		}
		if len(cands) > 1 {
			classes["open-choice"] = true
		}
		// A step after which some container would contain itself, or after
		// which a view is stored inside its own source (an in-place sort can
		// then move it into its own window, even transiently), is outside the
		// domain -- and the interpreter's Copy of a self-containing value
		// overflows the Go stack, which would kill the shard.
		selfRef := false
		for _, cd := range cands {
			if cd.h.cyclic() || cd.h.selfStored() {
				selfRef = true
			}
		}
		if selfRef {
			classes["skipped/would-create-self-containing-value"] = true
			srcs[len(srcs)-1] = "; skipped (self-containing value): " + c.src
			cops[si] = nil
			continue
		}

		// real
		if tf := os.Getenv("C11_TRACE"); tf != "" {
			os.WriteFile(tf, []byte(script(srcs)+"\n"), 0o644)
		}
		var o vcommon.Outcome
		if c.op == "array2" {
			// the cells are evaluated by the interpreter (so references are
			// the live objects), the array is built and bound by the host
			o = rt.Load(c.form)
			if !o.IsErr && !o.Panic {
				dims := make([]*lisp.LVal, len(c.dims))
				for i, d := range c.dims {
					dims[i] = lisp.Int(d)
				}
				cells := append([]*lisp.LVal(nil), o.Val.Cells...)
				arr := lisp.Array(lisp.QExpr(dims), cells)
				if arr.Type != lisp.LError {
					rt.Env.PutGlobal(lisp.Symbol(gname(c.dst)), arr)
				}
				o = rt.Observe(arr)
			}
		} else {
			o = rt.Load(c.src)
		}
		if o.Panic {
			return fail("internal-panic/"+c.op, "step %d %s recovered a Go panic: %s", si, c.src, o.Msg)
		}
		now, f := observe(rt)
		if f != nil {
			return f
		}
		wantErr := cands[0].resErr
		if o.IsErr != wantErr {
			if o.IsErr {
				return fail(c.op+"/unexpected-error", "step %d %s: real fails with %s (%s), model expects success", si, c.src, o.Cond, o.Msg)
			}
			return fail(c.op+"/missing-error", "step %d %s: real returns %s, model expects an error", si, c.src, o.Text)
		}
		if o.IsErr {
			classes["error-step"] = true
			if o.Cond != "error" {
				return fail(c.op+"/error-condition", "step %d %s: condition %q, expected the generic condition \"error\"", si, c.src, o.Cond)
			}
		}
		resCanon := ""
		if !o.IsErr {
			resCanon = norm(o.Canon)
		}
		var surv []*heap
		for _, cd := range cands {
			if cd.resErr != o.IsErr {
				continue
			}
			if !o.IsErr && canonOf(cd.res) != resCanon {
				continue
			}
			if ok, _ := cd.h.matches(&now); ok {
				surv = append(surv, cd.h)
			}
		}
		if len(surv) == 0 {
			// explain against the primary outcome (documented behaviour)
			m := cands[0]
			if !o.IsErr && canonOf(m.res) != resCanon {
				return fail(c.op+"/result", "step %d %s: returned %s, model expects %s", si, c.src, resCanon, canonOf(m.res))
			}
			_, k := m.h.matches(&now)
			if k < 0 {
				// primary matches the names but was filtered: cannot happen
				return fail("harness/filter", "step %d: inconsistent filter", si)
			}
			want, wantText := canonOf(m.h.g[k]), printOf(m.h.g[k])
			kindOf := "wrong-value"
			switch {
			case o.IsErr && (now.canon[k] != prev.canon[k] || now.bound[k] != prev.bound[k]):
				kindOf = "failed-op-changed-a-value"
			case m.h.g[k] == nil || !now.bound[k]:
				kindOf = "binding"
			case now.canon[k] != prev.canon[k] && want == prev.canon[k] && prev.bound[k]:
				if k == c.dst {
					kindOf = "result"
				} else {
					kindOf = "wrote-into-other-value"
				}
			case now.canon[k] == prev.canon[k] && want != prev.canon[k] && prev.bound[k]:
				kindOf = "change-not-visible"
			case now.canon[k] == want && now.text[k] != wantText:
				kindOf = "presentation"
			case k == c.dst:
				kindOf = "result"
			}
			return fail(c.op+"/"+kindOf, "step %d %s: %s is now %s (printed %s), model expects %s (printed %s); before the step it was %s [%d model outcomes considered]",
				si, c.src, gname(k), now.canon[k], now.text[k], want, wantText, prev.canon[k], len(cands))
		}
		// all survivors follow the known-defect behaviour?
		tainted := true
		for _, h := range surv {
			if h.taint == "" {
				tainted = false
			}
		}
		if tainted {
			key := surv[0].taint
			if !ctx.Known(key) {
				return fail(key, "step %d %s: the observed values are only explained by an earlier (append 'vector v) with no values having returned a vector over v's own storage (append's docstring: \"never shares storage with it\")", si, c.src)
			}
			finding = key
		}
		// dedupe, prefer untainted
		sort.SliceStable(surv, func(i, j int) bool { return surv[i].taint == "" && surv[j].taint != "" })
		seen := map[string]bool{}
		hyps = hyps[:0]
		for _, h := range surv {
			fp := h.fingerprint()
			if seen[fp] {
				continue
			}
			seen[fp] = true
			hyps = append(hyps, h)
		}
		if len(hyps) > 1 {
			classes["hypotheses>1"] = true
		}
		if len(hyps) > maxHyps {
			classes["hypothesis-cap-reached"] = true
			break
		}
		if !o.IsErr {
			if extendOps[c.op] && targetIsObj {
				extended[targetID]++
			}
			if c.dst >= 0 {
				if id, _, ok := objIDOf(hyps[0].g[c.dst]); ok {
					if _, seen := origin[id]; !seen {
						org := c.op
						if (org == "list" || org == "vector") && len(c.args) <= 1 {
							org += "-0/1"
						}
						origin[id] = org
					}
				}
			}
			if (c.op == "append!" || c.op == "append-bytes!") && targetIsObj {
				origin[targetID] = c.op
			}
			for cl := range pending {
				classes[cl] = true
			}
			if ntHere != "" {
				nontrivial = true
				classes["nontrivial/"+ntHere] = true
			}
		}

		// invariants and spelling-independence probes (non-mutating forms)
		if f := probes(rt, hyps[0], si, fail); f != nil {
			return f
		}
		after, f := observe(rt)
		if f != nil {
			return f
		}
		if after != now {
			return fail("probe/changed-a-value", "step %d: evaluating length/keys/get/key?/assoc/dissoc probes changed a live value", si)
		}
		prev = now
	}

	cls := make([]string, 0, len(classes))
	for cl := range classes {
		cls = append(cls, cl)
	}
	sort.Strings(cls)
	for _, cl := range cls {
		ctx.Class(cl)
	}
	if nontrivial {
		ctx.NonTrivial(script(srcs))
		ctx.Note(script(srcs))
	}
	if finding != "" {
		return fail(finding, "history reaches the known zero-value append aliasing")
	}
	return nil
}

// probes checks, through the language itself, what the property says about
// maps (sorted enumeration, spelling-independent identity, finite-map
// behaviour) and that every container's length agrees with the model.
func probes(rt *vcommon.Rt, h *heap, si int, fail func(string, string, ...any) *vcommon.Failure) *vcommon.Failure {
	var lenForms []string
	var lenWant []int
	var lenName []string
	for i, o := range h.g {
		if n, ok := lenOf(o); ok {
			lenForms = append(lenForms, "(length "+gname(i)+")")
			lenWant = append(lenWant, n)
			lenName = append(lenName, gname(i))
		}
	}
	if len(lenForms) > 0 {
		o := rt.Load("(list " + strings.Join(lenForms, " ") + ")")
		if o.Panic {
			return fail("internal-panic/length", "length probe recovered a Go panic: %s", o.Msg)
		}
		if o.IsErr {
			return fail("probe/length-error", "length probe failed: %s", o.Msg)
		}
		for i, cell := range o.Val.Cells {
			if cell.Type != lisp.LInt || cell.Int != lenWant[i] {
				return fail("length/disagrees", "step %d: (length %s) = %s, model has %d elements", si, lenName[i], cell.String(), lenWant[i])
			}
		}
	}
	done := map[*mMap]bool{}
	for i, o := range h.g {
		m, ok := o.(*mMap)
		if !ok || done[m] {
			continue
		}
		done[m] = true
		g := gname(i)
		pk := keyPool[mod(si, len(keyPool))]
		var b strings.Builder
		fmt.Fprintf(&b, "(list (length %s) (keys %s)", g, g)
		for _, k := range keyPool {
			fmt.Fprintf(&b, " (get %s %s) (get %s %q) (key? %s %s) (key? %s %q)", g, symSpell(k), g, k, g, symSpell(k), g, k)
		}
		fmt.Fprintf(&b, " (assoc %s %s 77) (assoc %s %q 77) (dissoc %s %s) (dissoc %s %q))", g, symSpell(pk), g, pk, g, symSpell(pk), g, pk)
		o := rt.Load(b.String())
		if o.Panic {
			return fail("internal-panic/map-probe", "map probe recovered a Go panic: %s", o.Msg)
		}
		if o.IsErr {
			return fail("map/probe-error", "step %d: map probe on %s failed: %s", si, g, o.Msg)
		}
		cells := o.Val.Cells
		names := sortedKeys(m)
		if cells[0].Type != lisp.LInt || cells[0].Int != len(names) {
			return fail("map/length", "step %d: (length %s) = %s but the map has %d keys", si, g, cells[0].String(), len(names))
		}
		ks := cells[1].Cells
		var got []string
		for _, k := range ks {
			got = append(got, k.Str)
		}
		for j := 1; j < len(got); j++ {
			if !(got[j-1] < got[j]) {
				return fail("map/keys-not-sorted", "step %d: (keys %s) = %v is not in strictly increasing order", si, g, got)
			}
		}
		if strings.Join(got, "\x00") != strings.Join(names, "\x00") {
			return fail("map/keys-set", "step %d: (keys %s) = %v, model has %v", si, g, got, names)
		}
		p := 2
		for _, k := range keyPool {
			gs, gq, ks, kq := cells[p], cells[p+1], cells[p+2], cells[p+3]
			p += 4
			want, present := "()", "false"
			if e, ok := m.ents[k]; ok {
				want, present = canonOf(e.v), "true"
			}
			a, bb := norm(vcommon.Canon(gs)), norm(vcommon.Canon(gq))
			if a != bb {
				return fail("map/get-spelling-disagrees", "step %d: (get %s '%s) = %s but (get %s %q) = %s", si, g, k, a, g, k, bb)
			}
			if a != want {
				return fail("map/get", "step %d: (get %s '%s) = %s, model has %s", si, g, k, a, want)
			}
			if vcommon.Canon(ks) != vcommon.Canon(kq) {
				return fail("map/key?-spelling-disagrees", "step %d: (key? %s '%s) = %s but with the string spelling %s", si, g, k, vcommon.Canon(ks), vcommon.Canon(kq))
			}
			if vcommon.Canon(ks) != present {
				return fail("map/key?", "step %d: (key? %s '%s) = %s, model says %s", si, g, k, vcommon.Canon(ks), present)
			}
		}
		as, aq, ds, dq := norm(vcommon.Canon(cells[p])), norm(vcommon.Canon(cells[p+1])), norm(vcommon.Canon(cells[p+2])), norm(vcommon.Canon(cells[p+3]))
		if as != aq {
			return fail("map/assoc-spelling-disagrees", "step %d: (assoc %s '%s 77) = %s but with the string spelling %s", si, g, pk, as, aq)
		}
		if ds != dq {
			return fail("map/dissoc-spelling-disagrees", "step %d: (dissoc %s '%s) = %s but with the string spelling %s", si, g, pk, ds, dq)
		}
		tmp := &heap{}
		wa := tmp.copyMap(m)
		wa.ents[pk] = &ment{v: mInt(77)}
		wd := tmp.copyMap(m)
		delete(wd.ents, pk)
		if as != canonOf(wa) {
			return fail("map/assoc-probe", "step %d: (assoc %s '%s 77) = %s, model expects %s", si, g, pk, as, canonOf(wa))
		}
		if ds != canonOf(wd) {
			return fail("map/dissoc-probe", "step %d: (dissoc %s '%s) = %s, model expects %s", si, g, pk, ds, canonOf(wd))
		}
	}
	return nil
}
