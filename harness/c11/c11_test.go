// C11: sharing, copying and mutation follow the documented discipline.
//
// A case is a history: a list of container operations over ten global names
// in ONE runtime.  After every step every live name is re-inspected and
// compared with a heap model written from docs/lang.md and the builtin
// docstrings (model_test.go); exec_test.go holds the executor and oracle.
package c11

import (
	"os"
	"testing"

	"github.com/luthersystems/elps/verifharness/vcommon"
	"pgregory.net/rapid"
)

// Operations are drawn in two levels (category, then operation) from short
// lists: rapid's integer draws favour small values, and one long weighted list
// starves its tail.
var categories = []string{"sort", "grow", "view", "append", "map", "sort", "bytes", "alias", "view", "map", "other", "grow", "call", "create", "append", "map", "bytes", "call"}

var catOps = map[string][]string{
	"sort":   {"stable-sort"},
	"grow":   {"append!"},
	"view":   {"slice", "rest", "slice", "cdr", "slice"},
	"append": {"append", "append", "concat", "insert-sorted", "append", "insert-index"},
	"map":    {"assoc!", "dissoc!", "alias", "assoc!", "assoc", "dissoc!", "dissoc", "keys", "get"},
	"bytes":  {"append-bytes!", "append!", "alias", "append-bytes", "append", "slice", "to-bytes", "concat", "append-bytes!"},
	"call":   {"call"},
	"alias":  {"alias", "nth", "alias", "get"},
	"other":  {"cons", "reverse", "map", "select", "zip", "reject", "concat", "insert-sorted"},
	"create": {"vector", "quote", "sorted-map", "list", "to-bytes", "make-sequence", "vector", "quote"},
}

var createNames = []string{"vector", "vector", "list", "quote", "quote", "sorted-map", "to-bytes", "vector"}

func genArg(t *rapid.T) Arg {
	a := Arg{}
	switch k := rapid.IntRange(0, 11).Draw(t, "argkind"); {
	case k <= 6:
		a.K = 0
		a.I = rapid.IntRange(-3, 12).Draw(t, "int")
		if rapid.IntRange(0, 15).Draw(t, "big") == 0 {
			a.I = rapid.SampledFrom([]int{255, 256, 300, -1, 100}).Draw(t, "bigint")
		}
	case k == 7:
		a.K = 1
		a.I = rapid.IntRange(0, 4).Draw(t, "str")
	case k <= 9:
		a.K = 2
		a.I = rapid.IntRange(0, 9).Draw(t, "ref")
	default:
		a.K = 3
		a.L = rapid.SliceOfN(rapid.IntRange(-3, 12), 0, 4).Draw(t, "sub")
	}
	return a
}

func genStep(t *rapid.T, first bool) Step {
	s := Step{}
	cat := "create"
	if first {
		s.Op = rapid.SampledFrom(createNames).Draw(t, "create")
	} else {
		cat = rapid.SampledFrom(categories).Draw(t, "cat")
		s.Op = rapid.SampledFrom(catOps[cat]).Draw(t, "op")
	}
	s.Dst = rapid.IntRange(0, 9).Draw(t, "dst")
	if mutatingOps[s.Op] && rapid.IntRange(0, 2).Draw(t, "bare") > 0 {
		s.Dst = -1
	}
	s.A = rapid.IntRange(0, 9).Draw(t, "a")
	s.B = rapid.IntRange(0, 9).Draw(t, "b")
	s.Loose = rapid.IntRange(0, 11).Draw(t, "loose") == 0
	s.T = rapid.SampledFrom([]int{1, 0, 1, 0, 1, 0, 1, 2}).Draw(t, "t")
	if cat == "bytes" && rapid.IntRange(0, 5).Draw(t, "bt") > 0 {
		s.T = 2
	}
	s.I = rapid.IntRange(0, 7).Draw(t, "i")
	s.J = rapid.IntRange(0, 7).Draw(t, "j")
	nargs := 0
	switch s.Op {
	case "vector", "list", "quote":
		nargs = rapid.IntRange(0, 6).Draw(t, "nargs")
	case "sorted-map":
		nargs = rapid.IntRange(0, 4).Draw(t, "nargs")
	case "append", "append!":
		nargs = rapid.SampledFrom([]int{0, 0, 1, 1, 1, 2, 3}).Draw(t, "nargs")
	case "cons", "insert-index", "insert-sorted", "assoc", "assoc!", "call":
		nargs = 1
	}
	for i := 0; i < nargs; i++ {
		s.Args = append(s.Args, genArg(t))
	}
	nkeys := 0
	switch s.Op {
	case "sorted-map":
		nkeys = nargs
	case "assoc", "assoc!", "dissoc", "dissoc!", "get":
		nkeys = 1
	}
	for i := 0; i < nkeys; i++ {
		s.Keys = append(s.Keys, KeySpec{N: rapid.IntRange(0, 4).Draw(t, "key"), Sym: rapid.Bool().Draw(t, "sym")})
	}
	s.Fn = rapid.IntRange(0, 3).Draw(t, "fn")
	if s.Op == "alias" && cat == "map" {
		s.Fn = 1
	}
	if s.Op == "alias" && cat == "bytes" {
		s.Fn = 2
	}
	s.Pred = rapid.IntRange(0, 1).Draw(t, "pred")
	s.KeyFn = rapid.SampledFrom([]int{0, 0, 0, 1, 2}).Draw(t, "keyfn")
	if rapid.IntRange(0, 13).Draw(t, "badq") == 0 {
		s.Bad = rapid.IntRange(1, 5).Draw(t, "bad")
	}
	s.Pref = rapid.SampledFrom([]int{0, 1, 2, 0, 3, 1, 0, 2}).Draw(t, "pref")
	return s
}

var deriveOps = []string{"keys", "reverse", "keys", "map", "select", "concat", "keys", "zip", "append", "slice", "reject", "insert-index", "rest", "to-bytes", "append-bytes", "call"}

// genDerive emits the scenario the discipline is most easily broken by:
// DERIVE a value from a container with a non-mutating builtin, MUTATE the
// derived value in place (an order-changing stable-sort, append!, or
// append-bytes!), then DERIVE AGAIN from the same source -- the oracle compares
// the source, both derived values and the map enumeration with the model after
// each of the three steps.
func genDerive(t *rapid.T) []Step {
	d := genStep(t, false)
	d.Op = rapid.SampledFrom(deriveOps).Draw(t, "derive")
	d.Loose, d.Bad = false, 0
	d.Dst = rapid.IntRange(0, 9).Draw(t, "ddst")
	if d.Op == "append" || d.Op == "concat" {
		d.Args = nil // zero values / a plain copy
		d.J = 0
	}
	if d.Op == "slice" {
		d.I, d.J = 0, 7
	}
	m := genStep(t, false)
	m.Op = rapid.SampledFrom([]string{"stable-sort", "stable-sort", "append!", "stable-sort", "append-bytes!"}).Draw(t, "mut")
	if d.Op == "to-bytes" || d.Op == "append-bytes" || (d.Op == "slice" && d.T == 2) || (d.Op == "append" && d.T == 2) || (d.Op == "concat" && d.T == 2) {
		m.Op = rapid.SampledFrom([]string{"append-bytes!", "append!"}).Draw(t, "bmut")
		m.T = 2
	}
	m.Direct, m.Loose, m.Bad, m.Pref = true, false, 0, 0
	m.A = d.Dst
	m.Dst = -1
	m.KeyFn = rapid.IntRange(1, 2).Draw(t, "mkeyfn")
	if len(m.Args) == 0 {
		m.Args = []Arg{{K: 0, I: 7}}
	}
	r := d
	r.Again = true
	r.Dst = rapid.IntRange(0, 9).Draw(t, "rdst")
	if r.Dst == d.Dst {
		r.Dst = (r.Dst + 1) % NSlots
	}
	return []Step{d, m, r}
}

func genCase() *rapid.Generator[Case] {
	maxSteps := 25
	if os.Getenv("VERIF_TIER") == "thorough" {
		maxSteps = 40
	}
	return rapid.Custom(func(t *rapid.T) Case {
		n := rapid.IntRange(3, maxSteps).Draw(t, "nsteps")
		c := Case{}
		for len(c.Steps) < n {
			i := len(c.Steps)
			if i >= 2 && rapid.IntRange(0, 5).Draw(t, "scenario") == 0 {
				c.Steps = append(c.Steps, genDerive(t)...)
				continue
			}
			c.Steps = append(c.Steps, genStep(t, i < 2))
		}
		return c
	})
}

func TestCheck(t *testing.T) {
	vcommon.Main(t, "C11",
		vcommon.S("history", 12800, 400000, genCase(), checkHistory),
	)
}
