// C11: sharing, copying and mutation follow the documented discipline.
//
// A case is a history: a list of container operations over ten global names
// in ONE runtime.  After every step every live name is re-inspected and
// compared with a heap model written from docs/lang.md and the builtin
// docstrings (model_test.go); exec_test.go holds the executor and oracle.
package c11

import (
	"os"
	"testing"

	"github.com/luthersystems/elps/verifharness/vcommon"
	"pgregory.net/rapid"
)

// Operations are drawn in two levels (category, then operation) from short
// lists: rapid's integer draws favour small values, and one long weighted list
// starves its tail.
var categories = []string{"sort", "grow", "view", "append", "map", "sort", "bytes", "alias", "view", "map", "other", "grow", "call", "create", "append", "map", "bytes", "call", "call", "map"}

var catOps = map[string][]string{
	"sort":   {"stable-sort"},
	"grow":   {"append!"},
	"view":   {"slice", "rest", "slice", "cdr", "slice"},
	"append": {"append", "append", "concat", "insert-sorted", "append", "insert-index"},
	"map":    {"assoc!", "dissoc!", "alias", "assoc!", "assoc", "dissoc!", "dissoc", "keys", "get"},
	"bytes":  {"append-bytes!", "append!", "alias", "append-bytes", "append", "slice", "to-bytes", "concat", "append-bytes!"},
	"call":   {"call"},
	"alias":  {"alias", "nth", "alias", "get"},
	"other":  {"cons", "reverse", "map", "select", "zip", "reject", "concat", "insert-sorted"},
	"create": {"vector", "quote", "sorted-map", "list", "to-bytes", "make-sequence", "vector", "quote", "array2"},
}

var createNames = []string{"vector", "vector", "list", "quote", "quote", "sorted-map", "to-bytes", "vector"}

func genArg(t *rapid.T) Arg {
	a := Arg{}
	switch k := rapid.IntRange(0, 14).Draw(t, "argkind"); {
	case k == 12:
		a.K = 5 // float I+0.5
		a.I = rapid.IntRange(-3, 12).Draw(t, "float")
	case k == 13:
		a.K = 6 // symbol
		a.I = rapid.IntRange(0, 4).Draw(t, "sym")
	case k == 14:
		a.K = 7 // keyword
		a.I = rapid.IntRange(0, 4).Draw(t, "kw")
	case k <= 6:
		a.K = 0
		a.I = rapid.IntRange(-3, 12).Draw(t, "int")
		if rapid.IntRange(0, 15).Draw(t, "big") == 0 {
			a.I = rapid.SampledFrom([]int{255, 256, 300, -1, 100}).Draw(t, "bigint")
		}
	case k == 7:
		a.K = 1
		a.I = rapid.IntRange(0, 4).Draw(t, "str")
	case k <= 9:
		a.K = 2
		a.I = rapid.IntRange(0, 9).Draw(t, "ref")
	default:
		a.K = 3
		a.L = rapid.SliceOfN(rapid.IntRange(-3, 12), 0, 4).Draw(t, "sub")
	}
	return a
}

func genStep(t *rapid.T, first bool) Step { return genStepOp(t, first, "") }

// genStepOp draws a step; a non-empty op forces the operation.
func genStepOp(t *rapid.T, first bool, op string) Step {
	s := Step{}
	cat := "create"
	if op != "" {
		s.Op = op
		cat = ""
	} else if first {
		s.Op = rapid.SampledFrom(createNames).Draw(t, "create")
	} else {
		cat = rapid.SampledFrom(categories).Draw(t, "cat")
		s.Op = rapid.SampledFrom(catOps[cat]).Draw(t, "op")
	}
	s.Dst = rapid.IntRange(0, 9).Draw(t, "dst")
	if mutatingOps[s.Op] && rapid.IntRange(0, 2).Draw(t, "bare") > 0 {
		s.Dst = -1
	}
	s.A = rapid.IntRange(0, 9).Draw(t, "a")
	s.B = rapid.IntRange(0, 9).Draw(t, "b")
	s.Loose = rapid.IntRange(0, 11).Draw(t, "loose") == 0
	s.T = rapid.SampledFrom([]int{1, 0, 1, 0, 1, 0, 1, 2, 0, 3}).Draw(t, "t")
	if cat == "bytes" && rapid.IntRange(0, 5).Draw(t, "bt") > 0 {
		s.T = rapid.SampledFrom([]int{2, 2, 2, 3}).Draw(t, "btt")
	}
	if (s.Op == "concat" || s.Op == "slice") && rapid.IntRange(0, 5).Draw(t, "strq") == 0 {
		s.T = 3 // a 'string result
	}
	s.I = rapid.IntRange(0, 7).Draw(t, "i")
	s.J = rapid.IntRange(0, 7).Draw(t, "j")
	nargs := 0
	switch s.Op {
	case "vector", "list", "quote", "array2":
		nargs = rapid.IntRange(0, 6).Draw(t, "nargs")
	case "sorted-map":
		nargs = rapid.IntRange(0, 4).Draw(t, "nargs")
	case "append", "append!":
		nargs = rapid.SampledFrom([]int{0, 0, 1, 1, 1, 2, 3}).Draw(t, "nargs")
	case "cons", "insert-index", "insert-sorted", "assoc", "assoc!", "call":
		nargs = 1
	}
	for i := 0; i < nargs; i++ {
		s.Args = append(s.Args, genArg(t))
	}
	nkeys := 0
	switch s.Op {
	case "sorted-map":
		nkeys = nargs
	case "assoc", "assoc!", "dissoc", "dissoc!", "get":
		nkeys = 1
	}
	for i := 0; i < nkeys; i++ {
		s.Keys = append(s.Keys, KeySpec{N: rapid.SampledFrom([]int{0, 1, 2, 3, 4, 5, 6, 0, 1, 2, 3, 4, 5, 6, 7, 7, 8, 9}).Draw(t, "key"), Sym: rapid.Bool().Draw(t, "sym")})
	}
	s.Fn = rapid.IntRange(0, 3).Draw(t, "fn")
	if s.Op == "alias" && cat == "map" {
		s.Fn = 1
	}
	if s.Op == "alias" && cat == "bytes" {
		s.Fn = 2
	}
	s.Pred = rapid.IntRange(0, 1).Draw(t, "pred")
	s.KeyFn = rapid.SampledFrom([]int{0, 0, 0, 1, 2}).Draw(t, "keyfn")
	if rapid.IntRange(0, 13).Draw(t, "badq") == 0 {
		s.Bad = rapid.IntRange(1, 5).Draw(t, "bad")
	}
	s.Pref = rapid.SampledFrom([]int{0, 1, 2, 0, 3, 1, 0, 2}).Draw(t, "pref")
	if rapid.IntRange(0, 6).Draw(t, "viaq") == 0 {
		s.Via = rapid.IntRange(1, 63).Draw(t, "via")
	}
	return s
}

var deriveOps = []string{"keys", "reverse", "keys", "map", "select", "concat", "keys", "zip", "append", "slice", "reject", "insert-index", "rest", "to-bytes", "append-bytes", "call"}

// genDerive emits the scenario the discipline is most easily broken by:
// DERIVE a value from a container with a non-mutating builtin, MUTATE the
// derived value in place (an order-changing stable-sort, append!, or
// append-bytes!), then DERIVE AGAIN from the same source -- the oracle compares
// the source, both derived values and the map enumeration with the model after
// each of the three steps.
func genDerive(t *rapid.T) []Step {
	d := genStep(t, false)
	d.Op = rapid.SampledFrom(deriveOps).Draw(t, "derive")
	d.Loose, d.Bad = false, 0
	d.Dst = rapid.IntRange(0, 9).Draw(t, "ddst")
	if d.Op == "append" || d.Op == "concat" {
		d.Args = nil // zero values / a plain copy
		d.J = 0
	}
	if d.Op == "slice" {
		d.I, d.J = 0, 7
	}
	m := genStep(t, false)
	m.Op = rapid.SampledFrom([]string{"stable-sort", "stable-sort", "append!", "stable-sort", "append-bytes!"}).Draw(t, "mut")
	if d.Op == "to-bytes" || d.Op == "append-bytes" || (d.Op == "slice" && d.T == 2) || (d.Op == "append" && d.T == 2) || (d.Op == "concat" && d.T == 2) {
		m.Op = rapid.SampledFrom([]string{"append-bytes!", "append!"}).Draw(t, "bmut")
		m.T = 2
	}
	m.Direct, m.Loose, m.Bad, m.Pref = true, false, 0, 0
	m.A = d.Dst
	m.Dst = -1
	m.KeyFn = rapid.IntRange(1, 2).Draw(t, "mkeyfn")
	if len(m.Args) == 0 {
		m.Args = []Arg{{K: 0, I: 7}}
	}
	builds := d.Op == "zip" || (d.Op == "map" && d.Fn%3 == 2) // the operation makes its own element containers
	if builds && rapid.Bool().Draw(t, "mbuilt") {
		// each tuple / wrapped element is a fresh value of its own: growing or
		// sorting one must not touch its neighbours
		m.Via = rapid.IntRange(1, 63).Draw(t, "mvia")
		if d.Op == "zip" && d.T == 1 {
			m.Op = "append!"
		}
	} else if rapid.IntRange(0, 3).Draw(t, "melem") == 0 {
		// ... or change an ELEMENT of the derived value in place: a zip tuple,
		// a list made by the mapped function, or one of the source's own
		// elements, which the derived value must share
		m.Via = rapid.IntRange(1, 63).Draw(t, "mvia")
	}
	var pre []Step
	if rapid.IntRange(0, 3).Draw(t, "tiny") == 0 && d.Op != "keys" && d.Op != "to-bytes" && d.Op != "append-bytes" {
		// derive from a 0- or 1-element list / vector of the result's own type
		// (or the other one): where "nothing to do" shortcuts that hand back
		// the argument itself would live
		src := scenarioStep(t, rapid.SampledFrom([]string{"list", "vector"}).Draw(t, "tinyop"))
		if len(src.Args) > 1 {
			src.Args = src.Args[:rapid.IntRange(0, 1).Draw(t, "tinyn")]
		}
		src.Dst = (d.Dst + 1 + rapid.IntRange(0, 7).Draw(t, "tinydst")) % NSlots
		if rapid.IntRange(0, 2).Draw(t, "tinysame") > 0 {
			d.T = map[string]int{"list": 0, "vector": 1}[src.Op]
		}
		aim(&d, src.Dst)
		d.B = src.Dst
		pre = []Step{src}
	}
	r := d
	r.Again = true
	r.Dst = rapid.IntRange(0, 9).Draw(t, "rdst")
	if r.Dst == d.Dst {
		r.Dst = (r.Dst + 1) % NSlots
	}
	return append(pre, d, m, r)
}

// scenarioStep draws a well-typed step of the given operation for use inside
// a scenario (no error injection, no path operand unless the scenario sets it).
func scenarioStep(t *rapid.T, op string) Step {
	s := genStepOp(t, false, op)
	s.Loose, s.Bad, s.Via, s.Pref = false, 0, 0, 0
	return s
}

// maybeBad gives a scenario step an injected error now and then (bad byte at
// any position, unhashable key, index / bound out of range): a refused
// operation must change nothing, whatever it was aimed at.
func maybeBad(t *rapid.T, s *Step) {
	switch rapid.IntRange(0, 11).Draw(t, "sbadq") {
	case 0, 1:
		s.Bad = rapid.IntRange(1, 5).Draw(t, "sbad")
		if s.T == 2 && rapid.Bool().Draw(t, "sbadbyte") {
			s.Bad = 5
		}
	case 2:
		s.Loose = true // an operand of any type
	}
}

// aim makes the principal operand of s the value held by slot a.
func aim(s *Step, a int) { s.Direct, s.A = true, a }

// distinctSlots draws n (<= 4) pairwise different slots.
func distinctSlots(t *rapid.T, n int) []int {
	out := []int{rapid.IntRange(0, NSlots-1).Draw(t, "slot")}
	for len(out) < n {
		out = append(out, (out[len(out)-1]+rapid.IntRange(1, 3).Draw(t, "slotd"))%NSlots)
	}
	return out
}

func atLeastOneArg(t *rapid.T, s *Step) {
	if len(s.Args) == 0 {
		s.Args = []Arg{genArg(t)}
	}
}

var extendSeqOps = []string{"append", "append", "append", "cons", "insert-index", "insert-sorted", "concat", "append!", "append", "insert-index"}
var extendByteOps = []string{"append", "append-bytes", "append", "append-bytes", "concat", "append!", "append-bytes!"}
var exactOrigins = []string{"keys", "reverse", "concat", "zip", "append", "insert-index", "insert-sorted", "slice", "rest", "cdr"}

// genCapacity emits the scenario in which a write can land in SPARE CAPACITY:
// a source S whose storage was grown incrementally or sized generously by its
// producer (a 0/1-element list or vector, a cons chain, select / reject,
// make-sequence, map, a vector or bytes value grown by append! /
// append-bytes!, any derived value, or whatever a slot already holds), then
// TWO extending operations from that same source into X and Y (append each
// type, cons, insert-index incl. at the end, insert-sorted, concat, append!,
// append-bytes), then an in-place change of X and of Y or S.  Every live value
// is compared with the model after each step, so a second extension that
// overwrites the first one's result, or a sort of X that reorders S, is seen.
func genCapacity(t *rapid.T) []Step {
	sl := distinctSlots(t, 3)
	S, X, Y := sl[0], sl[1], sl[2]
	out, bytesSrc := capOrigin(t, S)
	return genCapacityFrom(t, out, bytesSrc, S, X, Y)
}

// capOrigin emits the steps that leave in slot S a source whose storage may
// have spare capacity (see genCapacity for the thirteen origins).
func capOrigin(t *rapid.T, S int) ([]Step, bool) {
	var out []Step
	bytesSrc := false
	switch org := rapid.IntRange(0, 12).Draw(t, "origin"); org {
	case 0: // 0/1-element list or vector (the argument list is sized for the formals)
		s := scenarioStep(t, rapid.SampledFrom([]string{"list", "list", "vector"}).Draw(t, "o0"))
		if len(s.Args) > 1 {
			s.Args = s.Args[:rapid.IntRange(0, 1).Draw(t, "o0n")]
		}
		s.Dst = S
		out = append(out, s)
	case 1, 2: // cons chain
		s := scenarioStep(t, "list")
		if len(s.Args) > 1 {
			s.Args = s.Args[:rapid.IntRange(0, 1).Draw(t, "o1n")]
		}
		s.Dst = S
		out = append(out, s)
		for i := 0; i < org; i++ {
			c := scenarioStep(t, "cons")
			aim(&c, S)
			c.Dst = S
			out = append(out, c)
		}
	case 3, 4, 5: // select / reject into a list or a vector
		s := scenarioStep(t, rapid.SampledFrom([]string{"select", "reject"}).Draw(t, "o3"))
		s.T = rapid.SampledFrom([]int{0, 0, 1}).Draw(t, "o3t")
		s.Pref = rapid.IntRange(0, 3).Draw(t, "o3p")
		s.Dst = S
		out = append(out, s)
	case 6:
		s := scenarioStep(t, "make-sequence")
		s.Dst = S
		out = append(out, s)
	case 7:
		s := scenarioStep(t, "map")
		s.T = rapid.IntRange(0, 1).Draw(t, "o7t")
		s.Dst = S
		out = append(out, s)
	case 8, 9: // a vector grown in place
		s := scenarioStep(t, "vector")
		s.Dst = S
		g := scenarioStep(t, "append!")
		g.T = 1
		aim(&g, S)
		g.Dst = -1
		atLeastOneArg(t, &g)
		out = append(out, s, g)
	case 10: // bytes grown in place
		bytesSrc = true
		s := scenarioStep(t, "to-bytes")
		s.Fn = 1 // from a string
		s.Dst = S
		g := scenarioStep(t, rapid.SampledFrom([]string{"append!", "append-bytes!"}).Draw(t, "o10"))
		g.T = 2
		aim(&g, S)
		g.Dst = -1
		atLeastOneArg(t, &g)
		out = append(out, s, g)
	case 11: // a derived value
		s := scenarioStep(t, rapid.SampledFrom(exactOrigins).Draw(t, "o11"))
		s.T = rapid.IntRange(0, 1).Draw(t, "o11t")
		s.Pref = rapid.IntRange(0, 3).Draw(t, "o11p")
		s.Dst = S
		out = append(out, s)
	default: // whatever slot S holds already
	}
	return out, bytesSrc
}

func genCapacityFrom(t *rapid.T, out []Step, bytesSrc bool, S, X, Y int) []Step {
	if !bytesSrc && rapid.IntRange(0, 2).Draw(t, "capderive") == 0 {
		// ... or a value DERIVED from that source (the 0- and 1-element
		// special cases of reverse, map, select, concat, slice ... start here);
		// the first source stays live
		d := scenarioStep(t, rapid.SampledFrom([]string{"reverse", "concat", "map", "select", "reject", "append", "slice", "rest", "insert-index", "zip", "cdr", "alias"}).Draw(t, "capdop"))
		d.T = rapid.IntRange(0, 1).Draw(t, "capdt")
		if d.Op == "append" || d.Op == "concat" {
			d.Args, d.J = nil, 0
		}
		if d.Op == "slice" {
			d.I, d.J = 0, 7
		}
		if d.Op == "alias" {
			d.Fn = 0
		}
		aim(&d, S)
		d.B = S
		S = (Y + 1 + rapid.IntRange(0, 1).Draw(t, "caps2")) % NSlots
		d.Dst = S
		out = append(out, d)
	}
	ops := extendSeqOps
	if bytesSrc {
		ops = extendByteOps
	}
	op1 := rapid.SampledFrom(ops).Draw(t, "ext1")
	op2 := op1
	if rapid.IntRange(0, 3).Draw(t, "extdiff") == 0 {
		op2 = rapid.SampledFrom(ops).Draw(t, "ext2")
	}
	t1 := rapid.SampledFrom([]int{1, 1, 0}).Draw(t, "extt")
	for i, op := range []string{op1, op2} {
		e := scenarioStep(t, op)
		aim(&e, S)
		e.Dst = []int{X, Y}[i]
		e.T = t1
		if bytesSrc {
			e.T = 2
		} else if i == 1 && rapid.IntRange(0, 4).Draw(t, "exttd") == 0 {
			e.T = 1 - t1
		}
		if op == "append" || op == "append!" {
			atLeastOneArg(t, &e)
		}
		if op == "insert-index" && rapid.Bool().Draw(t, "atend") {
			e.I = -1 // resolved to the length: insertion at the end
		}
		maybeBad(t, &e)
		out = append(out, e)
	}
	for i := 0; i < 2; i++ {
		op := "stable-sort"
		if bytesSrc || rapid.IntRange(0, 4).Draw(t, "capmut") == 0 {
			op = "append!"
		}
		m := scenarioStep(t, op)
		if bytesSrc {
			m.T = 2
		}
		if i == 0 {
			aim(&m, X)
		} else {
			aim(&m, rapid.SampledFrom([]int{Y, Y, S}).Draw(t, "capmut2"))
		}
		m.Dst = -1
		atLeastOneArg(t, &m)
		maybeBad(t, &m)
		out = append(out, m)
	}
	return out
}

var nestedSeqDerive = []string{"concat", "concat", "append", "append", "cons", "reverse", "map", "select", "reject", "zip", "insert-index", "insert-sorted", "slice", "cdr", "rest", "nth", "alias", "call", "concat", "append"}
var nestedMapDerive = []string{"assoc", "dissoc", "assoc", "dissoc", "get", "alias"}

// genNested emits the scenario that pins the IDENTITY of a container held as
// an element: make a container N (list, vector, sorted-map or bytes), store it
// -- once or twice -- in a holder H (list, vector, sorted-map, cons, append!,
// assoc!), DERIVE D from H with a non-mutating operation (its elements are
// the same objects), then change N in place by one of four routes: through
// its own name, through H, through D, or through any holder that has a
// fitting element -- (stable-sort < (nth gD 0)), (assoc! (get gH 'k) ...),
// (append! (aref gD 1) ...).  Optionally a second change by another route or
// a second derivation from the same operands follows.  After each step N, H
// and D (and every other live value) are compared with the model.
func genNested(t *rapid.T) []Step {
	sl := distinctSlots(t, 4)
	N, H, D, E := sl[0], sl[1], sl[2], sl[3]
	var out []Step
	kind := rapid.IntRange(0, 3).Draw(t, "nkind") // 0 list, 1 vector, 2 map, 3 bytes
	if rapid.IntRange(0, 4).Draw(t, "nexisting") > 0 {
		in := scenarioStep(t, []string{"list", "vector", "sorted-map", "to-bytes"}[kind])
		in.Fn = 1
		in.Dst = N
		out = append(out, in)
	}
	ref := Arg{K: 4, I: N}
	hop := rapid.SampledFrom([]string{"list", "vector", "sorted-map", "list", "vector", "cons", "append!", "assoc!", "array2"}).Draw(t, "hop")
	h := scenarioStep(t, hop)
	h.Dst = H
	h.T = 1
	atLeastOneArg(t, &h)
	if hop == "sorted-map" && len(h.Keys) < len(h.Args) {
		h.Keys = append(h.Keys, KeySpec{N: rapid.IntRange(0, 6).Draw(t, "hkey"), Sym: rapid.Bool().Draw(t, "hsym")})
	}
	h.Args[rapid.IntRange(0, len(h.Args)-1).Draw(t, "hpos")] = ref
	if len(h.Args) > 1 && rapid.IntRange(0, 2).Draw(t, "htwice") == 0 {
		h.Args[rapid.IntRange(0, len(h.Args)-1).Draw(t, "hpos2")] = ref
	}
	out = append(out, h)
	holderIsMap := hop == "sorted-map" || hop == "assoc!"
	dops := nestedSeqDerive
	if holderIsMap {
		dops = nestedMapDerive
	}
	d := scenarioStep(t, rapid.SampledFrom(dops).Draw(t, "dop"))
	aim(&d, H)
	d.Dst = D
	d.T = rapid.IntRange(0, 1).Draw(t, "dt")
	switch d.Op {
	case "map":
		if rapid.IntRange(0, 2).Draw(t, "dmapid") > 0 {
			d.Fn = 0 // identity: the elements themselves
		}
	case "select":
		d.Fn = rapid.IntRange(1, 2).Draw(t, "dsel") // keeps containers
	case "reject":
		d.Fn = 0 // rejects ints, keeps containers
	case "zip", "concat":
		if rapid.Bool().Draw(t, "dself") {
			d.B = H
		}
	case "slice":
		if rapid.Bool().Draw(t, "dfull") {
			d.I, d.J = 0, 7
		}
	case "alias":
		d.Fn = 0
	case "call":
		atLeastOneArg(t, &d)
	}
	out = append(out, d)
	mutOps := [][]string{{"stable-sort"}, {"stable-sort", "append!", "stable-sort"}, {"assoc!", "dissoc!", "assoc!"}, {"append!", "append-bytes!"}}[kind]
	first := rapid.IntRange(0, 3).Draw(t, "route")
	mutate := func(route int) Step {
		m := scenarioStep(t, rapid.SampledFrom(mutOps).Draw(t, "mop"))
		m.Dst = -1
		if kind == 3 {
			m.T = 2
		} else {
			m.T = 1
		}
		atLeastOneArg(t, &m)
		switch route {
		case 0:
			aim(&m, N)
		case 1:
			aim(&m, H)
			m.Via = rapid.IntRange(1, 63).Draw(t, "mvia")
		case 2:
			aim(&m, D)
			m.Via = rapid.IntRange(1, 63).Draw(t, "mvia")
		default:
			m.Via = rapid.IntRange(1, 63).Draw(t, "mvia")
		}
		maybeBad(t, &m)
		return m
	}
	out = append(out, mutate(first))
	switch rapid.IntRange(0, 3).Draw(t, "nmore") {
	case 0, 1:
		out = append(out, mutate((first+rapid.IntRange(1, 3).Draw(t, "route2"))%4))
	case 2:
		r := d
		r.Again = true
		r.Dst = E
		out = append(out, r)
	}
	return out
}

// genViews emits a view V of some live sequence (slice into a list or a
// vector, rest, cdr), usually a view W of that view, and then one to three
// operations aimed at V, W or any value that shares storage with another one:
// an in-place sort (must show through the source and the sibling views), an
// append! (a view must detach), a non-mutating append / insert (must write
// nowhere), or a further view.
func genViews(t *rapid.T) []Step {
	sl := distinctSlots(t, 3)
	V, W, X := sl[0], sl[1], sl[2]
	viewOps := []string{"slice", "slice", "rest", "cdr", "slice"}
	v := scenarioStep(t, rapid.SampledFrom(viewOps).Draw(t, "v1"))
	v.T = rapid.IntRange(0, 1).Draw(t, "v1t")
	v.Pref = rapid.IntRange(0, 3).Draw(t, "v1p")
	v.Dst = V
	out := []Step{v}
	targets := []int{V}
	if rapid.IntRange(0, 3).Draw(t, "v2q") > 0 {
		w := scenarioStep(t, rapid.SampledFrom(viewOps).Draw(t, "v2"))
		w.T = rapid.IntRange(0, 1).Draw(t, "v2t")
		aim(&w, V)
		w.Dst = W
		out = append(out, w)
		targets = append(targets, W, W)
	}
	n := rapid.IntRange(1, 3).Draw(t, "vn")
	for i := 0; i < n; i++ {
		m := scenarioStep(t, rapid.SampledFrom([]string{"stable-sort", "stable-sort", "append!", "append", "stable-sort", "insert-index", "append!"}).Draw(t, "vm"))
		m.T = 1
		atLeastOneArg(t, &m)
		if rapid.IntRange(0, 3).Draw(t, "vshared") == 0 {
			m.Pref = 3 // any value whose storage another live value shares (often the source)
		} else {
			aim(&m, rapid.SampledFrom(targets).Draw(t, "vtarget"))
		}
		if mutatingOps[m.Op] {
			m.Dst = -1
		} else {
			m.Dst = X
		}
		maybeBad(t, &m)
		out = append(out, m)
	}
	return out
}

// genViewEnd emits the scenario in which a VIEW meets spare capacity: a source
// S of any capacity origin (usually a vector or bytes value grown in place),
// a view V of it that ends exactly where the source ends (slice ... to the
// length, rest, cdr; sometimes one that stops short), usually a view W of that
// view to ITS end, and then two to four extensions aimed at the views and at
// the source in any order -- append! on the view and then on the source must
// not meet in one slot, a non-mutating append / insert-index at the end from
// the view must write nowhere, a sort of the source must still show through
// the view until the view detaches.
func genViewEnd(t *rapid.T) []Step {
	sl := distinctSlots(t, 4)
	S, V, W, X := sl[0], sl[1], sl[2], sl[3]
	var out []Step
	bytesSrc := false
	if rapid.IntRange(0, 3).Draw(t, "vegrown") > 0 {
		// the common case spelled out: a vector (or bytes) grown by one to three append!s
		mk := "vector"
		tt := 1
		if rapid.IntRange(0, 5).Draw(t, "vebytes") == 0 {
			mk, tt, bytesSrc = "to-bytes", 2, true
		}
		s := scenarioStep(t, mk)
		if bytesSrc {
			s.Fn = 1
		}
		s.Dst = S
		out = append(out, s)
		for i, n := 0, rapid.IntRange(1, 3).Draw(t, "vegrow"); i < n; i++ {
			g := scenarioStep(t, "append!")
			g.T = tt
			aim(&g, S)
			g.Dst = -1
			atLeastOneArg(t, &g)
			out = append(out, g)
		}
	} else {
		out, bytesSrc = capOrigin(t, S)
	}
	viewT := func() int {
		if bytesSrc {
			return 2
		}
		return rapid.SampledFrom([]int{1, 1, 1, 0}).Draw(t, "vet")
	}
	mkView := func(src, dst int, label string) Step {
		ops := []string{"slice", "slice", "slice", "rest", "cdr"}
		if bytesSrc {
			ops = []string{"slice"}
		}
		v := scenarioStep(t, rapid.SampledFrom(ops).Draw(t, label))
		v.T = viewT()
		v.I = rapid.IntRange(0, 7).Draw(t, label+"i")
		if rapid.IntRange(0, 4).Draw(t, label+"end") > 0 {
			v.J = -1 // resolved to "up to the end of the source"
		}
		aim(&v, src)
		v.Dst = dst
		return v
	}
	out = append(out, mkView(S, V, "ve1"))
	targets := []int{V, S, V, S}
	if rapid.IntRange(0, 2).Draw(t, "ve2q") == 0 {
		out = append(out, mkView(V, W, "ve2"))
		targets = append(targets, W, W)
	}
	n := rapid.IntRange(2, 4).Draw(t, "ven")
	for i := 0; i < n; i++ {
		ops := []string{"append!", "append!", "append!", "append", "insert-index", "stable-sort", "append!"}
		if bytesSrc {
			ops = []string{"append!", "append-bytes!", "append!", "append", "append-bytes"}
		}
		m := scenarioStep(t, rapid.SampledFrom(ops).Draw(t, "vem"))
		m.T = 1
		if bytesSrc {
			m.T = 2
		}
		atLeastOneArg(t, &m)
		if m.Op == "insert-index" && rapid.Bool().Draw(t, "veatend") {
			m.I = -1
		}
		aim(&m, rapid.SampledFrom(targets).Draw(t, "vetarget"))
		if mutatingOps[m.Op] {
			m.Dst = -1
		} else {
			m.Dst = X
		}
		maybeBad(t, &m)
		out = append(out, m)
	}
	return out
}

// genMapChurn works ONE map with a run of operations on one or two key NAMES
// under changing spellings: write as symbol, delete, write again as string,
// look up, copy with assoc / dissoc (present and absent keys), change the copy
// in place -- "behaves as a finite map under any sequence of operations" needs
// the same key to be hit several times, which independent draws from fourteen
// spellings rarely do.
func genMapChurn(t *rapid.T) []Step {
	sl := distinctSlots(t, 2)
	M, C := sl[0], sl[1]
	var out []Step
	if rapid.IntRange(0, 3).Draw(t, "churnnew") > 0 {
		m := scenarioStep(t, "sorted-map")
		m.Dst = M
		out = append(out, m)
	}
	k1 := rapid.IntRange(0, 9).Draw(t, "churnk1")
	k2 := rapid.IntRange(0, 9).Draw(t, "churnk2")
	n := rapid.IntRange(3, 6).Draw(t, "churnn")
	for i := 0; i < n; i++ {
		op := rapid.SampledFrom([]string{"assoc!", "dissoc!", "assoc!", "dissoc!", "assoc", "dissoc", "get", "keys"}).Draw(t, "churnop")
		st := scenarioStep(t, op)
		k := k1
		if rapid.IntRange(0, 3).Draw(t, "churnk") == 0 {
			k = k2
		}
		st.Keys = []KeySpec{{N: k, Sym: rapid.Bool().Draw(t, "churnsym")}}
		target := M
		if rapid.IntRange(0, 3).Draw(t, "churnc") == 0 {
			target = C // the copy made by an earlier assoc / dissoc
		}
		aim(&st, target)
		if mutatingOps[op] {
			st.Dst = -1
		} else {
			st.Dst = C
		}
		maybeBad(t, &st)
		out = append(out, st)
	}
	return out
}

func genCase() *rapid.Generator[Case] {
	maxSteps := 32
	if os.Getenv("VERIF_TIER") == "thorough" {
		maxSteps = 40
	}
	return rapid.Custom(func(t *rapid.T) Case {
		n := rapid.IntRange(3, maxSteps).Draw(t, "nsteps")
		c := Case{}
		for len(c.Steps) < n {
			i := len(c.Steps)
			if i >= 2 {
				switch rapid.IntRange(0, 12).Draw(t, "scenario") {
				case 5:
					c.Steps = append(c.Steps, genViewEnd(t)...)
					continue
				case 0:
					c.Steps = append(c.Steps, genDerive(t)...)
					continue
				case 1:
					c.Steps = append(c.Steps, genCapacity(t)...)
					continue
				case 2:
					c.Steps = append(c.Steps, genNested(t)...)
					continue
				case 3:
					c.Steps = append(c.Steps, genViews(t)...)
					continue
				case 4:
					c.Steps = append(c.Steps, genMapChurn(t)...)
					continue
				}
			}
			c.Steps = append(c.Steps, genStep(t, i < 2))
		}
		return c
	})
}

func TestCheck(t *testing.T) {
	vcommon.Main(t, "C11",
		vcommon.S("history", 12800, 400000, genCase(), checkHistory),
	)
}
