package c11

import (
	"bufio"
	"fmt"
	"os"
	"strings"
	"testing"

	"github.com/luthersystems/elps/verifharness/vcommon"
)

// TestProbe evaluates the lines of the file named by C11_PROBE in one runtime
// and prints each outcome (diagnostics only).
func TestProbe(t *testing.T) {
	fn := os.Getenv("C11_PROBE")
	if fn == "" {
		t.Skip()
	}
	f, err := os.Open(fn)
	if err != nil {
		t.Fatal(err)
	}
	defer f.Close()
	rt := vcommon.NewRuntime(vcommon.Cfg{NoProbes: true})
	sc := bufio.NewScanner(f)
	for sc.Scan() {
		line := strings.TrimSpace(sc.Text())
		if line == "" || strings.HasPrefix(line, ";") {
			continue
		}
		o := rt.Load(line)
		if o.IsErr {
			fmt.Printf("%-60s => ERR %s: %s\n", line, o.Cond, o.Msg)
		} else {
			fmt.Printf("%-60s => %s   | %s\n", line, o.Text, o.Canon)
		}
	}
}
