// C11 heap model: the documented sharing / copying / mutation discipline of
// docs/lang.md ("Sharing, copying and mutation", "Sorted Maps") and of the
// builtin docstrings, written without reference to lisp/*.go data layout.
//
// Sequences are headers (kind, backing, offset, length) over shared backing
// arrays.  Sharing exists ONLY where the documentation promises it: slice,
// cdr and rest return views; binding a second name does not copy; everything
// else returns fresh storage.  Where the documentation leaves an outcome open
// the model asks a chooser for a bit, and the executor keeps every outcome the
// real interpreter has not yet refuted (see hyp in exec_test.go).
package c11

import (
	"fmt"
	"sort"
	"strconv"
	"strings"
)

const NSlots = 10

type obj interface{}

type mInt int
type mStr string
type mSym string // a quoted symbol, as produced by (keys m) or by 'name in a form
type mFloat float64
type mBare string // an unquoted symbol: a symbol inside a quoted literal, or a keyword

// via is an operand reached THROUGH a holder: (nth gS i), (get gM 'k),
// (aref gV i), (first gS) ... possibly nested.  It denotes the element object
// itself, so an in-place operation on it must show through every holder.
type pstep struct {
	idx   int
	key   string
	isKey bool
	acc   int // accessor spelling
}

type via struct {
	slot int
	path []pstep
}

type backing struct {
	cells  []obj
	sealed bool // storage of a quoted program literal: never modified
}

type mSeq struct {
	id      int
	vec     bool
	b       *backing
	off, n  int
	view    bool // result of slice/cdr/rest: appending must allocate
	parents []int
}

func (s *mSeq) cells() []obj { return s.b.cells[s.off : s.off+s.n] }

type mBytes struct {
	id      int
	data    []byte
	parents []int
}

type ment struct {
	v   obj
	sym bool
}

type mMap struct {
	id      int
	ents    map[string]*ment
	parents []int
}

// mArr is a multi-dimensional array.  The language has no constructor for
// one; an embedding host can bind one (lisp.Array with several dimensions).
// No sequence builtin accepts it, aref reads its elements, and the elements
// are references like everywhere else.
type mArr struct {
	id    int
	dims  []int
	cells []obj
}

func dimsText(dims []int) string {
	parts := make([]string, len(dims))
	for i, d := range dims {
		parts[i] = strconv.Itoa(d)
	}
	return "(" + strings.Join(parts, " ") + ")"
}

type heap struct {
	g      [NSlots]obj // nil = unbound
	nextID int
	taint  string      // set when this hypothesis follows a known-defect behaviour
	noArr  bool        // transient: loose operand choices skip multi-dimensional arrays
	pref   kind        // transient operand preference during resolve (not cloned)
	direct bool        // transient: operands name slots directly (not cloned)
	again  map[int]int // transient: raw operand index -> slot forced by Step.Again
}

// ---------- cloning (sharing-preserving deep copy) ----------

type cloner struct {
	arrs  map[*mArr]*mArr
	seqs  map[*mSeq]*mSeq
	backs map[*backing]*backing
	byts  map[*mBytes]*mBytes
	maps  map[*mMap]*mMap
}

func (h *heap) clone() *heap {
	c := &cloner{map[*mArr]*mArr{}, map[*mSeq]*mSeq{}, map[*backing]*backing{}, map[*mBytes]*mBytes{}, map[*mMap]*mMap{}}
	n := &heap{nextID: h.nextID, taint: h.taint}
	for i, o := range h.g {
		n.g[i] = c.obj(o)
	}
	return n
}

func (c *cloner) obj(o obj) obj {
	switch o := o.(type) {
	case *mSeq:
		if r, ok := c.seqs[o]; ok {
			return r
		}
		r := &mSeq{id: o.id, vec: o.vec, off: o.off, n: o.n, view: o.view, parents: o.parents}
		c.seqs[o] = r
		r.b = c.back(o.b)
		return r
	case *mArr:
		if r, ok := c.arrs[o]; ok {
			return r
		}
		r := &mArr{id: o.id, dims: o.dims, cells: make([]obj, len(o.cells))}
		c.arrs[o] = r
		for i, x := range o.cells {
			r.cells[i] = c.obj(x)
		}
		return r
	case *mBytes:
		if r, ok := c.byts[o]; ok {
			return r
		}
		r := &mBytes{id: o.id, data: append([]byte(nil), o.data...), parents: o.parents}
		c.byts[o] = r
		return r
	case *mMap:
		if r, ok := c.maps[o]; ok {
			return r
		}
		r := &mMap{id: o.id, ents: map[string]*ment{}, parents: o.parents}
		c.maps[o] = r
		for k, e := range o.ents {
			r.ents[k] = &ment{v: c.obj(e.v), sym: e.sym}
		}
		return r
	}
	return o
}

func (c *cloner) back(b *backing) *backing {
	if r, ok := c.backs[b]; ok {
		return r
	}
	r := &backing{sealed: b.sealed, cells: make([]obj, len(b.cells))}
	c.backs[b] = r
	for i, x := range b.cells {
		r.cells[i] = c.obj(x)
	}
	return r
}

// ---------- rendering ----------

func sortedKeys(m *mMap) []string {
	ks := make([]string, 0, len(m.ents))
	for k := range m.ents {
		ks = append(ks, k)
	}
	sort.Strings(ks)
	return ks
}

// canonObj renders o in the format of vcommon.Canon after normalisation
// (list quote marks dropped: whether a nested list carries the quoted flag is
// a printer detail outside this property).
func canonObj(o obj, b *strings.Builder, depth int) {
	if depth > 60 {
		b.WriteString("#deep")
		return
	}
	switch o := o.(type) {
	case nil:
		b.WriteString("#unbound")
	case mInt:
		b.WriteString(strconv.Itoa(int(o)))
	case mStr:
		b.WriteString(strconv.Quote(string(o)))
	case mSym:
		b.WriteString("'" + string(o))
	case mBare:
		b.WriteString(string(o))
	case mFloat:
		b.WriteString(strconv.FormatFloat(float64(o), 'g', -1, 64) + "f")
	case *mSeq:
		open, cl := "(", ")"
		if o.vec {
			open, cl = "#vec[", "]"
		}
		b.WriteString(open)
		for i, c := range o.cells() {
			if i > 0 {
				b.WriteString(" ")
			}
			canonObj(c, b, depth+1)
		}
		b.WriteString(cl)
	case *mArr:
		b.WriteString("#array<" + dimsText(o.dims) + ">[")
		for i, c := range o.cells {
			if i > 0 {
				b.WriteString(" ")
			}
			canonObj(c, b, depth+1)
		}
		b.WriteString("]")
	case *mBytes:
		b.WriteString(fmt.Sprintf("#bytes%v", o.data))
	case *mMap:
		b.WriteString("#map{")
		for i, k := range sortedKeys(o) {
			if i > 0 {
				b.WriteString(" ")
			}
			b.WriteString(strconv.Quote(k))
			b.WriteString(":")
			canonObj(o.ents[k].v, b, depth+1)
		}
		b.WriteString("}")
	default:
		b.WriteString(fmt.Sprintf("#?%T", o))
	}
}

func canonOf(o obj) string {
	var b strings.Builder
	canonObj(o, &b, 0)
	return b.String()
}

// printObj renders o the way the documentation shows values: (vector 1 2),
// (sorted-map 'a 1 "b" 2) with each key in its remembered spelling, lists as
// (1 2) (quote marks normalised away, see canonObj).
func printObj(o obj, b *strings.Builder, depth int) {
	if depth > 60 {
		b.WriteString("#deep")
		return
	}
	switch o := o.(type) {
	case nil:
		b.WriteString("#unbound")
	case mInt:
		b.WriteString(strconv.Itoa(int(o)))
	case mStr:
		b.WriteString(strconv.Quote(string(o)))
	case mSym:
		b.WriteString("'" + string(o))
	case mBare:
		b.WriteString(string(o))
	case mFloat:
		b.WriteString(strconv.FormatFloat(float64(o), 'g', -1, 64))
	case *mSeq:
		if o.vec {
			b.WriteString("(vector")
			for _, c := range o.cells() {
				b.WriteString(" ")
				printObj(c, b, depth+1)
			}
			b.WriteString(")")
			return
		}
		b.WriteString("(")
		for i, c := range o.cells() {
			if i > 0 {
				b.WriteString(" ")
			}
			printObj(c, b, depth+1)
		}
		b.WriteString(")")
	case *mArr:
		b.WriteString("#<array dims=" + dimsText(o.dims) + ">")
	case *mBytes:
		b.WriteString("#<bytes")
		for _, x := range o.data {
			b.WriteString(" ")
			b.WriteString(strconv.Itoa(int(x)))
		}
		b.WriteString(">")
	case *mMap:
		b.WriteString("(sorted-map")
		for _, k := range sortedKeys(o) {
			e := o.ents[k]
			if e.sym {
				b.WriteString(" '" + k)
			} else {
				b.WriteString(" " + strconv.Quote(k))
			}
			b.WriteString(" ")
			printObj(e.v, b, depth+1)
		}
		b.WriteString(")")
	default:
		b.WriteString(fmt.Sprintf("#?%T", o))
	}
}

func printOf(o obj) string {
	var b strings.Builder
	printObj(o, &b, 0)
	return b.String()
}

// fingerprint identifies a hypothesis up to renaming of storage: contents,
// spelling, and the complete sharing structure reachable from the names.
func (h *heap) fingerprint() string {
	var b strings.Builder
	objID := map[interface{}]int{}
	var walk func(o obj)
	walk = func(o obj) {
		switch o := o.(type) {
		case nil:
			b.WriteString("_")
		case mInt, mStr, mSym, mBare, mFloat:
			canonObj(o, &b, 0)
		case *mSeq:
			if id, ok := objID[o]; ok {
				fmt.Fprintf(&b, "@%d", id)
				return
			}
			objID[o] = len(objID)
			fmt.Fprintf(&b, "S%d{v%v w%v o%d n%d ", objID[o], o.vec, o.view, o.off, o.n)
			if id, ok := objID[o.b]; ok {
				fmt.Fprintf(&b, "B@%d", id)
			} else {
				objID[o.b] = len(objID)
				fmt.Fprintf(&b, "B%d s%v L%d[", objID[o.b], o.b.sealed, len(o.b.cells))
				for _, c := range o.b.cells {
					walk(c)
					b.WriteString(",")
				}
				b.WriteString("]")
			}
			b.WriteString("}")
		case *mArr:
			if id, ok := objID[o]; ok {
				fmt.Fprintf(&b, "@%d", id)
				return
			}
			objID[o] = len(objID)
			fmt.Fprintf(&b, "A%d%v[", objID[o], o.dims)
			for _, c := range o.cells {
				walk(c)
				b.WriteString(",")
			}
			b.WriteString("]")
		case *mBytes:
			if id, ok := objID[o]; ok {
				fmt.Fprintf(&b, "@%d", id)
				return
			}
			objID[o] = len(objID)
			fmt.Fprintf(&b, "Y%d%v", objID[o], o.data)
		case *mMap:
			if id, ok := objID[o]; ok {
				fmt.Fprintf(&b, "@%d", id)
				return
			}
			objID[o] = len(objID)
			fmt.Fprintf(&b, "M%d{", objID[o])
			for _, k := range sortedKeys(o) {
				fmt.Fprintf(&b, "%q/%v=", k, o.ents[k].sym)
				walk(o.ents[k].v)
				b.WriteString(",")
			}
			b.WriteString("}")
		}
	}
	for _, o := range h.g {
		walk(o)
		b.WriteString(";")
	}
	return b.String()
}

// ---------- reachability / reference counting ----------

// refs counts, for every container object reachable from the names, the
// number of references to it (names + sequence cells inside a live header's
// window + map values).
func (h *heap) refs() (count map[interface{}]int, order []interface{}) {
	count = map[interface{}]int{}
	var visit func(o obj)
	visit = func(o obj) {
		switch o := o.(type) {
		case *mSeq:
			count[o]++
			if count[o] > 1 {
				return
			}
			order = append(order, o)
			for _, c := range o.cells() {
				visit(c)
			}
		case *mArr:
			count[o]++
			if count[o] > 1 {
				return
			}
			order = append(order, o)
			for _, c := range o.cells {
				visit(c)
			}
		case *mBytes:
			count[o]++
			if count[o] == 1 {
				order = append(order, o)
			}
		case *mMap:
			count[o]++
			if count[o] > 1 {
				return
			}
			order = append(order, o)
			for _, k := range sortedKeys(o) {
				visit(o.ents[k].v)
			}
		}
	}
	for _, o := range h.g {
		visit(o)
	}
	return
}

// reaches reports whether target is from (or reachable through from).
func reaches(from obj, target obj) bool {
	seen := map[interface{}]bool{}
	var visit func(o obj) bool
	visit = func(o obj) bool {
		if o == target {
			return true
		}
		switch o := o.(type) {
		case *mSeq:
			if seen[o] {
				return false
			}
			seen[o] = true
			for _, c := range o.cells() {
				if visit(c) {
					return true
				}
			}
		case *mArr:
			for _, c := range o.cells {
				if visit(c) {
					return true
				}
			}
		case *mMap:
			if seen[o] {
				return false
			}
			seen[o] = true
			for _, e := range o.ents {
				if visit(e.v) {
					return true
				}
			}
		}
		return false
	}
	return visit(from)
}

// cyclic reports whether some container reachable from the names contains
// itself (directly or through other containers).
func (h *heap) cyclic() bool {
	const (
		onStack = 1
		done    = 2
	)
	state := map[interface{}]int{}
	var visit func(o obj) bool
	visit = func(o obj) bool {
		var kids []obj
		switch o := o.(type) {
		case *mSeq:
			kids = o.cells()
		case *mArr:
			kids = o.cells
		case *mMap:
			for _, e := range o.ents {
				kids = append(kids, e.v)
			}
		default:
			return false
		}
		switch state[o] {
		case onStack:
			return true
		case done:
			return false
		}
		state[o] = onStack
		for _, k := range kids {
			if visit(k) {
				return true
			}
		}
		state[o] = done
		return false
	}
	for _, o := range h.g {
		if visit(o) {
			return true
		}
	}
	return false
}

// selfStored reports whether some backing array holds (directly or through
// other containers) a sequence header over that same backing array: a view
// stored into its own source.  An in-place sort of such storage can move the
// view into its own window -- even transiently, while sorting -- which makes a
// self-containing value.
func (h *heap) selfStored() bool {
	_, order := h.refs()
	backs := map[*backing]bool{}
	for _, o := range order {
		if s, ok := o.(*mSeq); ok {
			backs[s.b] = true
		}
	}
	for b := range backs {
		seen := map[interface{}]bool{}
		var visit func(o obj) bool
		visit = func(o obj) bool {
			switch o := o.(type) {
			case *mSeq:
				if o.b == b {
					return true
				}
				if seen[o] {
					return false
				}
				seen[o] = true
				for _, c := range o.b.cells {
					if visit(c) {
						return true
					}
				}
			case *mArr:
				for _, c := range o.cells {
					if visit(c) {
						return true
					}
				}
			case *mMap:
				if seen[o] {
					return false
				}
				seen[o] = true
				for _, e := range o.ents {
					if visit(e.v) {
						return true
					}
				}
			}
			return false
		}
		for _, c := range b.cells {
			if visit(c) {
				return true
			}
		}
	}
	return false
}

func objIDOf(o obj) (int, []int, bool) {
	switch o := o.(type) {
	case *mSeq:
		return o.id, o.parents, true
	case *mBytes:
		return o.id, o.parents, true
	case *mMap:
		return o.id, o.parents, true
	case *mArr:
		return o.id, nil, true
	}
	return 0, nil, false
}

// ---------- constructors ----------

func (h *heap) id() int { h.nextID++; return h.nextID }

func parentIDs(ps []obj) []int {
	var out []int
	for _, p := range ps {
		if id, _, ok := objIDOf(p); ok {
			out = append(out, id)
		}
	}
	return out
}

func (h *heap) newSeq(vec bool, cells []obj, parents ...obj) *mSeq {
	cp := append([]obj(nil), cells...)
	return &mSeq{id: h.id(), vec: vec, b: &backing{cells: cp}, n: len(cp), parents: parentIDs(parents)}
}

func (h *heap) viewSeq(vec bool, src *mSeq, off, n int) *mSeq {
	return &mSeq{id: h.id(), vec: vec, b: src.b, off: src.off + off, n: n, view: true, parents: parentIDs([]obj{src})}
}

func (h *heap) newBytes(data []byte, parents ...obj) *mBytes {
	return &mBytes{id: h.id(), data: append([]byte(nil), data...), parents: parentIDs(parents)}
}

func (h *heap) newMap(parents ...obj) *mMap {
	return &mMap{id: h.id(), ents: map[string]*ment{}, parents: parentIDs(parents)}
}

func (h *heap) emptyList() *mSeq { return h.newSeq(false, nil) }

// ---------- choices ----------

// chooser feeds predetermined bits to the model and notices when the model
// asks for more than it was given (the executor then explores both
// extensions).
type chooser struct {
	pre      []bool
	pos      int
	overflow bool
}

func (c *chooser) choose() bool {
	if c.pos < len(c.pre) {
		v := c.pre[c.pos]
		c.pos++
		return v
	}
	c.overflow = true
	return false
}

// ---------- concrete operations ----------

type carg struct {
	kind int // 0 int, 1 string, 2 ref (slot), 3 nested list of ints, 5 float i+0.5, 6 symbol, 7 keyword
	i    int
	s    string
	l    []int
}

type ckey struct {
	name string
	sym  bool
	bad  bool // an int key: unhashable
}

// cop is a fully resolved step: every operand is a name slot or a concrete
// value, so it means the same thing in every hypothesis.
type cop struct {
	op     string
	dst    int
	a, b   int   // operand slots; -1 when unused
	via    *via  // when set, the principal operand is an ELEMENT reached through a holder
	dims   []int // array2: the dimensions of the host-built array
	t      int   // 0 list, 1 vector, 2 bytes
	i, j   int
	args   []carg
	keys   []ckey
	fn     int
	pred   int // 0 <, 1 >
	keyfn  int // 0 none, 1 int-or-0, 2 negated
	str    string
	useStr bool
	nops   int
	wrap   bool // insert-sorted over a sorted copy of the source
	form   string
	src    string
}

const findingAppendZero = "append-vector-zero-values-aliases-source"

func isByteInt(o obj) bool {
	i, ok := o.(mInt)
	return ok && i >= 0 && i <= 255
}

func (h *heap) argObj(a carg, sealed bool) obj {
	switch a.kind {
	case 0:
		return mInt(a.i)
	case 1:
		return mStr(a.s)
	case 2:
		return h.g[a.i]
	case 5:
		return mFloat(float64(a.i) + 0.5)
	case 6:
		if sealed {
			return mBare(a.s) // a symbol inside a quoted literal is not quoted itself
		}
		return mSym(a.s)
	case 7:
		return mBare(":" + a.s) // keywords evaluate to themselves
	default:
		cells := make([]obj, len(a.l))
		for i, x := range a.l {
			cells[i] = mInt(x)
		}
		s := h.newSeq(false, cells)
		s.b.sealed = sealed
		return s
	}
}

func (h *heap) argObjs(as []carg) []obj {
	out := make([]obj, len(as))
	for i, a := range as {
		out[i] = h.argObj(a, false)
	}
	return out
}

func sortKey(o obj, keyfn int) float64 {
	k := 0.0
	switch x := o.(type) {
	case mInt:
		k = float64(x)
	case mFloat:
		k = float64(x)
	case mSym:
		k = float64(len(x))
	case mBare:
		k = float64(len(x))
	default:
		n, _ := lenOf(o)
		k = float64(n)
	}
	if keyfn == 2 {
		return -k
	}
	return k
}

func lessBy(pred int, a, b float64) bool {
	if pred == 1 {
		return a > b
	}
	return a < b
}

// byteSeq interprets o as a byte sequence argument (string, bytes, or a
// list/vector of integers in 0..255).
func byteSeq(o obj) ([]byte, bool) {
	switch o := o.(type) {
	case mStr:
		return []byte(o), true
	case *mBytes:
		return append([]byte(nil), o.data...), true
	case *mSeq:
		out := make([]byte, 0, o.n)
		for _, c := range o.cells() {
			if !isByteInt(c) {
				return nil, false
			}
			out = append(out, byte(c.(mInt)))
		}
		return out, true
	}
	return nil, false
}

func asSeq(o obj) (*mSeq, bool) { s, ok := o.(*mSeq); return s, ok }

func isNilObj(o obj) bool {
	s, ok := o.(*mSeq)
	return ok && !s.vec && s.n == 0
}

func mapFn(h *heap, fn int, x obj) obj {
	switch fn % 3 {
	case 1:
		if i, ok := x.(mInt); ok {
			return i + 1
		}
		return x
	case 2:
		return h.newSeq(false, []obj{x})
	}
	return x
}

func predFn(fn int, x obj) bool {
	i, isInt := x.(mInt)
	switch fn % 3 {
	case 1:
		if isInt {
			return i < 3
		}
		return true
	case 2:
		return !isInt
	}
	return isInt
}

func (m *mMap) set(k ckey, v obj, ch *chooser) {
	if e, ok := m.ents[k.name]; ok {
		e.v = v
		if e.sym != k.sym {
			// Written under both spellings: which one is displayed is not
			// documented ("presentation only").
			if ch.choose() {
				e.sym = k.sym
			}
		}
		return
	}
	m.ents[k.name] = &ment{v: v, sym: k.sym}
}

func (h *heap) copyMap(m *mMap) *mMap {
	r := h.newMap(m)
	for k, e := range m.ents {
		r.ents[k] = &ment{v: e.v, sym: e.sym}
	}
	return r
}

// apply performs c on h.  It returns the result value and whether the
// operation is an error (in which case h is unchanged).
func (h *heap) apply(c *cop, ch *chooser) (res obj, isErr bool) {
	res, isErr = h.applyOp(c, ch)
	if !isErr && c.dst >= 0 {
		h.g[c.dst] = res
	}
	return
}

func (h *heap) operand(slot int) obj {
	if slot < 0 {
		return nil
	}
	return h.g[slot]
}

// follow resolves a path operand in THIS heap (every hypothesis agrees on
// contents and lengths, so the path means the same element in each).
func (h *heap) follow(v *via) obj {
	o := h.g[v.slot]
	for _, p := range v.path {
		switch x := o.(type) {
		case *mSeq:
			if p.isKey || p.idx < 0 || p.idx >= x.n {
				return nil
			}
			o = x.cells()[p.idx]
		case *mArr:
			if p.isKey || p.idx < 0 || p.idx >= len(x.cells) {
				return nil
			}
			o = x.cells[p.idx]
		case *mMap:
			e, ok := x.ents[p.key]
			if !p.isKey || !ok {
				return nil
			}
			o = e.v
		default:
			return nil
		}
	}
	return o
}

// opA is the principal operand of c: a name, or an element reached through a
// holder.
func (h *heap) opA(c *cop) obj {
	if c.via != nil {
		return h.follow(c.via)
	}
	return h.operand(c.a)
}

func (h *heap) applyOp(c *cop, ch *chooser) (obj, bool) {
	A := h.opA(c)
	B := h.operand(c.b)
	vec := c.t == 1
	switch c.op {
	case "list":
		return h.newSeq(false, h.argObjs(c.args)), false
	case "vector":
		return h.newSeq(true, h.argObjs(c.args)), false
	case "quote":
		cells := make([]obj, len(c.args))
		for i, a := range c.args {
			cells[i] = h.argObj(a, true)
		}
		s := h.newSeq(false, cells)
		s.b.sealed = true
		return s, false
	case "sorted-map":
		m := h.newMap()
		for i, k := range c.keys {
			if k.bad {
				return nil, true
			}
			m.set(k, h.argObj(c.args[i], false), ch)
		}
		return m, false
	case "to-bytes":
		if c.useStr {
			return h.newBytes([]byte(c.str)), false
		}
		switch a := A.(type) {
		case *mBytes:
			return a, false // "bytes (returned as-is)"
		case mStr:
			return h.newBytes([]byte(a)), false
		}
		return nil, true
	case "make-sequence":
		var cells []obj
		for x := c.i; x < c.j; x += c.fn {
			cells = append(cells, mInt(x))
		}
		return h.newSeq(false, cells), false
	case "alias":
		return A, false
	case "array2":
		return &mArr{id: h.id(), dims: c.dims, cells: h.argObjs(c.args)}, false

	case "append":
		if c.t == 2 {
			a, ok := A.(*mBytes)
			if !ok {
				return nil, true
			}
			out := append([]byte(nil), a.data...)
			for _, v := range h.argObjs(c.args) {
				if !isByteInt(v) {
					return nil, true
				}
				out = append(out, byte(v.(mInt)))
			}
			return h.newBytes(out, a), false
		}
		if c.t == 3 {
			return nil, true // append knows 'list, 'vector and 'bytes only
		}
		s, ok := asSeq(A)
		if !ok {
			return nil, true
		}
		vals := h.argObjs(c.args)
		if vec && len(vals) == 0 && s.n > 0 && !s.b.sealed {
			// Documented: "never shares storage".  The alternative (a header
			// over the source's own storage) is the known defect; following
			// it taints the hypothesis.
			if ch.choose() {
				r := h.viewSeq(true, s, 0, s.n)
				h.taint = findingAppendZero
				return r, false
			}
		}
		return h.newSeq(vec, append(append([]obj(nil), s.cells()...), vals...), s), false
	case "append-bytes":
		a, ok := A.(*mBytes)
		if !ok {
			return nil, true
		}
		var x obj = B
		if c.useStr {
			x = mStr(c.str)
		}
		bs, ok := byteSeq(x)
		if !ok {
			return nil, true
		}
		return h.newBytes(append(append([]byte(nil), a.data...), bs...), a), false
	case "concat":
		ops := []obj{A, B}[:c.nops]
		if c.t >= 2 {
			var out []byte
			for _, o := range ops {
				bs, ok := byteSeq(o)
				if !ok {
					return nil, true
				}
				out = append(out, bs...)
			}
			if c.t == 3 {
				return mStr(out), false // a string is an immutable atom
			}
			return h.newBytes(out, ops...), false
		}
		var cells []obj
		for _, o := range ops {
			s, ok := asSeq(o)
			if !ok {
				return nil, true
			}
			cells = append(cells, s.cells()...)
		}
		return h.newSeq(vec, cells, ops...), false
	case "cons":
		s, ok := asSeq(A)
		if !ok || s.vec {
			return nil, true
		}
		head := h.argObj(c.args[0], false)
		return h.newSeq(false, append([]obj{head}, s.cells()...), s), false
	case "reverse":
		s, ok := asSeq(A)
		if !ok {
			return nil, true
		}
		cells := make([]obj, s.n)
		for i, x := range s.cells() {
			cells[s.n-1-i] = x
		}
		return h.newSeq(vec, cells, s), false
	case "map":
		s, ok := asSeq(A)
		if !ok {
			return nil, true
		}
		cells := make([]obj, s.n)
		for i, x := range s.cells() {
			cells[i] = mapFn(h, c.fn, x)
		}
		return h.newSeq(vec, cells, s), false
	case "select", "reject":
		s, ok := asSeq(A)
		if !ok {
			return nil, true
		}
		var cells []obj
		for _, x := range s.cells() {
			if predFn(c.fn, x) == (c.op == "select") {
				cells = append(cells, x)
			}
		}
		return h.newSeq(vec, cells, s), false
	case "zip":
		s1, ok1 := asSeq(A)
		s2, ok2 := asSeq(B)
		if !ok1 || !ok2 {
			return nil, true
		}
		n := s1.n
		if s2.n < n {
			n = s2.n
		}
		cells := make([]obj, n)
		for i := 0; i < n; i++ {
			cells[i] = h.newSeq(vec, []obj{s1.cells()[i], s2.cells()[i]})
		}
		return h.newSeq(vec, cells, s1, s2), false
	case "insert-index":
		s, ok := asSeq(A)
		if !ok || c.i < 0 || c.i > s.n {
			return nil, true
		}
		item := h.argObj(c.args[0], false)
		cells := append([]obj(nil), s.cells()[:c.i]...)
		cells = append(cells, item)
		cells = append(cells, s.cells()[c.i:]...)
		return h.newSeq(vec, cells, s), false
	case "insert-sorted":
		s, ok := asSeq(A)
		if !ok {
			return nil, true
		}
		item := h.argObj(c.args[0], false)
		src := append([]obj(nil), s.cells()...)
		if c.wrap {
			sort.SliceStable(src, func(i, j int) bool {
				return lessBy(c.pred, sortKey(src[i], c.keyfn), sortKey(src[j], c.keyfn))
			})
		}
		pos := len(src)
		for i, x := range src {
			if lessBy(c.pred, sortKey(item, c.keyfn), sortKey(x, c.keyfn)) {
				pos = i
				break
			}
		}
		cells := append([]obj(nil), src[:pos]...)
		cells = append(cells, item)
		cells = append(cells, src[pos:]...)
		return h.newSeq(vec, cells, s), false
	case "slice":
		var n int
		switch a := A.(type) {
		case *mSeq:
			n = a.n
		case *mBytes:
			n = len(a.data)
		case mStr:
			n = len(a)
		default:
			return nil, true
		}
		if c.i < 0 || c.i > n || c.j < 0 || c.j > n || c.i > c.j {
			return nil, true
		}
		switch a := A.(type) {
		case *mSeq:
			switch c.t {
			case 0:
				return h.viewSeq(false, a, c.i, c.j-c.i), false
			case 1:
				if c.j == c.i {
					return h.newSeq(true, nil, a), false
				}
				if a.b.sealed {
					// A vector over a quoted literal: the literal is never
					// modified (stable-sort docstring); whether the vector is
					// an eager copy or a copy-on-sort view is not documented.
					if ch.choose() {
						return h.viewSeq(true, a, c.i, c.j-c.i), false
					}
					return h.newSeq(true, a.cells()[c.i:c.j], a), false
				}
				return h.viewSeq(true, a, c.i, c.j-c.i), false
			default:
				bs, ok := byteSeq(h.viewSeq(false, a, c.i, c.j-c.i))
				if !ok {
					return nil, true
				}
				if c.t == 3 {
					return mStr(bs), false
				}
				return h.newBytes(bs, a), false
			}
		default:
			var data []byte
			if y, ok := A.(*mBytes); ok {
				data = y.data[c.i:c.j]
			} else {
				data = []byte(A.(mStr))[c.i:c.j]
			}
			if c.t == 3 {
				return mStr(data), false
			}
			if c.t == 2 {
				// A bytes view: its elements can never be written (no
				// in-place byte mutation exists besides growth), so a copy
				// is observationally the same thing.
				return h.newBytes(data, A), false
			}
			cells := make([]obj, len(data))
			for i, x := range data {
				cells[i] = mInt(x)
			}
			return h.newSeq(vec, cells, A), false
		}
	case "cdr", "rest":
		s, ok := asSeq(A)
		if !ok || (c.op == "cdr" && s.vec) {
			return nil, true
		}
		if s.n < 2 {
			return h.emptyList(), false
		}
		return h.viewSeq(false, s, 1, s.n-1), false
	case "assoc", "dissoc":
		var m *mMap
		if isNilObj(A) {
			m = h.newMap()
		} else if am, ok := A.(*mMap); ok {
			m = h.copyMap(am)
		} else {
			return nil, true
		}
		k := c.keys[0]
		if k.bad {
			return nil, true
		}
		if c.op == "assoc" {
			m.set(k, h.argObj(c.args[0], false), ch)
		} else {
			delete(m.ents, k.name)
		}
		return m, false
	case "keys":
		m, ok := A.(*mMap)
		if !ok {
			return nil, true
		}
		var cells []obj
		for _, k := range sortedKeys(m) {
			if m.ents[k].sym {
				cells = append(cells, mSym(k))
			} else {
				cells = append(cells, mStr(k))
			}
		}
		return h.newSeq(false, cells, m), false
	case "nth":
		s, ok := asSeq(A)
		if !ok || c.i < 0 {
			return nil, true
		}
		if c.i >= s.n {
			return h.emptyList(), false
		}
		return s.cells()[c.i], false
	case "get":
		if isNilObj(A) {
			return h.emptyList(), false
		}
		m, ok := A.(*mMap)
		if !ok || c.keys[0].bad {
			return nil, true
		}
		if e, ok := m.ents[c.keys[0].name]; ok {
			return e.v, false
		}
		return h.emptyList(), false

	case "assoc!", "dissoc!":
		m, ok := A.(*mMap)
		if !ok || c.keys[0].bad {
			return nil, true
		}
		if c.op == "assoc!" {
			m.set(c.keys[0], h.argObj(c.args[0], false), ch)
		} else {
			delete(m.ents, c.keys[0].name)
		}
		return m, false
	case "append!":
		vals := h.argObjs(c.args)
		switch a := A.(type) {
		case *mBytes:
			out := a.data
			for _, v := range vals {
				if !isByteInt(v) {
					return nil, true
				}
			}
			for _, v := range vals {
				out = append(out, byte(v.(mInt)))
			}
			a.data = out
			return a, false
		case *mSeq:
			if !a.vec {
				return nil, true
			}
			if len(vals) == 0 {
				return a, false
			}
			inPlaceOK := !a.view && !a.b.sealed && a.off+a.n == len(a.b.cells)
			// A view must allocate ("A view cannot grow into the memory
			// behind it").  For any other vector it is not documented whether
			// growth keeps the storage earlier views of it share, so both
			// outcomes are kept.
			if inPlaceOK && ch.choose() {
				a.b.cells = append(a.b.cells, vals...)
				a.n += len(vals)
				return a, false
			}
			nb := &backing{cells: append(append([]obj(nil), a.cells()...), vals...)}
			a.b, a.off, a.n, a.view = nb, 0, len(nb.cells), false
			return a, false
		}
		return nil, true
	case "append-bytes!":
		a, ok := A.(*mBytes)
		if !ok {
			return nil, true
		}
		var x obj = B
		if c.useStr {
			x = mStr(c.str)
		}
		bs, ok := byteSeq(x)
		if !ok {
			return nil, true
		}
		a.data = append(a.data, bs...)
		return a, false
	case "call":
		// A value reaching a function as an argument: the callee's parameter
		// LIST (&rest / &optional binding) is always fresh, its ELEMENTS are
		// the caller's own objects; a positional parameter IS the argument.
		mode, shape := c.i, c.j
		V := h.argObj(c.args[0], false)
		sortFresh := func(xs []obj) *mSeq {
			cp := append([]obj(nil), xs...)
			sort.SliceStable(cp, func(i, j int) bool {
				return lessBy(c.pred, sortKey(cp[i], c.keyfn), sortKey(cp[j], c.keyfn))
			})
			return h.newSeq(false, cp)
		}
		opt := func(args []obj, i int) obj {
			if i < len(args) {
				return args[i]
			}
			return h.emptyList()
		}
		callee := func(args []obj) (obj, bool) {
			switch shape {
			case 0:
				return sortFresh(args), false
			case 1:
				if len(args) < 1 {
					return nil, true
				}
				return sortFresh(args[1:]), false
			case 2:
				var rest []obj
				if len(args) > 2 {
					rest = args[2:]
				}
				return h.newSeq(false, []obj{opt(args, 0), opt(args, 1), sortFresh(rest)}), false
			default:
				if len(args) < 1 || len(args) > 2 {
					return nil, true
				}
				x, ok := asSeq(args[0])
				if !ok {
					return args[0], false
				}
				if x.b.sealed {
					return sortFresh(x.cells()), false
				}
				cells := x.cells()
				sort.SliceStable(cells, func(i, j int) bool {
					return lessBy(c.pred, sortKey(cells[i], c.keyfn), sortKey(cells[j], c.keyfn))
				})
				return x, false
			}
		}
		switch mode {
		case 0, 1, 2:
			s, ok := asSeq(A)
			if !ok || s.vec {
				return nil, true
			}
			var args []obj
			if mode == 1 {
				args = append(args, V)
			}
			return callee(append(args, s.cells()...))
		case 3, 6:
			return callee([]obj{A})
		case 4:
			return callee([]obj{A, V, B})
		case 5:
			s, ok := asSeq(A)
			if !ok {
				return nil, true
			}
			elems := append([]obj(nil), s.cells()...)
			out := make([]obj, len(elems))
			for i, x := range elems {
				r, e := callee([]obj{x})
				if e {
					return nil, true
				}
				out[i] = r
			}
			return h.newSeq(false, out, s), false
		default:
			s, ok := asSeq(A)
			if !ok {
				return nil, true
			}
			return h.newSeq(true, s.cells(), s), false
		}
	case "stable-sort":
		s, ok := asSeq(A)
		if !ok {
			return nil, true
		}
		less := func(cells []obj) func(i, j int) bool {
			return func(i, j int) bool {
				return lessBy(c.pred, sortKey(cells[i], c.keyfn), sortKey(cells[j], c.keyfn))
			}
		}
		if s.b.sealed {
			// "A quoted program literal is never modified -- its elements
			// are sorted into a fresh list."
			cp := append([]obj(nil), s.cells()...)
			sort.SliceStable(cp, less(cp))
			return h.newSeq(s.vec, cp, s), false
		}
		cells := s.cells()
		sort.SliceStable(cells, less(cells))
		return s, false
	}
	panic("model: unknown op " + c.op)
}
