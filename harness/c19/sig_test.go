package c19

import (
	"fmt"
	"strings"

	"github.com/luthersystems/elps/lisp"
)

// Sig is the harness's own model of the documented parameter grammar
// (docs/lang.md "Functions"): required*, [&optional opt+], then either
// [&rest r] or [&key key+].  It shares no code with lint.buildArityTable,
// lisp.ParseFormals or the run-time binder.
type Sig struct {
	Req  int      `json:"req"`
	Opt  int      `json:"opt"`
	Rest bool     `json:"rest"`
	Keys []string `json:"keys,omitempty"`
}

func (s Sig) HasKey() bool { return len(s.Keys) > 0 }

// Positional is the number of positional parameters (required + optional).
func (s Sig) Positional() int { return s.Req + s.Opt }

// MaxK is the largest "interesting" argument count: the count that fills every
// declared parameter (a key parameter takes two argument expressions).
func (s Sig) MaxK() int { return s.Req + s.Opt + 2*len(s.Keys) }

// Formals renders a formals list whose parameter names are p0, p1, ... for
// positionals, r for the rest parameter and the key names themselves.
func (s Sig) Formals() string {
	var p []string
	for i := 0; i < s.Req; i++ {
		p = append(p, fmt.Sprintf("p%d", i))
	}
	if s.Opt > 0 {
		p = append(p, "&optional")
		for i := 0; i < s.Opt; i++ {
			p = append(p, fmt.Sprintf("o%d", i))
		}
	}
	if s.Rest {
		p = append(p, "&rest", "r")
	}
	if len(s.Keys) > 0 {
		p = append(p, "&key")
		p = append(p, s.Keys...)
	}
	return "(" + strings.Join(p, " ") + ")"
}

// ParamNames lists every parameter name Formals() declares.
func (s Sig) ParamNames() []string {
	var p []string
	for i := 0; i < s.Req; i++ {
		p = append(p, fmt.Sprintf("p%d", i))
	}
	for i := 0; i < s.Opt; i++ {
		p = append(p, fmt.Sprintf("o%d", i))
	}
	if s.Rest {
		p = append(p, "r")
	}
	return append(p, s.Keys...)
}

func (s Sig) String() string { return s.Formals() }

// sigFromFormals reads a registered Formals() list.  ok is false when the
// list does not follow the documented grammar (then the name is enumerated
// but only the "reported => binding failure" direction is demanded).
func sigFromFormals(f *lisp.LVal) (s Sig, ok bool) {
	if f == nil || f.Type != lisp.LSExpr {
		return s, false
	}
	const (
		stReq = iota
		stOpt
		stRest
		stRestDone
		stKey
	)
	st := stReq
	for _, c := range f.Cells {
		if c.Type != lisp.LSymbol {
			return s, false
		}
		switch c.Str {
		case "&optional":
			if st != stReq {
				return s, false
			}
			st = stOpt
		case "&rest":
			if st != stReq && st != stOpt {
				return s, false
			}
			st = stRest
		case "&key":
			if st != stReq && st != stOpt {
				return s, false
			}
			st = stKey
		default:
			if strings.HasPrefix(c.Str, "&") {
				return s, false
			}
			switch st {
			case stReq:
				s.Req++
			case stOpt:
				s.Opt++
			case stRest:
				s.Rest = true
				st = stRestDone
			case stRestDone:
				return s, false
			case stKey:
				s.Keys = append(s.Keys, c.Str)
			}
		}
	}
	if st == stRest {
		return s, false // &rest without a name
	}
	if st == stKey && len(s.Keys) == 0 {
		return s, false
	}
	return s, true
}

// Binding outcomes predicted by the model.
const (
	bindOK        = "ok"
	bindCount     = "invalid-number" // "invalid number of arguments"
	bindOddKeys   = "odd-keys"       // "function called with an odd number of keyword arguments"
	bindNotKey    = "not-keyword"    // "argument is not a keyword"
	bindUnknown   = "unknown-key"    // "unrecognized keyword argument"
	bindNotCalled = "not-a-function" // the head does not evaluate to a function
)

func isBindFailure(o string) bool {
	return o == bindCount || o == bindOddKeys || o == bindNotKey || o == bindUnknown
}

// kwName returns the keyword name when the argument text is a keyword literal
// (":name"), else "".
func kwName(arg string) (string, bool) {
	if strings.HasPrefix(arg, ":") && len(arg) > 1 {
		return arg[1:], true
	}
	return "", false
}

// Bind predicts the binder's verdict for a call with the given argument
// expressions (each a self-evaluating literal, a quoted datum or a keyword).
func (s Sig) Bind(args []string) string {
	n := len(args)
	if n < s.Req {
		return bindCount
	}
	rem := n - s.Req
	if rem <= s.Opt {
		rem = 0
	} else {
		rem -= s.Opt
	}
	if s.Rest {
		return bindOK
	}
	if s.HasKey() {
		if rem%2 != 0 {
			return bindOddKeys
		}
		kv := args[n-rem:]
		known := map[string]bool{}
		for _, k := range s.Keys {
			known[k] = true
		}
		// every key position is checked for keyword-ness first, in order;
		// unknown names are diagnosed after all pairs were read
		for i := 0; i < len(kv); i += 2 {
			if _, ok := kwName(kv[i]); !ok {
				return bindNotKey
			}
		}
		for i := 0; i < len(kv); i += 2 {
			name, _ := kwName(kv[i])
			if !known[name] {
				return bindUnknown
			}
		}
		return bindOK
	}
	if rem > 0 {
		return bindCount
	}
	return bindOK
}

// CountOK reports whether k arguments can satisfy the positional part of the
// signature (what a static count check can know).
func (s Sig) CountOK(k int) bool {
	if k < s.Req {
		return false
	}
	if s.Rest || s.HasKey() {
		return true
	}
	return k <= s.Req+s.Opt
}
