package c19

import (
	"fmt"
	"strings"

	"github.com/luthersystems/elps/verifharness/vcommon"
	"pgregory.net/rapid"
)

// ---------- sub-property 5: packages with functions named like core builtins ----------
//
// A second package defines, with defun, a function whose bare name is a core
// builtin of bounded arity (get, map, car, ...).  Calls are written qualified
// from another package, unqualified inside the defining package, lisp:-
// qualified, through use-package, ... refscope (with package tables) decides
// whether a call reaches the package's function or the core builtin.

type PkgCase struct {
	Pkg    string
	Name   string // bare name, a core builtin
	Define bool   // the package defines Name itself (else it only inherits the core binding)
	Export bool
	Sig    Sig // signature of the package's own function
	Args   []string
	Class  string
	Wrap   string
	NoTail bool
}

var pkgNames = []string{"kv", "q", "cache", "router"}
var pkgFuncNames = []string{"get", "map", "car", "cons", "nth", "slice", "first", "rest", "not", "assoc", "reverse", "keys", "length"}
var pkgClasses = []string{
	"qualified-from-user",         // (kv:get ...) in user
	"qualified-from-user-in-fn",   // same inside (defun g () ...) (g)
	"qualified-own-from-own",      // (kv:get ...) inside kv
	"unqualified-in-own",          // (get ...) at top level of kv
	"unqualified-in-own-fn",       // (get ...) in a kv function invoked from user
	"lisp-qualified-from-user",    // (lisp:get ...) in user
	"lisp-qualified-in-own",       // (lisp:get ...) inside kv
	"unqualified-in-user",         // (get ...) in user, no use-package: the core builtin
	"unqualified-in-user-before",  // (get ...) in user before the package exists
	"unqualified-in-user-used",    // (use-package 'kv) (get ...)
}

func genPkg() *rapid.Generator[PkgCase] {
	return rapid.Custom(func(t *rapid.T) PkgCase {
		registry()
		c := PkgCase{}
		c.Pkg = rapid.SampledFrom(pkgNames).Draw(t, "pkg")
		c.Name = pick(t, pkgFuncNames, "name")
		c.Define = rapid.IntRange(0, 4).Draw(t, "define") != 0
		c.Export = rapid.IntRange(0, 3).Draw(t, "export") != 0
		c.Sig = genSig(t, true)
		c.Class = pick(t, pkgClasses, "class")
		wide := c.Sig
		if b := regMap[c.Name].Sig; b.MaxK() > wide.MaxK() {
			wide = b
		}
		c.Args = genArgs(t, wide)
		if rapid.IntRange(0, 2).Draw(t, "haswrap") == 0 {
			c.Wrap = pick(t, noiseNames, "wrap")
		}
		c.NoTail = rapid.Bool().Draw(t, "notail")
		return c
	})
}

func buildPkg(c PkgCase) (p *Program, bad string) {
	defer func() {
		if r := recover(); r != nil {
			p, bad = nil, fmt.Sprint(r)
		}
	}()
	tpl, ok := noiseWrappers[c.Wrap]
	if !ok {
		return nil, "unknown wrapper " + c.Wrap
	}
	// the call and its probes; probe lives in the user package
	hole := func(head, probe string) *Node {
		call := callNode(head, c.Args, true)
		var h *Node
		if c.NoTail {
			h = P(`(`+probe+` "post" (progn (`+probe+` "pre") %C))`, map[string]*Node{"C": call})
		} else {
			h = P(`(progn (`+probe+` "pre") %C)`, map[string]*Node{"C": call})
		}
		return P(tpl, map[string]*Node{"H": h})
	}
	var prelude []*Node
	prelude = append(prelude, P(`(in-package '`+c.Pkg+`)`, nil))
	exported := "zed9"
	if c.Define {
		prelude = append(prelude, defunNode("defun", c.Name, c.Sig, P(`(user:probe "pk")`, nil)))
		exported = c.Name
	} else {
		prelude = append(prelude, P(`(defun zed9 () 1)`, nil))
	}
	if c.Export || c.Class == "unqualified-in-user-used" {
		// only names the package binds itself are exported (use-package
		// refuses an exported symbol that is unbound)
		prelude = append(prelude, P(`(export '`+exported+`)`, nil))
	}
	toUser := P(`(in-package 'user)`, nil)
	p = &Program{}
	add := func(ns ...*Node) { p.Forms = append(p.Forms, ns...) }
	switch c.Class {
	case "qualified-from-user":
		add(prelude...)
		add(toUser, hole(c.Pkg+":"+c.Name, "probe"))
	case "qualified-from-user-in-fn":
		add(prelude...)
		add(toUser, P(`(defun g () %H)`, map[string]*Node{"H": hole(c.Pkg+":"+c.Name, "probe")}), P(`(g)`, nil))
	case "qualified-own-from-own":
		add(prelude...)
		add(hole(c.Pkg+":"+c.Name, "user:probe"), toUser)
	case "unqualified-in-own":
		add(prelude...)
		add(hole(c.Name, "user:probe"), toUser)
	case "unqualified-in-own-fn":
		add(prelude...)
		add(P(`(defun helper () %H)`, map[string]*Node{"H": hole(c.Name, "user:probe")}), toUser, P(`(`+c.Pkg+`:helper)`, nil))
	case "lisp-qualified-from-user":
		add(prelude...)
		add(toUser, hole("lisp:"+c.Name, "probe"))
	case "lisp-qualified-in-own":
		add(prelude...)
		add(hole("lisp:"+c.Name, "user:probe"), toUser)
	case "unqualified-in-user":
		add(prelude...)
		add(toUser, hole(c.Name, "probe"))
	case "unqualified-in-user-before":
		add(hole(c.Name, "probe"))
		add(prelude...)
		add(toUser)
	case "unqualified-in-user-used":
		add(prelude...)
		add(toUser, P(`(use-package '`+c.Pkg+`)`, nil), hole(c.Name, "probe"))
	default:
		return nil, "unknown class " + c.Class
	}
	return p, ""
}

// runTarget evaluates the program and classifies what happened to the call
// that follows (probe "pre").  handlerTag, when non-empty, is a probe a
// condition handler may emit between the failed call and the rethrown error.
func runTarget(src string, handlerTag string) (r runResult, obs, next string, f *vcommon.Failure) {
	r = runProgram(src)
	if r.Panic {
		return r, "", "", vcommon.Failf("internal-panic", "evaluating\n%srecovered a Go panic: %s", src, r.Msg)
	}
	pre := tagIndex(r.Trace, "pre", 0)
	if pre < 0 {
		return r, "", "", vcommon.Failf("harness/unreached", "the call under test was never evaluated in\n%s%s", src, r)
	}
	if pre+1 < len(r.Trace) {
		next = strings.Trim(r.Trace[pre+1].Tag, `"`)
	}
	obs = bindOK
	switch {
	case r.Binder != "" && (next == "" || (handlerTag != "" && next == handlerTag)):
		obs = r.Binder
	case r.Binder != "":
		return r, "", next, vcommon.Failf("harness/late-binder-error", "binding failure after the call under test in\n%s%s", src, r)
	}
	return r, obs, next, nil
}

func checkPkg(c PkgCase, ctx *vcommon.Ctx) *vcommon.Failure {
	registry()
	b := regMap[c.Name]
	if b == nil || c.Pkg == "user" || c.Pkg == "lisp" {
		return vcommon.Failf("harness/bad-case", "bad package case %+v", c)
	}
	p, bad := buildPkg(c)
	if p == nil {
		return vcommon.Failf("harness/bad-case", "%s", bad)
	}
	src, line, col := p.Render()
	res, rerr := resolveTarget(p, regSet)
	if rerr != "" || !res.Reached {
		return vcommon.Failf("harness/refscope", "refscope cannot resolve the call in\n%s%s %s", src, rerr, res)
	}
	var sig Sig
	kind, expectTag := "", ""
	switch res.Val.Kind {
	case vRegistry:
		if res.Val.Name != c.Name {
			return vcommon.Failf("harness/refscope", "refscope resolved %s for\n%s", res, src)
		}
		sig, kind = b.Sig, "core-builtin"
	case vClosure:
		sig, kind, expectTag = res.Val.Fn.Sig, "package-defun", tagOfClosure(res.Val.Fn)
	default:
		return vcommon.Failf("harness/refscope", "refscope resolved %s for\n%s", res, src)
	}
	pred := sig.Bind(c.Args)

	ds, err := lintArity(src)
	if err != nil {
		return vcommon.Failf("lint/error", "linter cannot analyse\n%s%v", src, err)
	}
	onCall, stray := splitDiags(ds, line, col)
	r, obs, next, hf := runTarget(src, "")
	if hf != nil {
		return hf
	}
	if obs == bindOK {
		got := next
		if got != "pk" {
			got = ""
		}
		if got != expectTag {
			return vcommon.Failf("harness/refscope-mismatch", "refscope says the call reaches %s (probe %q) but the run shows %q:\n%s%s", res, expectTag, got, src, r)
		}
	}
	if pred != obs {
		return vcommon.Failf("binder/model-disagree/pkg", "refscope: call reaches %s, so the grammar predicts %q; the evaluator gives %q:\n%s%s", res, pred, obs, src, r)
	}
	class := c.Class
	if !c.Define {
		class += "/inherited"
	}
	// does the verdict separate the package's function from the core builtin?
	discriminating := c.Define && b.Sig.CountOK(len(c.Args)) != c.Sig.CountOK(len(c.Args))
	ctx.Class("class:" + class)
	ctx.Class("reaches:" + kind)
	ctx.Class("outcome:" + obs)
	if len(onCall) > 0 {
		ctx.Class("reported")
	}
	if discriminating {
		ctx.Class("discriminating")
	}
	if discriminating || pred != bindOK {
		ctx.NonTrivial(src)
		ctx.Note(fmt.Sprintf("%s | reaches %s | lint=%v | run=%s", strings.ReplaceAll(strings.TrimSpace(src), "\n", " ⏎ "), res, onCall, r))
	}
	bindFail := isBindFailure(obs)
	reported := len(onCall) > 0
	desc := fmt.Sprintf("\n%scall at %d:%d reaches %s; lint=%v; run=%s", src, line, col, res, onCall, r)
	var main *vcommon.Failure
	switch {
	case reported && !bindFail:
		main = vcommon.Failf("arity/pkg/"+class+"/false-positive/"+analyzersOf(onCall), "reported, but the call binds against the function it reaches:%s", desc)
	case kind == "package-defun" && reported && strings.Contains(analyzersOf(onCall), "builtin-arity"):
		main = vcommon.Failf("arity/pkg/"+class+"/core-check-on-package-function", "the call reaches the package's own defun, but the core builtin's check fires:%s", desc)
	case !reported && ((bindFail && !sig.HasKey()) || obs == bindCount):
		// one key per way the call is written and what it reaches
		group := "unqualified-to-core-builtin"
		switch {
		case strings.Contains(c.Class, "qualified-") && !strings.HasPrefix(c.Class, "unqualified"):
			group = "qualified-head"
		case kind == "package-defun":
			group = "unqualified-to-package-defun"
		case c.Define:
			group = "unqualified-to-core-builtin-beside-package-defun"
		}
		main = vcommon.Failf("arity/pkg/"+group+"/missed", "[%s, reaches %s] the call fails argument binding, but the linter accepts it:%s", class, kind, desc)
	}
	var strayF *vcommon.Failure
	if len(stray) > 0 {
		strayF = vcommon.Failf("arity/stray/"+analyzersOf(stray)+"/pkg/"+class, "diagnostic on a form that is not the call under test in\n%s%v", src, stray)
	}
	for _, f := range []*vcommon.Failure{main, strayF} {
		if f != nil && !ctx.Known(f.Key) {
			return f
		}
	}
	if main != nil {
		return main
	}
	return strayF
}
