package c19

import (
	"fmt"
	"strings"
)

// ---------- a tiny program tree with positions ----------

// Node is an atom (Atom != "") or a list.  Bracket renders the list with [ ].
// Target marks THE call under test (exactly one per program).
type Node struct {
	Atom    string
	List    []*Node
	Bracket bool
	Target  bool
	IsList  bool
	Prefix  string // text written directly before the opening bracket ("'" makes the list a quoted datum)
}

func A(s string) *Node { return &Node{Atom: s} }
func L(ns ...*Node) *Node {
	return &Node{List: ns, IsList: true}
}
func B(ns ...*Node) *Node { return &Node{List: ns, IsList: true, Bracket: true} }

// P parses a template: a tiny s-expression reader for harness-written text
// (atoms are maximal runs without whitespace/brackets; strings have no
// escapes).  holes maps an atom spelled %name to a subtree.
func P(text string, holes map[string]*Node) *Node {
	p := &tparser{s: text, holes: holes}
	n := p.node()
	p.ws()
	if p.i != len(p.s) {
		panic("template: trailing text in " + text)
	}
	return n
}

type tparser struct {
	s     string
	i     int
	holes map[string]*Node
}

func (p *tparser) ws() {
	for p.i < len(p.s) && (p.s[p.i] == ' ' || p.s[p.i] == '\n') {
		p.i++
	}
}

func (p *tparser) node() *Node {
	p.ws()
	if p.i >= len(p.s) {
		panic("template: unexpected end in " + p.s)
	}
	switch c := p.s[p.i]; c {
	case '(', '[':
		closer := byte(')')
		if c == '[' {
			closer = ']'
		}
		p.i++
		n := &Node{IsList: true, Bracket: c == '['}
		for {
			p.ws()
			if p.i >= len(p.s) {
				panic("template: unclosed list in " + p.s)
			}
			if p.s[p.i] == closer {
				p.i++
				return n
			}
			n.List = append(n.List, p.node())
		}
	case '"':
		j := strings.IndexByte(p.s[p.i+1:], '"')
		if j < 0 {
			panic("template: unclosed string")
		}
		a := p.s[p.i : p.i+j+2]
		p.i += j + 2
		return A(a)
	case '\'':
		// quoted datum: keep the whole datum as one opaque atom
		start := p.i
		p.i++
		if p.i < len(p.s) && p.s[p.i] == '(' {
			depth := 0
			for p.i < len(p.s) {
				if p.s[p.i] == '(' {
					depth++
				} else if p.s[p.i] == ')' {
					depth--
					if depth == 0 {
						p.i++
						break
					}
				}
				p.i++
			}
			return A(p.s[start:p.i])
		}
		for p.i < len(p.s) && !strings.ContainsRune(" \n()[]", rune(p.s[p.i])) {
			p.i++
		}
		return A(p.s[start:p.i])
	default:
		start := p.i
		p.i++
		for p.i < len(p.s) && !strings.ContainsRune(" \n()[]", rune(p.s[p.i])) {
			p.i++
		}
		a := p.s[start:p.i]
		if strings.HasPrefix(a, "%") {
			h, ok := p.holes[a[1:]]
			if !ok {
				panic("template: unknown hole " + a)
			}
			return h
		}
		return A(a)
	}
}

// Program is a sequence of top-level forms, rendered one per line.
type Program struct {
	Forms []*Node
	Paren bool // render [ ] lists with ( ) — the two spellings read differently
}

// Render returns the source text and the 1-based line/column of the target
// call's opening parenthesis (0,0 when there is no target).
func (p *Program) Render() (src string, line, col int) {
	var b strings.Builder
	for i, f := range p.Forms {
		var lb strings.Builder
		renderNode(f, p.Paren, &lb, func(off int) {
			line, col = i+1, off+1
		})
		b.WriteString(lb.String())
		b.WriteByte('\n')
	}
	return b.String(), line, col
}

func renderNode(n *Node, paren bool, b *strings.Builder, onTarget func(off int)) {
	if !n.IsList {
		b.WriteString(n.Atom)
		return
	}
	if n.Target {
		onTarget(b.Len() + len(n.Prefix))
	}
	b.WriteString(n.Prefix)
	if n.Bracket && !paren {
		b.WriteByte('[')
	} else {
		b.WriteByte('(')
	}
	for i, c := range n.List {
		if i > 0 {
			b.WriteByte(' ')
		}
		renderNode(c, paren, b, onTarget)
	}
	if n.Bracket && !paren {
		b.WriteByte(']')
	} else {
		b.WriteByte(')')
	}
}

// ---------- refscope: which binding does the target call reach? ----------
//
// An abstract interpreter of *binding structure only*, written from
// docs/lang.md and the semantics notes: values are "some datum", "a closure
// with this signature made by that form" or "the registered builtin/operator
// of this name".  It evaluates the program in order until the target call is
// about to be applied and reports what its head denotes at that moment.

type valKind int

const (
	vDatum valKind = iota
	vClosure
	vRegistry
	vUnbound
)

type Closure struct {
	Sig    Sig
	Params []string
	Body   []*Node
	Env    *Frame
	Macro  bool
	Origin string // defun, defmacro, lambda, flet, labels, macrolet
	Name   string
	Pkg    string // package that was current when the closure was made; its body runs there
}

type Val struct {
	Kind valKind
	Fn   *Closure
	Name string // registry name
}

type Frame struct {
	vars   map[string]Val
	parent *Frame
}

func newFrame(parent *Frame) *Frame { return &Frame{vars: map[string]Val{}, parent: parent} }

// Resolution is refscope's answer.
type Resolution struct {
	Reached bool
	Val     Val
	// Where says how the head was found: "local", "global" (user package) or
	// "registry" (the lisp package binding every package starts with).
	Where string
}

func (r Resolution) String() string {
	if !r.Reached {
		return "target never reached"
	}
	switch r.Val.Kind {
	case vDatum:
		return r.Where + " non-function"
	case vClosure:
		k := r.Val.Fn.Origin
		return fmt.Sprintf("%s %s %s%s", r.Where, k, r.Val.Fn.Name, r.Val.Fn.Sig.Formals())
	case vRegistry:
		return "registry " + r.Val.Name
	}
	return "unbound"
}

type scopeInterp struct {
	pkgs     map[string]map[string]Val // package name -> symbol table (own and imported bindings)
	exports  map[string]map[string]bool
	cur      string // current package
	registry map[string]bool // names bound in the lisp package (builtins, ops, macros)
	res      Resolution
	steps    int
	err      string
}

type stopSignal struct{}

func (in *scopeInterp) fail(format string, a ...any) {
	in.err = fmt.Sprintf(format, a...)
	panic(stopSignal{})
}

func (in *scopeInterp) lookup(name string, env *Frame) (Val, string) {
	for f := env; f != nil; f = f.parent {
		if v, ok := f.vars[name]; ok {
			return v, "local"
		}
	}
	// pkg:name goes straight to that package's table (exports are not
	// enforced for qualified access); every package starts with the lisp
	// package's symbols, so a name the package does not define itself falls
	// back to the registry
	if i := strings.LastIndexByte(name, ':'); i > 0 {
		pkg, bare := name[:i], name[i+1:]
		if pkg != "lisp" {
			tab, ok := in.pkgs[pkg]
			if !ok {
				return Val{Kind: vUnbound, Name: name}, "unbound"
			}
			if v, ok := tab[bare]; ok {
				return v, "global"
			}
		}
		if in.registry[bare] {
			return Val{Kind: vRegistry, Name: bare}, "registry"
		}
		return Val{Kind: vUnbound, Name: name}, "unbound"
	}
	if v, ok := in.table()[name]; ok {
		return v, "global"
	}
	if in.registry[name] {
		return Val{Kind: vRegistry, Name: name}, "registry"
	}
	return Val{Kind: vUnbound, Name: name}, "unbound"
}

// table returns the current package's symbol table.
func (in *scopeInterp) table() map[string]Val {
	t, ok := in.pkgs[in.cur]
	if !ok {
		t = map[string]Val{}
		in.pkgs[in.cur] = t
	}
	return t
}

// raiseSignal models (error 'cond ...) reaching a handler-bind.
type raiseSignal struct{ cond string }

func isSymbolAtom(a string) bool {
	if a == "" || a == "true" || a == "false" {
		return false
	}
	c := a[0]
	if c == '"' || c == '\'' || c == ':' || (c >= '0' && c <= '9') {
		return false
	}
	if (c == '-' || c == '+') && len(a) > 1 && a[1] >= '0' && a[1] <= '9' {
		return false
	}
	return true
}

// parseSigNode reads a formals list written by the harness.
func parseSigNode(n *Node) (Sig, []string) {
	var s Sig
	var names []string
	mode := 0
	for _, c := range n.List {
		switch c.Atom {
		case "&optional":
			mode = 1
		case "&rest":
			mode = 2
		case "&key":
			mode = 3
		default:
			names = append(names, c.Atom)
			switch mode {
			case 0:
				s.Req++
			case 1:
				s.Opt++
			case 2:
				s.Rest = true
			case 3:
				s.Keys = append(s.Keys, c.Atom)
			}
		}
	}
	return s, names
}

func (in *scopeInterp) closure(origin, name string, formals *Node, body []*Node, env *Frame, macro bool) Val {
	sig, names := parseSigNode(formals)
	return Val{Kind: vClosure, Fn: &Closure{Sig: sig, Params: names, Body: body, Env: env, Macro: macro, Origin: origin, Name: name, Pkg: in.cur}}
}

func (in *scopeInterp) evalBody(body []*Node, env *Frame) Val {
	v := Val{Kind: vDatum}
	for _, f := range body {
		v = in.eval(f, env)
	}
	return v
}

func (in *scopeInterp) apply(c *Closure, args []Val) Val {
	f := newFrame(c.Env)
	// positional binding only (harness-made non-target calls are always valid)
	np := c.Sig.Req + c.Sig.Opt
	if len(args) < c.Sig.Req || (!c.Sig.Rest && !c.Sig.HasKey() && len(args) > np) {
		in.fail("non-target call to %s%s with %d args does not bind", c.Name, c.Sig.Formals(), len(args))
	}
	for i, p := range c.Params {
		if i < np && i < len(args) {
			f.vars[p] = args[i]
		} else {
			f.vars[p] = Val{Kind: vDatum}
		}
	}
	// a function body runs with its defining package current
	saved := in.cur
	if c.Pkg != "" {
		in.cur = c.Pkg
	}
	defer func() { in.cur = saved }()
	return in.evalBody(c.Body, f)
}

func (in *scopeInterp) eval(n *Node, env *Frame) Val {
	in.steps++
	if in.steps > 5000 {
		in.fail("refscope step budget exhausted")
	}
	if !n.IsList {
		if isSymbolAtom(n.Atom) {
			v, _ := in.lookup(n.Atom, env)
			return v
		}
		return Val{Kind: vDatum}
	}
	if len(n.List) == 0 {
		return Val{Kind: vDatum}
	}
	head := n.List[0]
	args := n.List[1:]
	var hv Val
	where := "expr"
	if head.IsList {
		hv = in.eval(head, env)
	} else if isSymbolAtom(head.Atom) {
		hv, where = in.lookup(head.Atom, env)
	} else {
		hv = Val{Kind: vDatum}
	}
	if n.Target {
		in.res = Resolution{Reached: true, Val: hv, Where: where}
		panic(stopSignal{})
	}
	switch hv.Kind {
	case vClosure:
		if hv.Fn.Macro {
			// arguments are not evaluated; the body runs at expansion time in
			// the macro's own environment.  Harness macros expand to a datum.
			vals := make([]Val, len(args))
			return in.apply(hv.Fn, vals)
		}
		vals := make([]Val, len(args))
		for i, a := range args {
			vals[i] = in.eval(a, env)
		}
		return in.apply(hv.Fn, vals)
	case vRegistry:
		return in.special(hv.Name, n, args, env)
	case vUnbound:
		// host builtins (probe) live outside the registry: ordinary functions
		if head.Atom == "probe" || head.Atom == "user:probe" {
			for _, a := range args {
				in.eval(a, env)
			}
			return Val{Kind: vDatum}
		}
		in.fail("non-target call to unbound %s", head.Atom)
	default:
		in.fail("non-target call whose head is a datum")
	}
	return Val{Kind: vDatum}
}

func (in *scopeInterp) special(name string, n *Node, args []*Node, env *Frame) Val {
	switch name {
	case "progn":
		return in.evalBody(args, env)
	case "if":
		// harness programs only use (if true A B)
		in.eval(args[0], env)
		return in.eval(args[1], env)
	case "quote":
		return Val{Kind: vDatum}
	case "lambda":
		return in.closure("lambda", "lambda", args[0], args[1:], env, false)
	case "let":
		f := newFrame(env)
		vals := make([]Val, len(args[0].List))
		for i, b := range args[0].List {
			vals[i] = in.eval(b.List[1], f) // inits see the new, still empty frame
		}
		for i, b := range args[0].List {
			f.vars[b.List[0].Atom] = vals[i]
		}
		return in.evalBody(args[1:], f)
	case "let*":
		f := newFrame(env)
		for _, b := range args[0].List {
			f.vars[b.List[0].Atom] = in.eval(b.List[1], f)
		}
		return in.evalBody(args[1:], f)
	case "flet", "macrolet":
		f := newFrame(env)
		for _, b := range args[0].List {
			private := newFrame(env) // no self or sibling references
			f.vars[b.List[0].Atom] = in.closure(name, b.List[0].Atom, b.List[1], b.List[2:], private, name == "macrolet")
		}
		return in.evalBody(args[1:], f)
	case "labels":
		f := newFrame(env)
		for _, b := range args[0].List {
			f.vars[b.List[0].Atom] = in.closure(name, b.List[0].Atom, b.List[1], b.List[2:], f, false)
		}
		return in.evalBody(args[1:], f)
	case "dotimes":
		f := newFrame(env)
		f.vars[args[0].List[0].Atom] = Val{Kind: vDatum}
		// harness programs iterate exactly once
		return in.evalBody(args[1:], f)
	case "defun", "defmacro":
		// (set 'name (lambda ...)) in the current package
		in.table()[args[0].Atom] = in.closure(name, args[0].Atom, args[1], args[2:], env, name == "defmacro")
		return Val{Kind: vDatum}
	case "set":
		v := in.eval(args[1], env)
		in.table()[strings.TrimPrefix(args[0].Atom, "'")] = v
		return v
	case "in-package":
		in.cur = strings.TrimPrefix(args[0].Atom, "'")
		in.table()
		return Val{Kind: vDatum}
	case "export":
		for _, a := range args {
			if in.exports[in.cur] == nil {
				in.exports[in.cur] = map[string]bool{}
			}
			in.exports[in.cur][strings.TrimPrefix(a.Atom, "'")] = true
		}
		return Val{Kind: vDatum}
	case "use-package":
		// snapshot copy of the exported symbols bound right now
		for _, a := range args {
			from := strings.TrimPrefix(a.Atom, "'")
			for sym := range in.exports[from] {
				if v, ok := in.pkgs[from][sym]; ok {
					in.table()[sym] = v
				}
			}
		}
		return Val{Kind: vDatum}
	case "error":
		for _, a := range args {
			in.eval(a, env)
		}
		if len(args) > 0 && strings.HasPrefix(args[0].Atom, "'") {
			panic(raiseSignal{cond: strings.TrimPrefix(args[0].Atom, "'")})
		}
		in.fail("non-target (error ...) without a quoted condition")
		return Val{Kind: vDatum}
	case "rethrow":
		return Val{Kind: vDatum}
	case "handler-bind":
		// binds NO name: the first element of an entry is a condition type.
		// The body runs; a raised condition runs the first matching handler.
		var raised *raiseSignal
		var v Val
		func() {
			defer func() {
				if r := recover(); r != nil {
					if rs, ok := r.(raiseSignal); ok {
						raised = &rs
						return
					}
					panic(r)
				}
			}()
			v = in.evalBody(args[1:], env)
		}()
		if raised == nil {
			return v
		}
		for _, b := range args[0].List {
			if b.List[0].Atom == raised.cond || b.List[0].Atom == "condition" {
				h := in.eval(b.List[1], env)
				if h.Kind != vClosure {
					in.fail("handler is not a function")
				}
				return in.apply(h.Fn, []Val{{Kind: vDatum}, {Kind: vDatum}})
			}
		}
		panic(*raised)
	default:
		// an ordinary builtin function (list, ...): evaluate the arguments
		for _, a := range args {
			in.eval(a, env)
		}
		return Val{Kind: vDatum}
	}
}

// resolveTarget runs refscope over a program.
func resolveTarget(p *Program, registry map[string]bool) (res Resolution, err string) {
	in := &scopeInterp{pkgs: map[string]map[string]Val{}, exports: map[string]map[string]bool{}, cur: "user", registry: registry}
	func() {
		defer func() {
			if r := recover(); r != nil {
				if _, ok := r.(raiseSignal); ok {
					return // an unhandled condition ends the load
				}
				if _, ok := r.(stopSignal); !ok {
					panic(r)
				}
			}
		}()
		for _, f := range p.Forms {
			in.eval(f, nil)
		}
	}()
	return in.res, in.err
}
