package c19

import (
	"fmt"
	"strings"

	"github.com/luthersystems/elps/verifharness/vcommon"
	"pgregory.net/rapid"
)

// ---------- sub-property 4: top-level REDEFINITIONS of one name ----------
//
// One file, one package, the same function name defined two or three times at
// top level with defun (or defmacro) and generally different arity bounds.
// The evaluator executes top-level forms in order, so a call binds against the
// definition that is in effect WHEN THE CALL RUNS: a call between two
// definitions uses the earlier one, a call inside (defun g () ...) uses the
// one in effect when (g) is invoked, wherever g's text stands.  refscope
// evaluates the forms in the same order and names the live definition; the
// static verdict has to follow it.

type RedefCase struct {
	Fname  string
	Kinds  []string // "defun" | "defmacro", one per definition, in file order
	Sigs   []Sig
	Args   []string
	InFn   bool   // the call sits in (defun g () ...), run by a later (g)
	GAt    int    // g is defined after definition number GAt (0 = before all); InFn only
	CallAt int    // the call — or the (g) that runs it — follows definition number CallAt (1..n)
	Wrap   string // unrelated wrapper around the call
	NoTail bool
}

func genRedef() *rapid.Generator[RedefCase] {
	return rapid.Custom(func(t *rapid.T) RedefCase {
		c := RedefCase{}
		c.Fname = rapid.SampledFrom(userNames).Draw(t, "fname")
		n := rapid.SampledFrom([]int{2, 2, 2, 3}).Draw(t, "ndefs")
		widest := Sig{}
		for i := 0; i < n; i++ {
			kind := "defun"
			if rapid.IntRange(0, 3).Draw(t, "macro") == 0 {
				kind = "defmacro"
			}
			s := genSig(t, true)
			// prefer different arity bounds between consecutive definitions
			if i > 0 && s.Req == c.Sigs[i-1].Req && s.Positional() == c.Sigs[i-1].Positional() && !s.Rest && !s.HasKey() {
				s.Req++
			}
			c.Kinds = append(c.Kinds, kind)
			c.Sigs = append(c.Sigs, s)
			if s.MaxK() > widest.MaxK() || i == 0 {
				widest = s
			}
		}
		c.Args = genArgs(t, widest)
		c.CallAt = rapid.IntRange(1, n).Draw(t, "callat")
		if rapid.IntRange(0, 2).Draw(t, "late") != 0 {
			c.CallAt = n // most calls run after every definition
		}
		c.InFn = rapid.IntRange(0, 2).Draw(t, "infn") == 0
		if c.InFn {
			c.GAt = rapid.IntRange(0, c.CallAt).Draw(t, "gat")
		}
		if rapid.IntRange(0, 2).Draw(t, "haswrap") == 0 {
			c.Wrap = pick(t, noiseNames, "wrap")
		}
		c.NoTail = rapid.Bool().Draw(t, "notail")
		return c
	})
}

func buildRedef(c RedefCase) (p *Program, bad string) {
	defer func() {
		if r := recover(); r != nil {
			p, bad = nil, fmt.Sprint(r)
		}
	}()
	n := len(c.Sigs)
	if n < 2 || n > 4 || len(c.Kinds) != n || c.CallAt < 1 || c.CallAt > n || c.GAt < 0 || c.GAt > c.CallAt {
		return nil, "malformed redefinition case"
	}
	tpl, ok := noiseWrappers[c.Wrap]
	if !ok {
		return nil, "unknown wrapper " + c.Wrap
	}
	call := callNode(c.Fname, c.Args, true)
	var h *Node
	if c.NoTail {
		h = P(`(probe "post" (progn (probe "pre") %C))`, map[string]*Node{"C": call})
	} else {
		h = P(`(progn (probe "pre") %C)`, map[string]*Node{"C": call})
	}
	h = P(tpl, map[string]*Node{"H": h})
	p = &Program{}
	gdef := P(`(defun g () %H)`, map[string]*Node{"H": h})
	if c.InFn && c.GAt == 0 {
		p.Forms = append(p.Forms, gdef)
	}
	for i := 1; i <= n; i++ {
		kw := c.Kinds[i-1]
		if kw != "defun" && kw != "defmacro" {
			return nil, "unknown definition kind " + kw
		}
		p.Forms = append(p.Forms, defunNode(kw, c.Fname, c.Sigs[i-1], P(fmt.Sprintf(`(probe "d%d")`, i), nil)))
		if c.InFn && c.GAt == i {
			p.Forms = append(p.Forms, gdef)
		}
		if c.CallAt == i {
			if c.InFn {
				p.Forms = append(p.Forms, P(`(g)`, nil))
			} else {
				p.Forms = append(p.Forms, h)
			}
		}
	}
	return p, ""
}

func checkRedef(c RedefCase, ctx *vcommon.Ctx) *vcommon.Failure {
	registry()
	if regSet[c.Fname] || c.Fname == "g" {
		return vcommon.Failf("harness/bad-case", "function name %q collides", c.Fname)
	}
	p, bad := buildRedef(c)
	if p == nil {
		return vcommon.Failf("harness/bad-case", "%s", bad)
	}
	src, line, col := p.Render()
	n := len(c.Sigs)

	res, rerr := resolveTarget(p, regSet)
	if rerr != "" || !res.Reached || res.Val.Kind != vClosure || res.Where != "global" {
		return vcommon.Failf("harness/refscope", "refscope cannot resolve the call in\n%s%s %s", src, rerr, res)
	}
	live := res.Val.Fn
	tag := tagOfClosure(live) // d<i>
	liveIdx := 0
	fmt.Sscanf(tag, "d%d", &liveIdx)
	if liveIdx < 1 || liveIdx > n || liveIdx > c.CallAt {
		return vcommon.Failf("harness/refscope", "refscope resolved %s (tag %q) for\n%s", res, tag, src)
	}
	sig := live.Sig
	pred := sig.Bind(c.Args)

	ds, err := lintArity(src)
	if err != nil {
		return vcommon.Failf("lint/error", "linter cannot analyse\n%s%v", src, err)
	}
	onCall, stray := splitDiags(ds, line, col)

	r := runProgram(src)
	if r.Panic {
		return vcommon.Failf("internal-panic", "evaluating\n%srecovered a Go panic: %s", src, r.Msg)
	}
	pre := tagIndex(r.Trace, "pre", 0)
	if pre < 0 {
		return vcommon.Failf("harness/unreached", "the call under test was never evaluated in\n%s%s", src, r)
	}
	next := ""
	if pre+1 < len(r.Trace) {
		next = strings.Trim(r.Trace[pre+1].Tag, `"`)
	}
	obs := bindOK
	switch {
	case r.Binder != "" && next == "":
		obs = r.Binder
	case r.Binder != "":
		return vcommon.Failf("harness/late-binder-error", "binding failure after the call under test in\n%s%s", src, r)
	case r.IsErr && next == "":
		return vcommon.Failf("harness/unexpected-error", "the call under test failed outside argument binding in\n%s%s", src, r)
	}
	if obs == bindOK && next != tag {
		return vcommon.Failf("harness/refscope-mismatch", "refscope says definition %s is live, the run entered %q:\n%s%s", tag, next, src, r)
	}
	if pred != obs {
		return vcommon.Failf("binder/model-disagree/redef", "definition %d %s%s is live, so the grammar predicts %q; the evaluator gives %q:\n%s%s", liveIdx, live.Origin, sig, pred, obs, src, r)
	}

	order := "live-is-last"
	if liveIdx != n {
		order = "live-is-earlier"
	}
	// would the verdict differ under another definition of the name?
	discriminating := false
	for i, s := range c.Sigs {
		if i+1 != liveIdx && s.CountOK(len(c.Args)) != sig.CountOK(len(c.Args)) {
			discriminating = true
		}
	}
	ctx.Class(order)
	ctx.Class("live:" + live.Origin)
	ctx.Class("kinds:" + strings.Join(c.Kinds, "+"))
	ctx.Class("outcome:" + obs)
	if c.InFn {
		ctx.Class("in-fn")
	}
	if discriminating {
		ctx.Class("discriminating")
		ctx.NonTrivial(src)
		ctx.Note(fmt.Sprintf("%s | live: definition %d | lint=%v | run=%s", strings.ReplaceAll(strings.TrimSpace(src), "\n", " ⏎ "), liveIdx, onCall, r))
	}
	if len(onCall) > 0 {
		ctx.Class("reported")
	}

	bindFail := isBindFailure(obs)
	reported := len(onCall) > 0
	desc := fmt.Sprintf("\n%scall at %d:%d runs while definition %d of %d (%s %s%s) is in effect; lint=%v; run=%s", src, line, col, liveIdx, n, live.Origin, c.Fname, sig, onCall, r)
	var main *vcommon.Failure
	switch {
	case reported && strings.Contains(analyzersOf(onCall), "builtin-arity"):
		main = vcommon.Failf("arity/redef/"+order+"/wrong-analyzer", "call to a user-defined name reported by builtin-arity:%s", desc)
	case reported && !bindFail:
		main = vcommon.Failf("arity/redef/"+order+"/false-positive", "reported, but the call binds against the definition in effect when it runs:%s", desc)
	case live.Origin == "defun" && !reported && ((bindFail && !sig.HasKey()) || obs == bindCount):
		main = vcommon.Failf("arity/redef/"+order+"/missed", "the call fails argument binding against the defun in effect when it runs, but the linter accepts it:%s", desc)
	}
	var strayF *vcommon.Failure
	if len(stray) > 0 {
		strayF = vcommon.Failf("arity/stray/"+analyzersOf(stray)+"/redef", "diagnostic on a form that is not the call under test in\n%s%v", src, stray)
	}
	for _, f := range []*vcommon.Failure{main, strayF} {
		if f != nil && !ctx.Known(f.Key) {
			return f
		}
	}
	if main != nil {
		return main
	}
	return strayF
}
