package c19

import (
	"fmt"
	"strings"
	"sync"

	"github.com/luthersystems/elps/verifharness/vcommon"
	"pgregory.net/rapid"
)

// ---------- sub-property 7: the call as a DIRECT child of every enclosing form ----------
//
// The other generated sub-properties put the call under test at top level,
// in an argument position or behind (progn (probe "pre") ...).  The linter,
// however, treats many enclosing forms specially (formals lists, binding
// lists, children of the threading macros, def-like forms, quoted data), and a
// slip there concerns exactly the lists that are DIRECT children of such a
// form.  Here a call-shaped list (N a1 ... ak) -- N a core function, operator
// or macro, or a prelude defun -- is written
//
//   - as a direct child, evaluated exactly once, of every kind of enclosing
//     form: value of defconst / set / set! with 0-2 docstrings, body of defun /
//     defmacro / deftype / lambda / flet / labels / macrolet (with and without
//     docstring and parameters), body or evaluated argument of user macros
//     whose name starts with "def", let / let* inits, cond tests and bodies,
//     handler-bind body / handler / handler expression, and / or / if
//     children, an unquote inside a quasiquote, the INITIAL VALUE of
//     thread-first / thread-last and an argument of a threaded child
//     ("call" forms: the full oracle applies);
//   - as a threaded child of thread-first / thread-last at the first, a middle
//     and the last position ("threaded": the macro inserts one argument, so the
//     list is not a direct call with k argument expressions; only
//     reported => binding failure, with the inserted value counted, is demanded);
//   - where it is NOT a call at all: quoted and quasiquoted data (also nested
//     inside a quoted list), let / let* / flet / labels / macrolet binding
//     entries, formals lists of defun / defmacro / lambda / deftype / flet /
//     labels / macrolet, cond clauses ("non-call": no arity diagnostic may be
//     attached to anything in the program, and the program must run cleanly).
//
// Argument expressions are no longer only literals: bare symbols (true, false,
// global variables) and nested valid calls are drawn too, in styles "all
// symbols", "all calls", "mixed" -- every one still evaluates without error, so
// binding is decided by count and keyword shape alone.
//
// No shadowing occurs in these programs, so the head always denotes the core
// binding / the prelude defun; the verdict needs no scope resolution.  The
// binder's error is attributed to the call under test by the failing
// function's name, which occurs exactly once in the program (the templates
// never use a name from the head pool).

type EncCase struct {
	N     string // head of the call-shaped list
	NUser bool   // N is defined with defun in the prelude
	NSig  Sig
	Args  []string
	Style string // how the argument expressions were chosen (histogram only)
	Form  string // the enclosing form the list is a direct child of
	Outer string // "" or a second form around the first (expression forms only)
	Paren bool
	// NUser only: where the defun of N stands ("" = top level, progn, let, fn =
	// inside another function that is called first, cond) and what its body is
	// ("" = a probe, empty, doc-only, doc+probe).  defun always defines the
	// name globally, wherever it is evaluated.
	DefIn string `json:",omitempty"`
	Body  string `json:",omitempty"`
}

var encDefIns = []string{"progn", "let", "fn", "cond"}
var encBodies = []string{"empty", "doc-only", "doc+probe"}

type encForm struct {
	Pre    []string
	Main   string
	Post   []string
	Kind   string // call | datum | entry1 | fentry | formals | clause
	Thread int    // 0 = direct call; 1 = a value is inserted as first argument, 2 = as last
	TVal   string // the inserted value, as an argument expression
	Macros bool   // needs the user-defined def* macros
}

const encMacroPrelude = `(defmacro defendpoint (name formals &rest body) (quasiquote (defun (unquote name) (unquote formals) (unquote-splicing body))))
(defmacro defthing (name val &rest doc) (quasiquote (set (quote (unquote name)) (unquote val))))
(defmacro defreg (val name &rest doc) (quasiquote (set (quote (unquote name)) (unquote val))))`

const encPassOn = `(lambda (c &rest a) (rethrow))`

var encForms = map[string]encForm{
	// ----- direct calls -----
	"top":                      {Main: `%H`},
	"progn":                    {Main: `(progn 1 %H)`},
	"arg":                      {Main: `(list 0 %H 2)`},
	"defconst-value":           {Main: `(defconst k9 %H)`},
	"defconst-value-doc":       {Main: `(defconst k9 %H "doc")`},
	"defconst-value-doc2":      {Main: `(defconst k9 %H "doc" "more")`},
	"set-value":                {Main: `(set 'k9 %H)`},
	"set-value-doc":            {Main: `(set 'k9 %H "doc")`},
	"set!-value":               {Pre: []string{`(set 'k9 0)`}, Main: `(set! k9 %H)`},
	"defun-body":               {Main: `(defun g () %H)`, Post: []string{`(g)`}},
	"defun-body-doc":           {Main: `(defun g () "doc" %H)`, Post: []string{`(g)`}},
	"defun-body-first":         {Main: `(defun g () %H 1)`, Post: []string{`(g)`}},
	"defun-body-params":        {Main: `(defun g (a b) %H)`, Post: []string{`(g 1 2)`}},
	"defun-body-doc-params":    {Main: `(defun g (a b) "doc" %H 1)`, Post: []string{`(g 1 2)`}},
	"defmacro-body":            {Main: `(defmacro m9 () %H 1)`, Post: []string{`(m9)`}},
	"defmacro-body-doc-params": {Main: `(defmacro m9 (a) "doc" %H 1)`, Post: []string{`(m9 0)`}},
	"deftype-body":             {Main: `(deftype ty9 (a) %H)`, Post: []string{`(new ty9 1)`}},
	"deftype-body-first":       {Main: `(deftype ty9 (a b) %H a)`, Post: []string{`(new ty9 1 2)`}},
	"deftype-body-noparams":    {Main: `(deftype ty9 () %H)`, Post: []string{`(new ty9)`}},
	"defuser-body":             {Macros: true, Main: `(defendpoint ep9 (a) %H)`, Post: []string{`(ep9 1)`}},
	"defuser-body-doc":         {Macros: true, Main: `(defendpoint ep9 (a b) "doc" %H 1)`, Post: []string{`(ep9 1 2)`}},
	"defuser-body-noparams":    {Macros: true, Main: `(defendpoint ep9 () %H)`, Post: []string{`(ep9)`}},
	"defuser-value":            {Macros: true, Main: `(defthing k9 %H)`},
	"defuser-value-doc":        {Macros: true, Main: `(defthing k9 %H "doc")`},
	"defuser-value-first":      {Macros: true, Main: `(defreg %H k9 "doc")`},
	"lambda-body":              {Main: `((lambda () %H))`},
	"lambda-body-params":       {Main: `((lambda (a) %H 1) 0)`},
	"let-body":                 {Main: `(let ([z 1]) %H)`},
	"let-init":                 {Main: `(let ([z %H]) z)`},
	"let-init-second":          {Main: `(let ([y 1] [z %H]) z)`},
	"let*-init":                {Main: `(let* ([y 1] [z %H]) z)`},
	"flet-fnbody":              {Main: `(flet ([z () %H]) (z))`},
	"labels-fnbody":            {Main: `(labels ([z () %H]) (z))`},
	"macrolet-fnbody":          {Main: `(macrolet ([z () %H 1]) (z))`},
	"dotimes-body":             {Main: `(dotimes (i 1) %H)`},
	"and-arg":                  {Main: `(and true %H)`},
	"or-arg":                   {Main: `(or false %H)`},
	"if-cond":                  {Main: `(if %H 1 2)`},
	"if-then":                  {Main: `(if true %H 0)`},
	"thread-first-value":       {Main: `(thread-first %H (list))`},
	"thread-first-value-only":  {Main: `(thread-first %H)`},
	"thread-first-value-2":     {Main: `(thread-first %H (list) (list 1))`},
	"thread-last-value":        {Main: `(thread-last %H (list))`},
	"thread-last-value-only":   {Main: `(thread-last %H)`},
	"thread-last-value-2":      {Main: `(thread-last %H (list) (list 1))`},
	"thread-first-child-arg":   {Main: `(thread-first 7 (list %H))`},
	"thread-last-child-arg":    {Main: `(thread-last 7 (list 0 %H))`},
	"handler-bind-body":        {Main: `(handler-bind ([condition ` + encPassOn + `]) %H)`},
	"handler-bind-handler":     {Main: `(handler-bind ([condition (lambda (c &rest a) %H)]) (error 'boom9 "x"))`},
	"handler-bind-handler-expr": {Main: `(handler-bind ([condition %H]) (error 'boom9 "x"))`},
	"cond-test":                {Main: `(cond (%H 1) (else 2))`},
	"cond-test-only":           {Main: `(cond (%H))`},
	"cond-branch":              {Main: `(cond (true %H))`},
	"cond-branch-second":       {Main: `(cond (true 1 %H))`},
	"cond-else":                {Main: `(cond (false 1) (else %H))`},
	"quasi-unquote":            {Main: `(quasiquote (1 (unquote %H)))`},
	"quasi-unquote-splicing":   {Main: `(quasiquote (1 (unquote-splicing (list %H))))`},
	// ----- threaded children: one argument is inserted before the call is made -----
	"thread-first-child1":    {Main: `(thread-first 7 %H)`, Thread: 1, TVal: "7"},
	"thread-first-child2":    {Main: `(thread-first 7 (list) %H)`, Thread: 1, TVal: "'(7)"},
	"thread-first-child-mid": {Main: `(thread-first 7 %H (list))`, Thread: 1, TVal: "7"},
	"thread-last-child1":     {Main: `(thread-last 7 %H)`, Thread: 2, TVal: "7"},
	"thread-last-child2":     {Main: `(thread-last 7 (list) %H)`, Thread: 2, TVal: "'(7)"},
	"thread-last-child-mid":  {Main: `(thread-last 7 %H (list))`, Thread: 2, TVal: "7"},
	// ----- call-shaped lists that are NOT calls -----
	"quoted-list":        {Kind: "datum", Main: `(set 'k9 %QH)`},
	"quoted-arg":         {Kind: "datum", Main: `(list 0 %QH)`},
	"quoted-nested":      {Kind: "datum", Main: `(set 'k9 %QN)`},
	"quote-form":         {Kind: "datum", Main: `(set 'k9 (quote %H))`},
	"quote-form-nested":  {Kind: "datum", Main: `(set 'k9 (quote (1 %H)))`},
	"quasi-datum":        {Kind: "datum", Main: `(set 'k9 (quasiquote %H))`},
	"quasi-nested":       {Kind: "datum", Main: `(set 'k9 (quasiquote (1 %H 2)))`},
	"entry-let":          {Kind: "entry1", Main: `(let (%H) 2)`},
	"entry-let-second":   {Kind: "entry1", Main: `(let ([y 1] %H) 2)`},
	"entry-let*":         {Kind: "entry1", Main: `(let* (%H) 2)`},
	"entry-flet":         {Kind: "fentry", Main: `(flet (%H) 2)`},
	"entry-labels":       {Kind: "fentry", Main: `(labels (%H) 2)`},
	"entry-macrolet":     {Kind: "fentry", Main: `(macrolet (%H) 2)`},
	"formals-defun":      {Kind: "formals", Main: `(defun g %H 1)`},
	"formals-defun-doc":  {Kind: "formals", Main: `(defun g %H "doc" 1)`},
	"formals-defmacro":   {Kind: "formals", Main: `(defmacro m9 %H 1)`},
	"formals-lambda":     {Kind: "formals", Main: `(lambda %H 1)`},
	"formals-deftype":    {Kind: "formals", Main: `(deftype ty9 %H 1)`},
	"formals-flet":       {Kind: "formals", Main: `(flet ([z %H 1]) 2)`},
	"formals-labels":     {Kind: "formals", Main: `(labels ([z %H 1]) 2)`},
	"formals-macrolet":   {Kind: "formals", Main: `(macrolet ([z %H 1]) 2)`},
	"cond-clause":        {Kind: "clause", Main: `(cond %H)`},
	"cond-clause-second": {Kind: "clause", Main: `(cond (false 1) %H)`},
}

// a second form around the first one: pure expression templates only
var encOuters = map[string]string{
	"o-progn":              `(progn 1 %H)`,
	"o-defconst-value-doc": `(defconst k8 %H "doc")`,
	"o-set-value-doc":      `(set 'k8 %H "doc")`,
	"o-let-init":           `(let ([w %H]) w)`,
	"o-lambda-body":        `((lambda () %H))`,
	"o-thread-first-value": `(thread-first %H (list))`,
	"o-thread-last-child-arg": `(thread-last 7 (list 0 %H))`,
	"o-cond-branch":        `(cond (true %H))`,
	"o-defun-body":         `(progn (defun g8 () %H) (g8))`,
}

var (
	encFormNames  = sortedKeys(encForms)
	encOuterNames = sortedKeys(encOuters)
)

func (f encForm) kind() string {
	if f.Kind == "" {
		return "call"
	}
	return f.Kind
}

// heads: functions of several fixed arities, variadic ones, the operator with
// its own analyzer (if) and two macros.  None occurs in a template.
var encHeads = []string{"car", "cons", "cons", "nth", "not", "identity", "length", "max", "concat", "reverse", "if", "if", "get-default", "trace", "first", "second", "equal?", "to-int"}

var encBareSyms = []string{"true", "false", "v1", "v2"}
var encNested = []string{"(list 1)", "(list)", "(vector 1 2)", "(to-string 1)", "(sorted-map)"}

// genArgsRich draws the argument expressions as genArgs does and then respells
// the non-keyword ones in one of four styles.
func genArgsRich(t *rapid.T, s Sig) ([]string, string) {
	args := genArgs(t, s)
	style := rapid.SampledFrom([]string{"lit", "symbols", "symbols", "calls", "mixed", "mixed"}).Draw(t, "argstyle")
	for i, a := range args {
		if strings.HasPrefix(a, ":") {
			continue
		}
		switch style {
		case "symbols":
			args[i] = rapid.SampledFrom(encBareSyms).Draw(t, "sym")
		case "calls":
			args[i] = rapid.SampledFrom(encNested).Draw(t, "nested")
		case "mixed":
			switch rapid.IntRange(0, 2).Draw(t, "mix") {
			case 1:
				args[i] = rapid.SampledFrom(encBareSyms).Draw(t, "sym")
			case 2:
				args[i] = rapid.SampledFrom(encNested).Draw(t, "nested")
			}
		}
	}
	return args, style
}

func genEnclose() *rapid.Generator[EncCase] {
	return rapid.Custom(func(t *rapid.T) EncCase {
		registry()
		c := EncCase{}
		c.NUser = rapid.IntRange(0, 2).Draw(t, "nuser") == 0
		var sig Sig
		if c.NUser {
			c.N = rapid.SampledFrom(userNames).Draw(t, "n")
			c.NSig = genSig(t, true)
			sig = c.NSig
			if rapid.IntRange(0, 2).Draw(t, "defnested") == 0 {
				c.DefIn = rapid.SampledFrom(encDefIns).Draw(t, "defin")
			}
			if rapid.IntRange(0, 2).Draw(t, "bodykind") == 0 {
				c.Body = rapid.SampledFrom(encBodies).Draw(t, "body")
			}
		} else {
			c.N = pick(t, encHeads, "n")
			sig = regMap[c.N].Sig
		}
		c.Form = pick(t, encFormNames, "form")
		f := encForms[c.Form]
		switch f.kind() {
		case "entry1":
			// (name value): exactly one value expression
			all, st := genArgsRich(t, Sig{Req: 1})
			c.Style = st
			c.Args = []string{"1"}
			if len(all) > 0 && !strings.HasPrefix(all[0], ":") {
				c.Args[0] = all[0]
			}
		case "fentry":
			// (name formals body...)
			c.Args = []string{rapid.SampledFrom([]string{"()", "(a)", "(a b)", "(a &optional b)"}).Draw(t, "fformals")}
			for i, n := 0, rapid.IntRange(0, 2).Draw(t, "nbody"); i < n; i++ {
				c.Args = append(c.Args, rapid.SampledFrom(litPool).Draw(t, "fbody"))
			}
			c.Style = "fentry"
		case "formals":
			// (N p...) is a parameter list whose first parameter is named N
			c.Args = append([]string{}, rapid.SampledFrom([][]string{{}, {"a"}, {"a", "b"}, {"a", "b", "c"}, {"&optional", "a"}, {"a", "&rest", "b"}, {"&rest", "a"}, {"a", "&optional", "b", "c"}}).Draw(t, "params")...)
			c.Style = "formals"
		default:
			c.Args, c.Style = genArgsRich(t, sig)
		}
		if len(f.Pre) == 0 && len(f.Post) == 0 && rapid.IntRange(0, 3).Draw(t, "hasouter") == 0 {
			c.Outer = pick(t, encOuterNames, "outer")
		}
		c.Paren = rapid.Bool().Draw(t, "paren")
		return c
	})
}

func buildEnclose(c EncCase) (p *Program, bad string) {
	defer func() {
		if r := recover(); r != nil {
			p, bad = nil, fmt.Sprint(r)
		}
	}()
	f, ok := encForms[c.Form]
	if !ok {
		return nil, "unknown form " + c.Form
	}
	call := callNode(c.N, c.Args, true)
	quoted := *call
	quoted.Prefix = "'"
	holes := map[string]*Node{
		"H":  call,
		"QH": &quoted,
		"QN": {IsList: true, Prefix: "'", List: []*Node{A("1"), call}},
	}
	p = &Program{Paren: c.Paren}
	add := func(text string, h map[string]*Node) { p.Forms = append(p.Forms, P(text, h)) }
	add(`(set 'v1 1)`, nil)
	add(`(set 'v2 "s")`, nil)
	if f.Macros {
		for _, m := range strings.Split(encMacroPrelude, "\n") {
			add(m, nil)
		}
	}
	if c.NUser {
		var body []*Node
		switch c.Body {
		case "":
			body = []*Node{P(`(probe "orig")`, nil)}
		case "empty":
		case "doc-only":
			body = []*Node{A(`"doc"`)}
		case "doc+probe":
			body = []*Node{A(`"doc"`), P(`(probe "orig")`, nil)}
		default:
			return nil, "unknown body kind " + c.Body
		}
		d := map[string]*Node{"D": defunNode("defun", c.N, c.NSig, body...)}
		switch c.DefIn {
		case "":
			add(`%D`, d)
		case "progn":
			add(`(progn %D)`, d)
		case "let":
			add(`(let ([q9 1]) %D)`, d)
		case "fn":
			add(`(defun mk9 () %D)`, d)
			add(`(mk9)`, nil)
		case "cond":
			add(`(cond (true %D))`, d)
		default:
			return nil, "unknown definition place " + c.DefIn
		}
	}
	for _, s := range f.Pre {
		add(s, nil)
	}
	main := P(f.Main, holes)
	if c.Outer != "" {
		tpl, ok := encOuters[c.Outer]
		if !ok {
			return nil, "unknown outer form " + c.Outer
		}
		if len(f.Pre) > 0 || len(f.Post) > 0 {
			return nil, "outer form around a multi-form template"
		}
		main = P(tpl, map[string]*Node{"H": main})
	}
	p.Forms = append(p.Forms, main)
	for _, s := range f.Post {
		add(s, nil)
	}
	return p, ""
}

// bareSymbolArgs: every argument expression is a symbol token -- a variable,
// true / false, a keyword or a quoted symbol -- or there is no argument at all.
func bareSymbolArgs(args []string) bool {
	for _, a := range args {
		a = strings.TrimPrefix(a, "'")
		if a == "" || strings.ContainsRune(`"'(-+0123456789`, rune(a[0])) {
			return false
		}
	}
	return true
}

// ---------- every call template must evaluate its hole ----------

var (
	encReachMu sync.Mutex
	encReach   = map[string]string{}
)

// encReaches proves (once per process and template) that the template
// evaluates the list in its hole as a call: with (cons) in the hole -- too few
// arguments even after a threaded insertion -- the program must fail in cons's
// argument binding.
func encReaches(form, outer string) string {
	k := form + "|" + outer
	encReachMu.Lock()
	defer encReachMu.Unlock()
	if v, ok := encReach[k]; ok {
		return v
	}
	verdict := ""
	p, bad := buildEnclose(EncCase{N: "cons", Form: form, Outer: outer})
	if p == nil {
		verdict = bad
	} else {
		src, _, _ := p.Render()
		r := runProgram(src)
		if r.Binder != bindCount || r.FunName != "lisp:cons" {
			verdict = fmt.Sprintf("with (cons) in the hole the program does not fail in cons's binding:\n%s%s", src, r)
		}
	}
	encReach[k] = verdict
	return verdict
}

func checkEnclose(c EncCase, ctx *vcommon.Ctx) *vcommon.Failure {
	registry()
	f, ok := encForms[c.Form]
	if !ok {
		return vcommon.Failf("harness/bad-case", "unknown form %q", c.Form)
	}
	var sig Sig
	wantFun := c.N
	who := "user"
	if c.NUser {
		if regSet[c.N] {
			return vcommon.Failf("harness/bad-case", "user function name %q collides", c.N)
		}
		sig = c.NSig
	} else {
		e := regMap[c.N]
		if e == nil || !e.SigOK {
			return vcommon.Failf("harness/bad-case", "%q is not a registry name with grammatical formals", c.N)
		}
		sig, wantFun, who = e.Sig, "lisp:"+c.N, "core"
	}
	p, bad := buildEnclose(c)
	if p == nil {
		return vcommon.Failf("harness/bad-case", "%s", bad)
	}
	src, line, col := p.Render()
	kind := f.kind()

	ds, err := lintArity(src)
	if err != nil {
		return vcommon.Failf("lint/error", "linter cannot analyse\n%s%v", src, err)
	}
	r := runProgram(src)
	if r.Panic {
		return vcommon.Failf("internal-panic", "evaluating\n%srecovered a Go panic: %s", src, r.Msg)
	}
	ctx.Class("form:" + c.Form)
	ctx.Class("kind:" + kind)
	ctx.Class("head:" + who)
	ctx.Class("args:" + c.Style)
	if c.Outer != "" {
		ctx.Class("outer:" + c.Outer)
	}
	symArgs := bareSymbolArgs(c.Args)
	if symArgs {
		ctx.Class("bare-symbol-args")
	}
	flat := strings.ReplaceAll(strings.TrimSpace(src), "\n", " ⏎ ")

	if kind != "call" {
		// the list is data, a binding entry, a parameter list or a cond clause
		ctx.NonTrivial(src)
		ctx.Note(fmt.Sprintf("%s | not a call | lint=%v | run=%s", flat, ds, r))
		if r.IsErr {
			return vcommon.Failf("harness/bad-template", "a program whose call-shaped list is not a call must run cleanly:\n%s%s", src, r)
		}
		if len(ds) > 0 {
			key := "arity/non-call-reported/" + c.Form
			if c.N == "if" && analyzersOf(ds) == "if-arity" && (kind == "entry1" || kind == "fentry" || kind == "formals") {
				// registered: if-arity fires on every list headed by if, bound or not
				key = "arity/if-arity/ignores-shadowing"
			}
			return vcommon.Failf(key, "the list at %d:%d is %s, not a call, and the program runs cleanly (%s), yet an arity check reports: %v\n%s", line, col, nonCallWhat(kind), r, ds, src)
		}
		return nil
	}

	if msg := encReaches(c.Form, c.Outer); msg != "" {
		return vcommon.Failf("harness/template-unreached", "form %s outer %q: %s", c.Form, c.Outer, msg)
	}
	onCall, stray := splitDiags(ds, line, col)
	effArgs := c.Args
	switch f.Thread {
	case 1:
		effArgs = append([]string{f.TVal}, c.Args...)
	case 2:
		effArgs = append(append([]string{}, c.Args...), f.TVal)
	}
	pred := sig.Bind(effArgs)
	direct := ""
	if r.Binder != "" {
		if r.FunName != wantFun {
			return vcommon.Failf("harness/other-binder-error", "a call other than the one under test failed binding in\n%s%s", src, r)
		}
		direct = r.Binder
	}
	want := ""
	if isBindFailure(pred) {
		want = pred
	}
	if want != direct {
		return vcommon.Failf("binder/model-disagree/enclose", "the documented grammar predicts %q for %s%s, the evaluator gives %q:\n%s%s", pred, c.N, sig, direct, src, r)
	}
	if direct == "" && c.NUser && (c.Body == "" || c.Body == "doc+probe") && tagIndex(r.Trace, "orig", 0) < 0 {
		return vcommon.Failf("harness/unreached", "the call under test binds but its function never ran in\n%s%s", src, r)
	}
	if direct == "" && r.IsErr {
		ctx.Class("later-error")
	}
	ctx.Class("pred:" + pred)
	if c.NUser {
		ctx.Class("defun-in:" + c.DefIn)
		ctx.Class("defun-body:" + c.Body)
	}
	if f.Thread != 0 {
		ctx.Class("threaded")
	}
	reported := len(onCall) > 0
	if reported {
		ctx.Class("reported")
	}
	if pred != bindOK || c.Form != "top" {
		ctx.NonTrivial(src)
		ctx.Note(fmt.Sprintf("%s | lint=%v | run=%s", flat, onCall, r))
	}
	// keys name the form the call is a DIRECT child of
	parent := c.Form
	if c.Form == "top" && c.Outer != "" {
		parent = strings.TrimPrefix(c.Outer, "o-")
	}
	base := "arity/enclose/" + who + "/" + parent
	suffix := ""
	if symArgs {
		suffix = "/bare-symbol-args"
	}
	desc := fmt.Sprintf("\n%scall at %d:%d, direct child of %s", src, line, col, parent)
	if c.Outer != "" && parent == c.Form {
		desc += " inside " + c.Outer
	}
	desc += fmt.Sprintf("; %s%s; lint=%v; run=%s", c.N, sig, onCall, r)
	var main *vcommon.Failure
	switch {
	case reported && direct == "":
		main = vcommon.Failf(base+"/false-positive/"+analyzersOf(onCall), "reported, but the call binds:%s", desc)
	case reported && c.NUser && analyzersOf(onCall) != "user-arity":
		main = vcommon.Failf(base+"/wrong-analyzer", "call to a user function reported by %s:%s", analyzersOf(onCall), desc)
	case reported && !c.NUser && strings.Contains(analyzersOf(onCall), "user-arity"):
		main = vcommon.Failf(base+"/wrong-analyzer", "call to a core name reported by user-arity:%s", desc)
	case f.Thread != 0:
		// not a direct call with k argument expressions: nothing more is demanded
	case !reported && ((direct != "" && !sig.HasKey()) || direct == bindCount):
		key := base + "/missed" + suffix
		if c.NUser && c.DefIn != "" && !ctx.Known(key) {
			// one key per place of the DEFINITION (unless the call's own
			// surroundings are a registered finding already): where the call
			// stands does not matter when the linter does not know the function
			key = "arity/user/nested-defun/" + c.DefIn + "/missed"
		}
		main = vcommon.Failf(key, "the call fails argument binding, but the linter accepts it:%s", desc)
	}
	var strayF *vcommon.Failure
	if len(stray) > 0 {
		strayF = vcommon.Failf("arity/stray/"+analyzersOf(stray)+"/enclose/"+parent, "diagnostic on a form that is not the call under test (every other call in the program is valid) in\n%s%v", src, stray)
	}
	// a registered finding must not hide a new one in the same case
	for _, f := range []*vcommon.Failure{main, strayF} {
		if f != nil && !ctx.Known(f.Key) {
			return f
		}
	}
	if main != nil {
		return main
	}
	return strayF
}

func nonCallWhat(kind string) string {
	switch kind {
	case "datum":
		return "quoted or quasiquoted data"
	case "entry1", "fentry":
		return "a binding entry"
	case "formals":
		return "a parameter list"
	case "clause":
		return "a cond clause (its first element is evaluated as a variable)"
	}
	return kind
}
