package c19

import (
	"fmt"
	"strings"

	"github.com/luthersystems/elps/verifharness/vcommon"
	"pgregory.net/rapid"
)

// ---------- sub-property 6: handler-bind binds no names ----------
//
// (handler-bind ((COND handler) ...) body...) — COND is a condition type, not
// a binding.  Condition types are chosen to coincide with builtin or user
// FUNCTION names, and the call under test (head N, usually == COND) sits in
// the body or inside a handler.  A call there reaches exactly what it would
// reach outside the form, so the arity checks must judge it as usual.

type HBindCase struct {
	Cond   string // condition type of the interesting entry
	Other  string // condition type of a second entry ("" = none)
	N      string // head of the call under test
	NUser  bool   // N is defined with defun in the prelude
	NSig   Sig
	Args   []string
	Where  string // body | handler | other-handler | beside
	Wrap   string
	Paren  bool
	InFn   bool
	NoTail bool
}

var hbindUserFuncs = []string{"not-found", "timeout", "invalid-input", "conflict"}
var hbindCoreFuncs = []string{"error", "error", "car", "nth", "cons", "not", "length"}
var hbindWheres = []string{"body", "body", "handler", "other-handler", "beside"}

func genHBind() *rapid.Generator[HBindCase] {
	return rapid.Custom(func(t *rapid.T) HBindCase {
		registry()
		c := HBindCase{}
		c.NUser = rapid.Bool().Draw(t, "nuser")
		if c.NUser {
			c.N = pick(t, hbindUserFuncs, "n")
			c.NSig = genSig(t, false)
			c.Args = genArgs(t, c.NSig)
		} else {
			c.N = pick(t, hbindCoreFuncs, "n")
			c.Args = genArgs(t, regMap[c.N].Sig)
		}
		switch rapid.IntRange(0, 5).Draw(t, "condkind") {
		case 0:
			c.Cond = "condition"
		case 1:
			c.Cond = pick(t, append(append([]string{}, hbindUserFuncs...), hbindCoreFuncs...), "cond")
		default:
			c.Cond = c.N
		}
		if rapid.IntRange(0, 2).Draw(t, "hasother") == 0 {
			c.Other = pick(t, []string{"error", "condition", "oops", "cdr"}, "other")
			if c.Other == c.Cond {
				c.Other = "oops2"
			}
		}
		c.Where = pick(t, hbindWheres, "where")
		if c.Where == "other-handler" && c.Other == "" {
			c.Other = "oops"
		}
		if rapid.IntRange(0, 2).Draw(t, "haswrap") == 0 {
			c.Wrap = pick(t, noiseNames, "wrap")
		}
		c.Paren = rapid.Bool().Draw(t, "paren")
		c.InFn = rapid.IntRange(0, 3).Draw(t, "infn") == 0
		c.NoTail = rapid.Bool().Draw(t, "notail")
		return c
	})
}

// raiseSym is the condition the body raises to run the handler of cond.
func raiseSym(cond string) string {
	if cond == "condition" {
		return "some-failure"
	}
	return cond
}

func buildHBind(c HBindCase) (p *Program, bad string) {
	defer func() {
		if r := recover(); r != nil {
			p, bad = nil, fmt.Sprint(r)
		}
	}()
	tpl, ok := noiseWrappers[c.Wrap]
	if !ok {
		return nil, "unknown wrapper " + c.Wrap
	}
	call := callNode(c.N, c.Args, true)
	var h *Node
	if c.NoTail {
		h = P(`(probe "post" (progn (probe "pre") %C))`, map[string]*Node{"C": call})
	} else {
		h = P(`(progn (probe "pre") %C)`, map[string]*Node{"C": call})
	}
	h = P(tpl, map[string]*Node{"H": h})
	// a handler that records it ran and hands the very error back
	passOn := func() *Node { return P(`(lambda (c &rest a) (probe "h") (rethrow))`, nil) }
	entries := B()
	entry := func(cond string, handler *Node) {
		entries.List = append(entries.List, B(A(cond), handler))
	}
	var form *Node
	mk := func(body ...*Node) *Node {
		n := L(A("handler-bind"), entries)
		n.List = append(n.List, body...)
		return n
	}
	switch c.Where {
	case "body":
		entry(c.Cond, passOn())
		if c.Other != "" {
			entry(c.Other, passOn())
		}
		form = mk(h)
	case "handler":
		// the body raises COND, the call runs inside COND's handler
		entry(c.Cond, P(`(lambda (c &rest a) (probe "h") %H)`, map[string]*Node{"H": h}))
		if c.Other != "" {
			entry(c.Other, passOn())
		}
		form = mk(P(`(probe "b")`, nil), P(`(error '`+raiseSym(c.Cond)+` "raised")`, nil))
	case "other-handler":
		// COND's entry is present, the call runs inside the OTHER entry's handler
		other := c.Other
		if other == "" {
			return nil, "other-handler without a second entry"
		}
		entry(other, P(`(lambda (c &rest a) (probe "h") %H)`, map[string]*Node{"H": h}))
		entry(c.Cond, passOn())
		form = mk(P(`(probe "b")`, nil), P(`(error '`+raiseSym(other)+` "raised")`, nil))
	case "beside":
		entry(c.Cond, passOn())
		form = P(`(progn %HB %H)`, map[string]*Node{"HB": mk(A("1")), "H": h})
	default:
		return nil, "unknown position " + c.Where
	}
	p = &Program{Paren: c.Paren}
	if c.NUser {
		p.Forms = append(p.Forms, defunNode("defun", c.N, c.NSig, P(`(probe "orig")`, nil)))
	}
	if c.InFn {
		p.Forms = append(p.Forms, P(`(defun g () %M)`, map[string]*Node{"M": form}), P(`(g)`, nil))
	} else {
		p.Forms = append(p.Forms, form)
	}
	return p, ""
}

func checkHBind(c HBindCase, ctx *vcommon.Ctx) *vcommon.Failure {
	registry()
	if c.NUser && (regSet[c.N] || c.N == "g") {
		return vcommon.Failf("harness/bad-case", "user function name %q collides", c.N)
	}
	if !c.NUser && regMap[c.N] == nil {
		return vcommon.Failf("harness/bad-case", "%q is not in the registry", c.N)
	}
	if c.Where == "other-handler" && (c.Other == "" || c.Other == c.Cond) {
		return vcommon.Failf("harness/bad-case", "other-handler needs a distinct second entry")
	}
	p, bad := buildHBind(c)
	if p == nil {
		return vcommon.Failf("harness/bad-case", "%s", bad)
	}
	src, line, col := p.Render()
	res, rerr := resolveTarget(p, regSet)
	if rerr != "" || !res.Reached {
		return vcommon.Failf("harness/refscope", "refscope cannot resolve the call in\n%s%s %s", src, rerr, res)
	}
	var sig Sig
	expectTag := ""
	switch {
	case !c.NUser && res.Val.Kind == vRegistry && res.Val.Name == c.N:
		sig = regMap[c.N].Sig
	case c.NUser && res.Val.Kind == vClosure && res.Where == "global" && res.Val.Fn.Origin == "defun":
		sig, expectTag = res.Val.Fn.Sig, "orig"
	default:
		// handler-bind binds nothing, so nothing else can be reached
		return vcommon.Failf("harness/refscope", "refscope resolved %s for\n%s", res, src)
	}
	pred := sig.Bind(c.Args)

	ds, err := lintArity(src)
	if err != nil {
		return vcommon.Failf("lint/error", "linter cannot analyse\n%s%v", src, err)
	}
	onCall, stray := splitDiags(ds, line, col)
	r, obs, next, hf := runTarget(src, "h")
	if hf != nil {
		return hf
	}
	if obs == bindOK {
		got := next
		if got != "orig" {
			got = ""
		}
		if got != expectTag {
			return vcommon.Failf("harness/refscope-mismatch", "refscope says the call reaches %s (probe %q) but the run shows %q:\n%s%s", res, expectTag, got, src, r)
		}
	}
	if pred != obs {
		return vcommon.Failf("binder/model-disagree/hbind", "refscope: call reaches %s, so the grammar predicts %q; the evaluator gives %q:\n%s%s", res, pred, obs, src, r)
	}
	class := c.Where
	if c.Cond == c.N {
		class += "/same-name"
	} else {
		class += "/other-name"
	}
	ctx.Class("class:" + class)
	if c.NUser {
		ctx.Class("head:user-defun")
	} else {
		ctx.Class("head:" + c.N)
	}
	ctx.Class("outcome:" + obs)
	if c.Paren {
		ctx.Class("paren-entries")
	}
	if len(onCall) > 0 {
		ctx.Class("reported")
	}
	if c.Cond == c.N || pred != bindOK {
		ctx.NonTrivial(src)
		ctx.Note(fmt.Sprintf("%s | reaches %s | lint=%v | run=%s", strings.ReplaceAll(strings.TrimSpace(src), "\n", " ⏎ "), res, onCall, r))
	}

	bindFail := isBindFailure(obs)
	reported := len(onCall) > 0
	desc := fmt.Sprintf("\n%scall at %d:%d reaches %s (handler-bind binds no name); lint=%v; run=%s", src, line, col, res, onCall, r)
	var main *vcommon.Failure
	switch {
	case reported && !bindFail:
		main = vcommon.Failf("arity/hbind/"+class+"/false-positive", "reported, but the call binds:%s", desc)
	case !reported && ((bindFail && !sig.HasKey()) || obs == bindCount):
		main = vcommon.Failf("arity/hbind/"+class+"/missed", "the call fails argument binding, but the linter accepts it:%s", desc)
	}
	var strayF *vcommon.Failure
	if len(stray) > 0 {
		key := "arity/stray/" + analyzersOf(stray) + "/hbind/" + class
		// (COND handler) entries spelled with ( ) are reported as calls to COND
		allEntries := true
		for _, d := range stray {
			if !(strings.HasPrefix(d.Msg, c.Cond+" ") || (c.Other != "" && strings.HasPrefix(d.Msg, c.Other+" "))) || !strings.Contains(d.Msg, ", got 1") {
				allEntries = false
			}
		}
		if allEntries && c.Paren {
			key = "arity/non-call-reported/handler-bind-entry"
		}
		strayF = vcommon.Failf(key, "diagnostic on a form that is not the call under test (handler-bind entries are not calls) in\n%s%v", src, stray)
	}
	for _, f := range []*vcommon.Failure{main, strayF} {
		if f != nil && !ctx.Known(f.Key) {
			return f
		}
	}
	if main != nil {
		return main
	}
	return strayF
}
