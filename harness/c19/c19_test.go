// C19: static arity diagnostics agree with the evaluator's argument binding.
//
// Three sub-properties:
//
//	registry  exhaustive: every name of DefaultBuiltins ∪ DefaultSpecialOps ∪
//	          DefaultMacros × k = 0..max+2 argument expressions × 4 literal styles
//	defun     generated defun signatures (required/&optional/&rest/&key) × calls
//	shadow    generated shadowing contexts; the verdict follows the binding the
//	          call reaches, decided by refscope (refscope_test.go)
package c19

import (
	"fmt"
	"strings"
	"sync"
	"testing"

	"github.com/luthersystems/elps/lisp"
	"github.com/luthersystems/elps/verifharness/vcommon"
	"pgregory.net/rapid"
)

// ---------- the core registry ----------

type regEntry struct {
	Kind  string // builtin, op, macro
	Name  string
	Sig   Sig
	SigOK bool
	Text  string
}

var (
	regOnce sync.Once
	regList []regEntry
	regMap  map[string]*regEntry
	regSet  map[string]bool
)

func registry() []regEntry {
	regOnce.Do(func() {
		add := func(kind, name string, f *lisp.LVal) {
			s, ok := sigFromFormals(f)
			regList = append(regList, regEntry{Kind: kind, Name: name, Sig: s, SigOK: ok, Text: fmt.Sprint(f)})
		}
		for _, b := range lisp.DefaultBuiltins() {
			add("builtin", b.Name(), b.Formals())
		}
		for _, b := range lisp.DefaultSpecialOps() {
			add("op", b.Name(), b.Formals())
		}
		for _, b := range lisp.DefaultMacros() {
			add("macro", b.Name(), b.Formals())
		}
		regMap = map[string]*regEntry{}
		regSet = map[string]bool{}
		for i := range regList {
			regMap[regList[i].Name] = &regList[i]
			regSet[regList[i].Name] = true
		}
	})
	return regList
}

// ---------- argument literals ----------

var litCycle = []string{"1", `"s"`, "'(1 2)"}

// styleArgs builds k argument expressions.  Every expression is a
// self-evaluating literal, a quoted datum or a keyword, so evaluating the
// arguments themselves can never fail and binding is decided by count and
// keyword shape alone.
func styleArgs(s Sig, k int, style string) []string {
	args := make([]string, k)
	for i := range args {
		switch style {
		case "lit":
			args[i] = litCycle[i%len(litCycle)]
		case "nil":
			args[i] = "()"
		case "kw", "kwbad":
			if i < s.Positional() {
				args[i] = litCycle[i%len(litCycle)]
				continue
			}
			j := i - s.Positional()
			if j%2 == 1 {
				args[i] = litCycle[(j/2)%len(litCycle)]
				continue
			}
			name := "name"
			if len(s.Keys) > 0 {
				name = s.Keys[(j/2)%len(s.Keys)]
			}
			if style == "kwbad" {
				name = "bogus"
			}
			args[i] = ":" + name
		}
	}
	return args
}

var regStyles = []string{"lit", "nil", "kw", "kwbad"}

// ---------- sub-property 1: the whole registry, exhaustively ----------

type RegCase struct {
	Kind  string
	Name  string
	K     int
	Style string
	Args  []string
}

func regTableSize() (names, cases int) {
	for _, e := range registry() {
		names++
		cases += (e.Sig.MaxK() + 3) * len(regStyles)
	}
	return
}

func enumRegistry(shard, nshards int, emit func(RegCase) bool) {
	idx := 0
	for _, e := range registry() {
		for k := 0; k <= e.Sig.MaxK()+2; k++ {
			for _, st := range regStyles {
				mine := idx%nshards == shard
				idx++
				if !mine {
					continue
				}
				if !emit(RegCase{Kind: e.Kind, Name: e.Name, K: k, Style: st, Args: styleArgs(e.Sig, k, st)}) {
					return
				}
			}
		}
	}
}

func callText(name string, args []string) string {
	if len(args) == 0 {
		return "(" + name + ")"
	}
	return "(" + name + " " + strings.Join(args, " ") + ")"
}

func checkRegistry(c RegCase, ctx *vcommon.Ctx) *vcommon.Failure {
	registry()
	e := regMap[c.Name]
	if e == nil {
		return vcommon.Failf("harness/unknown-name", "%q is not in the core registry", c.Name)
	}
	src := callText(c.Name, c.Args) + "\n"
	ds, err := lintArity(src)
	if err != nil {
		return vcommon.Failf("lint/error", "linter cannot analyse %q: %v", src, err)
	}
	onCall, stray := splitDiags(ds, 1, 1)
	if len(stray) > 0 {
		return vcommon.Failf("arity/stray/"+analyzersOf(stray), "diagnostic away from the only call in %q: %v", src, stray)
	}
	r := runProgram(src)
	if r.Panic {
		return vcommon.Failf("internal-panic", "evaluating %q recovered a Go panic: %s", src, r.Msg)
	}
	// The binding failure of THE direct call: the binder's own message, raised
	// while the callee's frame is the only one on the stack.
	direct := ""
	if r.Binder != "" {
		if r.FunName == "lisp:"+c.Name && r.Depth == 1 {
			direct = r.Binder
		} else {
			ctx.Class("nested-binder-error")
		}
	}
	ctx.Class(e.Kind)
	ctx.Class("style:" + c.Style)
	reported := len(onCall) > 0
	if reported {
		ctx.Class("reported")
	}
	if direct != "" {
		ctx.Class("bindfail:" + direct)
	} else {
		ctx.Class("binds")
	}
	pred := bindOK
	if e.SigOK {
		pred = e.Sig.Bind(c.Args)
		want := ""
		if isBindFailure(pred) {
			want = pred
		}
		if want != direct {
			return vcommon.Failf("binder/model-disagree/registry",
				"%q with formals %s: the documented grammar predicts %q, the evaluator gives %q (%s)", src, e.Text, pred, direct, r)
		}
	} else {
		ctx.Class("formals-outside-grammar")
	}
	if pred != bindOK || direct != "" {
		ctx.NonTrivial(src)
		ctx.Note(fmt.Sprintf("%s formals=%s lint=%v run=%s", strings.TrimSpace(src), e.Text, onCall, r))
	}
	if reported && direct == "" {
		return vcommon.Failf("arity/false-positive/registry/"+analyzersOf(onCall),
			"%q is reported (%v) but evaluating it does not fail argument binding: %s", src, onCall, r)
	}
	if !reported && direct != "" && !e.Sig.HasKey() {
		return vcommon.Failf("arity/missed/registry", "%q (formals %s, no &key) fails argument binding (%s) but no arity check reports it", src, e.Text, r)
	}
	if !reported && direct == bindCount {
		return vcommon.Failf("arity/clean-but-invalid-number/registry", "linter accepts %q but it fails with %s", src, r)
	}
	return nil
}

// ---------- sub-property 2: generated defun signatures ----------

type DefunCase struct {
	Fname string
	Sig   Sig
	Args  []string
	Place string
	Doc   bool
	Style string `json:",omitempty"` // spelling of the argument expressions (genArgsRich)
}

var userNames = []string{"f", "foo", "my-fn", "helper", "compute-x", "f2"}
var keyNames = []string{"alpha", "beta", "gamma"}
var litPool = []string{"1", `"s"`, "'(1 2)", "()", "2.5", "'sym", "true", "-3"}

var defunPlaces = []string{"top", "progn", "arg", "let-body", "let-init", "let*-init", "in-fn", "in-fn-forward", "lambda-call", "if-branch", "flet-body", "dotimes-body", "nested-arg", "thread-first", "thread-last"}

// pick draws an element with (nearly) uniform probability: rapid biases
// integer draws towards small values, which starves the tail of a long class
// list, so the drawn word is mixed before it is reduced.  Still a pure
// function of the rapid bit stream (replayable, shrinks towards element 0).
func pick(t *rapid.T, xs []string, label string) string {
	x := rapid.Uint64().Draw(t, label)
	x *= 0x9E3779B97F4A7C15
	x ^= x >> 29
	return xs[int((x>>16)%uint64(len(xs)))]
}

func genSig(t *rapid.T, allowKey bool) Sig {
	var s Sig
	s.Req = rapid.SampledFrom([]int{0, 0, 1, 1, 2, 3}).Draw(t, "req")
	s.Opt = rapid.SampledFrom([]int{0, 0, 0, 1, 2}).Draw(t, "opt")
	tails := []string{"none", "none", "rest"}
	if allowKey {
		tails = append(tails, "key", "key")
	}
	switch rapid.SampledFrom(tails).Draw(t, "tail") {
	case "rest":
		s.Rest = true
	case "key":
		n := rapid.IntRange(1, 3).Draw(t, "nkeys")
		s.Keys = append([]string{}, keyNames[:n]...)
	}
	return s
}

// genArgs draws k argument expressions for a call to a function with sig s.
func genArgs(t *rapid.T, s Sig) []string {
	k := rapid.IntRange(0, s.MaxK()+2).Draw(t, "k")
	args := make([]string, k)
	pos := s.Positional()
	kwBias := s.HasKey() || rapid.IntRange(0, 9).Draw(t, "kwanyway") == 0
	for i := range args {
		j := i - pos
		switch {
		case i < pos || !kwBias:
			if rapid.IntRange(0, 14).Draw(t, "kwpos") == 0 {
				args[i] = ":alpha" // a keyword in a positional slot is just a value
			} else {
				args[i] = rapid.SampledFrom(litPool).Draw(t, "lit")
			}
		case j%2 == 0:
			switch rapid.IntRange(0, 9).Draw(t, "keykind") {
			case 0:
				args[i] = ":bogus"
			case 1:
				args[i] = rapid.SampledFrom(litPool).Draw(t, "nonkw")
			default:
				args[i] = ":" + rapid.SampledFrom(keyNames).Draw(t, "key")
			}
		default:
			args[i] = rapid.SampledFrom(litPool).Draw(t, "val")
		}
	}
	return args
}

func genDefun() *rapid.Generator[DefunCase] {
	return rapid.Custom(func(t *rapid.T) DefunCase {
		c := DefunCase{}
		c.Fname = rapid.SampledFrom(userNames).Draw(t, "fname")
		c.Sig = genSig(t, true)
		// literals, bare symbols (true, false, the globals v1 v2) and nested
		// valid calls
		c.Args, c.Style = genArgsRich(t, c.Sig)
		c.Place = pick(t, defunPlaces, "place")
		c.Doc = rapid.IntRange(0, 5).Draw(t, "doc") == 0
		return c
	})
}

func callNode(name string, args []string, target bool) *Node {
	n := L(A(name))
	for _, a := range args {
		n.List = append(n.List, P(a, nil))
	}
	n.Target = target
	return n
}

func defunNode(kw, name string, s Sig, body ...*Node) *Node {
	n := L(A(kw), A(name), P(s.Formals(), nil))
	n.List = append(n.List, body...)
	return n
}

func buildDefun(c DefunCase) (*Program, string) {
	call := callNode(c.Fname, c.Args, true)
	h := map[string]*Node{"H": call}
	var body []*Node
	if c.Doc {
		body = append(body, A(`"doc string"`))
	}
	body = append(body, P(`(list `+strings.Join(c.Sig.ParamNames(), " ")+`)`, nil))
	def := defunNode("defun", c.Fname, c.Sig, body...)
	p := &Program{}
	switch c.Place {
	case "top":
		p.Forms = []*Node{def, call}
	case "progn":
		p.Forms = []*Node{def, P(`(progn 1 %H)`, h)}
	case "arg":
		p.Forms = []*Node{def, P(`(list 0 %H 2)`, h)}
	case "nested-arg":
		p.Forms = []*Node{def, P(`(list (list %H))`, h)}
	case "let-body":
		p.Forms = []*Node{def, P(`(let ([z 1]) %H)`, h)}
	case "let-init":
		p.Forms = []*Node{def, P(`(let ([z %H]) z)`, h)}
	case "let*-init":
		p.Forms = []*Node{def, P(`(let* ([y 1] [z %H]) z)`, h)}
	case "in-fn":
		p.Forms = []*Node{def, P(`(defun g () %H)`, h), P(`(g)`, nil)}
	case "in-fn-forward":
		p.Forms = []*Node{P(`(defun g () %H)`, h), def, P(`(g)`, nil)}
	case "lambda-call":
		p.Forms = []*Node{def, P(`((lambda () %H))`, h)}
	case "if-branch":
		p.Forms = []*Node{def, P(`(if true %H 0)`, h)}
	case "flet-body":
		p.Forms = []*Node{def, P(`(flet ([z () 1]) %H)`, h)}
	case "dotimes-body":
		p.Forms = []*Node{def, P(`(dotimes (i 1) %H)`, h)}
	case "thread-first":
		// not a direct call: the macro rewrites it to (f 7 args...)
		p.Forms = []*Node{def, P(`(thread-first 7 %H)`, h)}
	case "thread-last":
		p.Forms = []*Node{def, P(`(thread-last 7 %H)`, h)}
	default:
		return nil, "unknown place " + c.Place
	}
	for _, a := range c.Args {
		if a == "v1" || a == "v2" {
			// the globals the bare-symbol arguments name
			p.Forms = append([]*Node{P(`(set 'v1 1)`, nil), P(`(set 'v2 "s")`, nil)}, p.Forms...)
			break
		}
	}
	return p, ""
}

func checkDefun(c DefunCase, ctx *vcommon.Ctx) *vcommon.Failure {
	registry()
	if regSet[c.Fname] || c.Fname == "g" {
		return vcommon.Failf("harness/bad-case", "function name %q collides", c.Fname)
	}
	p, bad := buildDefun(c)
	if p == nil {
		return vcommon.Failf("harness/bad-case", "%s", bad)
	}
	src, line, col := p.Render()
	ds, err := lintArity(src)
	if err != nil {
		return vcommon.Failf("lint/error", "linter cannot analyse %q: %v", src, err)
	}
	onCall, stray := splitDiags(ds, line, col)
	if len(stray) > 0 {
		return vcommon.Failf("arity/stray/"+analyzersOf(stray), "diagnostic away from the call under test in\n%s%v", src, stray)
	}
	r := runProgram(src)
	if r.Panic {
		return vcommon.Failf("internal-panic", "evaluating\n%srecovered a Go panic: %s", src, r.Msg)
	}
	direct := ""
	if r.Binder != "" {
		if r.FunName != c.Fname {
			return vcommon.Failf("harness/other-binder-error", "a call other than the one under test failed binding in\n%s%s", src, r)
		}
		direct = r.Binder
	} else if r.IsErr {
		return vcommon.Failf("harness/unexpected-error", "program\n%sfailed outside argument binding: %s", src, r)
	}
	// threading macros insert one more argument before the call is made, so
	// the form is not "a direct call with k argument expressions": only
	// "reported => binding failure" is demanded of it
	effArgs := c.Args
	threaded := false
	switch c.Place {
	case "thread-first":
		effArgs = append([]string{"7"}, c.Args...)
		threaded = true
	case "thread-last":
		effArgs = append(append([]string{}, c.Args...), "7")
		threaded = true
	}
	pred := c.Sig.Bind(effArgs)
	ctx.Class("place:" + c.Place)
	ctx.Class("pred:" + pred)
	if c.Style != "" {
		ctx.Class("args:" + c.Style)
	}
	shape := "fixed"
	if c.Sig.Rest {
		shape = "rest"
	} else if c.Sig.HasKey() {
		shape = "key"
	}
	if c.Sig.Opt > 0 {
		shape += "+opt"
	}
	ctx.Class("sig:" + shape)
	reported := len(onCall) > 0
	if reported {
		ctx.Class("reported")
	}
	want := ""
	if isBindFailure(pred) {
		want = pred
	}
	if want != direct {
		return vcommon.Failf("binder/model-disagree/defun", "the documented grammar predicts %q, the evaluator gives %q for\n%s%s", pred, direct, src, r)
	}
	if pred != bindOK {
		ctx.NonTrivial(src)
		ctx.Note(fmt.Sprintf("%s lint=%v run=%s", strings.ReplaceAll(strings.TrimSpace(src), "\n", " ⏎ "), onCall, r))
	}
	if reported && direct == "" {
		return vcommon.Failf("arity/false-positive/defun/"+c.Place, "reported (%v) but the call binds at run time:\n%s%s", onCall, src, r)
	}
	if reported && analyzersOf(onCall) != "user-arity" {
		return vcommon.Failf("arity/wrong-analyzer/defun", "call to a user function reported by %v:\n%s", onCall, src)
	}
	if threaded {
		return nil
	}
	if !reported && direct != "" && !c.Sig.HasKey() {
		return vcommon.Failf("arity/missed/defun/"+c.Place, "call fails argument binding (%s) but user-arity is silent (signature %s has no &key):\n%s", r, c.Sig, src)
	}
	if !reported && direct == bindCount {
		return vcommon.Failf("arity/clean-but-invalid-number/defun/"+c.Place, "linter accepts the program but the call fails with %s:\n%s", r, src)
	}
	return nil
}

// ---------- sub-property 3: shadowing contexts ----------

type ShadowCase struct {
	N      string // head of the call under test
	NUser  bool   // N is a function the program defines with defun (prelude)
	NSig   Sig    // its signature when NUser
	Args   []string
	S      string // the name the context binds (usually == N)
	SSig   Sig    // signature of the shadowing function
	Class  string // shadow context class
	Inner  string // noise wrapper directly around the call ("" = none)
	Outer  string // noise wrapper around the whole shadow form
	InFn   bool   // the whole form lives in (defun g () ...) called afterwards
	NoTail bool   // force the call out of tail position
	Paren  bool   // spell binding entries with ( ) instead of [ ]
	// a second context binding the SAME name S, placed inside the first one's
	// hole, directly around the (noise-wrapped) call: "" = none, else an
	// expression-level class.  Its function has signature SSig2 and announces
	// itself with (probe "shadow2").
	Class2 string `json:",omitempty"`
	SSig2  Sig
}

// expression-level shadow contexts: templates over holes
//
//	%H the call under test (with its probes)   %S the bound name
//	%F a lambda with the shadow signature       %SF its formals   %SB its body
//	%SCALL a valid call of the shadow function
var exprClasses = map[string]string{
	"none":                `%H`,
	"let-body":            `(let ([%S %F]) %H)`,
	"let-nonfn-body":      `(let ([%S 5]) %H)`,
	"let-init":            `(let ([%S %H]) 1)`,
	"let-init-other":      `(let ([%S %F] [z %H]) z)`,
	"let-init-lambda":     `(let ([%S (lambda %SF %SB %H)]) %SCALL)`,
	"let*-body":           `(let* ([%S %F]) %H)`,
	"let*-init-later":     `(let* ([%S %F] [z %H]) z)`,
	"let*-init-earlier":   `(let* ([z %H] [%S %F]) z)`,
	"let*-init-self":      `(let* ([%S %H]) 1)`,
	"flet-body":           `(flet ([%S %SF %SB]) %H)`,
	"flet-fnbody":         `(flet ([%S %SF %SB %H]) %SCALL)`,
	"flet-sibling":        `(flet ([%S %SF %SB] [z () %H]) (z))`,
	"labels-body":         `(labels ([%S %SF %SB]) %H)`,
	"labels-fnbody":       `(labels ([%S %SF %SB %H]) %SCALL)`,
	"labels-sibling":      `(labels ([%S %SF %SB] [z () %H]) (z))`,
	"macrolet-body":       `(macrolet ([%S %SF %SB]) %H)`,
	"macrolet-fnbody":     `(macrolet ([%S %SF %SB %H]) %SCALL)`,
	"lambda-param-body":   `((lambda (%S) %H) %F)`,
	"lambda-param-beside": `(progn ((lambda (%S) 1) 0) %H)`,
	"let-beside":          `(progn (let ([%S %F]) 1) %H)`,
	"let-beside-after":    `(progn (probe "x" %H) (let ([%S %F]) 1))`,
	"flet-beside":         `(progn (flet ([%S %SF 1]) 1) %H)`,
	"dotimes-var-body":    `(dotimes (%S 1) %H)`,
}

// top-level shadow contexts; %M is the main form containing the call
var topClasses = map[string][]string{
	"defun-before":       {`(defun %S %SF %SB)`, `%M`},
	"defun-after":        {`%M`, `(defun %S %SF %SB)`},
	"defmacro-before":    {`(defmacro %S %SF %SB)`, `%M`},
	"defmacro-after":     {`%M`, `(defmacro %S %SF %SB)`},
	"set-before":         {`(set '%S %F)`, `%M`},
	"set-after":          {`%M`, `(set '%S %F)`},
	"defun-param-body":   {`(defun g (%S) %M)`, `(g %F)`},
	"defun-param-beside": {`(defun g (%S) 1)`, `%M`},
	"defun-between":      {`(defun g () %M)`, `(defun %S %SF %SB)`, `(g)`},
	"defun-late":         {`(defun g () %M)`, `(g)`, `(defun %S %SF %SB)`},
}

var noiseWrappers = map[string]string{
	"":            `%H`,
	"n-progn":     `(progn 1 %H)`,
	"n-list":      `(list %H)`,
	"n-let-body":  `(let ([z 1]) %H)`,
	"n-let-init":  `(let ([z %H]) z)`,
	"n-let*-init": `(let* ([y 1] [z %H]) z)`,
	"n-lambda":    `((lambda (z) %H) 1)`,
	"n-flet":      `(flet ([z () 1]) %H)`,
	"n-if":        `(if true %H 0)`,
	"n-dotimes":   `(dotimes (i 1) %H)`,
}

func sortedKeys[V any](m map[string]V) []string {
	var ks []string
	for k := range m {
		ks = append(ks, k)
	}
	// insertion sort: tiny
	for i := 1; i < len(ks); i++ {
		for j := i; j > 0 && ks[j] < ks[j-1]; j-- {
			ks[j], ks[j-1] = ks[j-1], ks[j]
		}
	}
	return ks
}

var (
	exprClassNames = sortedKeys(exprClasses)
	topClassNames  = sortedKeys(topClasses)
	noiseNames     = sortedKeys(noiseWrappers)
)

// builtin names used as the call head in the shadow sub-property: ordinary
// functions of several arities, one special operator with its own analyzer
// (if) and two macros.  None of them is used by the harness templates.
var shadowHeads = []string{"car", "car", "cons", "nth", "not", "identity", "length", "max", "concat", "reverse", "if", "get-default", "trace"}
var otherNames = []string{"cdr", "rest", "second", "zz9", "key?"}

func genShadow() *rapid.Generator[ShadowCase] {
	return rapid.Custom(func(t *rapid.T) ShadowCase {
		registry()
		c := ShadowCase{}
		c.NUser = rapid.IntRange(0, 3).Draw(t, "nuser") == 0
		if c.NUser {
			c.N = rapid.SampledFrom(userNames).Draw(t, "n")
			c.NSig = genSig(t, false)
			c.Args = genArgs(t, c.NSig)
		} else {
			c.N = pick(t, shadowHeads, "n")
			c.Args = genArgs(t, regMap[c.N].Sig)
		}
		// keep the argument count small enough to matter for the shadow too
		if rapid.IntRange(0, 4).Draw(t, "same") != 0 {
			c.S = c.N
		} else {
			c.S = rapid.SampledFrom(otherNames).Draw(t, "s")
		}
		c.SSig = genSig(t, false)
		classes := exprClassNames
		if !c.NUser || c.S != c.N {
			// global redefinition of a *user* function is outside the property
			classes = append(append([]string{}, exprClassNames...), topClassNames...)
		} else {
			classes = append(append([]string{}, exprClassNames...), "defun-param-body", "defun-param-beside")
		}
		c.Class = pick(t, classes, "class")
		noise := noiseNames
		if c.S == "if" || c.N == "if" {
			noise = nil
			for _, n := range noiseNames {
				if n != "n-if" {
					noise = append(noise, n)
				}
			}
		}
		if rapid.IntRange(0, 2).Draw(t, "hasinner") == 0 {
			c.Inner = rapid.SampledFrom(noise).Draw(t, "inner")
		}
		if rapid.IntRange(0, 2).Draw(t, "hasouter") == 0 {
			c.Outer = rapid.SampledFrom(noise).Draw(t, "outer")
		}
		if _, isTop := topClasses[c.Class]; !isTop {
			c.InFn = rapid.IntRange(0, 3).Draw(t, "infn") == 0
		}
		c.NoTail = rapid.Bool().Draw(t, "notail")
		c.Paren = rapid.Bool().Draw(t, "paren")
		if c.Class != "none" && rapid.IntRange(0, 2).Draw(t, "nested") == 0 {
			inner := make([]string, 0, len(exprClassNames))
			for _, n := range exprClassNames {
				if n != "none" {
					inner = append(inner, n)
				}
			}
			c.Class2 = pick(t, inner, "class2")
			c.SSig2 = genSig(t, false)
		}
		return c
	})
}

func validArgs(s Sig) []string {
	a := make([]string, s.Req)
	for i := range a {
		a[i] = "1"
	}
	return a
}

func buildShadow(c ShadowCase) (p *Program, bad string) {
	defer func() {
		if r := recover(); r != nil {
			p, bad = nil, fmt.Sprint(r)
		}
	}()
	call := callNode(c.N, c.Args, true)
	var hNode *Node
	if c.NoTail {
		hNode = P(`(probe "post" (progn (probe "pre") %C))`, map[string]*Node{"C": call})
	} else {
		hNode = P(`(progn (probe "pre") %C)`, map[string]*Node{"C": call})
	}
	wrap := func(name string, inner *Node) *Node {
		tpl, ok := noiseWrappers[name]
		if !ok {
			panic("unknown noise wrapper " + name)
		}
		return P(tpl, map[string]*Node{"H": inner})
	}
	mkWith := func(tpl string, ssig Sig, tag string, extra map[string]*Node) *Node {
		holes := map[string]*Node{
			"S":     A(c.S),
			"F":     P(`(lambda `+ssig.Formals()+` (probe "`+tag+`"))`, nil),
			"SF":    P(ssig.Formals(), nil),
			"SB":    P(`(probe "`+tag+`")`, nil),
			"SCALL": callNode(c.S, validArgs(ssig), false),
		}
		for k, v := range extra {
			holes[k] = v
		}
		// '%S inside (set '%S ...) is spelled as a quoted atom
		tpl = strings.ReplaceAll(tpl, "'%S", "'"+c.S)
		return P(tpl, holes)
	}
	mk := func(tpl string, extra map[string]*Node) *Node { return mkWith(tpl, c.SSig, "shadow", extra) }
	h := wrap(c.Inner, hNode)
	if c.Class2 != "" {
		tpl2, ok := exprClasses[c.Class2]
		if !ok || c.Class2 == "none" {
			return nil, "unknown inner class " + c.Class2
		}
		h = mkWith(tpl2, c.SSig2, "shadow2", map[string]*Node{"H": h})
	}
	p = &Program{Paren: c.Paren}
	if c.NUser {
		p.Forms = append(p.Forms, defunNode("defun", c.N, c.NSig, P(`(probe "orig")`, nil)))
	}
	if tpl, ok := exprClasses[c.Class]; ok {
		m := wrap(c.Outer, mk(tpl, map[string]*Node{"H": h}))
		if c.InFn {
			p.Forms = append(p.Forms, P(`(defun g () %M)`, map[string]*Node{"M": m}), P(`(g)`, nil))
		} else {
			p.Forms = append(p.Forms, m)
		}
		return p, ""
	}
	tpls, ok := topClasses[c.Class]
	if !ok {
		return nil, "unknown class " + c.Class
	}
	m := wrap(c.Outer, h)
	for _, tpl := range tpls {
		p.Forms = append(p.Forms, mk(tpl, map[string]*Node{"M": m}))
	}
	return p, ""
}

func tagOfClosure(f *Closure) string {
	if len(f.Body) > 0 && f.Body[0].IsList && len(f.Body[0].List) == 2 && (f.Body[0].List[0].Atom == "probe" || f.Body[0].List[0].Atom == "user:probe") {
		return strings.Trim(f.Body[0].List[1].Atom, `"`)
	}
	return ""
}

func checkShadow(c ShadowCase, ctx *vcommon.Ctx) *vcommon.Failure {
	registry()
	if c.NUser && (regSet[c.N] || c.N == "g") {
		return vcommon.Failf("harness/bad-case", "user function name %q collides", c.N)
	}
	if !c.NUser && regMap[c.N] == nil {
		return vcommon.Failf("harness/bad-case", "%q is not in the registry", c.N)
	}
	p, bad := buildShadow(c)
	if p == nil {
		return vcommon.Failf("harness/bad-case", "%s", bad)
	}
	src, line, col := p.Render()
	if c.Class2 != "" && (c.Class == "none" || c.Class2 == "none") {
		return vcommon.Failf("harness/bad-case", "nested context without an outer one")
	}
	// the class a failure is keyed by: "outer+inner" for nested contexts
	className := func(base string) string {
		class := base
		if c.S != c.N {
			class += "/other-name"
		}
		if c.NUser {
			class = "user:" + class
		}
		return class
	}
	keyClass := c.Class
	if c.Class2 != "" {
		keyClass = c.Class + "+" + c.Class2
	}
	class := className(keyClass)

	// refscope: which binding does the call reach?
	res, rerr := resolveTarget(p, regSet)
	if rerr != "" || !res.Reached {
		return vcommon.Failf("harness/refscope", "refscope cannot resolve the call in\n%s%s %s", src, rerr, res)
	}
	var sig Sig
	pred := bindOK
	expectTag := "" // probe tag the reached function emits once bound
	kind := ""      // orig-registry, orig-user, defun-shadow, other-shadow, non-function
	switch res.Val.Kind {
	case vRegistry:
		if c.NUser || res.Val.Name != c.N {
			return vcommon.Failf("harness/refscope", "refscope resolved %s for\n%s", res, src)
		}
		sig = regMap[c.N].Sig
		pred = sig.Bind(c.Args)
		kind = "orig-registry"
	case vClosure:
		sig = res.Val.Fn.Sig
		pred = sig.Bind(c.Args)
		expectTag = tagOfClosure(res.Val.Fn)
		switch {
		case expectTag == "orig":
			kind = "orig-user"
		case res.Val.Fn.Origin == "defun" && res.Where == "global":
			kind = "defun-shadow"
		default:
			kind = "other-shadow"
		}
	case vDatum:
		pred = bindNotCalled
		kind = "non-function"
	default:
		return vcommon.Failf("harness/refscope", "refscope: head unbound in\n%s", src)
	}

	ds, err := lintArity(src)
	if err != nil {
		return vcommon.Failf("lint/error", "linter cannot analyse\n%s%v", src, err)
	}
	onCall, stray := splitDiags(ds, line, col)

	r := runProgram(src)
	if r.Panic {
		return vcommon.Failf("internal-panic", "evaluating\n%srecovered a Go panic: %s", src, r.Msg)
	}
	pre := tagIndex(r.Trace, "pre", 0)
	if pre < 0 {
		return vcommon.Failf("harness/unreached", "the call under test was never evaluated in\n%s%s", src, r)
	}
	next := ""
	if pre+1 < len(r.Trace) {
		next = strings.Trim(r.Trace[pre+1].Tag, `"`)
	}
	obs := bindOK
	switch {
	case r.Binder != "" && next == "":
		obs = r.Binder
	case r.Binder != "":
		// only possible when the call bound, ran, and was evaluated again
		// (recursion through the shadow) — the first evaluation decides
		if !(next == "shadow" || next == "shadow2" || next == "orig") {
			return vcommon.Failf("harness/late-binder-error", "binding failure after the call under test in\n%s%s", src, r)
		}
	case r.IsErr && next == "" && r.Line == line && (r.Col == col || r.Col == col+1) &&
		strings.HasPrefix(r.Msg, "first element of expression is not a function"):
		// raised at the call under test: at its call expression (since
		// /repo 7516df2) or at its head symbol (before)
		obs = bindNotCalled
	}
	// run-time evidence of the reached binding vs refscope
	if obs == bindOK {
		got := next
		if got != "shadow" && got != "shadow2" && got != "orig" {
			got = ""
		}
		if got != expectTag {
			return vcommon.Failf("harness/refscope-mismatch", "refscope says the call reaches %s (probe %q) but the run shows %q:\n%s%s", res, expectTag, got, src, r)
		}
	}
	if pred != obs {
		return vcommon.Failf("binder/model-disagree/shadow", "refscope: call reaches %s, so the grammar predicts %q; the evaluator gives %q:\n%s%s", res, pred, obs, src, r)
	}

	if c.Class2 == "" {
		ctx.Class("class:" + class)
	} else {
		// 23 x 33 combinations: the histogram keeps the two coordinates apart
		ctx.Class("nested")
		ctx.Class("nested-outer:" + c.Class)
		ctx.Class("nested-inner:" + c.Class2)
		ctx.Class("nested-reaches:" + kind + "/" + expectTag)
	}
	ctx.Class("reaches:" + kind)
	ctx.Class("outcome:" + obs)
	if len(onCall) > 0 {
		ctx.Class("reported")
	}
	if c.Inner != "" || c.Outer != "" {
		ctx.Class("with-noise")
	}
	if c.Class != "none" {
		ctx.NonTrivial(src)
		ctx.Note(fmt.Sprintf("%s | reaches %s | lint=%v | run=%s", strings.ReplaceAll(strings.TrimSpace(src), "\n", " ⏎ "), res, onCall, r))
	} else if pred != bindOK {
		ctx.NonTrivial(src)
	}

	desc := fmt.Sprintf("\n%scall at %d:%d reaches %s; lint=%v; run=%s", src, line, col, res, onCall, r)

	// verdicts are keyed by the context class.  With two nested contexts of
	// the same name the key is "outer+inner"; when that key is not registered
	// but the same kind of failure IS registered for one of the two classes on
	// its own, the case is a manifestation of that registered finding inside a
	// larger program and is attributed to it (inner class first).
	verdicts := func(kc string) (*vcommon.Failure, *vcommon.Failure) {
		cc := c
		cc.Class = kc
		m := shadowVerdict(cc, kind, className(kc), sig, obs, onCall, desc)
		var sf *vcommon.Failure
		if len(stray) > 0 {
			sf = vcommon.Failf(strayKey(cc, stray, className(kc)), "diagnostic on a form that is not the call under test (every other call in the program is valid, and formals / control lists are not calls) in\n%s%v", src, stray)
		}
		return m, sf
	}
	main, strayF := verdicts(keyClass)
	if c.Class2 != "" {
		for _, alt := range []string{c.Class2, c.Class} {
			am, as := verdicts(alt)
			if main != nil && !ctx.Known(main.Key) && am != nil && ctx.Known(am.Key) {
				main = am
			}
			if strayF != nil && !ctx.Known(strayF.Key) && as != nil && ctx.Known(as.Key) {
				strayF = as
			}
		}
	}
	// report the first failure that is not a registered finding, so that a
	// known class never hides a new one in the same case
	for _, f := range []*vcommon.Failure{main, strayF} {
		if f != nil && !ctx.Known(f.Key) {
			return f
		}
	}
	if main != nil {
		return main
	}
	return strayF
}

// strayKey classifies a diagnostic that is not attached to the call under test.
func strayKey(c ShadowCase, stray []diag, class string) string {
	who := analyzersOf(stray)
	if who == "if-arity" && c.S == "if" {
		// if-arity has no notion of scope at all: it also fires on formals
		// lists and on calls that reach a local function named if
		return "arity/if-arity/ignores-shadowing"
	}
	if nd := strings.Count(c.Class, "dotimes-var-body"); who == "builtin-arity" && nd > 0 && len(stray) <= nd {
		// the control list (var count) of dotimes is reported as a call (once
		// per dotimes context of the case)
		all := true
		for _, d := range stray {
			all = all && strings.HasPrefix(d.Msg, c.S+" ")
		}
		if all {
			return "arity/non-call-reported/dotimes-control-list"
		}
	}
	return "arity/stray/" + who + "/" + class
}

func shadowVerdict(c ShadowCase, kind, class string, sig Sig, obs string, onCall []diag, desc string) *vcommon.Failure {
	bindFail := isBindFailure(obs)
	reported := len(onCall) > 0
	who := analyzersOf(onCall)
	shadowed := c.S == c.N && c.Class != "none"
	switch kind {
	case "orig-registry", "orig-user":
		// the call reaches the function the linter knows: its check must apply
		fam := "arity"
		if kind == "orig-user" {
			fam = "arity/user"
		}
		if reported && !bindFail {
			return vcommon.Failf(fam+"/false-positive/"+class, "reported but the call binds:%s", desc)
		}
		missed := (!reported && bindFail && !sig.HasKey()) || (!reported && obs == bindCount)
		if missed {
			if shadowed {
				// the check was suppressed although the call does not reach the shadowing binding
				return vcommon.Failf(fam+"/shadow-overapprox/"+c.Class, "the shadowing binding of %s is not reached by this call, yet its arity check is suppressed and the call fails binding:%s", c.S, desc)
			}
			return vcommon.Failf(fam+"/missed/"+class, "call fails binding but is not reported:%s", desc)
		}
	case "defun-shadow":
		// a builtin name redefined globally with defun: it is now "a function
		// defined with defun", and the builtin's check must be off
		if strings.Contains(who, "builtin-arity") || strings.Contains(who, "if-arity") {
			return vcommon.Failf(notSuppressedKey(who, class), "the call reaches the global defun of %s, but the builtin's check still fires:%s", c.S, desc)
		}
		if reported && !bindFail {
			return vcommon.Failf("arity/false-positive/"+class, "reported but the call binds:%s", desc)
		}
		if (!reported && bindFail && !sig.HasKey()) || (!reported && obs == bindCount) {
			return vcommon.Failf("arity/defun-shadow-unchecked/"+c.Class, "the call reaches the defun-defined %s%s and fails binding, but no arity check reports it:%s", c.S, sig, desc)
		}
	default:
		// local function, macro, set-bound lambda or a datum: not a function
		// the property quantifies over — only "reported => binding failure"
		// and "the builtin's check is suppressed" are demanded
		if strings.Contains(who, "builtin-arity") || strings.Contains(who, "if-arity") {
			return vcommon.Failf(notSuppressedKey(who, class), "the call reaches the shadowing binding of %s, but the builtin's check is not suppressed (binding failure at run time: %v):%s", c.S, bindFail, desc)
		}
		if reported && c.NUser && shadowed {
			return vcommon.Failf("arity/user/shadow-notsuppressed/"+c.Class, "the call reaches the local binding of %s, but the root defun's check is not suppressed (binding failure at run time: %v):%s", c.S, bindFail, desc)
		}
		if reported && !bindFail {
			return vcommon.Failf("arity/false-positive/"+class, "reported but the call binds:%s", desc)
		}
	}
	return nil
}

func notSuppressedKey(who, class string) string {
	if strings.Contains(who, "if-arity") {
		return "arity/if-arity/ignores-shadowing"
	}
	return "arity/shadow-notsuppressed/" + class
}

func TestCheck(t *testing.T) {
	names, cases := regTableSize()
	_ = names
	_ = cases
	vcommon.Main(t, "C19",
		vcommon.E("registry", enumRegistry, checkRegistry),
		vcommon.S("defun", 20000, 600000, genDefun(), checkDefun),
		vcommon.S("shadow", 40000, 1200000, genShadow(), checkShadow),
		vcommon.S("redef", 12000, 400000, genRedef(), checkRedef),
		vcommon.S("pkg", 12000, 300000, genPkg(), checkPkg),
		vcommon.S("hbind", 12000, 300000, genHBind(), checkHBind),
		vcommon.S("enclose", 24000, 700000, genEnclose(), checkEnclose),
	)
}

// TestTableSize prints the size of the exhaustive table (used for meta.json).
func TestTableSize(t *testing.T) {
	n, c := regTableSize()
	t.Logf("registry names=%d cases=%d", n, c)
}
