package c19

import (
	"context"
	"fmt"
	"sort"
	"strings"
	"sync"
	"time"

	"github.com/luthersystems/elps/lint"
	"github.com/luthersystems/elps/lisp"
	"github.com/luthersystems/elps/verifharness/vcommon"
)

// ---------- the linter, arity analyzers only ----------

// arityLinter selects the three arity checks by name from the default set,
// exactly as `elps lint --checks=builtin-arity,if-arity,user-arity` does.
func arityLinter() *lint.Linter {
	want := map[string]bool{"builtin-arity": true, "if-arity": true, "user-arity": true}
	var as []*lint.Analyzer
	for _, a := range lint.DefaultAnalyzers() {
		if want[a.Name] {
			as = append(as, a)
			delete(want, a.Name)
		}
	}
	if len(want) != 0 {
		panic(fmt.Sprintf("arity analyzers missing from lint.DefaultAnalyzers(): %v", want))
	}
	return &lint.Linter{Analyzers: as}
}

type diag struct {
	Analyzer string
	Line     int
	Col      int
	Msg      string
}

func (d diag) String() string {
	return fmt.Sprintf("%s@%d:%d %q", d.Analyzer, d.Line, d.Col, d.Msg)
}

// lintArity runs the arity analyzers with semantic analysis (the
// `--workspace` mode, needed by user-arity) on one source text.
func lintArity(src string) ([]diag, error) {
	ds, err := arityLinter().LintFileWithAnalysis([]byte(src), "test.lisp", nil)
	if err != nil {
		return nil, err
	}
	out := make([]diag, 0, len(ds))
	for _, d := range ds {
		out = append(out, diag{d.Analyzer, d.Pos.Line, d.Pos.Col, d.Message})
	}
	return out, nil
}

// splitDiags separates the diagnostics attached to the call whose opening
// parenthesis is at line:col from all others.  builtin-arity and if-arity
// report at the head symbol (col+1), user-arity at the parenthesis.
func splitDiags(ds []diag, line, col int) (onCall, stray []diag) {
	for _, d := range ds {
		if d.Line == line && (d.Col == col || d.Col == col+1) {
			onCall = append(onCall, d)
		} else {
			stray = append(stray, d)
		}
	}
	return
}

func analyzersOf(ds []diag) string {
	set := map[string]bool{}
	for _, d := range ds {
		set[d.Analyzer] = true
	}
	var names []string
	for n := range set {
		names = append(names, n)
	}
	sort.Strings(names)
	return strings.Join(names, "+")
}

// ---------- run-time side ----------

// runResult is what the host observes of evaluating one program.
type runResult struct {
	IsErr    bool
	Msg      string
	Cond     string
	FunName  string // qualified name of the top frame when the error was made
	Depth    int    // number of frames on the error's call stack
	Line     int
	Col      int
	Binder   string // bindCount/bindOddKeys/... when Msg is one of the binder's own messages, else ""
	Panic    bool
	Trace    []vcommon.Event
	Text     string
	Deadline bool
}

// binderClass recognises the binder's own messages (lisp/env.go bind and
// bindFormalNext are the only producers of these texts).
func binderClass(msg string) string {
	switch {
	case strings.HasPrefix(msg, "invalid number of arguments"):
		return bindCount
	case strings.HasPrefix(msg, "function called with an odd number of keyword arguments"):
		return bindOddKeys
	case strings.HasPrefix(msg, "argument is not a keyword"):
		return bindNotKey
	case strings.HasPrefix(msg, "unrecognized keyword argument"):
		return bindUnknown
	}
	return ""
}

var runMu sync.Mutex // one interpreter at a time per process (shards are processes)

// runProgram evaluates src in a fresh runtime under tight limits.  No source
// library is configured, so load-file cannot reach the filesystem; stderr is a
// buffer; nothing in the core registry blocks.
func runProgram(src string) runResult {
	runMu.Lock()
	defer runMu.Unlock()
	ctx, cancel := context.WithTimeout(context.Background(), 20*time.Second)
	defer cancel()
	rt := vcommon.NewRuntime(vcommon.Cfg{
		MaxSteps:   20000,
		MaxLogical: 300,
		MaxAlloc:   1 << 16,
		MaxSleep:   time.Millisecond,
		Ctx:        ctx,
		NoStdlib:   true,
	})
	o := rt.Load(src)
	r := runResult{IsErr: o.IsErr, Msg: o.Msg, Cond: o.Cond, Panic: o.Panic, Trace: rt.Trace, Text: o.Text}
	if o.IsErr && o.Val != nil {
		ev := (*lisp.ErrorVal)(o.Val)
		r.FunName = ev.FunName()
		if st := o.Val.CallStack(); st != nil {
			r.Depth = len(st.Frames)
		}
		if loc, ok := ev.Source(); ok {
			r.Line, r.Col = loc.Line, loc.Col
		}
		if o.Cond == "error" {
			r.Binder = binderClass(o.Msg)
		}
		r.Deadline = ctx.Err() != nil
	}
	return r
}

func (r runResult) String() string {
	if !r.IsErr {
		return "value " + r.Text
	}
	return fmt.Sprintf("error[%s] %q in %s at %d:%d (stack depth %d)", r.Cond, r.Msg, r.FunName, r.Line, r.Col, r.Depth)
}

// hasTag reports the index of the first trace event with the given string
// tag, or -1.
func tagIndex(tr []vcommon.Event, tag string, from int) int {
	q := fmt.Sprintf("%q", tag)
	for i := from; i < len(tr); i++ {
		if tr[i].Tag == q {
			return i
		}
	}
	return -1
}
