package c19

import (
	"encoding/json"
	"os"
	"path/filepath"
	"strings"
	"testing"

	"github.com/luthersystems/elps/verifharness/vcommon"
)

// TestExplain is a builder's tool, not part of the check: it prints, for every
// program in the file named by C19_EXPLAIN (programs separated by a line
// holding only "----"), the arity diagnostics and the run-time outcome.
//
//	C19_EXPLAIN=/tmp/x.lisp go test -count=1 -run '^TestExplain$' -v ./c19
func TestExplain(t *testing.T) {
	path := os.Getenv("C19_EXPLAIN")
	if path == "" {
		t.Skip("C19_EXPLAIN not set")
	}
	raw, err := os.ReadFile(path)
	if err != nil {
		t.Fatal(err)
	}
	for _, src := range strings.Split(string(raw), "\n----\n") {
		src = strings.TrimSpace(src)
		if src == "" {
			continue
		}
		ds, err := lintArity(src + "\n")
		r := runProgram(src + "\n")
		t.Logf("\n%s\n  lint: %v %v\n  run:  %s trace=%d", src, ds, err, r, len(r.Trace))
	}
}

// TestEncloseSurvey (builder's tool, C19_SURVEY=1): runs the enclose oracle
// over a fixed grid (every form x a few heads x every count x three argument
// spellings) with the pending-finding suppression off and prints each distinct
// failure key with its first example.
func TestEncloseSurvey(t *testing.T) {
	if os.Getenv("C19_SURVEY") == "" {
		t.Skip("C19_SURVEY not set")
	}
	os.Setenv("C19_NO_PENDING", "1")
	registry()
	seen := map[string]int{}
	first := map[string]string{}
	firstCase := map[string]EncCase{}
	n := 0
	run := func(c EncCase) {
		n++
		f, _ := (&surveyRunner{}).apply(c)
		if f != nil {
			seen[f.Key]++
			if first[f.Key] == "" {
				first[f.Key] = f.Msg
				firstCase[f.Key] = c
			}
		}
	}
	defer func() {
		// C19_SURVEY_OUT=dir: store the first (smallest) example of every
		// pending key as a replay file
		dir := os.Getenv("C19_SURVEY_OUT")
		if dir == "" {
			return
		}
		for k, c := range firstCase {
			if !pendingHead[k] {
				continue
			}
			raw, _ := json.Marshal(c)
			b, _ := json.MarshalIndent(map[string]any{"property": "C19", "sub": "enclose", "key": k, "msg": first[k], "case": json.RawMessage(raw)}, "", " ")
			name := strings.NewReplacer("/", "_", "*", "star", "!", "bang").Replace(strings.TrimPrefix(k, "arity/")) + ".json"
			if err := os.WriteFile(filepath.Join(dir, name), append(b, '\n'), 0o644); err != nil {
				t.Error(err)
			}
		}
	}()
	spell := map[string][]string{"lit": {"1", `"s"`, "'(1 2)", "2.5"}, "sym": {"v1", "true", "v2", "false"}, "call": {"(list 1)", "(list)", "(vector 1 2)", "(to-string 1)"}}
	for _, form := range encFormNames {
		fm := encForms[form]
		for _, outer := range append([]string{""}, encOuterNames...) {
			if outer != "" && (len(fm.Pre) > 0 || len(fm.Post) > 0) {
				continue
			}
			if outer != "" && form != "top" && form != "defconst-value-doc" && form != "thread-first-child1" && form != "quoted-nested" {
				continue
			}
			for _, head := range []string{"cons", "if", "car", "trace", "max", "USER"} {
				for k := 0; k <= 4; k++ {
					for sp, pool := range spell {
						c := EncCase{N: head, Form: form, Outer: outer, Style: sp}
						if head == "USER" {
							c.N, c.NUser, c.NSig = "f", true, Sig{Req: 1, Opt: 1}
						}
						switch fm.kind() {
						case "entry1":
							if k != 1 {
								continue
							}
							c.Args = []string{pool[0]}
						case "fentry":
							if k == 0 || sp != "lit" {
								continue
							}
							c.Args = append([]string{"(a)"}, pool[:k-1]...)
						case "formals":
							if sp != "lit" || k > 3 {
								continue
							}
							c.Args = []string{"a", "b", "c"}[:k]
						default:
							c.Args = append([]string{}, pool[:k]...)
						}
						run(c)
					}
				}
			}
		}
	}
	t.Logf("%d cases, %d distinct failure keys", n, len(seen))
	for _, k := range sortedKeys(seen) {
		t.Logf("%5d  %s\n%s\n", seen[k], k, first[k])
	}
}

type surveyRunner struct{}

func (surveyRunner) apply(c EncCase) (*vcommon.Failure, *vcommon.Ctx) {
	ctx := &vcommon.Ctx{}
	return checkEnclose(c, ctx), ctx
}

// TestPendingFindingsReproduce: every replay stored under pending_findings is a
// finding of the unchanged tree that the enclose oracle currently lets pass
// (pendingHead).  Each must still fail with its own key; when /repo is repaired
// this test says which entry of pendingHead has to go.
func TestPendingFindingsReproduce(t *testing.T) {
	files, _ := filepath.Glob("pending_findings/*.json")
	if len(files) == 0 {
		t.Skip("no pending findings stored")
	}
	keys := map[string]bool{}
	for _, fn := range files {
		b, err := os.ReadFile(fn)
		if err != nil {
			t.Fatal(err)
		}
		var v vcommon.Violation
		var c EncCase
		if err := json.Unmarshal(b, &v); err != nil {
			t.Fatalf("%s: %v", fn, err)
		}
		if err := json.Unmarshal(v.Case, &c); err != nil {
			t.Fatalf("%s: %v", fn, err)
		}
		if !pendingHead[v.Key] {
			t.Errorf("%s: key %s is not in pendingHead", fn, v.Key)
		}
		keys[v.Key] = true
		f := checkEnclose(c, &vcommon.Ctx{Replay: true})
		if f == nil || f.Key != v.Key {
			t.Errorf("%s: stored as %s, the oracle now says %v -- repaired? then drop the key from pendingHead", fn, v.Key, f)
		}
	}
	for k := range pendingHead {
		if !keys[k] {
			t.Errorf("pendingHead lists %s but pending_findings holds no replay for it", k)
		}
	}
}
