package c19

import (
	"os"
	"strings"
	"testing"
)

// TestExplain is a builder's tool, not part of the check: it prints, for every
// program in the file named by C19_EXPLAIN (programs separated by a line
// holding only "----"), the arity diagnostics and the run-time outcome.
//
//	C19_EXPLAIN=/tmp/x.lisp go test -count=1 -run '^TestExplain$' -v ./c19
func TestExplain(t *testing.T) {
	path := os.Getenv("C19_EXPLAIN")
	if path == "" {
		t.Skip("C19_EXPLAIN not set")
	}
	raw, err := os.ReadFile(path)
	if err != nil {
		t.Fatal(err)
	}
	for _, src := range strings.Split(string(raw), "\n----\n") {
		src = strings.TrimSpace(src)
		if src == "" {
			continue
		}
		ds, err := lintArity(src + "\n")
		r := runProgram(src + "\n")
		t.Logf("\n%s\n  lint: %v %v\n  run:  %s trace=%d", src, ds, err, r, len(r.Trace))
	}
}
