package c19

import (
	"encoding/json"
	"os"
	"path/filepath"
	"strings"
	"testing"

	"github.com/luthersystems/elps/verifharness/vcommon"
)

// TestExplain is a builder's tool, not part of the check: it prints, for every
// program in the file named by C19_EXPLAIN (programs separated by a line
// holding only "----"), the arity diagnostics and the run-time outcome.
//
//	C19_EXPLAIN=/tmp/x.lisp go test -count=1 -run '^TestExplain$' -v ./c19
func TestExplain(t *testing.T) {
	path := os.Getenv("C19_EXPLAIN")
	if path == "" {
		t.Skip("C19_EXPLAIN not set")
	}
	raw, err := os.ReadFile(path)
	if err != nil {
		t.Fatal(err)
	}
	for _, src := range strings.Split(string(raw), "\n----\n") {
		src = strings.TrimSpace(src)
		if src == "" {
			continue
		}
		ds, err := lintArity(src + "\n")
		r := runProgram(src + "\n")
		t.Logf("\n%s\n  lint: %v %v\n  run:  %s trace=%d", src, ds, err, r, len(r.Trace))
	}
}

// TestEncloseSurvey (builder's tool, C19_SURVEY=1): runs the enclose oracle
// over a fixed grid (every form x a few heads x every count x three argument
// spellings) without a known-findings list and prints each distinct failure key
// with its first example.
func TestEncloseSurvey(t *testing.T) {
	if os.Getenv("C19_SURVEY") == "" {
		t.Skip("C19_SURVEY not set")
	}
	registry()
	seen := map[string]int{}
	first := map[string]string{}
	n := 0
	run := func(c EncCase) {
		n++
		f, _ := (&surveyRunner{}).apply(c)
		if f != nil {
			seen[f.Key]++
			if first[f.Key] == "" {
				first[f.Key] = f.Msg
			}
		}
	}
	spell := map[string][]string{"lit": {"1", `"s"`, "'(1 2)", "2.5"}, "sym": {"v1", "true", "v2", "false"}, "call": {"(list 1)", "(list)", "(vector 1 2)", "(to-string 1)"}}
	for _, form := range encFormNames {
		fm := encForms[form]
		for _, outer := range append([]string{""}, encOuterNames...) {
			if outer != "" && (len(fm.Pre) > 0 || len(fm.Post) > 0) {
				continue
			}
			if outer != "" && form != "top" && form != "defconst-value-doc" && form != "thread-first-child1" && form != "quoted-nested" {
				continue
			}
			for _, head := range []string{"cons", "if", "car", "trace", "max", "USER"} {
				for k := 0; k <= 4; k++ {
					for sp, pool := range spell {
						c := EncCase{N: head, Form: form, Outer: outer, Style: sp}
						if head == "USER" {
							c.N, c.NUser, c.NSig = "f", true, Sig{Req: 1, Opt: 1}
							if outer == "" && sp == "lit" {
								// vary the definition with the count
								c.DefIn = []string{"let", "progn", "", "fn", "cond"}[k]
								c.Body = []string{"", "empty", "doc-only", "doc+probe", ""}[(k+len(form))%5]
							}
						}
						switch fm.kind() {
						case "entry1":
							if k != 1 {
								continue
							}
							c.Args = []string{pool[0]}
						case "fentry":
							if k == 0 || sp != "lit" {
								continue
							}
							c.Args = append([]string{"(a)"}, pool[:k-1]...)
						case "formals":
							if sp != "lit" || k > 3 {
								continue
							}
							c.Args = []string{"a", "b", "c"}[:k]
						default:
							c.Args = append([]string{}, pool[:k]...)
						}
						run(c)
					}
				}
			}
		}
	}
	t.Logf("%d cases, %d distinct failure keys", n, len(seen))
	for _, k := range sortedKeys(seen) {
		t.Logf("%5d  %s\n%s\n", seen[k], k, first[k])
	}
}

type surveyRunner struct{}

func (surveyRunner) apply(c EncCase) (*vcommon.Failure, *vcommon.Ctx) {
	ctx := &vcommon.Ctx{}
	return checkEnclose(c, ctx), ctx
}

// The 26 failure keys of the enclose sub-property that the unchanged tree
// produces (five root causes, NOTES.md "Findings of round 6"), each with its
// minimal case.  They are registered in /verif/known_findings.json; the replay
// files /verif/regress/C19/known-r6-<name>.json were written from this table
// (C19_WRITE_R6=<dir> go test -run TestKnownR6 ./c19).
var knownR6 = func() map[string]EncCase {
	core := func(n, form string, args ...string) EncCase {
		return EncCase{N: n, Form: form, Args: append([]string{}, args...), Style: "lit"}
	}
	user := func(form string, args ...string) EncCase {
		return EncCase{N: "f", NUser: true, NSig: Sig{Req: 1}, Form: form, Args: append([]string{}, args...), Style: "lit"}
	}
	m := map[string]EncCase{}
	for _, form := range []string{"quasi-unquote", "quasi-unquote-splicing"} {
		m["arity/enclose/core/"+form+"/missed"] = core("cons", form, "1")
		m["arity/enclose/core/"+form+"/missed/bare-symbol-args"] = core("cons", form)
		m["arity/enclose/user/"+form+"/missed"] = user(form, "1", "2")
		m["arity/enclose/user/"+form+"/missed/bare-symbol-args"] = user(form)
	}
	for _, form := range []string{"thread-first-child1", "thread-first-child2", "thread-first-child-mid", "thread-last-child1", "thread-last-child2", "thread-last-child-mid"} {
		m["arity/enclose/core/"+form+"/false-positive/if-arity"] = core("if", form, "1", `"s"`)
	}
	for _, form := range []string{"defconst-value-doc", "defconst-value-doc2", "defuser-value-doc", "defuser-value-first"} {
		m["arity/enclose/user/"+form+"/missed/bare-symbol-args"] = user(form)
	}
	for _, form := range []string{"quote-form", "quote-form-nested", "quoted-nested", "cond-clause", "cond-clause-second", "formals-deftype"} {
		m["arity/non-call-reported/"+form] = core("cons", form)
	}
	for _, place := range []string{"let", "fn"} {
		c := user("top")
		c.DefIn = place
		m["arity/user/nested-defun/"+place+"/missed"] = c
	}
	return m
}()

func r6FileName(key string) string {
	return "known-r6-" + strings.ReplaceAll(strings.TrimPrefix(key, "arity/"), "/", "_") + ".json"
}

// TestKnownR6: every case of the table must fail with exactly its key when
// replayed (no known-findings list is consulted in a replay).  When /repo is
// repaired this test says which entries of known_findings.json have to become
// "fixed".  With C19_WRITE_R6=<dir> it also (re)writes the replay files.
func TestKnownR6(t *testing.T) {
	dir := os.Getenv("C19_WRITE_R6")
	for _, key := range sortedKeys(knownR6) {
		c := knownR6[key]
		f := checkEnclose(c, &vcommon.Ctx{Replay: true})
		if f == nil || f.Key != key {
			t.Errorf("%s: the oracle now says %v", key, f)
			continue
		}
		if dir == "" {
			continue
		}
		raw, _ := json.Marshal(c)
		b, _ := json.MarshalIndent(map[string]any{"property": "C19", "sub": "enclose", "key": key, "msg": f.Msg, "case": json.RawMessage(raw)}, "", " ")
		if err := os.WriteFile(filepath.Join(dir, r6FileName(key)), append(b, '\n'), 0o644); err != nil {
			t.Error(err)
		}
	}
}
