// C12: reader and printer are mutually inverse on data; the reader modes agree;
// the tree does not depend on layout.
package c12

import (
	"bytes"
	"fmt"
	"math"
	"strings"
	"testing"

	"github.com/luthersystems/elps/lisp"
	"github.com/luthersystems/elps/parser"
	"github.com/luthersystems/elps/parser/rdparser"
	"github.com/luthersystems/elps/parser/token"
	"github.com/luthersystems/elps/verifharness/gen"
	"github.com/luthersystems/elps/verifharness/vcommon"
	"pgregory.net/rapid"
)

// ---------- structural comparison model vs parsed ----------

// unwrap peels quote levels: returns the base node and the quote depth.
func unwrap(v *lisp.LVal) (*lisp.LVal, int) {
	q := 0
	for v != nil && v.Type == lisp.LQuote {
		if len(v.Cells) != 1 {
			return v, -1000
		}
		q++
		v = v.Cells[0]
	}
	if v != nil && v.IsQuoted() && v.Type != lisp.LQuote {
		q++
	}
	return v, q
}

func cmpModel(m gen.Val, v *lisp.LVal, path string) string {
	if v == nil {
		return path + ": nil node"
	}
	base, q := unwrap(v)
	wantQ := m.Q
	switch m.K {
	case "int":
		if q != wantQ {
			return fmt.Sprintf("%s: quote depth %d want %d", path, q, wantQ)
		}
		switch base.Type {
		case lisp.LInt:
			if int64(base.Int) != m.I {
				return fmt.Sprintf("%s: int %d want %d", path, base.Int, m.I)
			}
		case lisp.LFloat:
			// numbers compare numerically; an int may not come back as float
			// unless exactly equal
			if base.Float != float64(m.I) || int64(base.Float) != m.I {
				return fmt.Sprintf("%s: float %v want int %d", path, base.Float, m.I)
			}
		default:
			return fmt.Sprintf("%s: type %v want int", path, base.Type)
		}
	case "float":
		if q != wantQ {
			return fmt.Sprintf("%s: quote depth %d want %d", path, q, wantQ)
		}
		f := m.Float()
		switch base.Type {
		case lisp.LFloat:
			if base.Float != f {
				return fmt.Sprintf("%s: float %v want %v", path, base.Float, f)
			}
		case lisp.LInt:
			// 2.0 prints as 2 and reads back as the int 2: numerically equal
			if float64(base.Int) != f || (math.Abs(f) < 1<<63 && int64(f) != int64(base.Int)) {
				return fmt.Sprintf("%s: int %d want float %v", path, base.Int, f)
			}
		default:
			return fmt.Sprintf("%s: type %v want float", path, base.Type)
		}
	case "str":
		if q != wantQ {
			return fmt.Sprintf("%s: quote depth %d want %d", path, q, wantQ)
		}
		if base.Type != lisp.LString {
			return fmt.Sprintf("%s: type %v want string", path, base.Type)
		}
		if base.Str != string(m.B) {
			return fmt.Sprintf("%s: string %q want %q", path, base.Str, string(m.B))
		}
	case "sym":
		if base.Type != lisp.LSymbol {
			return fmt.Sprintf("%s: type %v want symbol (%q)", path, base.Type, string(m.B))
		}
		if base.Str != string(m.B) {
			return fmt.Sprintf("%s: symbol %q want %q", path, base.Str, string(m.B))
		}
		if q != wantQ {
			return fmt.Sprintf("%s: quote depth %d want %d", path, q, wantQ)
		}
	case "list":
		if base.Type != lisp.LSExpr {
			return fmt.Sprintf("%s: type %v want list", path, base.Type)
		}
		if q != wantQ {
			return fmt.Sprintf("%s: quote depth %d want %d", path, q, wantQ)
		}
		if len(base.Cells) != len(m.L) {
			return fmt.Sprintf("%s: %d cells want %d", path, len(base.Cells), len(m.L))
		}
		for i := range m.L {
			if d := cmpModel(m.L[i], base.Cells[i], fmt.Sprintf("%s[%d]", path, i)); d != "" {
				return d
			}
		}
	}
	return ""
}

func hasNegZero(m gen.Val) bool {
	if m.K == "float" && m.Float() == 0 && math.Signbit(m.Float()) {
		return true
	}
	for _, c := range m.L {
		if hasNegZero(c) {
			return true
		}
	}
	return false
}

func classify(m gen.Val, c *vcommon.Ctx) (interesting bool) {
	switch m.K {
	case "float":
		f := m.Float()
		s := fmt.Sprint(f)
		if strings.ContainsAny(s, "e") {
			c.Class("float-exponent")
			interesting = true
		}
		if f == math.Trunc(f) {
			c.Class("float-integral")
		}
	case "str":
		s := string(m.B)
		if !gen.ValidUTF8(s) {
			c.Class("str-invalid-utf8")
			interesting = true
		}
		if strings.ContainsAny(s, "\"\\\n\t\x00") {
			c.Class("str-escape")
			interesting = true
		}
	case "sym":
		s := string(m.B)
		if strings.HasPrefix(s, "-") || strings.HasPrefix(s, "+") || strings.HasPrefix(s, ".") {
			c.Class("sym-sign-leading")
			interesting = true
		}
		if strings.HasPrefix(s, ":") {
			c.Class("sym-keyword")
		} else if strings.Contains(s, ":") {
			c.Class("sym-qualified")
		}
	case "int":
		if m.I < 0 {
			c.Class("int-negative")
		}
	}
	if m.Q >= 2 {
		c.Class("quote-depth>=2")
		interesting = true
	}
	for _, ch := range m.L {
		if classify(ch, c) {
			interesting = true
		}
	}
	return
}

func strictRead(src string) ([]*lisp.LVal, error) {
	return parser.NewReader().Read("test.lisp", strings.NewReader(src))
}

// genValQ: gen.GenVal plus quote marks on ATOMS other than symbols (an int,
// float or string under one to four quotes, at the top and inside lists): the
// printer writes the quotes of those through a different path than the quotes
// of symbols and lists.
func genValQ() *rapid.Generator[gen.Val] {
	return rapid.Custom(func(t *rapid.T) gen.Val {
		v := gen.GenVal(6).Draw(t, "v")
		quoteAtoms(t, &v)
		return v
	})
}

func quoteAtoms(t *rapid.T, v *gen.Val) {
	switch v.K {
	case "int", "float", "str":
		if rapid.IntRange(0, 4).Draw(t, "aq") == 0 {
			// two to four: ONE quote on a self-evaluating atom is a flag the
			// printer does not write ('1 prints 1 and evaluates to 1), so its
			// depth is not a property of the printed text; from the second
			// quote on the marks are nodes of their own
			v.Q = rapid.IntRange(2, 4).Draw(t, "aqd")
		}
	case "list":
		for i := range v.L {
			quoteAtoms(t, &v.L[i])
		}
	}
}

func checkRoundTrip(m gen.Val, c *vcommon.Ctx) *vcommon.Failure {
	v := m.ToLVal()
	text := v.String()
	interesting := classify(m, c)
	if m.Depth() >= 2 {
		c.Class("depth>=2")
		interesting = true
	}
	if interesting {
		c.NonTrivial(text)
		c.Note("printed: " + text)
	}
	exprs, err := strictRead(text)
	if err != nil {
		return vcommon.Failf("roundtrip/reject", "printed text %q is rejected by the reader: %v", text, err)
	}
	if len(exprs) != 1 {
		return vcommon.Failf("roundtrip/count", "printed text %q reads back as %d expressions", text, len(exprs))
	}
	if d := cmpModel(m, exprs[0], "$"); d != "" {
		return vcommon.Failf("roundtrip/value", "printed text %q reads back to a different value: %s", text, d)
	}
	if !hasNegZero(m) {
		if again := exprs[0].String(); again != text {
			return vcommon.Failf("roundtrip/reprint", "printing the value read back from %q gives %q", text, again)
		}
	} else {
		c.Class("negative-zero")
	}
	return nil
}

// ---------- reader modes ----------

type Src struct {
	B []byte `json:"b"`
	// Dress names the byte-level dressing the generator applied (evidence
	// class only; the oracle reads B alone).
	Dress string `json:"dress,omitempty"`
}

type tree struct {
	s string
	n int
}

// dump renders a typed structural dump of a parsed tree through exported
// accessors (type, quoted flag, Str, Int, Float bits, children).
func dump(b *strings.Builder, v *lisp.LVal, n *int) {
	*n++
	if v == nil {
		b.WriteString("<nil>")
		return
	}
	fmt.Fprintf(b, "{%d", int(v.Type))
	if v.IsQuoted() {
		b.WriteString("q")
	}
	switch v.Type {
	case lisp.LInt:
		fmt.Fprintf(b, " %d", v.Int)
	case lisp.LFloat:
		fmt.Fprintf(b, " %x", math.Float64bits(v.Float))
	case lisp.LString, lisp.LSymbol, lisp.LQSymbol:
		fmt.Fprintf(b, " %q", v.Str)
	}
	for _, c := range v.Cells {
		b.WriteString(" ")
		dump(b, c, n)
	}
	b.WriteString("}")
}

func dumpAll(exprs []*lisp.LVal) tree {
	var b strings.Builder
	n := 0
	for _, e := range exprs {
		dump(&b, e, &n)
		b.WriteString("\n")
	}
	return tree{b.String(), n}
}

func readModes(src []byte) (strict, fmtTree, ftTree tree, strictErr, fmtErr error, ftErrs []error) {
	s, e1 := parser.NewReader().Read("m.lisp", bytes.NewReader(src))
	f, e2 := parser.NewReader(parser.WithFormatPreserving()).Read("m.lisp", bytes.NewReader(src))
	res := rdparser.New(token.NewScanner("m.lisp", bytes.NewReader(src))).ParseProgramFaultTolerant()
	if e1 == nil {
		strict = dumpAll(s)
	}
	if e2 == nil {
		fmtTree = dumpAll(f)
	}
	if len(res.Errors) == 0 {
		ftTree = dumpAll(res.Exprs)
	}
	return strict, fmtTree, ftTree, e1, e2, res.Errors
}

func checkModes(s Src, c *vcommon.Ctx) *vcommon.Failure {
	strict, ft, tol, e1, e2, e3 := readModes(s.B)
	acc1, acc2, acc3 := e1 == nil, e2 == nil, len(e3) == 0
	if s.Dress != "" {
		c.Class("dressed/" + s.Dress)
	}
	if acc1 {
		c.Class("accepted")
		if strict.n >= 3 {
			c.NonTrivial(string(s.B))
			c.Note(fmt.Sprintf("source: %q", s.B))
		}
	} else {
		c.Class("rejected")
	}
	if acc1 != acc2 || acc1 != acc3 {
		return vcommon.Failf("modes/accept", "readers disagree on %q: strict accept=%v (%v) formatting accept=%v (%v) fault-tolerant accept=%v (%v)",
			s.B, acc1, e1, acc2, e2, acc3, e3)
	}
	if acc1 {
		if strict.s != ft.s {
			return vcommon.Failf("modes/tree-fmt", "strict and format-preserving trees differ for %q:\n%s\nvs\n%s", s.B, strict.s, ft.s)
		}
		if strict.s != tol.s {
			return vcommon.Failf("modes/tree-ft", "strict and fault-tolerant trees differ for %q:\n%s\nvs\n%s", s.B, strict.s, tol.s)
		}
	}
	return nil
}

var lexemes = []string{
	"(", ")", "[", "]", "'", "#'", "#^", "#!", "#x", "#o", "#xFF", "#o17", "#x-1", "#o8", "-", "--", "-1", "- 1", "1", "0", "007",
	"1.5", "1.", ".5", "1e5", "1e", "1e+5", "1E-2", "1.5e3", "9223372036854775807", "9223372036854775808",
	"-9223372036854775808", "1e400", "abc", "a:b", ":k", "a:", ":", "a:b:c", "a:1", "+1", "\"s\"", "\"\"", "\"a\\\"b\"",
	"\"\\q\"", "\"unterminated", "\"\"\"raw\"\"\"", "\"\"\"\"", "\"\"\"a\"b\"\"\"", ";c\n", "; c", " ", "\n", "\t", "\r", "\x00", "\xff", "é",
	"λ", "#", "#a", "{", "}", "`", ",", ",@", "@", "|", "\\", "true", "false", "()", "'()", "''a", "#'f", "#'a:b", "#'1",
	"#^(+ % 1)", "#^%", "(lambda (x) x)", "%1", "%&rest", "\u2028", "-a", "-.5", "-1a", "1a", "1-", "a-", "-)", "(-)", "(- )",
	// bytes a text tool is tempted to normalise before it parses: a byte-order
	// mark, CRLF line ends (also INSIDE a raw string, where they are data), a
	// decomposed accent, a zero-width space, a DOS end-of-file mark
	"\ufeff", "\r\n", "\"\"\"a\r\nb\"\"\"", "\"\"\"\r\n\"\"\"", "; c\r\n", "e\u0301", "\u200b", "\x1a",
}

var repoSnippets = []string{
	"(defun add (a b) (+ a b))\n(add 1 2)\n",
	"(set 'x '(1 2 3)) ; list\n(map 'list (lambda (v) (* v 2)) x)\n",
	"#!/usr/bin/env elps\n(in-package 'user)\n(export 'f)\n",
	"(let* ([a 1] [b (+ a 1)])\n  (cond ((< a b) \"lt\") (else \"ge\")))\n",
	"(handler-bind ((condition (lambda (c &rest _) c))) (error 'boom \"x\" 1.5e3 -2))",
	"(defmacro m (x &rest ys) (quasiquote (list (unquote x) (unquote-splicing ys))))",
	"(sorted-map :a 1 \"b\" '(2 #xFF #o17) 'c \"\"\"raw \"q\" string\"\"\")",
	"(funcall #'+ 1 2) (#^(+ % %2) 1 2) '''deep",
	"(set 'doc \"\"\"line one\nline two\n\"\"\") ; two lines\n(f doc \"\"\"\n\"\"\")\n",
}

// dressings are byte-level changes that leave a program's meaning to the
// readers: each reader has to make the SAME decision about the dressed text
// (the temptation is to "clean" the input in the reader that serves editors
// and formatters only).
var dressings = []string{"bom", "crlf", "cr", "bom+crlf", "trailing-eof-mark", "trailing-nul", "nfd", "final-newline-dropped", "leading-blank-lines"}

func dress(kind string, src string) string {
	switch kind {
	case "bom":
		return "\ufeff" + src
	case "crlf":
		return strings.ReplaceAll(src, "\n", "\r\n")
	case "cr":
		return strings.ReplaceAll(src, "\n", "\r")
	case "bom+crlf":
		return "\ufeff" + strings.ReplaceAll(src, "\n", "\r\n")
	case "trailing-eof-mark":
		return src + "\x1a"
	case "trailing-nul":
		return src + "\x00"
	case "nfd":
		return strings.NewReplacer("é", "e\u0301", "a", "a\u0300").Replace(src)
	case "final-newline-dropped":
		return strings.TrimRight(src, "\n")
	case "leading-blank-lines":
		return "\r\n\r\n" + src
	}
	return src
}

func genSource() *rapid.Generator[Src] {
	return rapid.Custom(func(t *rapid.T) Src {
		k := rapid.IntRange(0, 10).Draw(t, "class")
		switch {
		case k == 10:
			// a valid program (repo snippet or printed values, one per line)
			// in a dressing; at most one further mutation
			var src string
			if rapid.Bool().Draw(t, "printed") {
				var b strings.Builder
				for i, n := 0, rapid.IntRange(1, 3).Draw(t, "n"); i < n; i++ {
					b.WriteString(gen.GenVal(3).Draw(t, "v").ToLVal().String())
					b.WriteString(rapid.SampledFrom([]string{"\n", " ; c\n", "\n\n"}).Draw(t, "eol"))
				}
				src = b.String()
			} else {
				src = rapid.SampledFrom(repoSnippets).Draw(t, "snip")
			}
			kind := rapid.SampledFrom(dressings).Draw(t, "dress")
			src = dress(kind, src)
			if rapid.IntRange(0, 3).Draw(t, "mut") == 0 {
				return Src{B: mutate(t, []byte(src)), Dress: kind}
			}
			return Src{B: []byte(src), Dress: kind}
		case k == 0:
			return Src{B: rapid.SliceOfN(rapid.Byte(), 0, 40).Draw(t, "bytes")}
		case k <= 4:
			n := rapid.IntRange(0, 14).Draw(t, "n")
			var b strings.Builder
			for i := 0; i < n; i++ {
				b.WriteString(rapid.SampledFrom(lexemes).Draw(t, "lex"))
				if rapid.IntRange(0, 2).Draw(t, "sp") > 0 {
					b.WriteString(rapid.SampledFrom([]string{" ", "\n", "  ", "\t"}).Draw(t, "sep"))
				}
			}
			return Src{B: []byte(b.String())}
		case k <= 6:
			// printed data values, possibly concatenated and mutated
			n := rapid.IntRange(1, 3).Draw(t, "n")
			var b strings.Builder
			for i := 0; i < n; i++ {
				b.WriteString(gen.GenVal(3).Draw(t, "v").ToLVal().String())
				b.WriteString(rapid.SampledFrom([]string{" ", "\n", "", ";x\n"}).Draw(t, "sep"))
			}
			return Src{B: mutate(t, []byte(b.String()))}
		default:
			s := rapid.SampledFrom(repoSnippets).Draw(t, "snip")
			return Src{B: mutate(t, []byte(s))}
		}
	})
}

func mutate(t *rapid.T, b []byte) []byte {
	n := rapid.IntRange(0, 3).Draw(t, "muts")
	for i := 0; i < n && len(b) > 0; i++ {
		pos := rapid.IntRange(0, len(b)-1).Draw(t, "pos")
		switch rapid.IntRange(0, 3).Draw(t, "op") {
		case 0: // delete
			b = append(append([]byte{}, b[:pos]...), b[pos+1:]...)
		case 1: // insert lexeme
			lex := rapid.SampledFrom(lexemes).Draw(t, "ins")
			b = append(append(append([]byte{}, b[:pos]...), lex...), b[pos:]...)
		case 2: // replace byte
			b = append([]byte{}, b...)
			b[pos] = rapid.Byte().Draw(t, "byte")
		case 3: // truncate
			b = append([]byte{}, b[:pos]...)
		}
	}
	return b
}

// ---------- layout independence ----------

// Layout is a token-unit list plus two separator choices.  A unit is a complete
// lexeme (atom, bracket, quote prefix); separators go between units.
type Layout struct {
	Units []string `json:"units"`
	SepA  []string `json:"sep_a"`
	SepB  []string `json:"sep_b"`
	// HashBang: the text opens with an interpreter line "#!<HashBang>\n";
	// LeadA / LeadB: white space in front of the whole text (in front of the
	// interpreter line when there is one) in the two layouts
	HashBang string `json:"hash_bang,omitempty"`
	LeadA    string `json:"lead_a,omitempty"`
	LeadB    string `json:"lead_b,omitempty"`
}

var leads = []string{"", "", " ", "\n", "\t", "\r\n", "\f", "  \n", "\n\n"}
var hashBangs = []string{"/usr/bin/env elps", "/bin/elps run -", " elps", "x"}

func (l Layout) texts() (string, string) {
	hb := ""
	if l.HashBang != "" {
		hb = "#!" + l.HashBang + "\n"
	}
	return l.LeadA + hb + render(l.Units, l.SepA), l.LeadB + hb + render(l.Units, l.SepB)
}

var seps = []string{" ", "  ", "\n", "\t", " \n ", "\n\n", " ;c\n", ";; x y (\n", "\r\n", " ; \"\n", "\n\n\n",
	// every character the scanner skips as white space separates tokens equally
	"\f", "\v", "\u0085", "\u00a0", "\u2028", "\u2029", "\u3000", "\u1680", "\u2003", " \f", "\v ", "\u202f", "\u205f", "\u2000", "\u200a",
	// a comment runs to the end of its LINE: other control characters inside
	// it (a bare carriage return, a form feed) do not end it
	" ; was:\r(zz 1)\n", ";x\ry z\n", "; a\f(b\n", "\r", " \r ", "; c\r\n"}

// glue reports whether two adjacent units need a separator to stay separate
// lexemes.  Brackets delimit themselves; a quote prefix glues to what follows
// (no separator allowed after #' and #^, allowed after ').
func needSep(a, b string) bool {
	if a == "(" || a == "[" || b == ")" || b == "]" {
		return false
	}
	if a == "'" {
		return false
	}
	if a == ")" || a == "]" {
		// ")(" is fine, ")a" is two lexemes as well
		return false
	}
	if b == "(" || b == "[" {
		// "a(" lexes as symbol then paren
		return false
	}
	return true
}

func render(units []string, sep []string) string {
	var b strings.Builder
	for i, u := range units {
		if i > 0 {
			prev := units[i-1]
			s := sep[i-1]
			if prev == "#'" || prev == "#^" {
				s = "" // must be glued
			} else if s == "" && needSep(prev, u) {
				s = " "
			}
			b.WriteString(s)
		}
		b.WriteString(u)
	}
	return b.String()
}

func genAtom(t *rapid.T) string {
	switch rapid.IntRange(0, 6).Draw(t, "atom") {
	case 0:
		return fmt.Sprint(gen.GenInt().Draw(t, "i"))
	case 1:
		return lisp.Float(gen.GenFiniteFloat().Draw(t, "f")).String()
	case 2:
		return fmt.Sprintf("%q", gen.GenBytesString().Draw(t, "s"))
	case 3:
		return rapid.SampledFrom([]string{"#xFF", "#o17", "1e5", "1.50", "\"\"\"raw\"\"\"", "0.5", "-0.0", "1E3", "#x0"}).Draw(t, "lit")
	case 4:
		// sign-like symbols: what follows must stay a separate token under any separator
		return rapid.SampledFrom([]string{"-", "-", "+", "--", "-a", "."}).Draw(t, "signsym")
	default:
		return gen.GenSymbolName().Draw(t, "sym")
	}
}

func genUnits(t *rapid.T, depth int, out *[]string) {
	n := rapid.IntRange(0, 4).Draw(t, "n")
	for i := 0; i < n; i++ {
		for q := rapid.IntRange(0, 6).Draw(t, "q"); q >= 5; q-- {
			*out = append(*out, "'")
		}
		k := rapid.IntRange(0, 9).Draw(t, "k")
		switch {
		case k < 3 && depth > 0:
			open, cl := "(", ")"
			if rapid.IntRange(0, 3).Draw(t, "br") == 0 {
				open, cl = "[", "]"
			}
			*out = append(*out, open)
			genUnits(t, depth-1, out)
			*out = append(*out, cl)
		case k == 3:
			*out = append(*out, "#'", gen.GenIdent().Filter(func(s string) bool { return !strings.HasPrefix(s, "-") }).Draw(t, "fn"))
		default:
			*out = append(*out, genAtom(t))
		}
	}
}

func genLayout() *rapid.Generator[Layout] {
	return rapid.Custom(func(t *rapid.T) Layout {
		var units []string
		genUnits(t, 4, &units)
		l := Layout{Units: units}
		for i := 0; i+1 < len(units); i++ {
			l.SepA = append(l.SepA, rapid.SampledFrom(append([]string{""}, seps...)).Draw(t, "sa"))
			l.SepB = append(l.SepB, rapid.SampledFrom(append([]string{""}, seps...)).Draw(t, "sb"))
		}
		if rapid.IntRange(0, 3).Draw(t, "leadq") == 0 {
			// white space in front of the text, with or without an interpreter line
			if rapid.IntRange(0, 2).Draw(t, "hbq") > 0 {
				l.HashBang = rapid.SampledFrom(hashBangs).Draw(t, "hb")
			}
			l.LeadA = rapid.SampledFrom(leads).Draw(t, "la")
			l.LeadB = rapid.SampledFrom(leads).Draw(t, "lb")
		}
		return l
	})
}

func checkLayout(l Layout, c *vcommon.Ctx) *vcommon.Failure {
	if len(l.SepA) < len(l.Units)-1 || len(l.SepB) < len(l.Units)-1 {
		return nil
	}
	a, b := l.texts()
	if l.HashBang != "" {
		c.Class("interpreter-line")
		if l.LeadA != l.LeadB {
			c.Class("interpreter-line-behind-different-leads")
		}
	}
	// a trailing comment needs a final newline only if something follows; the
	// last unit is never a comment, so nothing to do.
	ea, erra := strictRead(a)
	eb, errb := strictRead(b)
	if (erra == nil) != (errb == nil) {
		return vcommon.Failf("layout/accept", "layouts disagree on acceptance:\n%q -> %v\n%q -> %v", a, erra, b, errb)
	}
	if erra != nil {
		c.Class("rejected")
		return nil
	}
	ta, tb := dumpAll(ea), dumpAll(eb)
	c.Class("accepted")
	if ta.n >= 3 && a != b {
		c.NonTrivial(a + "\x00" + b)
		c.Note(fmt.Sprintf("A=%q B=%q", a, b))
	}
	if ta.s != tb.s {
		return vcommon.Failf("layout/tree", "layout changes the tree:\n%q ->\n%s\n%q ->\n%s", a, ta.s, b, tb.s)
	}
	// the formatting reader must agree on each layout as well
	for _, src := range []string{a, b} {
		f, err := parser.NewReader(parser.WithFormatPreserving()).Read("m.lisp", strings.NewReader(src))
		if err != nil {
			return vcommon.Failf("layout/fmt-reject", "format-preserving reader rejects %q accepted by strict: %v", src, err)
		}
		if tf := dumpAll(f); tf.s != ta.s {
			return vcommon.Failf("layout/fmt-tree", "format-preserving tree differs for %q:\n%s\nvs\n%s", src, tf.s, ta.s)
		}
	}
	return nil
}

// ---------- large sources: the scanner's window must not show ----------

// Large is a printed list of many short strings holding multi-byte characters,
// long enough to span several scanner windows, behind Pad bytes of layout.
type Large struct {
	Unit  int `json:"unit"`  // index into largeUnits
	KB    int `json:"kb"`    // approximate size of the printed text
	Pad   int `json:"pad"`   // leading spaces: shifts every character's offset
	Inner int `json:"inner"` // ASCII filler bytes per element (varies the alignment period)
	// Shape: "" many short strings; "one-string" a single string literal of
	// that size; "one-comment" a single comment of that size before two forms.
	Shape string `json:"shape"`
}

var largeUnits = []string{"é", "日本", "😀", "aé", "é日😀", "\u2028x", "ß"}

func (l Large) text() string {
	unit := largeUnits[l.Unit%len(largeUnits)]
	switch l.Shape {
	case "one-string":
		return lisp.String(strings.Repeat("a", l.Inner) + strings.Repeat(unit+"b", l.KB*1024/(len(unit)+1))).String()
	case "one-comment":
		return "(list 1)\n; " + l.commentBody() + "\n(list 2)"
	case "one-hashbang":
		return "#!" + l.commentBody() + "\n(list 1)\n(list 2)"
	case "inner-comment":
		return "(list 1 ;" + strings.Repeat("x"+unit, l.KB*1024/(len(unit)+1)) + " 3 4\n 2)"
	case "one-symbol":
		return "(list 1 " + l.longSymbol() + " 2)"
	case "spaces", "newlines", "mixed-space":
		ws := map[string]string{"spaces": " ", "newlines": "\n", "mixed-space": " \t\n"}[l.Shape]
		return "(list 1" + strings.Repeat(ws, l.KB*1024/len(ws)+1) + "2)" + strings.Repeat(ws, l.KB*1024/len(ws)+1) + "(list 3)"
	}
	elem := lisp.String(strings.Repeat("a", l.Inner) + unit).String()
	n := l.KB*1024/(len(elem)+1) + 1
	var b strings.Builder
	b.WriteString("'(")
	for i := 0; i < n; i++ {
		if i > 0 {
			b.WriteByte(' ')
		}
		b.WriteString(elem)
	}
	b.WriteString(")")
	return b.String()
}

// commentBody is the text of a huge comment or hash-bang line.  With an even
// Inner it looks like code with brackets; with an odd Inner it is a run of
// plain words, so that a tail cut off and read as code is ACCEPTED (as extra
// symbols) instead of failing on an unbalanced bracket -- a cut that makes all
// readers reject alike is indistinguishable from the size limit itself.
func (l Large) commentBody() string {
	unit := largeUnits[l.Unit%len(largeUnits)]
	if l.Inner%2 == 1 {
		return strings.Repeat("x"+unit+" ", l.KB*1024/(len(unit)+2))
	}
	return strings.Repeat("(x "+unit+") ", l.KB*1024/(len(unit)+5))
}

// longSymbol is one readable symbol of about KB kilobytes (letters only, the
// unit's letters included when it has any).
func (l Large) longSymbol() string {
	unit := "b"
	if u := largeUnits[l.Unit%len(largeUnits)]; u == "é" || u == "aé" || u == "ß" || u == "日本" {
		unit = u
	}
	return strings.Repeat("a", l.Inner+1) + strings.Repeat(unit, l.KB*1024/len(unit))
}

// largeExpect is the tree a single-huge-token source must read to when the
// readers accept it: the text with the huge comment / white space reduced to
// nothing, or with the symbol read back whole.
func (l Large) largeExpect() (string, bool) {
	switch l.Shape {
	case "one-comment", "one-hashbang":
		return "(list 1)\n(list 2)", true
	case "inner-comment":
		return "(list 1\n 2)", true
	case "spaces", "newlines", "mixed-space":
		return "(list 1 2) (list 3)", true
	}
	return "", false
}

// nearLimitSeps are white-space separators of one, two and three bytes.
var nearLimitSeps = []string{" ", "\n", "\t", "\u00a0", "\u0085", "\u2028", "\u3000"}

// checkNearLimit: a symbol a few bytes below / above the scanner window,
// followed by one white-space character.  WHICH white-space character follows
// a complete token must not decide whether the text is accepted: the rendering
// with that separator is compared with the rendering with one ASCII space.
//
//	Pad   -> size of the symbol: DefaultBufSize-8+Pad (Pad 0..9: W-8 .. W+1)
//	Unit  -> separator (nearLimitSeps)
//	Inner -> context: top level / inside a list / last element of a list
func checkNearLimit(l Large, c *vcommon.Ctx) *vcommon.Failure {
	if l.Pad < 0 || l.Pad > 16 || l.Unit < 0 || l.Inner < 0 {
		return nil
	}
	w := token.DefaultBufSize
	n := w - 8 + l.Pad
	sep := nearLimitSeps[l.Unit%len(nearLimitSeps)]
	sym := strings.Repeat("a", n)
	var pre, post string
	switch l.Inner % 3 {
	case 0:
		pre, post = "", "(f)"
	case 1:
		pre, post = "(list 1 ", "2)"
	default:
		pre, post = "(list ", ")"
	}
	c.Class("shape/near-limit")
	c.NonTrivial(fmt.Sprintf("near-limit/%d/%d/%d", l.Pad, l.Unit%len(nearLimitSeps), l.Inner%3))
	if n < w && n+len(sep) > w {
		// the window used to end inside the white-space character that follows
		// the token (found by the round-6 audit, repaired by 77c3b1e)
		c.Class("near-limit/separator-straddles-window")
	}
	ref := []byte(pre + sym + " " + post)
	src := []byte(pre + sym + sep + post)
	if f := checkModes(Src{B: src}, nil); f != nil {
		return f
	}
	a, _, _, ea, _, _ := readModes(ref)
	b, _, _, eb, _, _ := readModes(src)
	if (ea == nil) != (eb == nil) {
		return vcommon.Failf("large/near-limit-separator", "a symbol of %d bytes (scanner window %d) followed by %q is read differently than followed by one space: with the space %v, with %q %v", n, w, sep, errOrOK(ea), sep, errOrOK(eb))
	}
	if ea == nil {
		c.Class("near-limit/accepted")
		if a.s != b.s {
			return vcommon.Failf("large/near-limit-tree", "a symbol of %d bytes followed by %q reads to a different tree than followed by one space", n, sep)
		}
	} else {
		c.Class("near-limit/rejected")
	}
	return nil
}

func errOrOK(err error) string {
	if err == nil {
		return "accepted"
	}
	return "rejected (" + err.Error() + ")"
}

func checkLarge(l Large, c *vcommon.Ctx) *vcommon.Failure {
	if l.Shape == "near-limit" {
		return checkNearLimit(l, c)
	}
	if l.KB < 1 || l.KB > 2000 || l.Pad < 0 || l.Inner < 0 {
		return nil
	}
	body := l.text()
	if l.Shape != "" {
		// one token as large as the whole source: whatever the readers decide
		// (there is a maximum token size), they decide it alike
		c.Class("shape/" + l.Shape)
		c.NonTrivial(fmt.Sprintf("%s/%d/%d/%d/%d", l.Shape, l.Unit, l.KB, l.Pad, l.Inner))
		src := []byte(strings.Repeat(" ", l.Pad) + body)
		if f := checkModes(Src{B: src}, nil); f != nil {
			return f
		}
		// ... and a token larger than the window is refused as a whole or read
		// as a whole: it is never cut in two with the tail read as code, and
		// white space of any length is still only a separator.
		strict, _, _, e1, _, _ := readModes(src)
		if e1 != nil {
			c.Class("huge-token/rejected")
			if l.Shape == "spaces" || l.Shape == "newlines" || l.Shape == "mixed-space" {
				return vcommon.Failf("large/whitespace-run-rejected", "%d KB of white space (%s) between complete expressions make the readers reject a text they accept with one space: %v", l.KB, l.Shape, e1)
			}
			return nil
		}
		c.Class("huge-token/accepted")
		if want, ok := l.largeExpect(); ok {
			exp, _, _, e0, _, _ := readModes([]byte(want))
			if e0 != nil {
				return vcommon.Failf("large/harness", "reference text rejected: %v", e0)
			}
			if exp.s != strict.s {
				return vcommon.Failf("large/token-cut/"+l.Shape, "a %s of %d KB changes the tree: the readers accept the text but part of it is read as code (expected the tree of %q, got %d nodes instead of %d)", l.Shape, l.KB, want, strict.n, exp.n)
			}
		}
		if l.Shape == "one-symbol" {
			exprs, err := strictRead(string(src))
			if err != nil || len(exprs) != 1 || len(exprs[0].Cells) != 4 || exprs[0].Cells[2].Type != lisp.LSymbol || exprs[0].Cells[2].Str != l.longSymbol() {
				n := -1
				if err == nil && len(exprs) == 1 {
					n = len(exprs[0].Cells)
				}
				return vcommon.Failf("large/token-cut/one-symbol", "a symbol of %d KB inside (list 1 <symbol> 2) is accepted but not read back as one symbol: the list has %d elements", l.KB, n)
			}
		}
		return nil
	}
	base, _, _, e0, _, _ := readModes([]byte(body))
	if e0 != nil {
		return vcommon.Failf("large/reject", "%d KB of printed strings (unit %q, %d filler bytes) are rejected by the strict reader: %v", l.KB, largeUnits[l.Unit%len(largeUnits)], l.Inner, e0)
	}
	if l.KB >= 128 {
		c.NonTrivial(fmt.Sprintf("%d/%d/%d/%d", l.Unit, l.KB, l.Pad, l.Inner))
		c.Class("spans-windows")
	}
	src := strings.Repeat(" ", l.Pad) + body
	strict, ft, tol, e1, e2, e3 := readModes([]byte(src))
	if e1 != nil || e2 != nil || len(e3) != 0 {
		return vcommon.Failf("large/layout-dependent-reject", "the same %d KB text is accepted as is but rejected behind %d leading spaces: strict %v, formatting %v, fault-tolerant %v", l.KB, l.Pad, e1, e2, e3)
	}
	if strict.s != base.s {
		return vcommon.Failf("large/layout-dependent-tree", "%d leading spaces change the tree read from a %d KB text", l.Pad, l.KB)
	}
	if strict.s != ft.s || strict.s != tol.s {
		return vcommon.Failf("large/modes-tree", "reader modes disagree on a %d KB text (pad %d)", l.KB, l.Pad)
	}
	return nil
}

func genLarge() *rapid.Generator[Large] {
	return rapid.Custom(func(t *rapid.T) Large {
		return Large{
			Unit:  rapid.IntRange(0, len(largeUnits)-1).Draw(t, "unit"),
			KB:    rapid.SampledFrom([]int{1, 60, 127, 129, 140, 200, 260, 300, 390, 520}).Draw(t, "kb"),
			Pad:   rapid.IntRange(0, 9).Draw(t, "pad"),
			Inner: rapid.IntRange(0, 6).Draw(t, "inner"),
			Shape: rapid.SampledFrom([]string{"", "", "", "one-string", "one-comment", "one-hashbang", "inner-comment", "one-symbol", "spaces", "newlines", "mixed-space", "near-limit"}).Draw(t, "shape"),
		}
	})
}

// ---------- deep values with shared (not cyclic) parts print every occurrence ----------

type DeepShared struct {
	Depth int    `json:"depth"` // singleton lists wrapped around the shared pair
	Kind  string `json:"kind"`  // siblings | cousins | thrice
}

func checkDeepShared(d DeepShared, c *vcommon.Ctx) *vcommon.Failure {
	if d.Depth < 1 || d.Depth > 400 {
		return nil
	}
	x := lisp.QExpr([]*lisp.LVal{lisp.Int(7), lisp.String("s")})
	xm := gen.QL(gen.I(7), gen.Str("s"))
	var v *lisp.LVal
	var m gen.Val
	switch d.Kind {
	case "cousins":
		v = lisp.QExpr([]*lisp.LVal{lisp.QExpr([]*lisp.LVal{x}), lisp.QExpr([]*lisp.LVal{lisp.Int(1), x})})
		m = gen.QL(gen.QL(xm), gen.QL(gen.I(1), xm))
	case "thrice":
		v = lisp.QExpr([]*lisp.LVal{x, lisp.Int(0), x, x})
		m = gen.QL(xm, gen.I(0), xm, xm)
	default:
		v = lisp.QExpr([]*lisp.LVal{x, x})
		m = gen.QL(xm, xm)
	}
	for i := 0; i < d.Depth; i++ {
		v = lisp.QExpr([]*lisp.LVal{v})
		m = gen.QL(m)
	}
	text := v.String()
	c.Class("kind/" + d.Kind)
	if d.Depth >= 60 && d.Depth <= 70 {
		c.Class("around-the-printer-guard-depth")
	}
	c.NonTrivial(fmt.Sprintf("%s/%d", d.Kind, d.Depth))
	if strings.Contains(text, "#<") {
		return vcommon.Failf("deep-shared/unreadable-marker", "an ACYCLIC value (a sub-list occurring %s, %d lists deep) prints with a marker the reader cannot read: %s", d.Kind, d.Depth, clipText(text))
	}
	exprs, err := strictRead(text)
	if err != nil || len(exprs) != 1 {
		return vcommon.Failf("deep-shared/reject", "printed text of a shared acyclic value is rejected by the reader (%v): %s", err, clipText(text))
	}
	if diff := cmpModel(m, exprs[0], "$"); diff != "" {
		return vcommon.Failf("deep-shared/value", "printed text reads back to a different value: %s\n%s", diff, clipText(text))
	}
	return nil
}

func clipText(s string) string {
	if len(s) > 400 {
		return s[:200] + " ... " + s[len(s)-200:]
	}
	return s
}

// ---------- nesting depth: the readers have ONE limit ----------

type DeepNest struct {
	Depth int    `json:"depth"`
	Shape string `json:"shape"` // parens | brackets | quotes | mixed
}

func checkDeepNest(d DeepNest, c *vcommon.Ctx) *vcommon.Failure {
	if d.Depth < 1 || d.Depth > 30000 {
		return nil
	}
	var src string
	switch d.Shape {
	case "brackets":
		src = strings.Repeat("[", d.Depth) + "1" + strings.Repeat("]", d.Depth)
	case "quotes":
		src = strings.Repeat("'", d.Depth) + "x"
	case "mixed":
		src = strings.Repeat("'(a ", d.Depth/2) + "1" + strings.Repeat(")", d.Depth/2)
	default:
		src = strings.Repeat("(list ", d.Depth) + "1" + strings.Repeat(")", d.Depth)
	}
	c.Class("shape/" + d.Shape)
	c.NonTrivial(fmt.Sprintf("%s/%d", d.Shape, d.Depth))
	return checkModes(Src{B: []byte(src)}, nil)
}

func TestCheck(t *testing.T) {
	vcommon.Main(t, "C12",
		vcommon.S("roundtrip", 160000, 4000000, genValQ(), checkRoundTrip),
		vcommon.S("modes", 80000, 2000000, genSource(), checkModes),
		vcommon.S("layout", 40000, 1000000, genLayout(), checkLayout),
		vcommon.S("large", 640, 16000, genLarge(), checkLarge),
		vcommon.S("deep-nesting", 480, 8000, rapid.Custom(func(t *rapid.T) DeepNest {
			return DeepNest{Depth: rapid.SampledFrom([]int{10, 500, 999, 1000, 1001, 1002, 2500, 5000, 9999, 10000, 10001, 12000}).Draw(t, "depth") + rapid.IntRange(-2, 2).Draw(t, "jitter"),
				Shape: rapid.SampledFrom([]string{"parens", "brackets", "quotes", "mixed"}).Draw(t, "shape")}
		}), checkDeepNest),
		vcommon.S("deep-shared", 2000, 40000, rapid.Custom(func(t *rapid.T) DeepShared {
			return DeepShared{Depth: rapid.IntRange(1, 140).Draw(t, "depth"), Kind: rapid.SampledFrom([]string{"siblings", "cousins", "thrice"}).Draw(t, "kind")}
		}), checkDeepShared),
	)
}
