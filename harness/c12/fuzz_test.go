package c12

import (
	"testing"

	"github.com/luthersystems/elps/verifharness/gen"
)

// FuzzReaderModes: coverage-guided bytes through the three-reader agreement
// oracle (thorough tier only; started from hostile constants).
func FuzzReaderModes(f *testing.F) {
	for _, s := range lexemes {
		f.Add([]byte(s))
	}
	for _, s := range repoSnippets {
		f.Add([]byte(s))
	}
	f.Add([]byte("(a ; c\n-1) '''(x . y) #^(+ % %2) \"a\\\\\" #!x\n"))
	f.Fuzz(func(t *testing.T, b []byte) {
		if len(b) > 4096 {
			return
		}
		if fl := checkModes(Src{B: b}, nil); fl != nil {
			t.Fatalf("[%s] %s", fl.Key, fl.Msg)
		}
	})
}

// FuzzPrintRead: bytes decoded into a data value through a tiny arbitrary
// layer, then the print/read round trip.
func FuzzPrintRead(f *testing.F) {
	f.Add([]byte{0, 1, 2, 3, 4, 5, 6, 7, 8, 9})
	f.Add([]byte("\xff\x00-1.5e300'''(((("))
	f.Fuzz(func(t *testing.T, b []byte) {
		if len(b) > 512 {
			return
		}
		v, _ := decodeVal(b, 5)
		if fl := checkRoundTrip(v, nil); fl != nil {
			t.Fatalf("[%s] %s", fl.Key, fl.Msg)
		}
	})
}

func decodeVal(b []byte, depth int) (gen.Val, []byte) {
	if len(b) == 0 {
		return gen.Val{K: "int"}, b
	}
	k := b[0] % 6
	b = b[1:]
	take := func(n int) []byte {
		if n > len(b) {
			n = len(b)
		}
		x := b[:n]
		b = b[n:]
		return x
	}
	switch {
	case k == 0:
		x := take(8)
		var i int64
		for _, c := range x {
			i = i<<8 | int64(c)
		}
		return gen.Val{K: "int", I: i}, b
	case k == 1:
		x := take(8)
		var u uint64
		for _, c := range x {
			u = u<<8 | uint64(c)
		}
		if exp := (u >> 52) & 0x7ff; exp == 0x7ff {
			u &^= 1 << 62 // keep it finite
		}
		return gen.Val{K: "float", FB: u}, b
	case k == 2:
		n := 0
		if len(b) > 0 {
			n = int(b[0] % 16)
			b = b[1:]
		}
		return gen.Val{K: "str", B: append([]byte{}, take(n)...)}, b
	case k == 3:
		names := []string{"a", "-", "+1", "true", ":k", "a:b", "x-1", "-x", ".5", "e5", "λ", "&rest", "-.5", ":1"}
		i := 0
		if len(b) > 0 {
			i = int(b[0])
			b = b[1:]
		}
		q := 0
		if len(b) > 0 {
			q = int(b[0] % 4)
			b = b[1:]
		}
		return gen.Val{K: "sym", B: []byte(names[i%len(names)]), Q: q}, b
	default:
		if depth <= 0 {
			return gen.Val{K: "list"}, b
		}
		n := 0
		if len(b) > 0 {
			n = int(b[0] % 5)
			b = b[1:]
		}
		q := 0
		if len(b) > 0 {
			q = int(b[0] % 4)
			b = b[1:]
		}
		v := gen.Val{K: "list", Q: q}
		for i := 0; i < n; i++ {
			var c gen.Val
			c, b = decodeVal(b, depth-1)
			v.L = append(v.L, c)
		}
		return v, b
	}
}
