// C14: schema validators accept exactly the values their declaration describes.
//
// Sub-properties:
//
//	verdict    generated well-formed schema x generated input: the observed
//	           outcome of (s:validate v input) must be one the documentation
//	           admits (refschema), in every rendering of the input (string keys,
//	           symbol keys, JSON default, JSON :exact-integers)
//	jsonmaps   the same oracle with a generator aimed at sorted-map schemas and
//	           JSON-representable maps
//	malformed  schemas with exactly one malformed element: construction must
//	           fail with bad-arguments; validation may never succeed
package c14

import (
	"encoding/json"
	"fmt"
	"sort"
	"strings"
	"testing"

	"github.com/luthersystems/elps/lisp"
	rs "github.com/luthersystems/elps/verifharness/c14/refschema"
	"github.com/luthersystems/elps/verifharness/vcommon"
	"pgregory.net/rapid"
)

// Case is one verdict case.
type Case struct {
	Schema rs.Schema `json:"schema"`
	Mode   string    `json:"mode"` // make | deftype
	Input  rs.Value  `json:"input"`
}

// keys of the known deviations, one per Quirk
const (
	keyBoolStr   = "bool/strings-true-false-accepted"
	keyIsTrueStr = "is-true-false/strings-accepted"
	keyTruthy    = "is-truthy/nonempty-map-or-bytes-not-truthy"
	keyZeroTypes = "has-key/no-types-rejects-present-key"
	keyNoOther   = "no-other-keys/non-map-input-panics"
)

type quirk struct {
	key string
	set func(q *rs.Quirks)
}

var quirks = []quirk{
	{keyBoolStr, func(q *rs.Quirks) { q.BoolTypeStr = true }},
	{keyIsTrueStr, func(q *rs.Quirks) { q.IsTrueFalseStr = true }},
	{keyTruthy, func(q *rs.Quirks) { q.TruthyMapBytes = true }},
	{keyZeroTypes, func(q *rs.Quirks) { q.KeyZeroTypes = true }},
	{keyNoOther, func(q *rs.Quirks) { q.NoOtherNonMap = true }},
}

// explain finds the smallest set of known deviations under which obs is an
// admissible outcome.  nil means no combination explains it.
func explain(s *rs.Schema, v rs.Value, obs rs.Set) []string {
	n := len(quirks)
	best := []string(nil)
	for mask := 1; mask < 1<<n; mask++ {
		var q rs.Quirks
		var ks []string
		for i := 0; i < n; i++ {
			if mask&(1<<i) != 0 {
				quirks[i].set(&q)
				ks = append(ks, quirks[i].key)
			}
		}
		if best != nil && len(ks) >= len(best) {
			continue
		}
		if rs.New(q).Validate(s, v).Has(obs) {
			best = ks
		}
	}
	return best
}

type observed struct {
	set  rs.Set // exactly one bit, or 0 for an outcome outside the vocabulary
	desc string
}

func observe(o vcommon.Outcome) observed {
	if !o.IsErr {
		if o.Val != nil && o.Val.IsNil() {
			return observed{rs.Acc, "()"}
		}
		return observed{0, "non-error value " + o.Text}
	}
	if o.Panic || lisp.IsInternalPanic(o.Val) {
		return observed{rs.Panic, "internal panic: " + o.Msg}
	}
	switch o.Cond {
	case "wrong-type":
		return observed{rs.WT, "wrong-type: " + o.Msg}
	case "failed-constraint":
		return observed{rs.FC, "failed-constraint: " + o.Msg}
	}
	return observed{0, "condition " + o.Cond + ": " + o.Msg}
}

type rendering struct {
	label string
	model rs.Value
	expr  string
}

func renderings(v rs.Value) []rendering {
	out := []rendering{{"lisp", v, lispValue(v, false)}}
	if hasMapDeep(v) && symKeysOK(v) {
		out = append(out, rendering{"symkeys", v, lispValue(v, true)})
	}
	if hasMapDeep(v) && jsonOK(v) {
		doc := lispString(jsonText(v))
		d := decoded(v, false)
		out = append(out,
			rendering{"json", d, "(json:load-string " + doc + ")"},
			rendering{"json-as-lisp", d, lispValue(d, false)},
			rendering{"json-exact", decoded(v, true), "(json:load-string " + doc + " :exact-integers true)"},
		)
	}
	return out
}

func hasMapDeep(v rs.Value) bool {
	if v.K == "map" {
		return true
	}
	for _, c := range v.L {
		if hasMapDeep(c) {
			return true
		}
	}
	return false
}

func classifySchema(s *rs.Schema, ctx *vcommon.Ctx) {
	ctx.Class("type/" + s.Type)
	ops := map[string]bool{}
	s.Walk(func(c *rs.Con, d int) {
		ops[c.Op] = true
		for i := range c.Refs {
			if k := c.Refs[i].Kind; k != "name" && k != "con" {
				ops["nested-"+k] = true
			}
		}
	})
	names := make([]string, 0, len(ops))
	for o := range ops {
		names = append(names, o)
	}
	sort.Strings(names)
	for _, o := range names {
		ctx.Class("con/" + o)
	}
	if d := s.Depth(); d >= 2 {
		ctx.Class(fmt.Sprintf("depth/%d", d))
	} else {
		ctx.Class("depth/0-1")
	}
	if s.Typedef {
		ctx.Class("form/typedef")
	}
}

func checkVerdict(c Case, ctx *vcommon.Ctx) *vcommon.Failure {
	s := &c.Schema
	rt := vcommon.NewRuntime(vcommon.Cfg{NoProbes: true})
	build := buildText(s, c.Mode)
	bo := rt.Load(build)
	if bo.Panic {
		return vcommon.Failf("build/internal-panic", "building a well-formed schema panics: %s\n%s", bo.Msg, build)
	}
	if bo.IsErr {
		return vcommon.Failf("build/well-formed-rejected", "a well-formed schema is rejected at construction (%s: %s)\n%s", bo.Cond, bo.Msg, build)
	}
	// s:is-falsy is documented as "the logical negation of is-truthy" /
	// "Literally (s:not (s:is-truthy))": a twin schema with every s:is-falsy
	// spelled that way must give the same outcome on every input, also where
	// the docs leave truthiness itself open.
	twin := falsyTwin(s)
	if twin != nil {
		tb := strings.TrimPrefix(buildNamed(twin, c.Mode, "vt2", "t"), typedefs)
		if to := rt.Load(tb); to.IsErr {
			return vcommon.Failf("build/falsy-twin-rejected", "the schema builds but its twin with (s:not (s:is-truthy)) for (s:is-falsy) does not (%s: %s)\n%s", to.Cond, to.Msg, tb)
		}
		ctx.Class("falsy-twin")
	}
	classifySchema(s, ctx)
	ctx.Class("mode/" + c.Mode)
	ctx.Class("input/" + c.Input.K)

	ref := rs.New(rs.Quirks{})
	baseType := ref.HasType(s.Type, c.Input)
	var known *vcommon.Failure
	outcomes := map[string]observed{}
	for _, r := range renderings(c.Input) {
		io := rt.Load("(set 'inp " + r.expr + ")")
		if io.IsErr {
			return vcommon.Failf("harness/input-eval", "[%s] input expression %s fails: %s %s", r.label, r.expr, io.Cond, io.Msg)
		}
		if d := sameValue(r.model, io.Val, "$"); d != "" {
			return vcommon.Failf("harness/input-model", "[%s] input expression %s does not evaluate to the model: %s", r.label, r.expr, d)
		}
		vo := rt.Load("(s:validate vt inp)")
		obs := observe(vo)
		outcomes[r.label] = obs
		if twin != nil {
			if obs2 := observe(rt.Load("(s:validate vt2 inp)")); obs2.set != obs.set {
				return vcommon.Failf("is-falsy/differs-from-not-is-truthy", "[%s] (s:is-falsy) and (s:not (s:is-truthy)) disagree: %s vs %s\n%s(s:validate vt %s)",
					r.label, obs.desc, obs2.desc, strings.TrimPrefix(build, typedefs), r.expr)
			}
		}
		e := rs.New(rs.Quirks{})
		want := e.Validate(s, r.model)
		ctx.Class("rendering/" + r.label)
		if r.label == "lisp" {
			switch {
			case want == rs.Acc:
				ctx.Class("expect/accept")
			case want == rs.WT:
				ctx.Class("expect/wrong-type")
			case want == rs.FC:
				ctx.Class("expect/failed-constraint")
			case want.Rejects():
				ctx.Class("expect/reject-either-condition")
			default:
				ctx.Class("expect/open")
			}
			zs := make([]string, 0, len(e.Zones))
			for z := range e.Zones {
				zs = append(zs, z)
			}
			sort.Strings(zs)
			for _, z := range zs {
				ctx.Class("zone/" + z)
			}
			if baseType && (s.Count() >= 2 || s.Depth() >= 2 || (s.Count() == 1 && len(s.Cons[0].Refs) > 0 && len(c.Input.L)+len(c.Input.M) >= 2)) && want.Decided() {
				ctx.Class("nontrivial/" + want.String())
				ctx.NonTrivial(build + "\x00" + r.expr)
				ctx.Note(strings.TrimPrefix(build, typedefs) + "(s:validate vt " + r.expr + ")  ; expected " + want.String() + ", observed " + obs.desc)
			}
		}
		if obs.set != 0 && want.Has(obs.set) {
			continue
		}
		key := "verdict/" + strings.ReplaceAll(want.String(), "|", "-or-") + "-expected"
		if obs.set != 0 {
			if ks := explain(s, r.model, obs.set); ks != nil {
				key = ks[0]
				for _, k := range ks {
					if !ctx.Known(k) {
						key = k
						break
					}
				}
			}
		}
		f := vcommon.Failf(key, "[%s] expected %s, observed %s\n%s(s:validate vt %s)", r.label, want, obs.desc, strings.TrimPrefix(build, typedefs), r.expr)
		if ctx.Known(key) {
			ctx.Class("known/" + key)
			if known == nil {
				known = f
			}
			continue
		}
		return f
	}
	// maps decoded from JSON validate exactly like maps built in lisp; symbol
	// keys validate like string keys
	for _, p := range [][2]string{{"json", "json-as-lisp"}, {"symkeys", "lisp"}} {
		a, ok1 := outcomes[p[0]]
		b, ok2 := outcomes[p[1]]
		if ok1 && ok2 && a.set != b.set {
			return vcommon.Failf("differential/"+p[0], "renderings %s and %s of the same content get different verdicts: %s vs %s\n%s input %s",
				p[0], p[1], a.desc, b.desc, strings.TrimPrefix(build, typedefs), lispValue(c.Input, false))
		}
	}
	return known
}

// falsyTwin returns a copy of s with every (s:is-falsy) replaced by
// (s:not (s:is-truthy)), or nil when s has none.
func falsyTwin(s *rs.Schema) *rs.Schema {
	has := false
	s.Walk(func(c *rs.Con, _ int) {
		if c.Op == "is-falsy" {
			has = true
		}
	})
	if !has {
		return nil
	}
	raw, err := json.Marshal(s)
	if err != nil {
		return nil
	}
	var t rs.Schema
	if json.Unmarshal(raw, &t) != nil {
		return nil
	}
	t.Walk(func(c *rs.Con, _ int) {
		if c.Op == "is-falsy" {
			c.Op = "not"
			c.Refs = []rs.Ref{{Kind: "con", Con: &rs.Con{Op: "is-truthy"}}}
		}
	})
	return &t
}

func genCase(jsonish bool) *rapid.Generator[Case] {
	return rapid.Custom(func(t *rapid.T) Case {
		g := &sgen{t: t, jsonish: jsonish}
		s := g.schema(3, true)
		c := Case{Schema: s, Mode: rapid.SampledFrom([]string{"make", "deftype"}).Draw(t, "mode")}
		if jsonish {
			// a JSON-representable map (or vector of maps) most of the time
			if rapid.IntRange(0, 9).Draw(t, "jaim") < 8 {
				switch rapid.IntRange(0, 9).Draw(t, "jkind") {
				case 0:
					c.Input = rs.Vec(g.mapVal(3), g.mapVal(2))
				case 1, 2:
					c.Input = g.mapVal(3)
				default:
					c.Input = g.aimed(&c.Schema)
				}
				return c
			}
		}
		c.Input = g.aimed(&c.Schema)
		return c
	})
}

func TestCheck(t *testing.T) {
	vcommon.Main(t, "C14",
		vcommon.S("verdict", 50000, 1800000, genCase(false), checkVerdict),
		vcommon.S("jsonmaps", 30000, 1000000, genCase(true), checkVerdict),
		vcommon.S("typelists", 15000, 400000, genTypeLists(), checkVerdict),
		vcommon.S("truthiness", 8000, 200000, genTruthiness(), checkVerdict),
		vcommon.S("scoped", 10000, 250000, genScoped(), checkVerdict),
		vcommon.S("malformed", 20000, 750000, genMalformed(), checkMalformed),
	)
}
