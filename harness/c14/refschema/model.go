// Package refschema is an independent reference for the documented meaning of
// libschema validators (README.md + the docstrings in libschema.go).  It shares
// no code with the library: it has its own value model, its own schema AST and
// its own evaluator.  The only thing it borrows is Go's regexp package, because
// the documentation defines s:regexp as "Go RE2 syntax".
package refschema

import (
	"math"
	"math/big"
	"sort"
)

// ---------------------------------------------------------------- values

// Value is a JSON-serialisable model of an elps value.
//
//	K: int | float | str | sym | nil | vec | list | map | bytes | fun | tagged
type Value struct {
	K  string  `json:"k"`
	I  int64   `json:"i,omitempty"`
	FB uint64  `json:"fb,omitempty"` // float64 bits
	S  string  `json:"s,omitempty"`  // str / sym name / bytes payload / fun spelling / tagged type (tv|tw)
	L  []Value `json:"l,omitempty"`  // vec / list elements; tagged: L[0] is the user data
	M  []Entry `json:"m,omitempty"`  // map entries, unique keys
}

type Entry struct {
	Key string `json:"key"`
	V   Value  `json:"v"`
}

func Int(i int64) Value     { return Value{K: "int", I: i} }
func Float(f float64) Value { return Value{K: "float", FB: math.Float64bits(f)} }
func Str(s string) Value    { return Value{K: "str", S: s} }
func Sym(s string) Value    { return Value{K: "sym", S: s} }
func Nil() Value            { return Value{K: "nil"} }
func Vec(l ...Value) Value  { return Value{K: "vec", L: l} }
func List(l ...Value) Value {
	if len(l) == 0 {
		return Nil()
	}
	return Value{K: "list", L: l}
}
func Map(m ...Entry) Value           { return Value{K: "map", M: m} }
func Bytes(s string) Value           { return Value{K: "bytes", S: s} }
func Fun(s string) Value             { return Value{K: "fun", S: s} }
func Tagged(t string, d Value) Value { return Value{K: "tagged", S: t, L: []Value{d}} }

func (v Value) F() float64 { return math.Float64frombits(v.FB) }

func (v Value) IsNum() bool { return v.K == "int" || v.K == "float" }

// Get returns the value stored under key (documented `get` semantics: a missing
// key reads as the empty list).
func (v Value) Get(key string) (Value, bool) {
	for _, e := range v.M {
		if e.Key == key {
			return e.V, true
		}
	}
	return Nil(), false
}

// SortedKeys lists the map's keys in byte order.
func (v Value) SortedKeys() []string {
	ks := make([]string, 0, len(v.M))
	for _, e := range v.M {
		ks = append(ks, e.Key)
	}
	sort.Strings(ks)
	return ks
}

func (v Value) Depth() int {
	d := 0
	for _, c := range v.L {
		if x := c.Depth(); x > d {
			d = x
		}
	}
	for _, e := range v.M {
		if x := e.V.Depth(); x > d {
			d = x
		}
	}
	switch v.K {
	case "vec", "list", "map", "tagged":
		return d + 1
	}
	return d
}

// big returns the exact rational value of a number.
func (v Value) big() *big.Float {
	b := new(big.Float).SetPrec(200)
	if v.K == "int" {
		return b.SetInt64(v.I)
	}
	return b.SetFloat64(v.F())
}

// asFloat is the float64 view of a number (what a float-based comparison sees).
func (v Value) asFloat() float64 {
	if v.K == "int" {
		return float64(v.I)
	}
	return v.F()
}

// cmpNum compares two numbers exactly and through float64.  The two disagree
// only beyond 2^53: the documentation does not promise exact big-integer
// comparison there, so such cases are ambiguous.
func cmpNum(a, b Value) (exact int, viaFloat int) {
	if a.K == "int" && b.K == "int" {
		switch {
		case a.I < b.I:
			exact = -1
		case a.I > b.I:
			exact = 1
		}
	} else {
		exact = a.big().Cmp(b.big())
	}
	fa, fb := a.asFloat(), b.asFloat()
	switch {
	case fa < fb:
		viaFloat = -1
	case fa > fb:
		viaFloat = 1
	}
	return
}

// ---------------------------------------------------------------- schemas

// Type names accepted by s:deftype / s:make-validator.
var TypeNames = []string{"string", "number", "int", "float", "fun", "sorted-map", "array", "bool", "tagged-value", "any"}

// Schema is one validator declaration: a type name and a constraint list.
type Schema struct {
	Type    string `json:"type"`
	Lit     bool   `json:"lit,omitempty"`     // render the type as a string literal instead of the s:<name> symbol
	Sub     string `json:"sub,omitempty"`     // tagged-value only: type of the user data ("" = none)
	Typedef bool   `json:"typedef,omitempty"` // tagged-value only: (s:make-validator tv <sub> ...) form
	Cons    []Con  `json:"cons,omitempty"`
	// BadType, when non-empty, is malformed source text in the type position
	// (malformed-schema cases only).
	BadType string `json:"bad_type,omitempty"`
	// BadSub, when non-empty, is malformed source text standing where the
	// user-data type name of a tagged-value schema goes (malformed-schema
	// cases only): (s:deftype "T" s:tagged-value "strng"), (s:make-validator tv "strng").
	BadSub string `json:"bad_sub,omitempty"`
}

// Con is one element of a constraint list.
//
//	Op: in gt gte lt lte positive negative len lengt lengte lenlt lenlte of
//	    has-key may-have-key no-other-keys when not is-true is-false is-truthy
//	    is-falsy regexp validator bad
type Con struct {
	Op   string  `json:"op"`
	Num  *Value  `json:"num,omitempty"`  // gt.. and len.. operand
	Vals []Value `json:"vals,omitempty"` // in
	Key  string  `json:"key,omitempty"`  // has-key, may-have-key, when (guard key)
	Key2 string  `json:"key2,omitempty"` // when (checked key)
	Pat  string  `json:"pat,omitempty"`  // regexp
	// Refs: of / has-key / may-have-key allowed types; no-other-keys key
	// constraints; when: Refs[0] is the guard, the rest the checks; not:
	// Refs[0] is the negated constraint; validator: Refs[0] is the nested
	// validator.
	Refs []Ref `json:"refs,omitempty"`
	// Bad: malformed source text standing where this constraint should be
	// (Op == "bad"), or a malformed pattern expression for Op == "regexp"
	// (BadPat true: Pat is an invalid pattern; Bad set: non-string pattern).
	Bad    string `json:"bad,omitempty"`
	BadPat bool   `json:"bad_pat,omitempty"`
}

// Ref is something standing where the library accepts "a type": a type name, a
// constraint, or an already built validator.
//
//	Kind: name | con | inline | defsym | defval | letsym | paramsym | bad
type Ref struct {
	Kind   string  `json:"kind"`
	Name   string  `json:"name,omitempty"` // Kind name
	Lit    bool    `json:"lit,omitempty"`
	Con    *Con    `json:"con,omitempty"`    // Kind con
	Schema *Schema `json:"schema,omitempty"` // Kind inline (make-validator in place), defsym ('name of an earlier s:deftype), defval (bare symbol of an earlier s:deftype)
	Bad    string  `json:"bad,omitempty"`    // Kind bad: malformed source text
	// Kind letsym / paramsym: Schema is a validator bound LOCALLY (by a let
	// around the construction of the top validator / as a parameter of a
	// function that constructs it) and referenced by quoted symbol.  Decoy,
	// when set, is a different validator bound GLOBALLY (s:deftype) under the
	// same name: the quoted name must still mean the local one.
	Decoy *Schema `json:"decoy,omitempty"`
}

// Walk visits every constraint of the schema (pre-order) with its nesting depth.
func (s *Schema) Walk(f func(c *Con, depth int)) { s.walk(f, 1) }

func (s *Schema) walk(f func(c *Con, depth int), d int) {
	for i := range s.Cons {
		s.Cons[i].walk(f, d)
	}
}

func (c *Con) walk(f func(c *Con, depth int), d int) {
	f(c, d)
	for i := range c.Refs {
		r := &c.Refs[i]
		if r.Con != nil {
			r.Con.walk(f, d+1)
		}
		if r.Schema != nil {
			r.Schema.walk(f, d+1)
		}
	}
}

// Depth is the maximum constraint nesting depth (0 for a bare type).
func (s *Schema) Depth() int {
	m := 0
	s.Walk(func(_ *Con, d int) {
		if d > m {
			m = d
		}
	})
	return m
}

// Count is the total number of constraints.
func (s *Schema) Count() int {
	n := 0
	s.Walk(func(_ *Con, _ int) { n++ })
	return n
}
