package refschema

import (
	"regexp"
)

// Set is a set of admissible outcomes of (s:validate validator value).
//
// The reference computes, for a schema and a value, every outcome the
// documentation allows.  Where the documentation is exact the set is a
// singleton; where it leaves something open (length of a value the docs do not
// list as measurable, truthiness of a function, comparisons beyond float64
// precision, which of several failing constraints is reported) the set has more
// than one element and the check accepts any of them.
type Set uint8

const (
	Acc   Set = 1 << iota // validation succeeds (returns ())
	WT                    // condition wrong-type
	FC                    // condition failed-constraint
	Panic                 // internal panic (never documented; only reachable through a Quirk)
)

func (s Set) Has(x Set) bool { return s&x != 0 }
func (s Set) Decided() bool  { return s == Acc || s == WT || s == FC }
func (s Set) Rejects() bool  { return s != 0 && s&Acc == 0 }

func (s Set) String() string {
	out := ""
	add := func(n string) {
		if out != "" {
			out += "|"
		}
		out += n
	}
	if s.Has(Acc) {
		add("accept")
	}
	if s.Has(WT) {
		add("wrong-type")
	}
	if s.Has(FC) {
		add("failed-constraint")
	}
	if s.Has(Panic) {
		add("internal-panic")
	}
	if out == "" {
		return "none"
	}
	return out
}

// Quirks switch on models of *known deviations* of the library from its
// documentation.  They are never on when the expected result is computed; the
// check uses them only to attribute an observed disagreement to a specific
// known finding (so that an unrelated disagreement is still reported).
type Quirks struct {
	BoolTypeStr    bool // s:bool looks at the text only: the strings "true"/"false" have type bool
	IsTrueFalseStr bool // s:is-true / s:is-false look at the text only: the strings "true"/"false" pass
	TruthyMapBytes bool // s:is-truthy is never satisfied by a sorted-map or bytes value
	KeyZeroTypes   bool // s:has-key / s:may-have-key with no allowed types reject a present key (wrong-type)
	NoOtherNonMap  bool // s:no-other-keys panics on a non-map input that its key constraints did not reject
}

// Eval evaluates schemas.  Zones records the names of the under-documented
// zones the evaluation touched.
type Eval struct {
	Q     Quirks
	Zones map[string]bool
}

func New(q Quirks) *Eval { return &Eval{Q: q, Zones: map[string]bool{}} }

func (e *Eval) zone(n string) { e.Zones[n] = true }

// HasType is the documented meaning of the type names.
func (e *Eval) HasType(t string, v Value) bool {
	switch t {
	case "string":
		return v.K == "str"
	case "int":
		return v.K == "int"
	case "float":
		return v.K == "float"
	case "number":
		return v.IsNum()
	case "fun":
		return v.K == "fun"
	case "sorted-map":
		return v.K == "map"
	case "array":
		return v.K == "vec"
	case "bool":
		if v.K == "sym" && (v.S == "true" || v.S == "false") {
			return true
		}
		if e.Q.BoolTypeStr && v.K == "str" && (v.S == "true" || v.S == "false") {
			return true
		}
		return false
	case "tagged-value":
		return v.K == "tagged"
	case "any":
		return true
	}
	return false
}

// Validate is the documented meaning of a validator built from s.
func (e *Eval) Validate(s *Schema, v Value) Set {
	if s.Type == "tagged-value" {
		if v.K != "tagged" {
			return WT
		}
		data := v.L[0]
		if s.Sub != "" {
			return e.Validate(&Schema{Type: s.Sub, Cons: s.Cons}, data)
		}
		return e.seq(s.Cons, data)
	}
	if !e.HasType(s.Type, v) {
		return WT
	}
	return e.seq(s.Cons, v)
}

// seq: every constraint must hold; the reported condition is that of any
// failing constraint (the docs do not fix an order).
func (e *Eval) seq(cons []Con, x Value) Set {
	acc := true
	var rej Set
	for i := range cons {
		r := e.Con(&cons[i], x)
		if !r.Has(Acc) {
			acc = false
		}
		rej |= r &^ Acc
	}
	if acc {
		return rej | Acc
	}
	return rej
}

func (e *Eval) seqRefs(refs []Ref, x Value) Set {
	acc := true
	var rej Set
	for i := range refs {
		r := e.Ref(&refs[i], x)
		if !r.Has(Acc) {
			acc = false
		}
		rej |= r &^ Acc
	}
	if acc {
		return rej | Acc
	}
	return rej
}

// alt: the value must match one of the allowed types; a mismatch is wrong-type.
func (e *Eval) alt(refs []Ref, x Value) Set {
	canMatch, allCanFail := false, true
	var out Set
	for i := range refs {
		r := e.Ref(&refs[i], x)
		if k := refs[i].Con; refs[i].Kind == "con" && (k.Op == "has-key" || k.Op == "may-have-key") {
			// The docs call these positions "types"; a key constraint is
			// documented to "return the key name on success", which is not
			// the success value of a type.  Not covered: either verdict.
			e.zone("key-constraint-as-type")
			r |= Acc | WT
		}
		if r.Has(Acc) {
			canMatch = true
		}
		if !r.Has(WT | FC) {
			allCanFail = false
		}
		out |= r & Panic
	}
	if canMatch {
		out |= Acc
	}
	if allCanFail {
		out |= WT
	}
	return out
}

// Ref evaluates something standing in a "type" position.
func (e *Eval) Ref(r *Ref, x Value) Set {
	switch r.Kind {
	case "name":
		return e.Validate(&Schema{Type: r.Name}, x)
	case "con":
		return e.Con(r.Con, x)
	case "inline", "defsym", "defval", "letsym", "paramsym":
		return e.Validate(r.Schema, x)
	}
	panic("refschema: cannot evaluate ref kind " + r.Kind)
}

func invert(r Set) Set {
	var out Set
	if r.Has(WT | FC) {
		out |= Acc
	}
	if r.Has(Acc) {
		out |= FC
	}
	return out | r&Panic
}

type tri int

const (
	no tri = iota
	yes
	open
)

// truthy: "Truthy values include: true, non-empty strings (not "false"),
// non-empty arrays/maps/bytes, and positive numbers."  The complementary cases
// of the listed kinds are not truthy; other kinds are not covered.
func (e *Eval) truthy(x Value) tri {
	b := func(c bool) tri {
		if c {
			return yes
		}
		return no
	}
	switch x.K {
	case "sym":
		if x.S == "true" {
			return yes
		}
		if x.S == "false" {
			return no
		}
	case "str":
		return b(x.S != "" && x.S != "false")
	case "vec":
		return b(len(x.L) > 0)
	case "map":
		if e.Q.TruthyMapBytes {
			return no
		}
		return b(len(x.M) > 0)
	case "bytes":
		if e.Q.TruthyMapBytes {
			return no
		}
		return b(len(x.S) > 0)
	case "int":
		return b(x.I > 0)
	case "float":
		return b(x.F() > 0)
	}
	e.zone("truthy-undocumented-kind")
	return open
}

func triSet(t tri) Set {
	switch t {
	case yes:
		return Acc
	case no:
		return FC
	}
	return Acc | FC
}

// Equal models the language's equal? on the value kinds the generator uses as
// s:in operands.  sure is false when exact and float64 comparison disagree.
func Equal(a, b Value) (eq bool, sure bool) {
	if a.IsNum() && b.IsNum() {
		ex, fl := cmpNum(a, b)
		if a.K == "int" && b.K == "int" {
			return ex == 0, true // two integers: equal? is exact
		}
		return ex == 0, (ex == 0) == (fl == 0)
	}
	if a.K != b.K {
		return false, true
	}
	switch a.K {
	case "str", "sym":
		return a.S == b.S, true
	case "nil":
		return true, true
	case "vec", "list":
		if len(a.L) != len(b.L) {
			return false, true
		}
		allSure := true
		for i := range a.L {
			q, s := Equal(a.L[i], b.L[i])
			if s && !q {
				return false, true
			}
			if !s {
				allSure = false
			}
		}
		if !allSure {
			return false, false
		}
		return true, true
	case "map":
		if len(a.M) != len(b.M) {
			return false, true
		}
		for _, k := range a.SortedKeys() {
			av, _ := a.Get(k)
			bv, ok := b.Get(k)
			if !ok {
				return false, true
			}
			q, s := Equal(av, bv)
			if !s {
				return false, false
			}
			if !q {
				return false, true
			}
		}
		return true, true
	case "tagged":
		if a.S != b.S {
			return false, true
		}
		return Equal(a.L[0], b.L[0])
	}
	// bytes, functions: never equal? to anything
	return false, true
}

// Len is the documented domain of the s:len* family: strings, bytes, arrays.
func Len(x Value) (int, bool) {
	switch x.K {
	case "str", "bytes":
		return len(x.S), true
	case "vec":
		return len(x.L), true
	}
	return 0, false
}

var reCache = map[string]*regexp.Regexp{}

func compile(p string) *regexp.Regexp {
	if r, ok := reCache[p]; ok {
		return r
	}
	r, err := regexp.Compile(p)
	if err != nil {
		r = nil
	}
	reCache[p] = r
	return r
}

// Match reports whether the valid pattern p matches s.
func Match(p, s string) bool { return compile(p).MatchString(s) }

// ValidPattern reports whether p is a valid Go RE2 pattern.
func ValidPattern(p string) bool { return compile(p) != nil }

// Con is the documented meaning of one constraint applied to x.
func (e *Eval) Con(c *Con, x Value) Set {
	pass := func(ok bool) Set {
		if ok {
			return Acc
		}
		return FC
	}
	switch c.Op {
	case "in":
		open := false
		for _, v := range c.Vals {
			eq, sure := Equal(x, v)
			if !sure {
				open = true
				continue
			}
			if eq {
				return Acc
			}
		}
		if open {
			e.zone("float-precision")
			return Acc | FC
		}
		return FC
	case "gt", "gte", "lt", "lte":
		if !x.IsNum() {
			return FC
		}
		ex, fl := cmpNum(x, *c.Num)
		dec := func(cmp int) bool {
			switch c.Op {
			case "gt":
				return cmp > 0
			case "gte":
				return cmp >= 0
			case "lt":
				return cmp < 0
			}
			return cmp <= 0
		}
		if dec(ex) != dec(fl) {
			e.zone("float-precision")
			return Acc | FC
		}
		return pass(dec(ex))
	case "positive":
		if !x.IsNum() {
			return FC
		}
		if x.K == "int" {
			return pass(x.I > 0)
		}
		return pass(x.F() > 0)
	case "negative":
		if !x.IsNum() {
			return FC
		}
		if x.K == "int" {
			return pass(x.I < 0)
		}
		return pass(x.F() < 0)
	case "len", "lengt", "lengte", "lenlt", "lenlte":
		n, ok := Len(x)
		if !ok {
			e.zone("len-unmeasured-kind")
			return Acc | FC
		}
		want := int(c.Num.I)
		switch c.Op {
		case "len":
			return pass(n == want)
		case "lengt":
			return pass(n > want)
		case "lengte":
			return pass(n >= want)
		case "lenlt":
			return pass(n < want)
		}
		return pass(n <= want)
	case "regexp":
		if x.K != "str" {
			return FC
		}
		return pass(compile(c.Pat).MatchString(x.S))
	case "of":
		if x.K != "vec" {
			return WT
		}
		var out Set = Acc
		for _, el := range x.L {
			r := e.alt(c.Refs, el)
			if !r.Has(Acc) {
				out &^= Acc
			}
			out |= r &^ Acc
		}
		return out
	case "has-key", "may-have-key":
		if x.K != "map" {
			return WT
		}
		v, ok := x.Get(c.Key)
		if !ok {
			if c.Op == "has-key" {
				return FC
			}
			return Acc
		}
		if len(c.Refs) == 0 {
			// README: (s:has-key name[ type ...]) "optionally requiring the value
			// therein to be of type"; "You may wish to use this without a type set".
			if e.Q.KeyZeroTypes {
				return WT
			}
			return Acc
		}
		return e.alt(c.Refs, v)
	case "no-other-keys":
		if x.K != "map" {
			if e.Q.NoOtherNonMap {
				r := e.seqRefs(c.Refs, x)
				if r.Has(Acc) {
					r = r&^Acc | Panic
				}
				return r
			}
			// "a constraint for sorted-maps": a non-map is rejected; the docs do
			// not say under which of the two conditions.
			return WT | FC
		}
		r := e.seqRefs(c.Refs, x)
		declared := map[string]bool{}
		for i := range c.Refs {
			if k := c.Refs[i].Con; k != nil && (k.Op == "has-key" || k.Op == "may-have-key") {
				declared[k.Key] = true
			}
		}
		for _, en := range x.M {
			if !declared[en.Key] {
				return r&^Acc | FC
			}
		}
		return r
	case "when":
		if x.K != "map" {
			return WT
		}
		gv, ok1 := x.Get(c.Key)
		tv, ok2 := x.Get(c.Key2)
		if !ok1 || !ok2 {
			e.zone("when-absent-key")
		}
		g := e.Ref(&c.Refs[0], gv)
		var out Set
		if g.Has(WT | FC) {
			out |= Acc // condition not met: the constraint passes
		}
		if g.Has(Acc) {
			out |= e.seqRefs(c.Refs[1:], tv)
		}
		return out | g&Panic
	case "not":
		return invert(e.Ref(&c.Refs[0], x))
	case "is-true":
		if e.Q.IsTrueFalseStr && x.K == "str" && x.S == "true" {
			return Acc
		}
		return pass(x.K == "sym" && x.S == "true")
	case "is-false":
		if e.Q.IsTrueFalseStr && x.K == "str" && x.S == "false" {
			return Acc
		}
		return pass(x.K == "sym" && x.S == "false")
	case "is-truthy":
		return triSet(e.truthy(x))
	case "is-falsy":
		return invert(triSet(e.truthy(x)))
	case "validator":
		return e.Ref(&c.Refs[0], x)
	}
	panic("refschema: cannot evaluate constraint " + c.Op)
}
