package c14

import (
	rs "github.com/luthersystems/elps/verifharness/c14/refschema"
	"pgregory.net/rapid"
)

// The typelists sub-property aims the verdict oracle at "allowed type" lists:
// s:of / s:has-key / s:may-have-key whose alternatives are (mostly) base type
// NAMES, applied to element sequences in which a later element has the same
// kind (symbol after symbol, string after string, list after nil, float after
// int, ...) as an earlier accepted one but a different verdict.  Each element /
// key must be judged on its own value, whatever was accepted before it.

var listTypeNames = []string{"bool", "bool", "bool", "string", "int", "float", "number", "fun", "sorted-map", "array", "tagged-value", "any"}

var otherSyms = []string{"maybe", "foo", ":kw", "nil-ish", "yes", "string", "true", "false", "True"}
var otherStrs = []string{"yes", "nope", "true", "false", "12", "1.5", "", "TRUE", "maybe", "()"}

// sibling returns a value of the same kind as e with different content (or the
// nearest neighbouring kind where the kind has a single inhabitant).
func (g *sgen) sibling(e rs.Value) rs.Value {
	switch e.K {
	case "sym":
		return rs.Sym(rapid.SampledFrom(otherSyms).Draw(g.t, "sibsym"))
	case "str":
		return rs.Str(rapid.SampledFrom(otherStrs).Draw(g.t, "sibstr"))
	case "int":
		if rapid.Bool().Draw(g.t, "asfloat") && e.I > -(1<<53) && e.I < 1<<53 {
			return rs.Float(float64(e.I))
		}
		return rs.Int(genInt(g.t, nil))
	case "float":
		f := e.F()
		if rapid.Bool().Draw(g.t, "asint") && f == float64(int64(f)) && f > -(1<<53) && f < 1<<53 {
			return rs.Int(int64(f))
		}
		return rs.Float(genFloat(g.t, nil))
	case "nil":
		return rs.List(rs.Int(1))
	case "list":
		if rapid.Bool().Draw(g.t, "tonil") {
			return rs.Nil()
		}
		return rs.Vec(e.L...)
	case "vec":
		if len(e.L) > 0 && rapid.Bool().Draw(g.t, "tolist") {
			return rs.List(e.L...)
		}
		return rs.Vec(g.scalar())
	case "map":
		return g.mapVal(1)
	case "fun":
		return rs.Fun(rapid.SampledFrom(funPool).Draw(g.t, "sibfun"))
	case "bytes":
		return rs.Bytes(rapid.SampledFrom([]string{"", "true", "abc"}).Draw(g.t, "sibbytes"))
	case "tagged":
		return rs.Tagged(rapid.SampledFrom([]string{"tv", "tw"}).Draw(g.t, "sibtag"), g.sibling(e.L[0]))
	}
	return g.scalar()
}

// ofName draws a value the named type accepts; for bool occasionally the
// textual booleans (the known s:bool finding) so that sequences starting with
// one are explored as well.
func (g *sgen) ofName(name string) rs.Value {
	switch name {
	case "any":
		return g.value(1, "")
	case "bool":
		if rapid.IntRange(0, 5).Draw(g.t, "textbool") == 0 {
			return rs.Str(rapid.SampledFrom([]string{"true", "false"}).Draw(g.t, "tb"))
		}
	}
	return g.value(1, name)
}

// sequence builds 2-6 values: accepted ones, with (usually) one later element
// replaced by a sibling of an earlier element, or by a free value.
func (g *sgen) sequence(names []string) []rs.Value {
	n := rapid.IntRange(2, 6).Draw(g.t, "seqlen")
	out := make([]rs.Value, n)
	// long runs of one type are what a per-type shortcut would be written for
	run := rapid.SampledFrom(names).Draw(g.t, "runtype")
	for i := range out {
		name := run
		if rapid.IntRange(0, 2).Draw(g.t, "mixtype") == 0 {
			name = rapid.SampledFrom(names).Draw(g.t, "elemtype")
		}
		out[i] = g.ofName(name)
	}
	switch k := rapid.IntRange(0, 9).Draw(g.t, "seqkind"); {
	case k <= 5:
		i := rapid.IntRange(1, n-1).Draw(g.t, "at")
		j := rapid.IntRange(0, i-1).Draw(g.t, "like")
		out[i] = g.sibling(out[j])
	case k <= 7:
		out[rapid.IntRange(0, n-1).Draw(g.t, "at")] = g.value(1, "")
	case k == 8:
		// the offender first: order must not matter
		out[0] = g.sibling(out[n-1])
	}
	return out
}

func (g *sgen) nameRefs() ([]rs.Ref, []string) {
	n := rapid.IntRange(1, 3).Draw(g.t, "nnames")
	var refs []rs.Ref
	var names []string
	for i := 0; i < n; i++ {
		nm := rapid.SampledFrom(listTypeNames).Draw(g.t, "name")
		names = append(names, nm)
		r := rs.Ref{Kind: "name", Name: nm, Lit: rapid.IntRange(0, 2).Draw(g.t, "lit") == 0}
		// now and then the same type as an already built validator
		if rapid.IntRange(0, 7).Draw(g.t, "asvalidator") == 0 {
			r = rs.Ref{Kind: rapid.SampledFrom([]string{"inline", "defsym", "defval"}).Draw(g.t, "vkind"), Schema: &rs.Schema{Type: nm}}
		}
		refs = append(refs, r)
	}
	return refs, names
}

func genTypeLists() *rapid.Generator[Case] {
	return rapid.Custom(func(t *rapid.T) Case {
		g := &sgen{t: t}
		c := Case{Mode: rapid.SampledFrom([]string{"make", "deftype"}).Draw(t, "mode")}
		refs, names := g.nameRefs()
		lit := rapid.Bool().Draw(t, "lit")
		of := rs.Con{Op: "of", Refs: refs}
		switch rapid.IntRange(0, 5).Draw(t, "shape") {
		case 0, 1: // (s:deftype "vt" s:array (s:of names...))
			c.Schema = rs.Schema{Type: "array", Lit: lit, Cons: []rs.Con{of}}
			c.Input = rs.Vec(g.sequence(names)...)
		case 2: // under s:any, possibly with a length constraint beside it
			c.Schema = rs.Schema{Type: "any", Lit: lit, Cons: []rs.Con{of}}
			if rapid.Bool().Draw(t, "len") {
				n := rs.Int(rapid.Int64Range(0, 6).Draw(t, "n"))
				c.Schema.Cons = append(c.Schema.Cons, rs.Con{Op: "lenlte", Num: &n})
			}
			c.Input = rs.Vec(g.sequence(names)...)
		case 3: // nested: a map whose key holds the array (JSON legs apply)
			arr := rs.Schema{Type: "array", Cons: []rs.Con{of}}
			kind := rapid.SampledFrom([]string{"inline", "defsym", "defval"}).Draw(t, "vkind")
			c.Schema = rs.Schema{Type: "sorted-map", Lit: lit, Cons: []rs.Con{{Op: "has-key", Key: "flags", Refs: []rs.Ref{{Kind: kind, Schema: &arr}}}}}
			c.Input = rs.Map(rs.Entry{Key: "flags", V: rs.Vec(g.sequence(names)...)}, rs.Entry{Key: "n", V: rs.Int(1)})
		case 4: // (s:of (s:of names...)) on a vector of vectors
			outer := rs.Con{Op: "of", Refs: []rs.Ref{{Kind: "con", Con: &of}}}
			c.Schema = rs.Schema{Type: "array", Lit: lit, Cons: []rs.Con{outer}}
			c.Input = rs.Vec(rs.Vec(g.sequence(names)...), rs.Vec(g.sequence(names)...))
		default: // the same type list on several keys of one map
			seq := g.sequence(names)
			m := rs.Value{K: "map"}
			var cons []rs.Con
			var kcs []rs.Ref
			for i, v := range seq {
				key := symKeyPool[i%len(symKeyPool)]
				op := "has-key"
				if i%2 == 1 {
					op = "may-have-key"
				}
				kc := rs.Con{Op: op, Key: key, Refs: refs}
				cons = append(cons, kc)
				kcp := kc
				kcs = append(kcs, rs.Ref{Kind: "con", Con: &kcp})
				m.M = append(m.M, rs.Entry{Key: key, V: v})
			}
			if rapid.Bool().Draw(t, "closed") {
				cons = []rs.Con{{Op: "no-other-keys", Refs: kcs}}
			}
			c.Schema = rs.Schema{Type: "sorted-map", Lit: lit, Cons: cons}
			c.Input = m
		}
		return c
	})
}
