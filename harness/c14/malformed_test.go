package c14

import (
	"strings"

	rs "github.com/luthersystems/elps/verifharness/c14/refschema"
	"github.com/luthersystems/elps/verifharness/vcommon"
	"pgregory.net/rapid"
)

// MCase is a schema with exactly one malformed element.
//
//	Site: type | topcon | of | has-key | may-have-key | no-other-keys |
//	      when-guard | when-check | not | regexp-pattern | regexp-nonstring
type MCase struct {
	Schema rs.Schema  `json:"schema"`
	Mode   string     `json:"mode"`
	Site   string     `json:"site"`
	Bad    string     `json:"bad"`
	Path   []string   `json:"path"` // wrappers from the top validator down to the malformed element
	Inputs []rs.Value `json:"inputs"`
}

const (
	keyLazyBuild    = "malformed/top-level-non-constraint-accepted-at-build"
	keyLazyInverted = "malformed/lazy-non-constraint-inverted-to-pass"
	keyLazySkipped  = "malformed/lazy-non-constraint-unreached-pass"
)

// things that are not constraints and not type names
var badAnywhere = []string{"5", "2.5", `"nosuch"`, `"String"`, `""`, "(lambda (x) x)", "(lambda (&rest a) ())", "car", "()", "'nosuch", "(vector)", ":kw",
	"s:is-true", "s:gt", "(sorted-map)", "'(1 2)", `(to-bytes "int")`}

// additionally malformed in top-level constraint position, where only a
// constraint (not a type name) may stand
var badTopOnly = []string{`"int"`, "s:int", "s:string", `"any"`}

// an unknown / misspelt user-data type name after "tagged-value" (or as the type
// argument of the typedef form), and non-names in that slot
var badSubs = []string{`"strng"`, `"integer"`, `"String"`, `"nosuch"`, `""`, `"str"`, `"sorted_map"`, `"boolean"`, `"Int"`, `"tagged"`, `"array "`, `"map"`,
	"5", "(lambda (x) x)", "'nosuch", "()"}

var sites = []string{"type", "tagged-sub", "tagged-sub", "tagged-sub", "topcon", "topcon", "topcon", "of", "has-key", "may-have-key", "no-other-keys", "when-guard", "when-check", "not",
	"regexp-pattern", "regexp-nonstring"}

func (g *sgen) goodRefs(max int) []rs.Ref {
	n := rapid.IntRange(0, max).Draw(g.t, "ngood")
	out := make([]rs.Ref, 0, n)
	for i := 0; i < n; i++ {
		out = append(out, g.typeRef("any", 0))
	}
	return out
}

func insertRef(t *rapid.T, refs []rs.Ref, r rs.Ref, from int) []rs.Ref {
	i := rapid.IntRange(from, len(refs)).Draw(t, "at")
	out := append([]rs.Ref{}, refs[:i]...)
	out = append(out, r)
	return append(out, refs[i:]...)
}

func insertCon(t *rapid.T, cons []rs.Con, c rs.Con) []rs.Con {
	i := rapid.IntRange(0, len(cons)).Draw(t, "at")
	out := append([]rs.Con{}, cons[:i]...)
	out = append(out, c)
	return append(out, cons[i:]...)
}

// wrap puts r in an argument position of a fresh constraint of kind w.
func (g *sgen) wrap(w string, r rs.Ref) rs.Con {
	switch w {
	case "of":
		return rs.Con{Op: "of", Refs: insertRef(g.t, g.goodRefs(2), r, 0)}
	case "has-key", "may-have-key":
		return rs.Con{Op: w, Key: g.key(), Refs: insertRef(g.t, g.goodRefs(2), r, 0)}
	case "no-other-keys":
		var refs []rs.Ref
		for i := rapid.IntRange(0, 2).Draw(g.t, "nkeys"); i > 0; i-- {
			kc := rs.Con{Op: rapid.SampledFrom([]string{"has-key", "may-have-key"}).Draw(g.t, "kop"), Key: g.key(), Refs: g.goodRefs(1)}
			refs = append(refs, rs.Ref{Kind: "con", Con: &kc})
		}
		return rs.Con{Op: "no-other-keys", Refs: insertRef(g.t, refs, r, 0)}
	case "when-guard":
		return rs.Con{Op: "when", Key: g.key(), Key2: g.key(), Refs: append([]rs.Ref{r}, g.goodRefs(2)...)}
	case "when-check":
		guard := g.ref("any", 0)
		return rs.Con{Op: "when", Key: g.key(), Key2: g.key(), Refs: insertRef(g.t, append([]rs.Ref{guard}, g.goodRefs(2)...), r, 1)}
	case "not":
		return rs.Con{Op: "not", Refs: []rs.Ref{r}}
	case "validator":
		return rs.Con{Op: "validator", Refs: []rs.Ref{r}}
	}
	panic("wrap " + w)
}

// taggedTopcon builds a tagged-value schema with one malformed element in its
// constraint list.  Without a user-data type name the FIRST slot is the type
// slot for anything that evaluates to a string ("int" there is a well-formed
// schema, "nosuch" there is the tagged-sub site), so the malformed element is
// then kept behind at least one real constraint; with a user-data type name it
// may stand anywhere after it.
func (g *sgen) taggedTopcon(bad string) rs.Schema {
	t := g.t
	s := rs.Schema{Type: "tagged-value", Lit: rapid.Bool().Draw(t, "lit")}
	n := rapid.IntRange(0, 2).Draw(t, "ncons")
	if rapid.Bool().Draw(t, "withsub") {
		s.Sub = rapid.SampledFrom(baseTypes).Draw(t, "sub")
		s.Typedef = rapid.IntRange(0, 2).Draw(t, "typedef") == 0
	} else if n == 0 {
		n = 1
	}
	for i := 0; i < n; i++ {
		s.Cons = append(s.Cons, g.con("any", 0))
	}
	from := 0
	if s.Sub == "" {
		from = 1
	}
	at := rapid.IntRange(from, len(s.Cons)).Draw(t, "at")
	cons := append([]rs.Con{}, s.Cons[:at]...)
	cons = append(cons, rs.Con{Op: "bad", Bad: bad})
	s.Cons = append(cons, s.Cons[at:]...)
	return s
}

func genMalformed() *rapid.Generator[MCase] {
	return rapid.Custom(func(t *rapid.T) MCase {
		g := &sgen{t: t}
		site := rapid.SampledFrom(sites).Draw(t, "site")
		mc := MCase{Site: site, Mode: rapid.SampledFrom([]string{"make", "deftype"}).Draw(t, "mode")}
		var curCon *rs.Con
		var curSchema *rs.Schema
		taggedTop := false
		pool := badAnywhere
		switch site {
		case "topcon":
			pool = append(append([]string{}, badAnywhere...), badTopOnly...)
		case "regexp-pattern":
			pool = badPatPool
		case "tagged-sub":
			pool = badSubs
		case "regexp-nonstring":
			pool = []string{"5", "'sym", "()", "(vector \"a\")", "(lambda (x) x)", "true", "2.5"}
		}
		mc.Bad = rapid.SampledFrom(pool).Draw(t, "bad")
		bad := rs.Ref{Kind: "bad", Bad: mc.Bad}
		switch site {
		case "type":
			s := g.nested("any", 0)
			s.BadType = mc.Bad
			curSchema = &s
		case "tagged-sub":
			// (s:make-validator "n" s:tagged-value <bad> cons...) or, for the
			// top validator only, (s:make-validator tv <bad> cons...)
			s := rs.Schema{Type: "tagged-value", BadSub: mc.Bad, Lit: rapid.Bool().Draw(t, "lit"), Typedef: rapid.IntRange(0, 2).Draw(t, "typedef") == 0}
			for i := rapid.IntRange(0, 2).Draw(t, "ncons"); i > 0; i-- {
				s.Cons = append(s.Cons, g.con("any", 0))
			}
			curSchema = &s
		case "topcon":
			if rapid.IntRange(0, 3).Draw(t, "taggedtop") == 0 {
				// the constraint list of a TAGGED-VALUE schema, the one list in
				// which a string may legitimately stand (the user-data type name,
				// first slot only): nested() never yields tagged-value, so without
				// this the list after "tagged-value [type]" was never malformed
				// (anchor audit, mutant audit-c14-tagged-string-anywhere)
				s := g.taggedTopcon(mc.Bad)
				curSchema = &s
				taggedTop = true
				break
			}
			s := g.nested("any", 0)
			s.Cons = insertCon(t, s.Cons, rs.Con{Op: "bad", Bad: mc.Bad})
			curSchema = &s
		case "regexp-pattern":
			curCon = &rs.Con{Op: "regexp", Pat: mc.Bad, BadPat: true}
		case "regexp-nonstring":
			curCon = &rs.Con{Op: "regexp", Bad: mc.Bad}
		default:
			c := g.wrap(site, bad)
			curCon = &c
		}
		mc.Path = []string{site}
		if taggedTop {
			mc.Path = []string{"topcon/tagged"}
		}
		for layers := rapid.IntRange(0, 3).Draw(t, "layers"); layers > 0; layers-- {
			if curSchema != nil {
				w := rapid.SampledFrom([]string{"validator", "validator", "of", "has-key", "may-have-key", "when-guard", "when-check", "not", "not"}).Draw(t, "wrap")
				kinds := []string{"inline", "defval", "defsym"}
				if w == "validator" || w == "not" {
					kinds = kinds[:2]
				}
				kind := rapid.SampledFrom(kinds).Draw(t, "kind")
				c := g.wrap(w, rs.Ref{Kind: kind, Schema: curSchema})
				curCon, curSchema = &c, nil
				mc.Path = append([]string{w, kind}, mc.Path...)
				continue
			}
			w := rapid.SampledFrom([]string{"schema", "schema", "of", "has-key", "may-have-key", "when-guard", "when-check", "not", "no-other-keys", "no-other-keys"}).Draw(t, "wrap")
			if w == "no-other-keys" && curCon.Op != "has-key" && curCon.Op != "may-have-key" {
				w = "has-key" // no-other-keys is documented for key constraints only
			}
			if w == "schema" {
				s := g.nested("any", 0)
				s.Cons = insertCon(t, s.Cons, *curCon)
				curSchema, curCon = &s, nil
				mc.Path = append([]string{"schema"}, mc.Path...)
				continue
			}
			c := g.wrap(w, rs.Ref{Kind: "con", Con: curCon})
			curCon = &c
			mc.Path = append([]string{w}, mc.Path...)
		}
		if curSchema == nil {
			s := g.nested("any", 0)
			if rapid.Bool().Draw(t, "anytop") {
				s.Type = "any"
				s.Cons = nil
			}
			s.Cons = insertCon(t, s.Cons, *curCon)
			curSchema = &s
		}
		mc.Schema = *curSchema
		good := mc.Schema
		for i := 0; i < 2; i++ {
			mc.Inputs = append(mc.Inputs, g.input(&good))
		}
		mc.Inputs = append(mc.Inputs, g.value(2, ""))
		if site == "tagged-sub" || (len(mc.Path) > 0 && mc.Path[len(mc.Path)-1] == "topcon/tagged") {
			// the values a tagged-value validator actually looks into
			mc.Inputs = append(mc.Inputs, rs.Tagged("tv", g.scalar()), rs.Map(rs.Entry{Key: "a", V: rs.Tagged("tv", rs.Str("abc"))}, rs.Entry{Key: "b", V: rs.Int(1)}))
		}
		return mc
	})
}

func (mc *MCase) inverted() bool {
	for _, p := range mc.Path[:len(mc.Path)-1] {
		if p == "not" || p == "when-guard" {
			return true
		}
	}
	return false
}

func checkMalformed(mc MCase, ctx *vcommon.Ctx) *vcommon.Failure {
	rt := vcommon.NewRuntime(vcommon.Cfg{NoProbes: true})
	build := buildText(&mc.Schema, mc.Mode)
	show := strings.TrimPrefix(build, typedefs)
	ctx.Class("site/" + mc.Site)
	if mc.Path[len(mc.Path)-1] == "topcon/tagged" {
		ctx.Class("site/topcon-in-tagged-value-schema")
	}
	ctx.Class("mode/" + mc.Mode)
	if len(mc.Path) >= 2 {
		ctx.Class("nested-in/" + mc.Path[len(mc.Path)-2])
		ctx.NonTrivial(build)
		ctx.Note(show + " ; malformed element " + mc.Bad + " at " + strings.Join(mc.Path, ">"))
	}
	if mc.inverted() {
		ctx.Class("under-inverting-constraint")
	}
	bo := rt.Load(build)
	if bo.Panic {
		return vcommon.Failf("malformed/"+mc.Site+"/build-panics", "building a malformed schema (element %s at %s) panics: %s\n%s", mc.Bad, strings.Join(mc.Path, ">"), bo.Msg, show)
	}
	if bo.IsErr {
		if bo.Cond != "bad-arguments" {
			return vcommon.Failf("malformed/"+mc.Site+"/condition-"+bo.Cond, "malformed schema (element %s at %s) is rejected at construction with condition %s, not bad-arguments: %s\n%s",
				mc.Bad, strings.Join(mc.Path, ">"), bo.Cond, bo.Msg, show)
		}
		ctx.Class("rejected-at-build")
		return nil
	}
	// the malformed schema was built
	key := "malformed/" + mc.Site + "/accepted-at-build"
	if mc.Site == "topcon" {
		key = keyLazyBuild
	}
	first := vcommon.Failf(key, "malformed schema (element %s at %s) is accepted at construction\n%s", mc.Bad, strings.Join(mc.Path, ">"), show)
	if !ctx.Known(key) && !ctx.Replay {
		// enrich the message with what validation then does
		for _, in := range mc.Inputs {
			expr := lispValue(in, false)
			if io := rt.Load("(set 'inp " + expr + ")"); io.IsErr {
				continue
			}
			vo := rt.Load("(s:validate vt inp)")
			first.Msg += "\n(s:validate vt " + expr + ") => " + observe(vo).desc
		}
		return first
	}
	// known (or replaying): go on to what validation does with the schema
	ctx.Class("known/" + key)
	for _, in := range mc.Inputs {
		expr := lispValue(in, false)
		io := rt.Load("(set 'inp " + expr + ")")
		if io.IsErr {
			return vcommon.Failf("harness/input-eval", "input expression %s fails: %s %s", expr, io.Cond, io.Msg)
		}
		vo := rt.Load("(s:validate vt inp)")
		if vo.Panic {
			return vcommon.Failf("malformed/validate-panics", "validating %s against a malformed schema panics: %s\n%s", expr, vo.Msg, show)
		}
		if vo.IsErr {
			ctx.Class("lazy/validate-" + vo.Cond)
			continue
		}
		k2 := keyLazySkipped
		if mc.inverted() {
			k2 = keyLazyInverted
		}
		f := vcommon.Failf(k2, "a malformed schema (element %s at %s) validates %s successfully (%s)\n%s(s:validate vt %s)",
			mc.Bad, strings.Join(mc.Path, ">"), expr, vo.Text, show, expr)
		if !ctx.Known(k2) {
			return f
		}
		ctx.Class("known/" + k2)
	}
	return first
}
