package c14

import (
	rs "github.com/luthersystems/elps/verifharness/c14/refschema"
	"pgregory.net/rapid"
)

// ---------------------------------------------------------------- truthiness
//
// s:is-truthy / s:is-falsy / s:not of them over EVERY input kind, directly and
// on map values / array elements / tagged user data, incl. JSON null.

func (g *sgen) anyKind() rs.Value {
	return rapid.SampledFrom([]rs.Value{
		rs.Nil(), rs.Nil(), rs.List(rs.Int(1)), rs.List(rs.Nil()), rs.List(rs.Str("a"), rs.Sym("true")),
		rs.Fun("car"), rs.Fun("(lambda (x) x)"), rs.Fun("(s:make-validator \"f\" s:int)"),
		rs.Tagged("tv", rs.Int(1)), rs.Tagged("tw", rs.Nil()), rs.Tagged("tv", rs.Sym("true")),
		rs.Sym("true"), rs.Sym("false"), rs.Sym("foo"), rs.Sym(":kw"),
		rs.Str(""), rs.Str("false"), rs.Str("true"), rs.Str("a"), rs.Str("False"), rs.Str("FALSE"),
		rs.Int(0), rs.Int(1), rs.Int(-1), rs.Float(0), rs.Float(0.5), rs.Float(-0.5),
		rs.Vec(), rs.Vec(rs.Nil()), rs.Map(), rs.Map(rs.Entry{Key: "a", V: rs.Nil()}), rs.Bytes(""), rs.Bytes("a"),
	}).Draw(g.t, "anykind")
}

func (g *sgen) truthCon() rs.Con {
	leaf := func() rs.Con {
		return rs.Con{Op: rapid.SampledFrom([]string{"is-falsy", "is-falsy", "is-truthy"}).Draw(g.t, "tf")}
	}
	c := leaf()
	for n := rapid.IntRange(0, 2).Draw(g.t, "nots"); n > 0; n-- {
		inner := c
		c = rs.Con{Op: "not", Refs: []rs.Ref{{Kind: "con", Con: &inner}}}
	}
	return c
}

func genTruthiness() *rapid.Generator[Case] {
	return rapid.Custom(func(t *rapid.T) Case {
		g := &sgen{t: t}
		c := Case{Mode: rapid.SampledFrom([]string{"make", "deftype"}).Draw(t, "mode")}
		tc := g.truthCon()
		lit := rapid.Bool().Draw(t, "lit")
		switch rapid.IntRange(0, 6).Draw(t, "shape") {
		case 0, 1: // directly under s:any
			c.Schema = rs.Schema{Type: "any", Lit: lit, Cons: []rs.Con{tc}}
			if rapid.Bool().Draw(t, "two") {
				c.Schema.Cons = append(c.Schema.Cons, g.truthCon())
			}
			c.Input = g.anyKind()
		case 2: // on the value of a map key (JSON null reaches it through the JSON legs)
			op := rapid.SampledFrom([]string{"has-key", "may-have-key"}).Draw(t, "kop")
			c.Schema = rs.Schema{Type: "sorted-map", Lit: lit, Cons: []rs.Con{{Op: op, Key: "deleted", Refs: []rs.Ref{{Kind: "con", Con: &tc}}}}}
			v := g.anyKind()
			if rapid.Bool().Draw(t, "jsonable") {
				v = rapid.SampledFrom([]rs.Value{rs.Nil(), rs.Nil(), rs.Sym("false"), rs.Str(""), rs.Int(0), rs.Vec(), rs.Map(), rs.Vec(rs.Nil())}).Draw(t, "jv")
			}
			c.Input = rs.Map(rs.Entry{Key: "deleted", V: v}, rs.Entry{Key: "id", V: rs.Int(7)})
		case 3: // through a named nested validator ('unset)
			kind := rapid.SampledFrom([]string{"inline", "defsym", "defval"}).Draw(t, "vkind")
			un := rs.Schema{Type: "any", Cons: []rs.Con{tc}}
			c.Schema = rs.Schema{Type: "sorted-map", Lit: lit, Cons: []rs.Con{{Op: "has-key", Key: "deleted", Refs: []rs.Ref{{Kind: kind, Schema: &un}}}}}
			c.Input = rs.Map(rs.Entry{Key: "deleted", V: g.anyKind()})
		case 4: // on array elements
			c.Schema = rs.Schema{Type: "array", Lit: lit, Cons: []rs.Con{{Op: "of", Refs: []rs.Ref{{Kind: "con", Con: &tc}}}}}
			n := rapid.IntRange(1, 4).Draw(t, "n")
			v := rs.Value{K: "vec"}
			for i := 0; i < n; i++ {
				v.L = append(v.L, g.anyKind())
			}
			c.Input = v
		case 5: // on tagged user data / on the tagged value itself
			c.Schema = rs.Schema{Type: "tagged-value", Lit: lit, Cons: []rs.Con{tc}}
			if rapid.Bool().Draw(t, "typedef") {
				c.Schema.Typedef, c.Schema.Sub = true, "any"
			}
			c.Input = rs.Tagged("tv", g.anyKind())
		default: // as an s:when guard: a clause applies exactly when the guard holds
			n := rs.Int(100)
			c.Schema = rs.Schema{Type: "sorted-map", Lit: lit, Cons: []rs.Con{{Op: "when", Key: "flag", Key2: "n",
				Refs: []rs.Ref{{Kind: "con", Con: &tc}, {Kind: "con", Con: &rs.Con{Op: "gt", Num: &n}}}}}}
			c.Input = rs.Map(rs.Entry{Key: "flag", V: g.anyKind()}, rs.Entry{Key: "n", V: rs.Int(rapid.SampledFrom([]int64{1, 101}).Draw(t, "n"))})
		}
		return c
	})
}

// ---------------------------------------------------------------- scoped
//
// Schemas constructed inside a let / inside a function whose parameter is a
// validator, naming that LOCAL validator by quoted symbol ('x1), with and
// without a different GLOBAL deftype of the same name.  The quoted name means
// what the bare symbol means where the schema is written.

func (g *sgen) localRef() rs.Ref {
	// the local validator is strict: a base type plus at least one constraint
	types := []string{"int", "number", "string", "array", "sorted-map", "float"}
	ty := rapid.SampledFrom(types).Draw(g.t, "ltype")
	local := rs.Schema{Type: ty, Lit: rapid.Bool().Draw(g.t, "lit")}
	for n := rapid.IntRange(1, 2).Draw(g.t, "ncons"); n > 0; n-- {
		local.Cons = append(local.Cons, g.con(ty, 0))
	}
	r := rs.Ref{Kind: rapid.SampledFrom([]string{"letsym", "paramsym"}).Draw(g.t, "scope"), Schema: &local}
	switch rapid.IntRange(0, 3).Draw(g.t, "decoy") {
	case 0: // no global of that name
	case 1: // a looser global: same type, no constraints
		r.Decoy = &rs.Schema{Type: ty}
	case 2:
		r.Decoy = &rs.Schema{Type: "any"}
	default: // an unrelated global
		d := g.nested("any", 0)
		r.Decoy = &d
	}
	return r
}

func genScoped() *rapid.Generator[Case] {
	return rapid.Custom(func(t *rapid.T) Case {
		g := &sgen{t: t}
		c := Case{Mode: rapid.SampledFrom([]string{"make", "deftype"}).Draw(t, "mode")}
		lr := g.localRef()
		refs := []rs.Ref{lr}
		if rapid.IntRange(0, 3).Draw(t, "alts") == 0 {
			refs = insertRef(t, g.goodRefs(1), lr, 0)
		}
		lit := rapid.Bool().Draw(t, "lit")
		var top rs.Schema
		switch rapid.IntRange(0, 5).Draw(t, "shape") {
		case 0, 1:
			top = rs.Schema{Type: "array", Lit: lit, Cons: []rs.Con{{Op: "of", Refs: refs}}}
		case 2:
			op := rapid.SampledFrom([]string{"has-key", "may-have-key"}).Draw(t, "kop")
			top = rs.Schema{Type: "sorted-map", Lit: lit, Cons: []rs.Con{{Op: op, Key: "total", Refs: refs}}}
		case 3:
			kc := rs.Con{Op: "has-key", Key: "total", Refs: refs}
			top = rs.Schema{Type: "sorted-map", Lit: lit, Cons: []rs.Con{{Op: "no-other-keys", Refs: []rs.Ref{{Kind: "con", Con: &kc}}}}}
		case 4: // guard or check of s:when
			other := g.typeRef("any", 0)
			wr := []rs.Ref{lr, other}
			if rapid.Bool().Draw(t, "ascheck") {
				wr = []rs.Ref{other, lr}
			}
			top = rs.Schema{Type: "sorted-map", Lit: lit, Cons: []rs.Con{{Op: "when", Key: "a", Key2: "total", Refs: wr}}}
		default: // one level further in: inside an inline validator built in the same scope
			inner := rs.Schema{Type: "array", Cons: []rs.Con{{Op: "of", Refs: refs}}}
			top = rs.Schema{Type: "sorted-map", Lit: lit, Cons: []rs.Con{{Op: "has-key", Key: "total", Refs: []rs.Ref{{Kind: "inline", Schema: &inner}}}}}
		}
		if rapid.IntRange(0, 2).Draw(t, "sibling") == 0 {
			top.Cons = append(top.Cons, g.con(top.Type, 0))
		}
		c.Schema = top
		c.Input = g.aimed(&c.Schema)
		return c
	})
}
