package c14

import (
	"math"
	"strings"

	rs "github.com/luthersystems/elps/verifharness/c14/refschema"
	"pgregory.net/rapid"
)

// ---------------------------------------------------------------- pools

var keyPool = []string{"a", "b", "c", "id", "name", "k-1", "age", "A b", "", "é", "true", "x.y"}
var symKeyPool = []string{"a", "b", "c", "id", "name", "k-1", "age"}

// "False" / "FALSE" / "TRUE": the textual booleans in another case are ordinary
// non-empty strings (truthy, not of type bool); see NOTES.md "Anchor audit"
var strPool = []string{"", "a", "b", "abc", "ABC", "12", "true", "false", "False", "FALSE", "TRUE", "é", "a b", "0", "aaaa", "Hello mum", "x\ny", "q\"uote", "back\\slash", "日本", "abcdefghij"}

var patPool = []string{"^a", "b$", "^[0-9]+$", "a|b", ".", "", "^$", "(?i)abc", "\\d{2,}", "^.{3}$", "é", "[^a]", "^(true|false)$", "^\\pL+$", "a*", "(?s)^.*$"}

var badPatPool = []string{"(", ")", "*", "[a", "a{2,1}", "\\", "(?<", "a(b", "[z-a]", "(?P<n>", "\\8", "x{1001}"}

var intPool = []int64{0, 1, -1, 2, 3, 4, 5, 10, 18, 100, -5, 255, 1 << 31, 1 << 53, (1 << 53) + 1, (1 << 53) - 1, -(1 << 53), -(1 << 53) - 1,
	math.MaxInt64, math.MinInt64, math.MaxInt64 - 1, math.MinInt64 + 1}

var floatPool = []float64{0, math.Copysign(0, -1), 0.5, -0.5, 1, 1.5, 2, 2.5, 4.000000000000001, 3.9999999999999996, 18, 17.999, 100, 1e21, -1e21, 5e-324, -5e-324,
	9007199254740992, 9007199254740994, 9223372036854775807, -9223372036854775808, math.MaxFloat64, -math.MaxFloat64, 91.3, -91.3, 1e-7, 0.1}

var lenPool = []int64{0, 1, 2, 3, 4, 5, 8, -1, 10, math.MaxInt64, math.MinInt64}

var funPool = []string{"(lambda (x) x)", "car", "(s:make-validator \"f\" s:int)", "s:validate", "(lambda () 1)"}

var symPool = []string{"true", "false", "foo", ":kw", "nil-ish", "string", "False"}

// ---------------------------------------------------------------- numbers

func genInt(t *rapid.T, near []rs.Value) int64 {
	switch rapid.IntRange(0, 5).Draw(t, "ik") {
	case 0:
		return rapid.Int64().Draw(t, "i")
	case 1, 2:
		return rapid.SampledFrom(intPool).Draw(t, "i")
	case 3:
		if len(near) > 0 {
			b := rapid.SampledFrom(near).Draw(t, "near")
			d := rapid.Int64Range(-1, 1).Draw(t, "d")
			if b.K == "int" {
				return b.I + d // wraps at the ends, harmless
			}
			f := b.F()
			if math.Abs(f) < 1e18 {
				return int64(math.Trunc(f)) + d
			}
		}
		fallthrough
	default:
		return rapid.Int64Range(-6, 20).Draw(t, "i")
	}
}

func genFloat(t *rapid.T, near []rs.Value) float64 {
	switch rapid.IntRange(0, 5).Draw(t, "fk") {
	case 0:
		for {
			f := math.Float64frombits(rapid.Uint64().Draw(t, "bits"))
			if !math.IsNaN(f) && !math.IsInf(f, 0) {
				return f
			}
		}
	case 1, 2:
		return rapid.SampledFrom(floatPool).Draw(t, "f")
	case 3:
		if len(near) > 0 {
			b := rapid.SampledFrom(near).Draw(t, "near")
			f := b.F()
			if b.K == "int" {
				f = float64(b.I)
			}
			switch rapid.IntRange(-1, 1).Draw(t, "ulp") {
			case -1:
				f = math.Nextafter(f, math.Inf(-1))
			case 1:
				f = math.Nextafter(f, math.Inf(1))
			}
			if !math.IsInf(f, 0) {
				return f
			}
		}
		fallthrough
	default:
		return float64(rapid.Int64Range(-40, 80).Draw(t, "q")) / 4
	}
}

func genNum(t *rapid.T, near []rs.Value) rs.Value {
	if rapid.Bool().Draw(t, "isint") {
		return rs.Int(genInt(t, near))
	}
	return rs.Float(genFloat(t, near))
}

func genStr(t *rapid.T, pool []string) string {
	switch rapid.IntRange(0, 5).Draw(t, "sk") {
	case 0:
		n := rapid.IntRange(0, 9).Draw(t, "n")
		b := make([]rune, n)
		for i := range b {
			b[i] = rapid.SampledFrom([]rune("abAB019 é-_.:")).Draw(t, "r")
		}
		return string(b)
	case 1, 2:
		if len(pool) > 0 {
			return rapid.SampledFrom(pool).Draw(t, "s")
		}
		fallthrough
	default:
		return rapid.SampledFrom(strPool).Draw(t, "s")
	}
}

// ---------------------------------------------------------------- schemas

type sgen struct {
	t *rapid.T
	// pools collected from the schema, used to aim input values at boundaries
	nums    []rs.Value
	strs    []string
	keys    []string
	lens    []int64
	jsonish bool // prefer map schemas and string-keyed content
}

var conOps = map[string][]string{
	"string":     {"in", "len", "lengt", "lengte", "lenlt", "lenlte", "regexp", "not", "is-truthy", "is-falsy", "validator"},
	"int":        {"gt", "gte", "lt", "lte", "positive", "negative", "in", "not", "is-truthy", "is-falsy", "validator"},
	"float":      {"gt", "gte", "lt", "lte", "positive", "negative", "in", "not", "is-truthy", "is-falsy"},
	"number":     {"gt", "gte", "lt", "lte", "positive", "negative", "in", "not", "is-truthy", "is-falsy", "validator"},
	"array":      {"len", "lengt", "lengte", "lenlt", "lenlte", "of", "of", "not", "is-truthy", "is-falsy", "validator"},
	"sorted-map": {"has-key", "has-key", "may-have-key", "may-have-key", "no-other-keys", "no-other-keys", "when", "when", "not", "is-truthy", "validator"},
	"bool":       {"is-true", "is-false", "in", "not", "is-truthy", "is-falsy"},
	"fun":        {"not", "is-truthy", "is-falsy", "in"},
}

var allOps = []string{"in", "gt", "gte", "lt", "lte", "positive", "negative", "len", "lengt", "lengte", "lenlt", "lenlte", "of", "has-key",
	"may-have-key", "no-other-keys", "when", "not", "is-true", "is-false", "is-truthy", "is-falsy", "regexp", "validator"}

var baseTypes = []string{"string", "number", "int", "float", "fun", "sorted-map", "array", "bool", "any"}

func (g *sgen) typeName() string {
	if g.jsonish {
		return rapid.SampledFrom([]string{"sorted-map", "sorted-map", "sorted-map", "any", "string", "number", "int", "float", "array", "bool"}).Draw(g.t, "type")
	}
	return rapid.SampledFrom([]string{"string", "number", "int", "float", "fun", "sorted-map", "sorted-map", "array", "array", "bool", "any", "any"}).Draw(g.t, "type")
}

// subject is the type the constraints will most likely be applied to ("any"
// when unknown); it only steers the choice of constraints.
func (g *sgen) schema(depth int, top bool) rs.Schema {
	s := rs.Schema{Lit: rapid.IntRange(0, 3).Draw(g.t, "lit") == 0}
	subject := ""
	if top && !g.jsonish && rapid.IntRange(0, 9).Draw(g.t, "tagged") == 0 {
		s.Type = "tagged-value"
		switch rapid.IntRange(0, 3).Draw(g.t, "tform") {
		case 0:
			s.Typedef = true
			s.Sub = rapid.SampledFrom(baseTypes).Draw(g.t, "sub")
		case 1:
			// no subtype: constraints apply to the user data directly
		default:
			s.Sub = rapid.SampledFrom(baseTypes).Draw(g.t, "sub")
		}
		subject = s.Sub
	} else {
		s.Type = g.typeName()
		subject = s.Type
	}
	if subject == "" {
		subject = "any"
	}
	max := 3
	if depth <= 1 {
		max = 2
	}
	n := rapid.IntRange(0, max).Draw(g.t, "ncons")
	if top && n == 0 && rapid.Bool().Draw(g.t, "more") {
		n = 1
	}
	for i := 0; i < n; i++ {
		s.Cons = append(s.Cons, g.con(subject, depth))
	}
	return s
}

func (g *sgen) pickOp(subject string, depth int) string {
	ops := conOps[subject]
	if len(ops) == 0 || rapid.IntRange(0, 5).Draw(g.t, "anyop") == 0 {
		ops = allOps
	}
	for tries := 0; ; tries++ {
		op := rapid.SampledFrom(ops).Draw(g.t, "op")
		if depth <= 0 {
			switch op {
			case "of", "has-key", "may-have-key", "no-other-keys", "when", "not", "validator":
				if tries < 8 {
					continue
				}
				return "is-truthy"
			}
		}
		return op
	}
}

func (g *sgen) key() string {
	pool := keyPool
	if rapid.IntRange(0, 2).Draw(g.t, "symkeys") > 0 {
		pool = symKeyPool
	}
	k := rapid.SampledFrom(pool).Draw(g.t, "key")
	g.keys = append(g.keys, k)
	return k
}

func (g *sgen) inVals(subject string) []rs.Value {
	n := rapid.IntRange(0, 4).Draw(g.t, "nvals")
	out := make([]rs.Value, 0, n)
	for i := 0; i < n; i++ {
		k := subject
		if rapid.IntRange(0, 4).Draw(g.t, "mix") == 0 {
			k = "any"
		}
		var v rs.Value
		switch k {
		case "string":
			v = rs.Str(genStr(g.t, nil))
		case "int", "float", "number":
			v = genNum(g.t, g.nums)
		case "bool":
			v = rs.Sym(rapid.SampledFrom([]string{"true", "false"}).Draw(g.t, "b"))
		default:
			switch rapid.IntRange(0, 5).Draw(g.t, "vk") {
			case 0:
				v = rs.Str(genStr(g.t, nil))
			case 1:
				v = genNum(g.t, g.nums)
			case 2:
				v = rs.Sym(rapid.SampledFrom(symPool).Draw(g.t, "sym"))
			case 3:
				v = rs.Nil()
			case 4:
				v = rs.Vec(genNum(g.t, nil))
			default:
				v = rs.Str(rapid.SampledFrom([]string{"true", "false"}).Draw(g.t, "bs"))
			}
		}
		switch v.K {
		case "str":
			g.strs = append(g.strs, v.S)
		case "int", "float":
			g.nums = append(g.nums, v)
		}
		out = append(out, v)
	}
	return out
}

func (g *sgen) con(subject string, depth int) rs.Con {
	op := g.pickOp(subject, depth)
	c := rs.Con{Op: op}
	switch op {
	case "in":
		c.Vals = g.inVals(subject)
	case "gt", "gte", "lt", "lte":
		n := genNum(g.t, g.nums)
		c.Num = &n
		g.nums = append(g.nums, n)
	case "len", "lengt", "lengte", "lenlt", "lenlte":
		n := rs.Int(rapid.SampledFrom(lenPool).Draw(g.t, "len"))
		if rapid.IntRange(0, 3).Draw(g.t, "lk") == 0 {
			n = rs.Int(rapid.Int64Range(0, 12).Draw(g.t, "len"))
		}
		c.Num = &n
		g.lens = append(g.lens, n.I)
	case "regexp":
		c.Pat = rapid.SampledFrom(patPool).Draw(g.t, "pat")
	case "of":
		n := rapid.IntRange(0, 3).Draw(g.t, "nrefs")
		if n == 0 && rapid.Bool().Draw(g.t, "more") {
			n = 1
		}
		for i := 0; i < n; i++ {
			c.Refs = append(c.Refs, g.typeRef("any", depth-1))
		}
	case "has-key", "may-have-key":
		c.Key = g.key()
		// no allowed types at all is legal (README) but hits a known finding
		// on every present key, so it is kept rare
		n := rapid.IntRange(0, 3).Draw(g.t, "nrefs")
		if n == 0 && rapid.IntRange(0, 5).Draw(g.t, "more") > 0 {
			n = 1
		}
		for i := 0; i < n; i++ {
			c.Refs = append(c.Refs, g.typeRef("any", depth-1))
		}
	case "no-other-keys":
		n := rapid.IntRange(0, 3).Draw(g.t, "nkeys")
		for i := 0; i < n; i++ {
			kop := rapid.SampledFrom([]string{"has-key", "may-have-key"}).Draw(g.t, "kop")
			kc := rs.Con{Op: kop, Key: g.key()}
			m := rapid.IntRange(0, 2).Draw(g.t, "nrefs")
			if m == 0 && rapid.IntRange(0, 3).Draw(g.t, "more") > 0 {
				m = 1
			}
			for j := 0; j < m; j++ {
				kc.Refs = append(kc.Refs, g.typeRef("any", depth-2))
			}
			c.Refs = append(c.Refs, rs.Ref{Kind: "con", Con: &kc})
		}
	case "when":
		c.Key = g.key()
		c.Key2 = g.key()
		c.Refs = append(c.Refs, g.ref("any", depth-1))
		n := rapid.IntRange(0, 2).Draw(g.t, "nchecks")
		if n == 0 && rapid.Bool().Draw(g.t, "more") {
			n = 1
		}
		for i := 0; i < n; i++ {
			c.Refs = append(c.Refs, g.ref("any", depth-1))
		}
	case "not":
		// s:not takes a constraint (or an already built validator), never a
		// bare type name
		r := g.ref(subject, depth-1)
		for r.Kind == "name" || r.Kind == "defsym" {
			r = g.ref(subject, depth-1)
		}
		c.Refs = []rs.Ref{r}
	case "validator":
		kind := rapid.SampledFrom([]string{"inline", "defval"}).Draw(g.t, "vkind")
		sub := g.nested(subject, depth-1)
		c.Refs = []rs.Ref{{Kind: kind, Schema: &sub}}
	}
	return c
}

// nested builds a nested validator declaration whose base type is mostly the
// subject's (so that it can succeed).
func (g *sgen) nested(subject string, depth int) rs.Schema {
	s := rs.Schema{Lit: rapid.IntRange(0, 3).Draw(g.t, "lit") == 0}
	if subject != "any" && subject != "" && rapid.IntRange(0, 3).Draw(g.t, "sametype") > 0 {
		s.Type = subject
	} else {
		s.Type = g.typeName()
	}
	n := rapid.IntRange(0, 2).Draw(g.t, "ncons")
	if depth < 0 {
		n = 0
	}
	for i := 0; i < n; i++ {
		s.Cons = append(s.Cons, g.con(s.Type, depth))
	}
	return s
}

// typeRef is ref for the positions the docs call "allowed types" (s:of,
// s:has-key, s:may-have-key): a key constraint standing directly there is
// outside the documented domain (see NOTES.md) and is not generated.
func (g *sgen) typeRef(subject string, depth int) rs.Ref {
	for {
		r := g.ref(subject, depth)
		if r.Kind == "con" && (r.Con.Op == "has-key" || r.Con.Op == "may-have-key") {
			continue
		}
		return r
	}
}

func (g *sgen) ref(subject string, depth int) rs.Ref {
	k := rapid.IntRange(0, 9).Draw(g.t, "refkind")
	switch {
	case k <= 3 || depth < 0:
		return rs.Ref{Kind: "name", Name: g.typeName(), Lit: rapid.IntRange(0, 3).Draw(g.t, "lit") == 0}
	case k <= 6:
		s := subject
		if s == "any" {
			s = g.typeName()
		}
		c := g.con(s, depth)
		return rs.Ref{Kind: "con", Con: &c}
	default:
		kind := rapid.SampledFrom([]string{"inline", "defsym", "defval"}).Draw(g.t, "vkind")
		sub := g.nested(subject, depth)
		return rs.Ref{Kind: kind, Schema: &sub}
	}
}

// ---------------------------------------------------------------- values

func (g *sgen) scalar() rs.Value {
	switch rapid.IntRange(0, 9).Draw(g.t, "scalar") {
	case 0, 1:
		return rs.Int(genInt(g.t, g.nums))
	case 2, 3:
		return rs.Float(genFloat(g.t, g.nums))
	case 4, 5, 6:
		return rs.Str(genStr(g.t, g.strs))
	case 7:
		return rs.Sym(rapid.SampledFrom([]string{"true", "false"}).Draw(g.t, "b"))
	case 8:
		return rs.Nil()
	default:
		if g.jsonish {
			return rs.Str(rapid.SampledFrom([]string{"true", "false", ""}).Draw(g.t, "bs"))
		}
		return rs.Sym(rapid.SampledFrom(symPool).Draw(g.t, "sym"))
	}
}

func (g *sgen) vecLen() int {
	if len(g.lens) > 0 && rapid.Bool().Draw(g.t, "nearlen") {
		l := rapid.SampledFrom(g.lens).Draw(g.t, "l") + rapid.Int64Range(-1, 1).Draw(g.t, "d")
		if l >= 0 && l <= 12 {
			return int(l)
		}
	}
	return rapid.IntRange(0, 4).Draw(g.t, "vlen")
}

func (g *sgen) mapVal(depth int) rs.Value {
	n := rapid.IntRange(0, 4).Draw(g.t, "mlen")
	m := rs.Value{K: "map"}
	seen := map[string]bool{}
	for i := 0; i < n; i++ {
		var k string
		if len(g.keys) > 0 && rapid.IntRange(0, 3).Draw(g.t, "schemakey") > 0 {
			k = rapid.SampledFrom(g.keys).Draw(g.t, "key")
		} else if rapid.IntRange(0, 2).Draw(g.t, "symkeys") > 0 {
			k = rapid.SampledFrom(symKeyPool).Draw(g.t, "key")
		} else {
			k = rapid.SampledFrom(keyPool).Draw(g.t, "key")
		}
		if seen[k] {
			continue
		}
		seen[k] = true
		m.M = append(m.M, rs.Entry{Key: k, V: g.value(depth-1, "")})
	}
	return m
}

// value draws a model value; kind "" means any kind.
func (g *sgen) value(depth int, kind string) rs.Value {
	if kind == "" {
		k := rapid.IntRange(0, 19).Draw(g.t, "vkind")
		switch {
		case k <= 8 || depth <= 0:
			return g.scalar()
		case k <= 11:
			kind = "array"
		case k <= 15:
			kind = "sorted-map"
		case k <= 17:
			if g.jsonish {
				return g.scalar()
			}
			kind = rapid.SampledFrom([]string{"fun", "bytes", "list", "tagged-value"}).Draw(g.t, "odd")
		default:
			return g.scalar()
		}
	}
	switch kind {
	case "string":
		return rs.Str(genStr(g.t, g.strs))
	case "int":
		return rs.Int(genInt(g.t, g.nums))
	case "float":
		return rs.Float(genFloat(g.t, g.nums))
	case "number":
		return genNum(g.t, g.nums)
	case "bool":
		return rs.Sym(rapid.SampledFrom([]string{"true", "false"}).Draw(g.t, "b"))
	case "fun":
		return rs.Fun(rapid.SampledFrom(funPool).Draw(g.t, "fun"))
	case "bytes":
		return rs.Bytes(rapid.SampledFrom([]string{"", "abc", "a"}).Draw(g.t, "bytes"))
	case "list":
		n := rapid.IntRange(0, 3).Draw(g.t, "llen")
		l := make([]rs.Value, n)
		for i := range l {
			l[i] = g.scalar()
		}
		return rs.List(l...)
	case "array":
		n := g.vecLen()
		v := rs.Value{K: "vec", L: make([]rs.Value, n)}
		// homogeneous arrays are the interesting ones for s:of
		homo := rapid.SampledFrom([]string{"", "", "string", "int", "number", "sorted-map"}).Draw(g.t, "elemkind")
		for i := range v.L {
			if homo != "" && rapid.IntRange(0, 5).Draw(g.t, "stray") > 0 {
				v.L[i] = g.value(depth-1, homo)
			} else {
				v.L[i] = g.value(depth-1, "")
			}
		}
		return v
	case "sorted-map":
		return g.mapVal(depth)
	case "tagged-value":
		return rs.Tagged(rapid.SampledFrom([]string{"tv", "tw"}).Draw(g.t, "tag"), g.value(depth-1, ""))
	}
	return g.scalar()
}

// input draws a value aimed at the schema: mostly of the declared type.
func (g *sgen) input(s *rs.Schema) rs.Value {
	aim := rapid.IntRange(0, 9).Draw(g.t, "aim")
	if aim <= 6 {
		t := s.Type
		if t == "tagged-value" {
			inner := s.Sub
			if inner == "" || inner == "any" {
				inner = ""
			}
			return rs.Tagged(rapid.SampledFrom([]string{"tv", "tv", "tw"}).Draw(g.t, "tag"), g.value(3, inner))
		}
		if t == "any" {
			t = ""
			// aim at what the constraints talk about
			for i := range s.Cons {
				switch s.Cons[i].Op {
				case "has-key", "may-have-key", "no-other-keys", "when":
					t = "sorted-map"
				case "of":
					t = "array"
				}
			}
		}
		return g.value(3, t)
	}
	if aim == 7 {
		return g.nearMiss()
	}
	return g.value(3, "")
}

// nearMiss: the two textual booleans, empty containers, values of the kinds
// random generation rarely produces.
func (g *sgen) nearMiss() rs.Value {
	return rapid.SampledFrom([]rs.Value{rs.Str("true"), rs.Str("false"), rs.Nil(), rs.Int(0), rs.Float(0), rs.Str(""),
		rs.Vec(), rs.Map(), rs.Bytes(""), rs.Bytes("abc"), rs.List(rs.Int(1), rs.Int(2)), rs.Sym("foo"), rs.Sym(":kw"),
		rs.Fun("car"), rs.Tagged("tw", rs.Nil()), rs.Float(math.Copysign(0, -1)), rs.Vec(rs.Nil()), rs.Map(rs.Entry{Key: "a", V: rs.Nil()})}).Draw(g.t, "nearmiss")
}

// ---------------------------------------------------------------- aimed inputs
//
// Random values almost never satisfy a structured schema, and the accepting
// direction is the one the property is about, so inputs are mostly built *from*
// the schema (best effort; the reference, not the builder, decides what is
// expected) and then optionally damaged in one place.

func (g *sgen) satisfy(s *rs.Schema, depth int) rs.Value {
	if depth < 0 {
		return g.scalar()
	}
	t := s.Type
	cons := s.Cons
	if t == "tagged-value" {
		inner := rs.Schema{Type: s.Sub, Cons: s.Cons}
		if s.Sub == "" {
			inner.Type = "any"
		}
		return rs.Tagged(rapid.SampledFrom([]string{"tv", "tv", "tw"}).Draw(g.t, "tag"), g.satisfy(&inner, depth-1))
	}
	if t == "any" {
		// let the constraints say what kind of value they are about
		for i := range cons {
			switch cons[i].Op {
			case "has-key", "may-have-key", "no-other-keys", "when":
				t = "sorted-map"
			case "of":
				t = "array"
			case "regexp":
				t = "string"
			case "gt", "gte", "lt", "lte", "positive", "negative":
				t = "number"
			case "is-true", "is-false":
				t = "bool"
			case "validator":
				if sc := cons[i].Refs[0].Schema; sc != nil && t == "any" {
					t = sc.Type
				}
			}
		}
	}
	switch t {
	case "sorted-map":
		m := rs.Value{K: "map"}
		closed := g.fillMap(&m, cons, depth)
		if !closed {
			for i := rapid.IntRange(0, 2).Draw(g.t, "extra"); i > 0; i-- {
				setKey(&m, rapid.SampledFrom(symKeyPool).Draw(g.t, "xkey"), g.value(depth-1, ""), false)
			}
		}
		return m
	case "array":
		n := g.vecLen()
		var elem []rs.Ref
		for i := range cons {
			switch cons[i].Op {
			case "len", "lengte", "lenlte":
				if l := cons[i].Num.I; l >= 0 && l <= 12 {
					n = int(l)
				}
			case "lengt":
				if l := cons[i].Num.I; l >= -1 && l <= 11 {
					n = int(l) + 1
				}
			case "lenlt":
				if l := cons[i].Num.I; l >= 1 && l <= 12 {
					n = int(l) - 1
				}
			case "of":
				elem = cons[i].Refs
			}
		}
		v := rs.Value{K: "vec", L: make([]rs.Value, n)}
		for i := range v.L {
			if len(elem) > 0 {
				v.L[i] = g.valueFor(elem, depth-1)
			} else {
				v.L[i] = g.value(depth-1, "")
			}
		}
		return v
	}
	// scalar kinds: propose what each constraint suggests, or a value of the type
	if len(cons) > 0 && rapid.IntRange(0, 4).Draw(g.t, "fromcon") > 0 {
		c := &cons[rapid.IntRange(0, len(cons)-1).Draw(g.t, "which")]
		if v, ok := g.forCon(c, t, depth); ok {
			return v
		}
	}
	if t == "any" {
		t = ""
	}
	return g.value(depth, t)
}

func setKey(m *rs.Value, k string, v rs.Value, overwrite bool) {
	for i := range m.M {
		if m.M[i].Key == k {
			if overwrite {
				m.M[i].V = v
			}
			return
		}
	}
	m.M = append(m.M, rs.Entry{Key: k, V: v})
}

// fillMap adds the entries the constraints ask for; it reports whether the map
// is closed by a no-other-keys constraint.
func (g *sgen) fillMap(m *rs.Value, cons []rs.Con, depth int) (closed bool) {
	for i := range cons {
		c := &cons[i]
		switch c.Op {
		case "has-key":
			setKey(m, c.Key, g.valueFor(c.Refs, depth-1), false)
		case "may-have-key":
			if rapid.Bool().Draw(g.t, "opt") {
				setKey(m, c.Key, g.valueFor(c.Refs, depth-1), false)
			}
		case "no-other-keys":
			closed = true
			for j := range c.Refs {
				if c.Refs[j].Con != nil {
					g.fillMap(m, []rs.Con{*c.Refs[j].Con}, depth)
				}
			}
		case "when":
			switch rapid.IntRange(0, 2).Draw(g.t, "when") {
			case 0: // guard satisfied and checks satisfied
				setKey(m, c.Key, g.valueFor(c.Refs[:1], depth-1), false)
				if len(c.Refs) > 1 {
					setKey(m, c.Key2, g.valueFor(c.Refs[1:2], depth-1), false)
				}
			case 1: // guard satisfied, checked value arbitrary
				setKey(m, c.Key, g.valueFor(c.Refs[:1], depth-1), false)
				setKey(m, c.Key2, g.value(depth-1, ""), false)
			}
		case "validator":
			if sc := c.Refs[0].Schema; sc != nil && (sc.Type == "sorted-map" || sc.Type == "any") {
				if g.fillMap(m, sc.Cons, depth) {
					closed = true
				}
			}
		}
	}
	return closed
}

// valueFor builds a value aimed at one of the allowed types.
func (g *sgen) valueFor(refs []rs.Ref, depth int) rs.Value {
	if len(refs) == 0 || depth < 0 {
		return g.value(depth, "")
	}
	r := &refs[rapid.IntRange(0, len(refs)-1).Draw(g.t, "alt")]
	switch r.Kind {
	case "name":
		t := r.Name
		if t == "any" {
			t = ""
		}
		return g.value(depth, t)
	case "con":
		if v, ok := g.forCon(r.Con, "any", depth); ok {
			return v
		}
		return g.value(depth, "")
	default:
		return g.satisfy(r.Schema, depth)
	}
}

// forCon proposes a value satisfying a single constraint.
func (g *sgen) forCon(c *rs.Con, t string, depth int) (rs.Value, bool) {
	switch c.Op {
	case "in":
		if len(c.Vals) > 0 {
			return rapid.SampledFrom(c.Vals).Draw(g.t, "inval"), true
		}
	case "gt", "gte", "lt", "lte":
		d := int64(1)
		if c.Op == "lt" || c.Op == "lte" {
			d = -1
		}
		if rapid.IntRange(0, 2).Draw(g.t, "edge") == 0 {
			d = 0
		}
		n := *c.Num
		if t == "float" || (t != "int" && n.K == "float") {
			f := n.F()
			if n.K == "int" {
				f = float64(n.I)
			}
			switch d {
			case 1:
				f = math.Nextafter(f, math.Inf(1))
			case -1:
				f = math.Nextafter(f, math.Inf(-1))
			}
			if math.IsInf(f, 0) {
				return rs.Value{}, false
			}
			return rs.Float(f), true
		}
		if n.K == "int" {
			return rs.Int(n.I + d), true
		}
		if math.Abs(n.F()) < 1e18 {
			return rs.Int(int64(math.Floor(n.F())) + d), true
		}
	case "positive":
		if t == "float" {
			return rs.Float(rapid.SampledFrom([]float64{5e-324, 0.5, 1, 91.3, 1e21}).Draw(g.t, "pos")), true
		}
		return rs.Int(rapid.SampledFrom([]int64{1, 2, 100, math.MaxInt64}).Draw(g.t, "pos")), true
	case "negative":
		if t == "float" {
			return rs.Float(rapid.SampledFrom([]float64{-5e-324, -0.5, -1, -91.3, -1e21}).Draw(g.t, "neg")), true
		}
		return rs.Int(rapid.SampledFrom([]int64{-1, -2, -100, math.MinInt64}).Draw(g.t, "neg")), true
	case "len", "lengt", "lengte", "lenlt", "lenlte":
		l := c.Num.I
		switch c.Op {
		case "lengt":
			l++
		case "lenlt":
			l--
		}
		if l < 0 || l > 12 {
			return rs.Value{}, false
		}
		if t == "array" || (t == "any" && rapid.Bool().Draw(g.t, "asvec")) {
			v := rs.Value{K: "vec", L: make([]rs.Value, l)}
			for i := range v.L {
				v.L[i] = g.scalar()
			}
			return v, true
		}
		return rs.Str(strings.Repeat("a", int(l))), true
	case "regexp":
		var ok []string
		for _, s := range strPool {
			if rs.ValidPattern(c.Pat) && rs.Match(c.Pat, s) {
				ok = append(ok, s)
			}
		}
		if len(ok) > 0 {
			return rs.Str(rapid.SampledFrom(ok).Draw(g.t, "match")), true
		}
	case "of", "has-key", "may-have-key", "no-other-keys", "when":
		tt := "sorted-map"
		if c.Op == "of" {
			tt = "array"
		}
		return g.satisfy(&rs.Schema{Type: tt, Cons: []rs.Con{*c}}, depth), true
	case "is-true":
		return rs.Sym("true"), true
	case "is-false":
		return rs.Sym("false"), true
	case "is-truthy":
		return rapid.SampledFrom([]rs.Value{rs.Sym("true"), rs.Str("a"), rs.Int(1), rs.Float(0.5), rs.Vec(rs.Int(0)),
			rs.Map(rs.Entry{Key: "a", V: rs.Int(0)}), rs.Bytes("a"), rs.Str("true"), rs.Str("False"), rs.Str("FALSE")}).Draw(g.t, "truthy"), true
	case "is-falsy":
		return rapid.SampledFrom([]rs.Value{rs.Sym("false"), rs.Str(""), rs.Str("false"), rs.Int(0), rs.Float(-0.5), rs.Vec(),
			rs.Map(), rs.Bytes("")}).Draw(g.t, "falsy"), true
	case "validator":
		return g.satisfy(c.Refs[0].Schema, depth), true
	}
	return rs.Value{}, false
}

// damage changes a value in one place.
func (g *sgen) damage(v rs.Value, depth int) rs.Value {
	switch v.K {
	case "map":
		out := rs.Value{K: "map", M: append([]rs.Entry{}, v.M...)}
		switch k := rapid.IntRange(0, 3).Draw(g.t, "dmg"); {
		case k == 0 && len(out.M) > 0: // drop a key
			i := rapid.IntRange(0, len(out.M)-1).Draw(g.t, "i")
			out.M = append(out.M[:i:i], out.M[i+1:]...)
		case k == 1: // add a key
			var pool []string
			pool = append(pool, symKeyPool...)
			pool = append(pool, g.keys...)
			setKey(&out, rapid.SampledFrom(pool).Draw(g.t, "key"), g.value(depth-1, ""), false)
		case len(out.M) > 0: // damage a value
			i := rapid.IntRange(0, len(out.M)-1).Draw(g.t, "i")
			out.M[i].V = g.damage(out.M[i].V, depth-1)
		default:
			return g.value(depth, "")
		}
		return out
	case "vec":
		out := rs.Value{K: "vec", L: append([]rs.Value{}, v.L...)}
		switch k := rapid.IntRange(0, 2).Draw(g.t, "dmg"); {
		case k == 0 && len(out.L) > 0:
			out.L = out.L[:len(out.L)-1]
		case k == 1:
			out.L = append(out.L, g.value(depth-1, ""))
		case len(out.L) > 0:
			i := rapid.IntRange(0, len(out.L)-1).Draw(g.t, "i")
			out.L[i] = g.damage(out.L[i], depth-1)
		default:
			return g.value(depth, "")
		}
		return out
	case "int":
		if rapid.Bool().Draw(g.t, "tofloat") {
			return rs.Float(float64(v.I))
		}
		return rs.Int(v.I + rapid.SampledFrom([]int64{-1, 1}).Draw(g.t, "d"))
	case "float":
		f := v.F()
		if f == math.Trunc(f) && math.Abs(f) < 1e15 && rapid.Bool().Draw(g.t, "toint") {
			return rs.Int(int64(f))
		}
		f = math.Nextafter(f, math.Inf(rapid.SampledFrom([]int{-1, 1}).Draw(g.t, "dir")))
		if math.IsInf(f, 0) {
			return rs.Float(0)
		}
		return rs.Float(f)
	case "str":
		switch rapid.IntRange(0, 3).Draw(g.t, "dmg") {
		case 0:
			return rs.Str(v.S + "a")
		case 1:
			if len(v.S) > 0 && v.S[len(v.S)-1] < 0x80 {
				return rs.Str(v.S[:len(v.S)-1])
			}
		case 2:
			return rs.Sym("true")
		}
		return rs.Str(strings.ToUpper(v.S) + "é")
	case "sym":
		if v.S == "true" {
			return rapid.SampledFrom([]rs.Value{rs.Sym("false"), rs.Str("true")}).Draw(g.t, "b")
		}
		if v.S == "false" {
			return rapid.SampledFrom([]rs.Value{rs.Sym("true"), rs.Str("false")}).Draw(g.t, "b")
		}
	case "tagged":
		return rs.Tagged(v.S, g.damage(v.L[0], depth-1))
	}
	return g.value(depth, "")
}

// aimed draws the input for a schema: a satisfying value, a damaged satisfying
// value, or a free value.
func (g *sgen) aimed(s *rs.Schema) rs.Value {
	aim := rapid.IntRange(0, 9).Draw(g.t, "aim")
	switch {
	case aim <= 3:
		// first accepted of a few proposals
		var v rs.Value
		for i := 0; i < 4; i++ {
			v = g.satisfy(s, 3)
			if rs.New(rs.Quirks{}).Validate(s, v) == rs.Acc {
				break
			}
		}
		return v
	case aim <= 6:
		return g.damage(g.satisfy(s, 3), 3)
	case aim == 7:
		return g.input(s)
	case aim == 8:
		return g.nearMiss()
	default:
		return g.value(3, "")
	}
}
