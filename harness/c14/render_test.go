package c14

import (
	"fmt"
	"math"
	"strconv"
	"strings"

	"github.com/luthersystems/elps/lisp"
	rs "github.com/luthersystems/elps/verifharness/c14/refschema"
)

// ---------------------------------------------------------------- lisp text

// lispString renders a string literal.  The generator only produces valid
// UTF-8 without control characters other than \n and \t.
func lispString(s string) string {
	var b strings.Builder
	b.WriteByte('"')
	for _, r := range s {
		switch r {
		case '"':
			b.WriteString(`\"`)
		case '\\':
			b.WriteString(`\\`)
		case '\n':
			b.WriteString(`\n`)
		case '\t':
			b.WriteString(`\t`)
		default:
			b.WriteRune(r)
		}
	}
	b.WriteByte('"')
	return b.String()
}

// floatLit renders a float so that both the lisp reader and a JSON decoder in
// :exact-integers mode see a floating-point literal.
func floatLit(f float64) string {
	s := strconv.FormatFloat(f, 'g', -1, 64)
	if !strings.ContainsAny(s, ".e") {
		s += ".0"
	}
	return s
}

func symKeyOK(k string) bool {
	if k == "" || k == "true" || k == "false" {
		return false
	}
	for i, r := range k {
		if r >= 'a' && r <= 'z' {
			continue
		}
		if i > 0 && (r >= '0' && r <= '9' || r == '-') {
			continue
		}
		return false
	}
	return true
}

// symKeysOK reports whether every map key in v can be spelled as a symbol.
func symKeysOK(v rs.Value) bool {
	for _, c := range v.L {
		if !symKeysOK(c) {
			return false
		}
	}
	for _, e := range v.M {
		if !symKeyOK(e.Key) || !symKeysOK(e.V) {
			return false
		}
	}
	return true
}

func hasMap(v rs.Value) bool {
	if v.K == "map" {
		return true
	}
	for _, c := range v.L {
		if hasMap(c) {
			return true
		}
	}
	return false
}

// lispValue renders an expression that evaluates to v.
func lispValue(v rs.Value, symKeys bool) string {
	switch v.K {
	case "int":
		return strconv.FormatInt(v.I, 10)
	case "float":
		return floatLit(v.F())
	case "str":
		return lispString(v.S)
	case "sym":
		if v.S == "true" || v.S == "false" || strings.HasPrefix(v.S, ":") {
			return v.S
		}
		return "'" + v.S
	case "nil":
		return "()"
	case "vec", "list":
		var b strings.Builder
		if v.K == "vec" {
			b.WriteString("(vector")
		} else {
			b.WriteString("(list")
		}
		for _, c := range v.L {
			b.WriteByte(' ')
			b.WriteString(lispValue(c, symKeys))
		}
		b.WriteByte(')')
		return b.String()
	case "map":
		var b strings.Builder
		b.WriteString("(sorted-map")
		for _, e := range v.M {
			b.WriteByte(' ')
			if symKeys {
				b.WriteString("'" + e.Key)
			} else {
				b.WriteString(lispString(e.Key))
			}
			b.WriteByte(' ')
			b.WriteString(lispValue(e.V, symKeys))
		}
		b.WriteByte(')')
		return b.String()
	case "bytes":
		return "(to-bytes " + lispString(v.S) + ")"
	case "fun":
		return v.S
	case "tagged":
		return "(new " + v.S + " " + lispValue(v.L[0], symKeys) + ")"
	}
	panic("lispValue: kind " + v.K)
}

// ---------------------------------------------------------------- JSON text

func jsonOK(v rs.Value) bool {
	switch v.K {
	case "int", "float", "str", "nil":
		return true
	case "sym":
		return v.S == "true" || v.S == "false"
	case "vec":
		for _, c := range v.L {
			if !jsonOK(c) {
				return false
			}
		}
		return true
	case "map":
		for _, e := range v.M {
			if !jsonOK(e.V) {
				return false
			}
		}
		return true
	}
	return false
}

func jsonString(s string) string {
	var b strings.Builder
	b.WriteByte('"')
	for _, r := range s {
		switch {
		case r == '"':
			b.WriteString(`\"`)
		case r == '\\':
			b.WriteString(`\\`)
		case r == '\n':
			b.WriteString(`\n`)
		case r == '\t':
			b.WriteString(`\t`)
		case r < 0x20:
			fmt.Fprintf(&b, `\u%04x`, r)
		default:
			b.WriteRune(r)
		}
	}
	b.WriteByte('"')
	return b.String()
}

func jsonText(v rs.Value) string {
	switch v.K {
	case "int":
		return strconv.FormatInt(v.I, 10)
	case "float":
		return floatLit(v.F())
	case "str":
		return jsonString(v.S)
	case "sym":
		return v.S
	case "nil":
		return "null"
	case "vec":
		parts := make([]string, len(v.L))
		for i, c := range v.L {
			parts[i] = jsonText(c)
		}
		return "[" + strings.Join(parts, ",") + "]"
	case "map":
		parts := make([]string, len(v.M))
		for i, e := range v.M {
			parts[i] = jsonString(e.Key) + ": " + jsonText(e.V)
		}
		return "{" + strings.Join(parts, ", ") + "}"
	}
	panic("jsonText: kind " + v.K)
}

// decoded is the model of what json:load-string returns for jsonText(v): in
// the default mode every number is a float; under :exact-integers an
// integer-shaped literal stays an integer (floatLit never renders one).
func decoded(v rs.Value, exact bool) rs.Value {
	switch v.K {
	case "int":
		if exact {
			return v
		}
		return rs.Float(float64(v.I))
	case "vec":
		out := rs.Value{K: "vec", L: make([]rs.Value, len(v.L))}
		for i, c := range v.L {
			out.L[i] = decoded(c, exact)
		}
		return out
	case "map":
		out := rs.Value{K: "map", M: make([]rs.Entry, len(v.M))}
		for i, e := range v.M {
			out.M[i] = rs.Entry{Key: e.Key, V: decoded(e.V, exact)}
		}
		return out
	}
	return v
}

// ---------------------------------------------------------------- model vs LVal

// sameValue compares an interpreter value with the model through exported
// accessors.  Returns "" when equal.
func sameValue(m rs.Value, v *lisp.LVal, path string) string {
	if v == nil {
		return path + ": nil LVal"
	}
	switch m.K {
	case "int":
		if v.Type != lisp.LInt || int64(v.Int) != m.I {
			return fmt.Sprintf("%s: got %v want int %d", path, v, m.I)
		}
	case "float":
		if v.Type != lisp.LFloat || math.Float64bits(v.Float) != m.FB {
			return fmt.Sprintf("%s: got %v (%v) want float %v", path, v, v.Type, m.F())
		}
	case "str":
		if v.Type != lisp.LString || v.Str != m.S {
			return fmt.Sprintf("%s: got %v want string %q", path, v, m.S)
		}
	case "sym":
		if v.Type != lisp.LSymbol || v.Str != m.S {
			return fmt.Sprintf("%s: got %v (%v) want symbol %s", path, v, v.Type, m.S)
		}
	case "nil":
		if !v.IsNil() {
			return fmt.Sprintf("%s: got %v want ()", path, v)
		}
	case "list":
		if v.Type != lisp.LSExpr || len(v.Cells) != len(m.L) {
			return fmt.Sprintf("%s: got %v want list of %d", path, v, len(m.L))
		}
		for i := range m.L {
			if d := sameValue(m.L[i], v.Cells[i], fmt.Sprintf("%s[%d]", path, i)); d != "" {
				return d
			}
		}
	case "vec":
		if v.Type != lisp.LArray || len(v.Cells) != 2 || v.Cells[0].Len() != 1 || len(v.Cells[1].Cells) != len(m.L) {
			return fmt.Sprintf("%s: got %v want vector of %d", path, v, len(m.L))
		}
		for i := range m.L {
			if d := sameValue(m.L[i], v.Cells[1].Cells[i], fmt.Sprintf("%s[%d]", path, i)); d != "" {
				return d
			}
		}
	case "map":
		if v.Type != lisp.LSortMap {
			return fmt.Sprintf("%s: got %v want sorted-map", path, v)
		}
		ents := v.MapEntries()
		if ents.Type == lisp.LError || len(ents.Cells) != len(m.M) {
			return fmt.Sprintf("%s: got %v want map with %d entries", path, v, len(m.M))
		}
		for _, p := range ents.Cells {
			mv, ok := m.Get(p.Cells[0].Str)
			if !ok {
				return fmt.Sprintf("%s: unexpected key %q", path, p.Cells[0].Str)
			}
			if d := sameValue(mv, p.Cells[1], path+"."+p.Cells[0].Str); d != "" {
				return d
			}
		}
	case "bytes":
		if v.Type != lisp.LBytes || string(v.Bytes()) != m.S {
			return fmt.Sprintf("%s: got %v want bytes %q", path, v, m.S)
		}
	case "fun":
		if v.Type != lisp.LFun {
			return fmt.Sprintf("%s: got %v want function", path, v)
		}
	case "tagged":
		if v.Type != lisp.LTaggedVal || v.Str != "user:"+m.S {
			return fmt.Sprintf("%s: got %v (%q) want tagged %s", path, v, v.Str, m.S)
		}
		return sameValue(m.L[0], v.UserData(), path+".data")
	default:
		return path + ": unknown model kind " + m.K
	}
	return ""
}

// ---------------------------------------------------------------- schema text

// program holds the text of one build: definitions that must come first
// (typedefs, nested s:deftype validators) and the expression that builds the
// top validator.
type program struct {
	prelude []string
	n       int
	prefix  string    // name prefix (keeps a second build in the same runtime apart)
	lets    []binding // local validators bound by a let around the top construction
	params  []binding // local validators passed as parameters of a constructing function
	outer   int       // >0 while rendering text that is evaluated OUTSIDE those scopes
}

type binding struct{ name, expr string }

const typedefs = "(deftype tv (x) x)\n(deftype tw (x) x)\n"

func typeText(name string, lit bool) string {
	if lit {
		return lispString(name)
	}
	return "s:" + name
}

func (p *program) schemaArgs(s *rs.Schema) string {
	var b strings.Builder
	switch {
	case s.BadType != "":
		b.WriteString(s.BadType)
	case s.Typedef && s.BadSub != "":
		b.WriteString(s.BadSub)
	case s.Typedef:
		b.WriteString(typeText(s.Sub, s.Lit))
	default:
		b.WriteString(typeText(s.Type, s.Lit))
		if s.Type == "tagged-value" && s.BadSub != "" {
			b.WriteByte(' ')
			b.WriteString(s.BadSub)
		} else if s.Type == "tagged-value" && s.Sub != "" {
			b.WriteByte(' ')
			b.WriteString(typeText(s.Sub, !s.Lit))
		}
	}
	for i := range s.Cons {
		b.WriteByte(' ')
		b.WriteString(p.con(&s.Cons[i]))
	}
	return b.String()
}

func (p *program) makeValidator(s *rs.Schema, name string) string {
	n := lispString(name)
	if s.Typedef {
		n = "tv"
	}
	return "(s:make-validator " + n + " " + p.schemaArgs(s) + ")"
}

func (p *program) defType(s *rs.Schema, name string) string {
	return "(s:deftype " + lispString(name) + " " + p.schemaArgs(s) + ")"
}

func numText(v *rs.Value) string { return lispValue(*v, false) }

func (p *program) con(c *rs.Con) string {
	refs := func() string {
		var b strings.Builder
		for i := range c.Refs {
			b.WriteByte(' ')
			b.WriteString(p.ref(&c.Refs[i]))
		}
		return b.String()
	}
	switch c.Op {
	case "bad":
		return c.Bad
	case "in":
		var b strings.Builder
		b.WriteString("(s:in")
		for _, v := range c.Vals {
			b.WriteByte(' ')
			b.WriteString(lispValue(v, false))
		}
		b.WriteByte(')')
		return b.String()
	case "gt", "gte", "lt", "lte", "len", "lengt", "lengte", "lenlt", "lenlte":
		return "(s:" + c.Op + " " + numText(c.Num) + ")"
	case "positive", "negative", "is-true", "is-false", "is-truthy", "is-falsy":
		return "(s:" + c.Op + ")"
	case "regexp":
		if c.Bad != "" {
			return "(s:regexp " + c.Bad + ")"
		}
		return "(s:regexp " + lispString(c.Pat) + ")"
	case "of", "no-other-keys":
		return "(s:" + c.Op + refs() + ")"
	case "has-key", "may-have-key":
		return "(s:" + c.Op + " " + lispString(c.Key) + refs() + ")"
	case "when":
		var b strings.Builder
		b.WriteString("(s:when " + lispString(c.Key) + " " + p.ref(&c.Refs[0]) + " " + lispString(c.Key2))
		for i := 1; i < len(c.Refs); i++ {
			b.WriteByte(' ')
			b.WriteString(p.ref(&c.Refs[i]))
		}
		b.WriteByte(')')
		return b.String()
	case "not":
		return "(s:not " + p.ref(&c.Refs[0]) + ")"
	case "validator":
		return p.ref(&c.Refs[0])
	}
	panic("render: constraint " + c.Op)
}

func (p *program) ref(r *rs.Ref) string {
	switch r.Kind {
	case "name":
		return typeText(r.Name, r.Lit)
	case "con":
		return p.con(r.Con)
	case "inline":
		p.n++
		return p.makeValidator(r.Schema, fmt.Sprintf("%si%d", p.prefix, p.n))
	case "letsym", "paramsym":
		p.n++
		if p.outer > 0 {
			// evaluated outside the local scope: the validator itself
			return p.makeValidator(r.Schema, fmt.Sprintf("%si%d", p.prefix, p.n))
		}
		name := fmt.Sprintf("%sx%d", p.prefix, p.n)
		p.outer++
		b := binding{name, p.makeValidator(r.Schema, name)}
		if r.Decoy != nil {
			p.prelude = append(p.prelude, p.defType(r.Decoy, name))
		}
		p.outer--
		if r.Kind == "letsym" {
			p.lets = append(p.lets, b)
		} else {
			p.params = append(p.params, b)
		}
		return "'" + name
	case "defsym", "defval":
		// build the nested type first (its own nested types before it)
		text := ""
		p.n++
		name := fmt.Sprintf("%sn%d", p.prefix, p.n)
		sc := *r.Schema
		sc.Typedef = false // s:deftype has no typedef form: same schema, string-name form
		p.outer++
		text = p.defType(&sc, name)
		p.outer--
		p.prelude = append(p.prelude, text)
		if r.Kind == "defsym" {
			return "'" + name
		}
		return name
	case "bad":
		return r.Bad
	}
	panic("render: ref " + r.Kind)
}

// buildText renders the program that defines the validator under test and
// binds it to the symbol vt.
func buildText(s *rs.Schema, mode string) string { return buildNamed(s, mode, "vt", "") }

func buildNamed(s *rs.Schema, mode, name, prefix string) string {
	p := &program{prefix: prefix}
	var top string
	deftype := mode == "deftype" && !s.Typedef
	if deftype {
		top = p.defType(s, name)
	} else {
		top = p.makeValidator(s, name)
	}
	if len(p.lets) > 0 {
		var b strings.Builder
		b.WriteString("(let (")
		for i, l := range p.lets {
			if i > 0 {
				b.WriteByte(' ')
			}
			b.WriteString("[" + l.name + " " + l.expr + "]")
		}
		b.WriteString(") " + top + ")")
		top = b.String()
	}
	if len(p.params) > 0 {
		names := make([]string, len(p.params))
		exprs := make([]string, len(p.params))
		for i, q := range p.params {
			names[i], exprs[i] = q.name, q.expr
		}
		fn := "mk-" + prefix + name
		p.prelude = append(p.prelude, "(defun "+fn+" ("+strings.Join(names, " ")+") "+top+")")
		top = "(" + fn + " " + strings.Join(exprs, " ") + ")"
	}
	if !deftype {
		top = "(set '" + name + " " + top + ")"
	}
	return typedefs + strings.Join(p.prelude, "\n") + "\n" + top + "\n"
}
