package c20

import (
	"encoding/json"
	"testing"
)

// fuzzSandbox is a fixed hostile layout: links inside->outside (file and
// directory, relative and absolute), outside->inside, a chain, a loop, a link
// in a middle component, a root that is itself a link, the prefix sibling.
const fuzzSandbox = `{"cwd":"root/sub","root":"$BASE/rootlink","nodes":[
 {"kind":"dir","path":"root"},{"kind":"dir","path":"outside"},{"kind":"dir","path":"cwd"},{"kind":"dir","path":"root-evil"},{"kind":"dir","path":"Root"},{"kind":"dir","path":"ROOT"},
 {"kind":"file","id":"F10","path":"Root/a.lisp"},{"kind":"file","id":"F11","path":"ROOT/a.lisp"},{"kind":"link","path":"root/case","target":"../Root"},
 {"kind":"dir","path":"root/sub"},{"kind":"dir","path":"root/sub/deep"},{"kind":"dir","path":"outside/sub"},
 {"kind":"file","id":"F1","path":"root/a.lisp","loads":["sub/a.lisp","out.lisp"]},
 {"kind":"file","id":"F2","path":"root/b.lisp"},
 {"kind":"file","id":"F3","path":"root/sub/a.lisp","loads":["../b.lisp","../../root-evil/a.lisp"]},
 {"kind":"file","id":"F4","path":"root/sub/b.lisp"},
 {"kind":"file","id":"F5","path":"root/sub/deep/a.lisp"},
 {"kind":"file","id":"F6","path":"outside/a.lisp"},
 {"kind":"file","id":"F7","path":"outside/sub/a.lisp"},
 {"kind":"file","id":"F8","path":"root-evil/a.lisp"},
 {"kind":"file","id":"F9","path":"a.lisp"},
 {"kind":"link","path":"root/out.lisp","target":"../outside/a.lisp"},
 {"kind":"link","path":"root/outdir","target":"$BASE/outside"},
 {"kind":"link","path":"root/sub/up","target":"../.."},
 {"kind":"link","path":"outside/in","target":"../root/sub"},
 {"kind":"link","path":"root/chain","target":"sub/l2"},
 {"kind":"link","path":"root/sub/l2","target":"../outdir/sub/a.lisp"},
 {"kind":"link","path":"root/loop","target":"loop"},
 {"kind":"link","path":"root/alias.lisp","target":"sub/b.lisp"},
 {"kind":"link","path":"rootlink","target":"root"}]}`

var fuzzCtxs = []string{"", "$BASE/root/a.lisp", "$BASE/root/sub/a.lisp", "$BASE/rootlink/sub/deep/a.lisp", "$BASE/outside/in/a.lisp",
	"$BASE/root/sub/ghost.lisp", "$BASE/outside/a.lisp"}

func FuzzLocation(f *testing.F) {
	for _, s := range []string{"a.lisp", "../a.lisp", "../../root-evil/a.lisp", "out.lisp", "outdir/sub/a.lisp", "up/outside/a.lisp",
		"$BASE/root-evil/a.lisp", "../Root/a.lisp", "$BASE/ROOT/a.lisp", "case/a.lisp", "$BASE/rootlink/../outside/a.lisp", "chain", "loop", "sub//./a.lisp/", "outdir/../b.lisp",
		"/etc/hostname", "..\\..\\outside\\a.lisp", "a.lisp\x00", "%2e%2e/outside/a.lisp", "....//outside/a.lisp", "~/a.lisp"} {
		for i := range fuzzCtxs {
			f.Add(uint8(i), s)
		}
	}
	var sb Sandbox
	if err := json.Unmarshal([]byte(fuzzSandbox), &sb); err != nil {
		f.Fatal(err)
	}
	f.Fuzz(func(t *testing.T, sel uint8, loc string) {
		if len(loc) > 300 {
			return
		}
		c := Case{Mode: "rfs", SB: sb}
		ctx := fuzzCtxs[int(sel)%len(fuzzCtxs)]
		c.Ops = []Op{{Entry: "lib", Ctx: ctx, Loc: loc}}
		printable := true
		for i := 0; i < len(loc); i++ {
			if loc[i] < 0x20 || loc[i] > 0x7e || loc[i] == '"' || loc[i] == '\\' {
				printable = false
			}
		}
		if printable {
			// the same location through (load-file ...) from a source at ctx
			c.Ops = append(c.Ops, Op{Entry: "lisp", Ctx: ctx, Loc: loc})
		}
		if fl := checkCase(c, nil); fl != nil {
			t.Fatalf("[%s] %s", fl.Key, fl.Msg)
		}
	})
}
