// C20: source loading cannot escape its configured root.
//
// A case is a sandbox (directory tree with INSIDE/OUTSIDE marker files and
// symbolic links) plus up to 8 load attempts through the library directly,
// LEnv.LoadFile/LoadFileContext, or (load-file ...) evaluated from lisp.  The
// oracle is the model file system of model.go.
package c20

import (
	"bytes"
	"context"
	"encoding/json"
	"fmt"
	"os"
	"path/filepath"
	"strings"
	"syscall"
	"testing"
	"testing/fstest"

	"github.com/luthersystems/elps/lisp"
	"github.com/luthersystems/elps/verifharness/vcommon"
)

const eventLimit = 200

// ---------- event log ----------

type event struct {
	// probe
	Kind string // "begin" | "end" | "refused" | "" for a library call
	ID   string
	N    int
	// library call
	Call          bool
	CtxLoc, Loc   string
	Name, TrueLoc string
	Data          []byte
	Err           error
}

type recLib struct {
	inner lisp.SourceLibrary
	log   *[]event
}

func (r *recLib) LoadSource(ctx lisp.SourceContext, loc string) (string, string, []byte, error) {
	name, tl, data, err := r.inner.LoadSource(ctx, loc)
	*r.log = append(*r.log, event{Call: true, CtxLoc: ctx.Location(), Loc: loc, Name: name, TrueLoc: tl,
		Data: append([]byte(nil), data...), Err: err})
	return name, tl, data, err
}

// ---------- world: model + configuration of one materialised case ----------

type world struct {
	mode       string
	m          *model
	cwdReal    string
	realRoot   string // "" when the configured root does not resolve to a directory
	rootAbs    string // fs modes: absolute named root of the file system
	rootLinks  int
	content    map[string]*Node // file content -> node
	nontrivial bool
	rootCfgAbs bool
	notes      int
}

func (w *world) isInside(n *Node) bool {
	return w.realRoot != "" && inside(w.realRoot, w.m.abs(n))
}

// similar: two component names a reader (or a sloppy comparison) could take
// for one another: equal up to case folding, or one a prefix of the other.
func similar(a, b string) bool {
	return a == b || strings.EqualFold(a, b) || strings.HasPrefix(a, b) || strings.HasPrefix(b, a)
}

// inSibling reports whether the real path p lies OUTSIDE the resolved root in
// a look-alike of it: every component of the root path has a similar
// counterpart in p, at least one differs.  (Classification and failure keys
// only; inside/outside is decided by inside().)
func (w *world) inSibling(p string) bool {
	if w.realRoot == "" || inside(w.realRoot, p) {
		return false
	}
	r, q := comps(w.realRoot), comps(p)
	if len(q) < len(r) {
		return false
	}
	for i := range r {
		if !similar(r[i], q[i]) {
			return false
		}
	}
	return true
}

// foldSibling: the look-alike differs from the root by case folding only.
func (w *world) foldSibling(p string) bool {
	if !w.inSibling(p) {
		return false
	}
	r, q := comps(w.realRoot), comps(p)
	for i := range r {
		if !strings.EqualFold(r[i], q[i]) {
			return false
		}
	}
	return true
}

func fileContent(n *Node, mark string, base string) string {
	var b strings.Builder
	fmt.Fprintf(&b, "; %s:%s\n(probe \"begin\" \"%s\")\n", mark, n.ID, n.ID)
	for k, l := range n.Loads {
		l = subst(l, base)
		if strings.ContainsAny(l, "\"\\\n") {
			continue
		}
		fmt.Fprintf(&b, "(handler-bind ((condition (lambda (c &rest _) (probe \"refused\" \"%s\" %d)))) (load-file \"%s\"))\n", n.ID, k, l)
	}
	fmt.Fprintf(&b, "(probe \"end\" \"%s\")\n", n.ID)
	return b.String()
}

func (w *world) contentOf(n *Node) string {
	mark := "OUTSIDE"
	if w.isInside(n) {
		mark = "INSIDE"
	}
	if w.mode == "cli" {
		return cliContent(n, mark, w.m.base)
	}
	return fileContent(n, mark, w.m.base)
}

// variants lists the absolute-or-cwd-relative path spellings the location may
// legitimately denote: physical and lexical reading of dir(ctx)/loc (and, for
// the fs-backed libraries, of an absolute location taken relative to the file
// system root).
func (w *world) variants(ctxLoc, loc string) (phys []string, lex []string) {
	if w.mode == "rfs" {
		raw := loc
		if !isAbs(loc) && ctxLoc != "" {
			raw = dirText(ctxLoc) + "/" + loc
		}
		return []string{raw}, []string{lexClean(raw)}
	}
	var rels []string
	if ctxLoc != "" {
		rels = append(rels, dirText(ctxLoc)+"/"+loc)
	} else {
		rels = append(rels, loc)
	}
	if isAbs(loc) && ctxLoc != "" {
		rels = append(rels, loc)
	}
	for _, r := range rels {
		phys = append(phys, w.rootAbs+"/"+r)
		c := lexClean(r)
		if c == ".." || strings.HasPrefix(c, "../") {
			continue
		}
		lex = append(lex, w.rootAbs+"/"+strings.TrimPrefix(c, "/"))
	}
	return
}

type verdict struct {
	allowed map[string]*Node // id -> inside file the location may denote
	must    *Node            // plain relative location: this file has to be served
	outside bool             // some reading resolves to an existing path outside the root
	sibling bool             // ... inside a look-alike of the root
	foldSib bool             // ... that differs from the root by letter case / case folding only
	links   int              // max symbolic links crossed by a reading
	enoent  bool             // no reading resolves at all
	notFile bool
}

func (w *world) judge(ctxLoc, loc string) verdict {
	v := verdict{allowed: map[string]*Node{}}
	phys, lex := w.variants(ctxLoc, loc)
	any := false
	note := func(r resolved) {
		if r.Links > v.links {
			v.links = r.Links
		}
		if r.Err != "" {
			return
		}
		any = true
		in := w.realRoot != "" && inside(w.realRoot, r.Path)
		if !in {
			v.outside = true
			if w.inSibling(r.Path) {
				v.sibling = true
			}
			if w.foldSibling(r.Path) {
				v.foldSib = true
			}
		}
		if r.Kind != "file" {
			v.notFile = true
			return
		}
		if in {
			v.allowed[r.Node.ID] = r.Node
		}
	}
	var pr, lr []resolved
	for _, p := range phys {
		r := w.m.resolve(w.cwdReal, p)
		pr = append(pr, r)
		note(r)
	}
	for _, p := range lex {
		r := w.m.resolve(w.cwdReal, p)
		lr = append(lr, r)
		note(r)
	}
	v.enoent = !any
	// positive direction: a relative location, loaded from a file, whose path
	// dir(F)/loc crosses no symbolic link and reads the same physically and
	// lexically, inside the resolved root.
	// The promise is only exercised with all-absolute configuration (absolute
	// RootDir, absolute loading-file location), which is what the runtime
	// itself produces: see NOTES.md "relative spellings".
	absCfg := w.mode != "rfs" || (isAbs(ctxLoc) && w.rootCfgAbs)
	if !isAbs(loc) && ctxLoc != "" && absCfg && len(pr) == 1 && len(lr) == 1 {
		p, l := pr[0], lr[0]
		if p.Err == "" && l.Err == "" && p.Kind == "file" && p.Path == l.Path && p.Links == w.rootLinks && l.Links == w.rootLinks &&
			w.realRoot != "" && inside(w.realRoot, p.Path) {
			v.must = p.Node
		}
	}
	return v
}

func (w *world) keyPrefix() string {
	switch w.mode {
	case "osroot":
		return "osroot-"
	case "cli":
		return "cli-"
	case "mapfs":
		return "mapfs-"
	}
	return ""
}

// checkCall is the per-call oracle on one recorded LoadSource call.
func (w *world) checkCall(e event, ctx *vcommon.Ctx) (*Node, *vcommon.Failure) {
	v := w.judge(e.CtxLoc, e.Loc)
	feat := ""
	if hasDotDot(e.Loc) {
		ctx.Class("loc:dotdot")
		feat = "dotdot"
	}
	if isAbs(e.Loc) {
		ctx.Class("loc:absolute")
		feat = "absolute"
	}
	if strings.Contains(strings.TrimPrefix(e.Loc, "/"), "//") {
		ctx.Class("loc:doubled-separator")
	}
	if v.links-w.rootLinks > 0 || (w.mode == "rfs" && v.links > 0) {
		ctx.Class("loc:crosses-symlink")
		feat = "symlink"
	}
	if v.sibling {
		ctx.Class("loc:into-prefix-sibling")
	}
	if v.foldSib {
		ctx.Class("loc:into-casefold-sibling")
	}
	if feat != "" && (v.outside || v.sibling) {
		ctx.Class("op:nontrivial")
		w.nontrivial = true
	}
	desc := fmt.Sprintf("mode=%s root=%q cwd=%q ctx=%q loc=%q", w.mode, w.rootAbsOrSpelling(), w.cwdReal, e.CtxLoc, e.Loc)
	if feat != "" && (v.outside || v.sibling) && w.notes < 3 {
		w.notes++
		out := "served"
		if e.Err != nil {
			out = "refused: " + e.Err.Error()
		}
		ctx.Note(fmt.Sprintf("non-trivial load (%s, resolves outside=%v sibling=%v links=%d): ctx=%q loc=%q -> %s", feat, v.outside, v.sibling, v.links, e.CtxLoc, e.Loc, out))
	}
	if e.Err != nil {
		if bytes.Contains(e.Data, []byte("OUTSIDE:")) {
			return nil, vcommon.Failf(w.keyPrefix()+"escape/bytes-with-error", "%s: error %v returned together with outside bytes %q", desc, e.Err, e.Data)
		}
		switch {
		case v.must != nil:
			ctx.Class("outcome:REFUSED-PLAIN")
			return nil, vcommon.Failf(w.keyPrefix()+"relative/refused-plain-inside",
				"%s: refused (%v) although dir(loading file)/loc is the symlink-free path of inside file %s (%s)", desc, e.Err, v.must.ID, v.must.Path)
		case len(v.allowed) > 0:
			ctx.Class("outcome:refused-inside-nonplain")
		case v.sibling:
			ctx.Class("outcome:refused-prefix-sibling")
		case v.outside:
			ctx.Class("outcome:refused-outside")
		case v.notFile:
			ctx.Class("outcome:refused-not-a-file")
		default:
			ctx.Class("outcome:refused-unresolvable")
		}
		return nil, nil
	}
	n, known := w.content[string(e.Data)]
	if !known {
		if bytes.Contains(e.Data, []byte("OUTSIDE:")) {
			return nil, vcommon.Failf(w.keyPrefix()+"escape/outside-bytes", "%s: returned bytes carrying an OUTSIDE marker: %q", desc, e.Data)
		}
		return nil, vcommon.Failf(w.keyPrefix()+"serve/unknown-bytes", "%s: returned bytes that are no sandbox file's exact content: %q (err=nil)", desc, e.Data)
	}
	if !w.isInside(n) {
		how := "plain"
		switch {
		case v.links-w.rootLinks > 0:
			how = "symlink"
		case w.foldSibling(w.m.abs(n)):
			how = "casefold-sibling"
		case w.inSibling(w.m.abs(n)):
			how = "prefix-sibling"
		case hasDotDot(e.Loc):
			how = "dotdot"
		case isAbs(e.Loc):
			how = "absolute"
		}
		if w.mode == "rfs" && !w.rootCfgAbs {
			how = "relative-rootdir"
		}
		return nil, vcommon.Failf(w.keyPrefix()+"escape/"+how,
			"%s: served file %s (%s) whose real path %s is OUTSIDE the resolved root %q; trueloc=%q", desc, n.ID, n.Path, w.m.abs(n), w.realRoot, e.TrueLoc)
	}
	if _, ok := v.allowed[n.ID]; !ok {
		how := "other-file"
		if r := w.m.resolve(w.cwdReal, e.Loc); !isAbs(e.Loc) && r.Err == "" && r.Node == n {
			how = "cwd-instead-of-loading-dir"
		} else if r := w.m.resolve(w.realRoot, e.Loc); !isAbs(e.Loc) && r.Err == "" && r.Node == n {
			how = "root-instead-of-loading-dir"
		}
		var want []string
		for id, a := range v.allowed {
			want = append(want, id+"="+a.Path)
		}
		return nil, vcommon.Failf(w.keyPrefix()+"relative/"+how,
			"%s: served inside file %s (%s) but dir(loading file)/loc denotes %v", desc, n.ID, n.Path, want)
	}
	ctx.Class("outcome:served-inside")
	return n, nil
}

func (w *world) rootAbsOrSpelling() string {
	if w.rootAbs != "" {
		return w.rootAbs
	}
	return w.realRoot
}

// ctxNames reports whether a context location names the executing file.
func (w *world) ctxNames(ctxLoc string, exec *Node) bool {
	if exec == nil {
		return ctxLoc == ""
	}
	if ctxLoc == "" {
		return false
	}
	p := ctxLoc
	if w.mode != "rfs" {
		p = w.rootAbs + "/" + ctxLoc
	}
	r := w.m.resolve(w.cwdReal, p)
	return r.Err == "" && r.Node == exec
}

// ---------- trace simulation ----------

type sim struct {
	w   *world
	ev  []event
	ctx *vcommon.Ctx
}

func (s *sim) at(i int) string {
	if i >= len(s.ev) {
		return "<end of trace>"
	}
	e := s.ev[i]
	if e.Call {
		return fmt.Sprintf("load(ctx=%q loc=%q err=%v)", e.CtxLoc, e.Loc, e.Err)
	}
	return fmt.Sprintf("probe(%s %s %d)", e.Kind, e.ID, e.N)
}

// load consumes the library call for (load-file loc) issued by exec (nil for
// the top level) and, when it was served, the evaluation of the served file.
func (s *sim) load(i int, exec *Node, wantCtx *string, loc string) (int, *Node, *vcommon.Failure) {
	if i >= len(s.ev) || !s.ev[i].Call || s.ev[i].Loc != loc {
		return i, nil, vcommon.Failf(s.w.keyPrefix()+"trace/missing-load", "expected the library call for location %q, trace has %s", loc, s.at(i))
	}
	e := s.ev[i]
	okCtx := false
	if wantCtx != nil {
		okCtx = e.CtxLoc == *wantCtx
	} else {
		okCtx = s.w.ctxNames(e.CtxLoc, exec)
	}
	if !okCtx {
		who := "<top level>"
		if exec != nil {
			who = exec.ID + " (" + exec.Path + ")"
		}
		return i, nil, vcommon.Failf(s.w.keyPrefix()+"context/not-the-loading-file",
			"load of %q issued by %s reached the library with context location %q, which does not name that file", loc, who, e.CtxLoc)
	}
	n, f := s.w.checkCall(e, s.ctx)
	if f != nil {
		return i, nil, f
	}
	i++
	if n == nil {
		return i, nil, nil
	}
	i, f = s.file(i, n)
	return i, n, f
}

func (s *sim) expect(i int, kind, id string, n int) *vcommon.Failure {
	if i < len(s.ev) && !s.ev[i].Call && s.ev[i].Kind == kind && s.ev[i].ID == id && (kind != "refused" || s.ev[i].N == n) {
		return nil
	}
	return vcommon.Failf(s.w.keyPrefix()+"trace/evaluation-differs",
		"expected effect probe(%s %s %d) from evaluating exactly the served bytes, trace has %s", kind, id, n, s.at(i))
}

func (s *sim) file(i int, n *Node) (int, *vcommon.Failure) {
	if f := s.expect(i, "begin", n.ID, 0); f != nil {
		return i, f
	}
	i++
	for k, l := range n.Loads {
		l = subst(l, s.w.m.base)
		if strings.ContainsAny(l, "\"\\\n") {
			continue
		}
		var served *Node
		var f *vcommon.Failure
		i, served, f = s.load(i, n, nil, l)
		if f != nil {
			return i, f
		}
		if served == nil {
			if f := s.expect(i, "refused", n.ID, k); f != nil {
				return i, f
			}
			i++
		} else {
			s.ctx.Class("op:nested-load-served")
		}
	}
	if f := s.expect(i, "end", n.ID, 0); f != nil {
		return i, f
	}
	return i + 1, nil
}

// ---------- materialisation ----------

func kernelCwd() string {
	buf := make([]byte, 4096)
	n, err := syscall.Getcwd(buf)
	if err != nil {
		panic("harness: getcwd: " + err.Error())
	}
	s := string(buf[:n])
	return strings.TrimRight(s, "\x00")
}

func must(err error) {
	if err != nil {
		panic("harness: " + err.Error())
	}
}

func scratchDir() string {
	if d := os.Getenv("VERIF_SCRATCH"); d != "" {
		if os.MkdirAll(d, 0o755) == nil {
			return d
		}
	}
	return os.TempDir()
}

// ---------- the oracle ----------

func checkCase(c Case, ctx *vcommon.Ctx) (fail *vcommon.Failure) {
	if c.Mode == "dirfs" {
		c.Mode = "osroot" // name used before the cmd wiring moved to os.Root
	}
	if c.Mode != "rfs" && c.Mode != "osroot" && c.Mode != "mapfs" && c.Mode != "cli" {
		return nil
	}
	oldwd, err := os.Getwd()
	must(err)
	var base string
	onDisk := c.Mode != "mapfs"
	if onDisk {
		tmp, err := os.MkdirTemp(scratchDir(), "c20-")
		must(err)
		defer os.RemoveAll(tmp)
		must(os.Chdir(tmp))
		base = kernelCwd() // the kernel's own real path of the sandbox base
		defer os.Chdir(oldwd)
	} else {
		base = "/M"
	}
	w := &world{mode: c.Mode, m: newModel(&c.SB, base), content: map[string]*Node{}}
	w.cwdReal = base
	if cn, ok := w.m.nodes[base+"/"+c.SB.Cwd]; ok && cn.Kind == "dir" {
		w.cwdReal = base + "/" + c.SB.Cwd
	}
	rootCfg := subst(c.SB.Root, base)
	w.rootCfgAbs = isAbs(rootCfg)
	switch c.Mode {
	case "rfs":
		if r := w.m.resolve(w.cwdReal, rootCfg); r.Err == "" && r.Kind == "dir" {
			w.realRoot = r.Path
		}
	case "osroot", "cli":
		s := rootCfg
		if !isAbs(s) {
			s = w.cwdReal + "/" + s
		}
		w.rootAbs = lexClean(s)
		if r := w.m.resolve("/", w.rootAbs); r.Err == "" && r.Kind == "dir" {
			w.realRoot = r.Path
			w.rootLinks = r.Links
		}
	case "mapfs":
		w.rootAbs, w.realRoot = base, base
	}
	if rootCfg == "" {
		return nil // an empty RootDir means "no confinement": outside the property
	}
	if r := w.m.resolve(w.cwdReal, rootCfg); r.Err == "" && r.Kind != "dir" {
		// "a root directory configured": a root that is a regular file is not
		// a configuration the property speaks about
		ctx.Class("skip:root-is-a-file")
		return nil
	}
	if w.realRoot != "" && !inside(base, w.realRoot) {
		// the sandbox must stay sealed: the model knows nothing above the base
		ctx.Class("skip:root-above-base")
		return nil
	}

	// materialise
	mapfs := fstest.MapFS{}
	for i := range c.SB.Nodes {
		n := &c.SB.Nodes[i]
		abs := base + "/" + n.Path
		if w.m.nodes[abs] != n {
			continue // ill-formed node ignored by the model too
		}
		switch n.Kind {
		case "dir":
			if onDisk {
				must(os.Mkdir(abs, 0o755))
			}
		case "file":
			txt := w.contentOf(n)
			w.content[txt] = n
			if onDisk {
				must(os.WriteFile(abs, []byte(txt), 0o644))
			} else {
				mapfs[n.Path] = &fstest.MapFile{Data: []byte(txt)}
			}
		case "link":
			if onDisk {
				must(os.Symlink(subst(n.Target, base), abs))
			}
		}
	}
	if onDisk {
		must(os.Chdir(w.cwdReal))
	}

	if c.Mode == "cli" {
		return w.runCLI(c, ctx)
	}
	// the library under test, configured the way the anchored code does
	var log []event
	var inner lisp.SourceLibrary
	switch c.Mode {
	case "rfs":
		inner = &lisp.RelativeFileSystemLibrary{RootDir: rootCfg}
	case "osroot":
		// what cmd/run.go, cmd/debug.go and repl/repl.go configure:
		// filepath.Abs, os.OpenRoot, FSLibrary over root.FS().  In-process
		// twin of the "cli" sub-property (which runs the real binary).
		abs, err := filepath.Abs(rootCfg)
		must(err)
		if abs != w.rootAbs {
			panic(fmt.Sprintf("harness: model root %q != filepath.Abs %q", w.rootAbs, abs))
		}
		r, err := os.OpenRoot(abs)
		if err != nil {
			inner = &lisp.FSLibrary{FS: fstest.MapFS{}} // the CLI exits: nothing is ever served
		} else {
			defer r.Close()
			inner = &lisp.FSLibrary{FS: r.FS()}
		}
	case "mapfs":
		inner = &lisp.FSLibrary{FS: mapfs}
	}
	lib := &recLib{inner: inner, log: &log}
	rt := vcommon.NewRuntime(vcommon.Cfg{NoStdlib: true, NoProbes: true, Library: lib})
	limitHit := false
	rt.Env.AddBuiltins(true, vcommon.HostBuiltin("probe", lisp.Formals("kind", "id", lisp.VarArgSymbol, "rest"),
		func(env *lisp.LEnv, args *lisp.LVal) *lisp.LVal {
			if len(log) >= eventLimit {
				limitHit = true
				return env.Errorf("probe: event limit")
			}
			e := event{Kind: args.Cells[0].Str, ID: args.Cells[1].Str}
			if len(args.Cells) > 2 && args.Cells[2].Type == lisp.LInt {
				e.N = args.Cells[2].Int
			}
			log = append(log, e)
			return lisp.String(e.ID)
		}))

	if w.realRoot == "" {
		ctx.Class("root:unresolvable")
	} else if c.Mode != "mapfs" {
		if r := w.m.resolve(w.cwdReal, rootCfg); r.Links > 0 {
			ctx.Class("root:is-symlink")
		}
	}
	if inside(w.realRoot, w.cwdReal) && w.realRoot != "" {
		ctx.Class("cwd:inside-root")
	}

	servedAny := false
	var known *vcommon.Failure
	for oi, op := range c.Ops {
		log = log[:0]
		limitHit = false
		loc := subst(op.Loc, base)
		opctx := subst(op.Ctx, base)
		if strings.ContainsAny(loc, "\"\\\n\x00") || strings.ContainsAny(opctx, "\"\\\n\x00") {
			continue
		}
		ctx.Class("entry:" + op.Entry)
		var res *lisp.LVal
		switch op.Entry {
		case "lib":
			lib.LoadSource(lisp.NewSourceContext(lastOf("/"+opctx), opctx), loc)
			n, f := w.checkCall(log[0], ctx)
			if f != nil {
				if ctx.Known(f.Key) {
					if known == nil {
						known = f
					}
					ctx.Class("known:" + f.Key)
					continue
				}
				return f
			}
			if n != nil {
				servedAny = true
			}
			continue
		case "loadfile":
			opctx = ""
			res = rt.Env.LoadFile(loc)
		case "loadfilectx":
			opctx = ""
			res = rt.Env.LoadFileContext(context.Background(), loc)
		case "lisp":
			src := fmt.Sprintf("(load-file \"%s\")", loc)
			if opctx == "" {
				res = rt.Env.LoadString("main", src)
			} else {
				res = rt.Env.LoadLocation(lastOf("/"+opctx), opctx, strings.NewReader(src))
			}
		default:
			continue
		}
		if res == nil {
			return vcommon.Failf("nil-result", "op %d (%s %q): nil result", oi, op.Entry, loc)
		}
		if lisp.IsInternalPanic(res) {
			return vcommon.Failf("internal-panic", "op %d (%s ctx=%q loc=%q): recovered Go panic: %v", oi, op.Entry, opctx, loc, res)
		}
		f, served := w.checkOp(oi, op.Entry, opctx, loc, log, limitHit, res, ctx)
		if f != nil {
			if ctx.Known(f.Key) {
				// a listed finding: remember it, keep checking the other loads
				if known == nil {
					known = f
				}
				ctx.Class("known:" + f.Key)
				continue
			}
			return f
		}
		if served {
			servedAny = true
		}
	}
	if servedAny {
		ctx.Class("case:loads-an-inside-file")
	} else {
		ctx.Class("case:loads-nothing")
	}
	// the distinct key of a non-trivial case is the whole case
	if w.nontrivial {
		b, _ := json.Marshal(c)
		ctx.NonTrivial(string(b))
	}
	return known
}

// checkOp judges one env-level load: its result value and its event log.
func (w *world) checkOp(oi int, entry, opctx, loc string, log []event, limitHit bool, res *lisp.LVal, ctx *vcommon.Ctx) (*vcommon.Failure, bool) {
	where := fmt.Sprintf("op %d (%s ctx=%q loc=%q)", oi, entry, opctx, loc)
	scan := func() *vcommon.Failure {
		for _, e := range log {
			if e.Call {
				continue
			}
			if n := w.m.files[e.ID]; n == nil || !w.isInside(n) {
				return vcommon.Failf(w.keyPrefix()+"escape/outside-effect", "%s: effect %s(%s) recorded: a file outside the root was evaluated", where, e.Kind, e.ID)
			}
		}
		return nil
	}
	if limitHit {
		// cyclic loads cut by the event limit: judge every call and effect on
		// its own, skip the exact-trace comparison
		ctx.Class("op:cycle-cut")
		for _, e := range log {
			if e.Call {
				if _, f := w.checkCall(e, ctx); f != nil {
					return f, false
				}
			}
		}
		return scan(), false
	}
	// the trace is exactly: the library call, then the evaluation of exactly
	// the served bytes, recursively
	s := &sim{w: w, ev: log, ctx: ctx}
	end, served, f := s.load(0, nil, &opctx, loc)
	if f != nil {
		return f, false
	}
	if f := scan(); f != nil {
		return f, false
	}
	if end != len(log) {
		return vcommon.Failf(w.keyPrefix()+"trace/extra-events", "%s: unexpected trailing events from %s", where, s.at(end)), false
	}
	if served == nil {
		if res.Type != lisp.LError {
			return vcommon.Failf(w.keyPrefix()+"refusal/no-error", "%s: the library refused (%v) but the load returned the non-error value %v", where, log[0].Err, res), false
		}
		return nil, false
	}
	if res.Type != lisp.LString || res.Str != served.ID {
		return vcommon.Failf(w.keyPrefix()+"trace/value", "%s: served %s but the load's value is %v", where, served.ID, res), false
	}
	return nil, true
}

func TestCheck(t *testing.T) {
	vcommon.Main(t, "C20",
		vcommon.S("rfs", 9600, 480000, genCase("rfs"), checkCase),
		vcommon.S("osroot", 4000, 200000, genCase("osroot"), checkCase),
		vcommon.S("cli", 1280, 48000, genCase("cli"), checkCase),
		vcommon.S("mapfs", 6400, 320000, genCase("mapfs"), checkCase),
		vcommon.S("toctou", 160, 3200, genRace(), checkRace),
	)
}
