// C20: source loading cannot escape its configured root.
//
// A case is a sandbox (directory tree with INSIDE/OUTSIDE marker files and
// symbolic links) plus up to 8 load attempts through the library directly,
// LEnv.LoadFile/LoadFileContext, or (load-file ...) evaluated from lisp.  The
// oracle is the model file system of model.go.
package c20

import (
	"bytes"
	"context"
	"encoding/json"
	"fmt"
	"io/fs"
	"os"
	"path/filepath"
	"strings"
	"syscall"
	"testing"
	"testing/fstest"

	"github.com/luthersystems/elps/lisp"
	"github.com/luthersystems/elps/verifharness/vcommon"
)

const eventLimit = 200

// ---------- event log ----------

type event struct {
	// probe
	Kind string // "begin" | "end" | "refused" | "" for a library call
	ID   string
	N    int
	// library call
	Call          bool
	CtxLoc, Loc   string
	Name, TrueLoc string
	Data          []byte
	Err           error
}

type recLib struct {
	inner lisp.SourceLibrary
	log   *[]event
}

func (r *recLib) LoadSource(ctx lisp.SourceContext, loc string) (string, string, []byte, error) {
	name, tl, data, err := r.inner.LoadSource(ctx, loc)
	*r.log = append(*r.log, event{Call: true, CtxLoc: ctx.Location(), Loc: loc, Name: name, TrueLoc: tl,
		Data: append([]byte(nil), data...), Err: err})
	return name, tl, data, err
}

// ---------- world: model + configuration of one materialised case ----------

type world struct {
	mode       string
	m          *model
	cwdReal    string
	realRoot   string // "" when the configured root does not resolve to a directory
	rootAbs    string // fs modes: absolute named root of the file system
	rootLinks  int
	content    map[string]*Node // file content -> node
	nontrivial bool
	rootCfgAbs bool
	notes      int

	// histories (mutation ops between the loads)
	history bool              // the case contains a mutation: markers are neutral, an os.Root is modelled by the directory it opened
	rootCfg string            // the configured root spelling, as of now
	invalid string            // non-empty: the configuration is not "a root directory" now (loads are not judged)
	mutSeq  int               // mutations applied so far
	stale   map[string]string // contents that were replaced or removed -> what they were
	defined map[string]int    // file id -> mutSeq at its latest evaluation (its functions exist in the runtime)
}

// configure (re)computes what the configured root means in the model NOW.
func (w *world) configure(rootCfg string) {
	w.rootCfg = rootCfg
	w.rootCfgAbs = isAbs(rootCfg)
	w.realRoot, w.rootLinks = "", 0
	base := w.m.base
	switch w.mode {
	case "rfs":
		if r := w.m.resolve(w.cwdReal, rootCfg); r.Err == "" && r.Kind == "dir" {
			w.realRoot = r.Path
		}
	case "osroot", "cli":
		s := rootCfg
		if !isAbs(s) {
			s = w.cwdReal + "/" + s
		}
		w.rootAbs = lexClean(s)
		if r := w.m.resolve("/", w.rootAbs); r.Err == "" && r.Kind == "dir" {
			w.realRoot = r.Path
			w.rootLinks = r.Links
		}
	case "mapfs":
		w.rootAbs, w.realRoot = base, base
	}
	w.invalid = ""
	switch r := w.m.resolve(w.cwdReal, rootCfg); {
	case rootCfg == "":
		w.invalid = "empty-root" // an empty RootDir means "no confinement": outside the property
	case r.Err == "" && r.Kind != "dir":
		// "a root directory configured": a root that is a regular file is not
		// a configuration the property speaks about
		w.invalid = "root-is-a-file"
	case w.realRoot != "" && !inside(base, w.realRoot):
		// the sandbox must stay sealed: the model knows nothing above the base
		w.invalid = "root-above-base"
	}
}

// pinOpenedRoot: an os.Root keeps the DIRECTORY it opened, whatever its name
// comes to mean later (a link retargeted, the working directory changed); in
// a history the model therefore names the file system by that directory.
func (w *world) pinOpenedRoot() {
	if w.history && w.realRoot != "" {
		w.rootAbs, w.rootLinks = w.realRoot, 0
	}
}

// outsideBytes reports whether data carries the marker of a file that is
// outside the root now.
func (w *world) outsideBytes(data []byte) bool {
	if !w.history {
		return bytes.Contains(data, []byte("OUTSIDE:"))
	}
	for id, n := range w.m.files {
		if !w.isInside(n) && bytes.Contains(data, []byte("; FILE:"+id+"\n")) {
			return true
		}
	}
	return false
}

func fnName(ref string) (name, id string, k int, ok bool) {
	i := strings.Index(ref, "/")
	if i <= 0 {
		return "", "", 0, false
	}
	id = ref[:i]
	for _, c := range id {
		if !(c >= '0' && c <= '9' || c >= 'a' && c <= 'z' || c >= 'A' && c <= 'Z') {
			return "", "", 0, false
		}
	}
	k = 0
	if ref[i+1:] == "" || len(ref[i+1:]) > 2 {
		return "", "", 0, false
	}
	for _, c := range ref[i+1:] {
		if c < '0' || c > '9' {
			return "", "", 0, false
		}
		k = k*10 + int(c-'0')
	}
	return fmt.Sprintf("c20f-%s-%d", id, k), id, k, true
}

func okID(id string) bool {
	if id == "" || len(id) > 12 {
		return false
	}
	for _, c := range id {
		if !(c >= '0' && c <= '9' || c >= 'a' && c <= 'z' || c >= 'A' && c <= 'Z') {
			return false
		}
	}
	return true
}

const defBase = 100 // "refused" index of the load made by function k is defBase+k

func (w *world) isInside(n *Node) bool {
	return w.realRoot != "" && inside(w.realRoot, w.m.abs(n))
}

// similar: two component names a reader (or a sloppy comparison) could take
// for one another: equal up to case folding, or one a prefix of the other.
func similar(a, b string) bool {
	return a == b || strings.EqualFold(a, b) || strings.HasPrefix(a, b) || strings.HasPrefix(b, a)
}

// inSibling reports whether the real path p lies OUTSIDE the resolved root in
// a look-alike of it: every component of the root path has a similar
// counterpart in p, at least one differs.  (Classification and failure keys
// only; inside/outside is decided by inside().)
func (w *world) inSibling(p string) bool {
	if w.realRoot == "" || inside(w.realRoot, p) {
		return false
	}
	r, q := comps(w.realRoot), comps(p)
	if len(q) < len(r) {
		return false
	}
	for i := range r {
		if !similar(r[i], q[i]) {
			return false
		}
	}
	return true
}

// foldSibling: the look-alike differs from the root by case folding only.
func (w *world) foldSibling(p string) bool {
	if !w.inSibling(p) {
		return false
	}
	r, q := comps(w.realRoot), comps(p)
	for i := range r {
		if !strings.EqualFold(r[i], q[i]) {
			return false
		}
	}
	return true
}

func fileContent(n *Node, mark string, base string) string {
	var b strings.Builder
	fmt.Fprintf(&b, "; %s:%s\n(probe \"begin\" \"%s\")\n", mark, n.ID, n.ID)
	for k, l := range n.Defs {
		l = subst(l, base)
		if strings.ContainsAny(l, "\"\\\n") {
			l = "c20-unspeakable"
		}
		fmt.Fprintf(&b, "(defun c20f-%s-%d () (handler-bind ((condition (lambda (c &rest _) (probe \"refused\" \"%s\" %d)))) (load-file \"%s\")))\n", n.ID, k, n.ID, defBase+k, l)
	}
	for k, l := range n.Loads {
		l = subst(l, base)
		if strings.ContainsAny(l, "\"\\\n") {
			continue
		}
		fmt.Fprintf(&b, "(handler-bind ((condition (lambda (c &rest _) (probe \"refused\" \"%s\" %d)))) (load-file \"%s\"))\n", n.ID, k, l)
	}
	for k, c := range n.Calls {
		fn, _, _, ok := fnName(c)
		if !ok {
			continue
		}
		fmt.Fprintf(&b, "(handler-bind ((condition (lambda (c &rest _) (probe \"nocall\" \"%s\" %d)))) (%s))\n", n.ID, k, fn)
	}
	fmt.Fprintf(&b, "(probe \"end\" \"%s\")\n", n.ID)
	return b.String()
}

func (w *world) contentOf(n *Node) string {
	mark := "OUTSIDE"
	if w.isInside(n) {
		mark = "INSIDE"
	}
	if w.history {
		mark = "FILE" // what is inside changes during the case
	}
	if w.mode == "cli" {
		return cliContent(n, mark, w.m.base)
	}
	return fileContent(n, mark, w.m.base)
}

// variants lists the absolute-or-cwd-relative path spellings the location may
// legitimately denote: physical and lexical reading of dir(ctx)/loc (and, for
// the fs-backed libraries, of an absolute location taken relative to the file
// system root).
func (w *world) variants(ctxLoc, loc string) (phys []string, lex []string) {
	if w.mode == "rfs" {
		raw := loc
		if !isAbs(loc) && ctxLoc != "" {
			raw = dirText(ctxLoc) + "/" + loc
		}
		return []string{raw}, []string{lexClean(raw)}
	}
	var rels []string
	if ctxLoc != "" {
		rels = append(rels, dirText(ctxLoc)+"/"+loc)
	} else {
		rels = append(rels, loc)
	}
	if isAbs(loc) && ctxLoc != "" {
		rels = append(rels, loc)
	}
	for _, r := range rels {
		phys = append(phys, w.rootAbs+"/"+r)
		c := lexClean(r)
		if c == ".." || strings.HasPrefix(c, "../") {
			continue
		}
		lex = append(lex, w.rootAbs+"/"+strings.TrimPrefix(c, "/"))
	}
	return
}

type verdict struct {
	allowed map[string]*Node // id -> inside file the location may denote
	must    *Node            // plain relative location: this file has to be served
	outside bool             // some reading resolves to an existing path outside the root
	sibling bool             // ... inside a look-alike of the root
	foldSib bool             // ... that differs from the root by letter case / case folding only
	links   int              // max symbolic links crossed by a reading
	enoent  bool             // no reading resolves at all
	notFile bool
}

func (w *world) judge(ctxLoc, loc string) verdict {
	v := verdict{allowed: map[string]*Node{}}
	phys, lex := w.variants(ctxLoc, loc)
	any := false
	note := func(r resolved) {
		if r.Links > v.links {
			v.links = r.Links
		}
		if r.Err != "" {
			return
		}
		any = true
		in := w.realRoot != "" && inside(w.realRoot, r.Path)
		if !in {
			v.outside = true
			if w.inSibling(r.Path) {
				v.sibling = true
			}
			if w.foldSibling(r.Path) {
				v.foldSib = true
			}
		}
		if r.Kind != "file" {
			v.notFile = true
			return
		}
		if in {
			v.allowed[r.Node.ID] = r.Node
		}
	}
	var pr, lr []resolved
	for _, p := range phys {
		r := w.m.resolve(w.cwdReal, p)
		pr = append(pr, r)
		note(r)
	}
	for _, p := range lex {
		r := w.m.resolve(w.cwdReal, p)
		lr = append(lr, r)
		note(r)
	}
	v.enoent = !any
	// positive direction: a relative location, loaded from a file, whose path
	// dir(F)/loc crosses no symbolic link and reads the same physically and
	// lexically, inside the resolved root.
	// The promise is only exercised with all-absolute configuration (absolute
	// RootDir, absolute loading-file location), which is what the runtime
	// itself produces: see NOTES.md "relative spellings".
	absCfg := w.mode != "rfs" || (isAbs(ctxLoc) && w.rootCfgAbs)
	if !isAbs(loc) && ctxLoc != "" && absCfg && len(pr) == 1 && len(lr) == 1 {
		p, l := pr[0], lr[0]
		if p.Err == "" && l.Err == "" && p.Kind == "file" && p.Path == l.Path && p.Links == w.rootLinks && l.Links == w.rootLinks &&
			w.realRoot != "" && inside(w.realRoot, p.Path) {
			v.must = p.Node
		}
	}
	return v
}

func (w *world) keyPrefix() string {
	if w.mutSeq > 0 {
		// a load made after the configuration or the layout changed
		switch w.mode {
		case "osroot":
			return "osroot-history-"
		}
		return "history-"
	}
	switch w.mode {
	case "osroot":
		return "osroot-"
	case "cli":
		return "cli-"
	case "mapfs":
		return "mapfs-"
	}
	return ""
}

// checkCall is the per-call oracle on one recorded LoadSource call.
func (w *world) checkCall(e event, ctx *vcommon.Ctx) (*Node, *vcommon.Failure) {
	v := w.judge(e.CtxLoc, e.Loc)
	feat := ""
	if hasDotDot(e.Loc) {
		ctx.Class("loc:dotdot")
		feat = "dotdot"
	}
	if isAbs(e.Loc) {
		ctx.Class("loc:absolute")
		feat = "absolute"
	}
	if strings.Contains(strings.TrimPrefix(e.Loc, "/"), "//") {
		ctx.Class("loc:doubled-separator")
	}
	if v.links-w.rootLinks > 0 || (w.mode == "rfs" && v.links > 0) {
		ctx.Class("loc:crosses-symlink")
		feat = "symlink"
	}
	if v.sibling {
		ctx.Class("loc:into-prefix-sibling")
	}
	if v.foldSib {
		ctx.Class("loc:into-casefold-sibling")
	}
	if feat != "" && (v.outside || v.sibling) {
		ctx.Class("op:nontrivial")
		w.nontrivial = true
	}
	desc := fmt.Sprintf("mode=%s root=%q cwd=%q ctx=%q loc=%q", w.mode, w.rootAbsOrSpelling(), w.cwdReal, e.CtxLoc, e.Loc)
	if feat != "" && (v.outside || v.sibling) && w.notes < 3 {
		w.notes++
		out := "served"
		if e.Err != nil {
			out = "refused: " + e.Err.Error()
		}
		ctx.Note(fmt.Sprintf("non-trivial load (%s, resolves outside=%v sibling=%v links=%d): ctx=%q loc=%q -> %s", feat, v.outside, v.sibling, v.links, e.CtxLoc, e.Loc, out))
	}
	if e.Err != nil {
		if w.outsideBytes(e.Data) {
			return nil, vcommon.Failf(w.keyPrefix()+"escape/bytes-with-error", "%s: error %v returned together with outside bytes %q", desc, e.Err, e.Data)
		}
		switch {
		case v.must != nil:
			ctx.Class("outcome:REFUSED-PLAIN")
			return nil, vcommon.Failf(w.keyPrefix()+"relative/refused-plain-inside",
				"%s: refused (%v) although dir(loading file)/loc is the symlink-free path of inside file %s (%s)", desc, e.Err, v.must.ID, v.must.Path)
		case len(v.allowed) > 0:
			ctx.Class("outcome:refused-inside-nonplain")
		case v.sibling:
			ctx.Class("outcome:refused-prefix-sibling")
		case v.outside:
			ctx.Class("outcome:refused-outside")
		case v.notFile:
			ctx.Class("outcome:refused-not-a-file")
		default:
			ctx.Class("outcome:refused-unresolvable")
		}
		return nil, nil
	}
	n, known := w.content[string(e.Data)]
	if !known {
		if what, was := w.stale[string(e.Data)]; was {
			return nil, vcommon.Failf(w.keyPrefix()+"stale/served-replaced-content", "%s: returned the content of %s, which is not on the disk any more: %q", desc, what, e.Data)
		}
		if w.outsideBytes(e.Data) {
			return nil, vcommon.Failf(w.keyPrefix()+"escape/outside-bytes", "%s: returned bytes carrying an OUTSIDE marker: %q", desc, e.Data)
		}
		return nil, vcommon.Failf(w.keyPrefix()+"serve/unknown-bytes", "%s: returned bytes that are no sandbox file's exact content: %q (err=nil)", desc, e.Data)
	}
	if !w.isInside(n) {
		how := "plain"
		switch {
		case v.links-w.rootLinks > 0:
			how = "symlink"
		case w.foldSibling(w.m.abs(n)):
			how = "casefold-sibling"
		case w.inSibling(w.m.abs(n)):
			how = "prefix-sibling"
		case hasDotDot(e.Loc):
			how = "dotdot"
		case isAbs(e.Loc):
			how = "absolute"
		}
		if w.mode == "rfs" && !w.rootCfgAbs {
			how = "relative-rootdir"
		}
		return nil, vcommon.Failf(w.keyPrefix()+"escape/"+how,
			"%s: served file %s (%s) whose real path %s is OUTSIDE the resolved root %q; trueloc=%q", desc, n.ID, n.Path, w.m.abs(n), w.realRoot, e.TrueLoc)
	}
	if _, ok := v.allowed[n.ID]; !ok {
		how := "other-file"
		if r := w.m.resolve(w.cwdReal, e.Loc); !isAbs(e.Loc) && r.Err == "" && r.Node == n {
			how = "cwd-instead-of-loading-dir"
		} else if r := w.m.resolve(w.realRoot, e.Loc); !isAbs(e.Loc) && r.Err == "" && r.Node == n {
			how = "root-instead-of-loading-dir"
		}
		var want []string
		for id, a := range v.allowed {
			want = append(want, id+"="+a.Path)
		}
		return nil, vcommon.Failf(w.keyPrefix()+"relative/"+how,
			"%s: served inside file %s (%s) but dir(loading file)/loc denotes %v", desc, n.ID, n.Path, want)
	}
	ctx.Class("outcome:served-inside")
	return n, nil
}

func (w *world) rootAbsOrSpelling() string {
	if w.rootAbs != "" {
		return w.rootAbs
	}
	return w.realRoot
}

// ctxNames reports whether a context location names the executing file.
func (w *world) ctxNames(ctxLoc string, exec *Node) bool {
	if exec == nil {
		return ctxLoc == ""
	}
	if ctxLoc == "" {
		return false
	}
	p := ctxLoc
	if w.mode != "rfs" {
		p = w.rootAbs + "/" + ctxLoc
	}
	r := w.m.resolve(w.cwdReal, p)
	return r.Err == "" && r.Node == exec
}

// ---------- trace simulation ----------

type sim struct {
	w   *world
	ev  []event
	ctx *vcommon.Ctx
}

func (s *sim) at(i int) string {
	if i >= len(s.ev) {
		return "<end of trace>"
	}
	e := s.ev[i]
	if e.Call {
		return fmt.Sprintf("load(ctx=%q loc=%q err=%v)", e.CtxLoc, e.Loc, e.Err)
	}
	return fmt.Sprintf("probe(%s %s %d)", e.Kind, e.ID, e.N)
}

// load consumes the library call for (load-file loc) issued by exec (nil for
// the top level) and, when it was served, the evaluation of the served file.
func (s *sim) load(i int, exec *Node, wantCtx *string, loc string) (int, *Node, *vcommon.Failure) {
	return s.loadVia(i, exec, wantCtx, loc, false)
}

// loadVia: viaFn = the load-file expression is the body of a FUNCTION defined
// by file exec and called from somewhere else.
func (s *sim) loadVia(i int, exec *Node, wantCtx *string, loc string, viaFn bool) (int, *Node, *vcommon.Failure) {
	if i >= len(s.ev) || !s.ev[i].Call || s.ev[i].Loc != loc {
		return i, nil, vcommon.Failf(s.w.keyPrefix()+"trace/missing-load", "expected the library call for location %q, trace has %s", loc, s.at(i))
	}
	e := s.ev[i]
	okCtx := false
	if wantCtx != nil {
		okCtx = e.CtxLoc == *wantCtx
	} else {
		okCtx = s.w.ctxNames(e.CtxLoc, exec)
	}
	if !okCtx && viaFn && exec != nil && s.w.defined[exec.ID] < s.w.mutSeq {
		// the function was defined before the layout changed: what its
		// recorded location names now is not decided by the property
		s.ctx.Class("context:unverified-after-mutation")
		okCtx = true
	}
	if !okCtx {
		who := "<top level>"
		if exec != nil {
			who = exec.ID + " (" + exec.Path + ")"
		}
		key := "context/not-the-loading-file"
		if viaFn {
			key = "context/not-the-file-containing-the-call"
			who = "a function defined in " + who
		}
		return i, nil, vcommon.Failf(s.w.keyPrefix()+key,
			"load of %q issued by %s reached the library with context location %q, which does not name that file", loc, who, e.CtxLoc)
	}
	if viaFn {
		s.ctx.Class("op:load-from-function")
	}
	n, f := s.w.checkCall(e, s.ctx)
	if f != nil {
		return i, nil, f
	}
	i++
	if n == nil {
		return i, nil, nil
	}
	i, f = s.file(i, n)
	return i, n, f
}

func (s *sim) expect(i int, kind, id string, n int) *vcommon.Failure {
	if i < len(s.ev) && !s.ev[i].Call && s.ev[i].Kind == kind && s.ev[i].ID == id && ((kind != "refused" && kind != "nocall") || s.ev[i].N == n) {
		return nil
	}
	return vcommon.Failf(s.w.keyPrefix()+"trace/evaluation-differs",
		"expected effect probe(%s %s %d) from evaluating exactly the served bytes, trace has %s", kind, id, n, s.at(i))
}

// call consumes the effects of calling function ref ("<ID>/<k>"): the load
// made by its body, attributed to the file that DEFINES it.  defined=false is
// returned when the runtime cannot know the function.
func (s *sim) call(i int, ref string) (int, bool, *vcommon.Failure) {
	_, id, k, ok := fnName(ref)
	d := s.w.m.files[id]
	if _, def := s.w.defined[id]; !ok || !def || d == nil || k >= len(d.Defs) {
		return i, false, nil
	}
	l := subst(d.Defs[k], s.w.m.base)
	if strings.ContainsAny(l, "\"\\\n") {
		l = "c20-unspeakable"
	}
	i, served, f := s.loadVia(i, d, nil, l, true)
	if f != nil {
		return i, true, f
	}
	if served == nil {
		if f := s.expect(i, "refused", d.ID, defBase+k); f != nil {
			return i, true, f
		}
		i++
	} else {
		s.ctx.Class("op:function-load-served")
	}
	return i, true, nil
}

func (s *sim) file(i int, n *Node) (int, *vcommon.Failure) {
	if f := s.expect(i, "begin", n.ID, 0); f != nil {
		return i, f
	}
	s.w.defined[n.ID] = s.w.mutSeq
	i++
	for k, l := range n.Loads {
		l = subst(l, s.w.m.base)
		if strings.ContainsAny(l, "\"\\\n") {
			continue
		}
		var served *Node
		var f *vcommon.Failure
		i, served, f = s.load(i, n, nil, l)
		if f != nil {
			return i, f
		}
		if served == nil {
			if f := s.expect(i, "refused", n.ID, k); f != nil {
				return i, f
			}
			i++
		} else {
			s.ctx.Class("op:nested-load-served")
		}
	}
	for k, c := range n.Calls {
		if _, _, _, ok := fnName(c); !ok {
			continue
		}
		var def bool
		var f *vcommon.Failure
		i, def, f = s.call(i, c)
		if f != nil {
			return i, f
		}
		if !def {
			if f := s.expect(i, "nocall", n.ID, k); f != nil {
				return i, f
			}
			i++
		}
	}
	if f := s.expect(i, "end", n.ID, 0); f != nil {
		return i, f
	}
	return i + 1, nil
}

// ---------- materialisation ----------

func kernelCwd() string {
	buf := make([]byte, 4096)
	n, err := syscall.Getcwd(buf)
	if err != nil {
		panic("harness: getcwd: " + err.Error())
	}
	s := string(buf[:n])
	return strings.TrimRight(s, "\x00")
}

func must(err error) {
	if err != nil {
		panic("harness: " + err.Error())
	}
}

func scratchDir() string {
	if d := os.Getenv("VERIF_SCRATCH"); d != "" {
		if os.MkdirAll(d, 0o755) == nil {
			return d
		}
	}
	return os.TempDir()
}

// ---------- the oracle ----------

func checkCase(c Case, ctx *vcommon.Ctx) (fail *vcommon.Failure) {
	if c.Mode == "dirfs" {
		c.Mode = "osroot" // name used before the cmd wiring moved to os.Root
	}
	if c.Mode != "rfs" && c.Mode != "osroot" && c.Mode != "mapfs" && c.Mode != "cli" {
		return nil
	}
	orig := c
	// the oracle works on its own copy of the nodes: mutation ops change them
	c.SB.Nodes = append([]Node(nil), c.SB.Nodes...)
	oldwd, err := os.Getwd()
	must(err)
	var base string
	onDisk := c.Mode != "mapfs"
	if onDisk {
		tmp, err := os.MkdirTemp(scratchDir(), "c20-")
		must(err)
		defer os.RemoveAll(tmp)
		must(os.Chdir(tmp))
		base = kernelCwd() // the kernel's own real path of the sandbox base
		defer os.Chdir(oldwd)
	} else {
		base = "/M"
	}
	w := &world{mode: c.Mode, m: newModel(&c.SB, base), content: map[string]*Node{}, stale: map[string]string{}, defined: map[string]int{}}
	for _, op := range c.Ops {
		if isMutation(op.Entry) && onDisk && c.Mode != "cli" {
			w.history = true
		}
	}
	w.cwdReal = base
	if cn, ok := w.m.nodes[base+"/"+c.SB.Cwd]; ok && cn.Kind == "dir" {
		w.cwdReal = base + "/" + c.SB.Cwd
	}
	rootCfg := subst(c.SB.Root, base)
	w.configure(rootCfg)
	if w.invalid == "empty-root" {
		return nil
	}
	if w.invalid != "" {
		ctx.Class("skip:" + w.invalid)
		return nil
	}

	// materialise
	mapfs := fstest.MapFS{}
	for i := range c.SB.Nodes {
		n := &c.SB.Nodes[i]
		abs := base + "/" + n.Path
		if w.m.nodes[abs] != n {
			continue // ill-formed node ignored by the model too
		}
		switch n.Kind {
		case "dir":
			if onDisk {
				must(os.Mkdir(abs, 0o755))
			}
		case "file":
			txt := w.contentOf(n)
			w.content[txt] = n
			if onDisk {
				must(os.WriteFile(abs, []byte(txt), 0o644))
			} else {
				mapfs[n.Path] = &fstest.MapFile{Data: []byte(txt)}
			}
		case "link":
			if onDisk {
				must(os.Symlink(subst(n.Target, base), abs))
			}
		}
	}
	if onDisk {
		must(os.Chdir(w.cwdReal))
	}

	if c.Mode == "cli" {
		return w.runCLI(c, ctx)
	}
	// the library under test, configured the way the anchored code does; ONE
	// library value and one runtime serve every operation of the case
	var log []event
	var inner lisp.SourceLibrary
	var rfsLib *lisp.RelativeFileSystemLibrary
	var fsLib *lisp.FSLibrary
	var opened []*os.Root
	defer func() {
		for _, r := range opened {
			r.Close()
		}
	}()
	// openRoot: what cmd/run.go, cmd/debug.go and repl/repl.go configure:
	// filepath.Abs, os.OpenRoot, FSLibrary over root.FS().  In-process twin of
	// the "cli" sub-property (which runs the real binary).
	openRoot := func(cfg string) fs.FS {
		abs, err := filepath.Abs(cfg)
		must(err)
		if abs != w.rootAbs {
			panic(fmt.Sprintf("harness: model root %q != filepath.Abs %q", w.rootAbs, abs))
		}
		w.pinOpenedRoot()
		r, err := os.OpenRoot(abs)
		if err != nil {
			return fstest.MapFS{} // the CLI exits: nothing is ever served
		}
		opened = append(opened, r)
		return r.FS()
	}
	switch c.Mode {
	case "rfs":
		rfsLib = &lisp.RelativeFileSystemLibrary{RootDir: rootCfg}
		inner = rfsLib
	case "osroot":
		fsLib = &lisp.FSLibrary{FS: openRoot(rootCfg)}
		inner = fsLib
	case "mapfs":
		inner = &lisp.FSLibrary{FS: mapfs}
	}
	lib := &recLib{inner: inner, log: &log}
	rt := vcommon.NewRuntime(vcommon.Cfg{NoStdlib: true, NoProbes: true, Library: lib})
	limitHit := false
	rt.Env.AddBuiltins(true, vcommon.HostBuiltin("probe", lisp.Formals("kind", "id", lisp.VarArgSymbol, "rest"),
		func(env *lisp.LEnv, args *lisp.LVal) *lisp.LVal {
			if len(log) >= eventLimit {
				limitHit = true
				return env.Errorf("probe: event limit")
			}
			e := event{Kind: args.Cells[0].Str, ID: args.Cells[1].Str}
			if len(args.Cells) > 2 && args.Cells[2].Type == lisp.LInt {
				e.N = args.Cells[2].Int
			}
			log = append(log, e)
			return lisp.String(e.ID)
		}))

	rootClasses := func() {
		if w.realRoot == "" {
			ctx.Class("root:unresolvable")
		} else if c.Mode != "mapfs" {
			if r := w.m.resolve(w.cwdReal, w.rootCfg); r.Links > 0 {
				ctx.Class("root:is-symlink")
			}
		}
		if inside(w.realRoot, w.cwdReal) && w.realRoot != "" {
			ctx.Class("cwd:inside-root")
		}
	}
	rootClasses()
	if w.history {
		ctx.Class("case:history")
	}

	servedAny := false
	var known *vcommon.Failure
	lastMut := ""
	for oi, op := range c.Ops {
		log = log[:0]
		limitHit = false
		if isMutation(op.Entry) {
			if !w.history {
				continue
			}
			before := w.realRoot
			ok := false
			if op.Entry == "setroot" {
				cfg := subst(op.Arg, base)
				if cfg != "" && !strings.ContainsRune(cfg, 0) {
					ok = true
					w.configure(cfg)
					switch c.Mode {
					case "rfs":
						// the exported field is reassigned on the SAME library value
						rfsLib.RootDir = cfg
					case "osroot":
						// the same library value gets a newly opened root
						fsLib.FS = openRoot(cfg)
					}
				}
			} else {
				ok = w.mutate(op)
				if ok && c.Mode == "rfs" {
					w.configure(w.rootCfg) // RootDir is resolved at every load
				}
			}
			if !ok {
				ctx.Class("mut:ill-formed-skipped")
				continue
			}
			w.mutSeq++
			lastMut = op.Entry
			ctx.Class("mut:" + op.Entry)
			if w.realRoot != before {
				ctx.Class("mut:root-means-another-directory")
				if op.Entry != "setroot" {
					ctx.Class("mut:root-moved-by-" + op.Entry)
				}
			}
			continue
		}
		if w.invalid != "" {
			ctx.Class("skip:" + w.invalid)
			continue
		}
		loc := subst(op.Loc, base)
		opctx := subst(op.Ctx, base)
		if strings.ContainsAny(loc, "\"\\\n\x00") || strings.ContainsAny(opctx, "\"\\\n\x00") {
			continue
		}
		ctx.Class("entry:" + op.Entry)
		if w.mutSeq > 0 {
			ctx.Class("op:load-after-" + lastMut)
		}
		if opctx != "" {
			w.ctxClasses(opctx, ctx)
		}
		var res *lisp.LVal
		switch op.Entry {
		case "lib":
			lib.LoadSource(lisp.NewSourceContext(lastOf("/"+opctx), opctx), loc)
			n, f := w.checkCall(log[0], ctx)
			if f != nil {
				if ctx.Known(f.Key) {
					if known == nil {
						known = f
					}
					ctx.Class("known:" + f.Key)
					continue
				}
				return f
			}
			if n != nil {
				servedAny = true
			}
			continue
		case "loadfile":
			opctx = ""
			res = rt.Env.LoadFile(loc)
		case "loadfilectx":
			opctx = ""
			res = rt.Env.LoadFileContext(context.Background(), loc)
		case "lisp", "call":
			src := fmt.Sprintf("(load-file \"%s\")", loc)
			if op.Entry == "call" {
				fn, _, _, ok := fnName(op.Loc)
				if !ok {
					continue
				}
				src = "(" + fn + ")"
			}
			if opctx == "" {
				res = rt.Env.LoadString("main", src)
			} else {
				res = rt.Env.LoadLocation(lastOf("/"+opctx), opctx, strings.NewReader(src))
			}
		default:
			continue
		}
		if res == nil {
			return vcommon.Failf("nil-result", "op %d (%s %q): nil result", oi, op.Entry, loc)
		}
		if lisp.IsInternalPanic(res) {
			return vcommon.Failf("internal-panic", "op %d (%s ctx=%q loc=%q): recovered Go panic: %v", oi, op.Entry, opctx, loc, res)
		}
		f, served := w.checkOp(oi, op.Entry, opctx, loc, log, limitHit, res, ctx)
		// whatever was evaluated defined its functions in the runtime
		for _, e := range log {
			if !e.Call && e.Kind == "begin" {
				w.defined[e.ID] = w.mutSeq
			}
		}
		if f != nil {
			if ctx.Known(f.Key) {
				// a listed finding: remember it, keep checking the other loads
				if known == nil {
					known = f
				}
				ctx.Class("known:" + f.Key)
				continue
			}
			return f
		}
		if served {
			servedAny = true
		}
	}
	if servedAny {
		ctx.Class("case:loads-an-inside-file")
	} else {
		ctx.Class("case:loads-nothing")
	}
	// the distinct key of a non-trivial case is the whole case
	if w.nontrivial {
		b, _ := json.Marshal(orig)
		ctx.NonTrivial(string(b))
	}
	return known
}

// ctxClasses classifies the spelling of a loading-file context.
func (w *world) ctxClasses(opctx string, ctx *vcommon.Ctx) {
	if w.mode == "rfs" {
		switch {
		case !isAbs(opctx):
			ctx.Class("ctx:relative-to-cwd")
		case lexClean(opctx) != opctx:
			ctx.Class("ctx:absolute-unclean")
		default:
			ctx.Class("ctx:absolute-clean")
		}
		return
	}
	c := lexClean(opctx)
	switch {
	case strings.HasPrefix(opctx, w.m.base+"/"):
		ctx.Class("ctx:host-absolute-path")
	case c == ".." || strings.HasPrefix(c, "../"):
		ctx.Class("ctx:outside-the-fs")
	case isAbs(opctx):
		ctx.Class("ctx:rooted")
	case c != opctx:
		ctx.Class("ctx:unclean (./, //, X/..)")
	default:
		ctx.Class("ctx:clean-unrooted")
	}
	if isAbs(opctx) && hasDotDot(opctx) {
		ctx.Class("ctx:rooted-with-dotdot")
	}
}

// mutate applies a layout / working-directory mutation to the model and to
// the disk.  Ill-formed mutations (possible after shrinking or in a
// hand-edited replay) are skipped by returning false.
func (w *world) mutate(op Op) bool {
	base := w.m.base
	if op.Path == "" || strings.HasPrefix(op.Path, "/") || strings.ContainsRune(op.Path, 0) || strings.ContainsRune(op.Arg, 0) {
		return false
	}
	abs := base + "/" + op.Path
	n := w.m.nodes[abs]
	atomicWrite := func(write func(tmp string) error) {
		tmp := parentOf(abs) + "/.c20-tmp"
		os.Remove(tmp)
		must(write(tmp))
		must(os.Rename(tmp, abs))
	}
	if (op.Entry == "replace" || op.Entry == "create-file") && !okID(op.Arg) {
		return false
	}
	switch op.Entry {
	case "chdir":
		if n == nil || n.Kind != "dir" {
			return false
		}
		must(os.Chdir(abs))
		w.cwdReal = abs
	case "retarget":
		if n == nil || n.Kind != "link" || op.Arg == "" {
			return false
		}
		n.Target = op.Arg
		atomicWrite(func(tmp string) error { return os.Symlink(subst(op.Arg, base), tmp) })
	case "replace":
		// (files that define functions keep their identity: see NOTES.md)
		if n == nil || n.Kind != "file" || len(n.Defs) > 0 {
			return false
		}
		old, oldID := w.contentOf(n), n.ID
		if !w.m.reid(n, op.Arg) {
			return false
		}
		delete(w.content, old)
		w.stale[old] = fmt.Sprintf("file %s (%s) before it was replaced", oldID, n.Path)
		txt := w.contentOf(n)
		w.content[txt] = n
		atomicWrite(func(tmp string) error { return os.WriteFile(tmp, []byte(txt), 0o644) })
	case "remove":
		if n == nil || n.Kind == "dir" || len(n.Defs) > 0 {
			return false
		}
		if n.Kind == "file" {
			old := w.contentOf(n)
			delete(w.content, old)
			w.stale[old] = fmt.Sprintf("file %s (%s) before it was removed", n.ID, n.Path)
		}
		if !w.m.remove(n) {
			return false
		}
		must(os.Remove(abs))
	case "create-file", "create-link":
		nn := &Node{Path: op.Path, Kind: "file", ID: op.Arg}
		if op.Entry == "create-link" {
			nn = &Node{Path: op.Path, Kind: "link", Target: op.Arg}
			if op.Arg == "" {
				return false
			}
		}
		if !w.m.add(nn) {
			return false
		}
		if nn.Kind == "file" {
			txt := w.contentOf(nn)
			if _, dup := w.stale[txt]; dup {
				delete(w.stale, txt)
			}
			w.content[txt] = nn
			must(os.WriteFile(abs, []byte(txt), 0o644))
		} else {
			must(os.Symlink(subst(op.Arg, base), abs))
		}
	default:
		return false
	}
	return true
}

// checkOp judges one env-level load: its result value and its event log.
func (w *world) checkOp(oi int, entry, opctx, loc string, log []event, limitHit bool, res *lisp.LVal, ctx *vcommon.Ctx) (*vcommon.Failure, bool) {
	where := fmt.Sprintf("op %d (%s ctx=%q loc=%q)", oi, entry, opctx, loc)
	scan := func() *vcommon.Failure {
		for _, e := range log {
			if e.Call {
				continue
			}
			if w.history && e.Kind == "refused" && e.N >= defBase {
				// the handler of a FUNCTION: its file was evaluated (and judged)
				// when it was loaded, maybe under another configuration
				continue
			}
			if n := w.m.files[e.ID]; n == nil || !w.isInside(n) {
				return vcommon.Failf(w.keyPrefix()+"escape/outside-effect", "%s: effect %s(%s) recorded: a file outside the root was evaluated", where, e.Kind, e.ID)
			}
		}
		return nil
	}
	if limitHit {
		// cyclic loads cut by the event limit: judge every call and effect on
		// its own, skip the exact-trace comparison
		ctx.Class("op:cycle-cut")
		for _, e := range log {
			if e.Call {
				if _, f := w.checkCall(e, ctx); f != nil {
					return f, false
				}
			}
		}
		return scan(), false
	}
	// the trace is exactly: the library call, then the evaluation of exactly
	// the served bytes, recursively
	s := &sim{w: w, ev: log, ctx: ctx}
	if entry == "call" {
		// a function whose body is a load-file, called from the top level
		end, def, f := s.call(0, loc)
		if f != nil {
			return f, false
		}
		if f := scan(); f != nil {
			return f, false
		}
		if !def {
			ctx.Class("op:call-of-undefined-function")
			if len(log) != 0 || res.Type != lisp.LError {
				return vcommon.Failf(w.keyPrefix()+"trace/undefined-function-ran", "%s: no evaluated file defines the function, yet the call produced %s / value %v", where, s.at(0), res), false
			}
			return nil, false
		}
		if end != len(log) {
			return vcommon.Failf(w.keyPrefix()+"trace/extra-events", "%s: unexpected trailing events from %s", where, s.at(end)), false
		}
		return nil, false
	}
	end, served, f := s.load(0, nil, &opctx, loc)
	if f != nil {
		return f, false
	}
	if f := scan(); f != nil {
		return f, false
	}
	if end != len(log) {
		return vcommon.Failf(w.keyPrefix()+"trace/extra-events", "%s: unexpected trailing events from %s", where, s.at(end)), false
	}
	if served == nil {
		if res.Type != lisp.LError {
			return vcommon.Failf(w.keyPrefix()+"refusal/no-error", "%s: the library refused (%v) but the load returned the non-error value %v", where, log[0].Err, res), false
		}
		return nil, false
	}
	if res.Type != lisp.LString || res.Str != served.ID {
		return vcommon.Failf(w.keyPrefix()+"trace/value", "%s: served %s but the load's value is %v", where, served.ID, res), false
	}
	return nil, true
}

func TestCheck(t *testing.T) {
	vcommon.Main(t, "C20",
		vcommon.S("rfs", 9600, 480000, genCase("rfs"), checkCase),
		vcommon.S("osroot", 4000, 200000, genCase("osroot"), checkCase),
		vcommon.S("cli", 1280, 48000, genCase("cli"), checkCase),
		vcommon.S("mapfs", 6400, 320000, genCase("mapfs"), checkCase),
		vcommon.S("toctou", 160, 3200, genRace(), checkRace),
		// histories: one library value and one runtime, the configuration or
		// the layout changed between the loads
		vcommon.S("history", 4000, 200000, genCaseH("rfs", true), checkCase),
		vcommon.S("osroot-history", 1600, 80000, genCaseH("osroot", true), checkCase),
	)
}
