// Model file system for C20: the generator's own tree plus an independent
// POSIX path resolver.  Nothing in this file touches the operating system and
// nothing uses path/filepath: the oracle's notion of "fully resolved real path"
// is decided here.
package c20

import (
	"sort"
	"strings"
)

// Node is one entry of a sandbox.  Path is slash separated and relative to the
// sandbox base.  The parent of every node is a plain directory node (links are
// only ever *created* at plain paths; they may of course be *traversed*).
type Node struct {
	Path   string   `json:"path"`
	Kind   string   `json:"kind"`             // "dir" | "file" | "link"
	ID     string   `json:"id,omitempty"`     // files: unique id
	Target string   `json:"target,omitempty"` // links: target text; a "$BASE" prefix is replaced by the absolute base
	Loads  []string `json:"loads,omitempty"`  // files: locations the file's lisp content load-files, in order
	// Defs: locations load-filed by FUNCTIONS the file defines: function k is
	// named c20f-<ID>-<k> and its body is (load-file Defs[k]) -- the call
	// expression is written in THIS file, whoever calls the function.
	Defs []string `json:"defs,omitempty"`
	// Calls: functions ("<ID>/<k>") the file calls after its own loads.
	Calls []string `json:"calls,omitempty"`
}

// Sandbox is the JSON-serialisable description of one directory layout.
type Sandbox struct {
	Nodes []Node `json:"nodes"`
	Root  string `json:"root"` // RootDir as configured ("$BASE/..." or relative to Cwd)
	Cwd   string `json:"cwd"`  // process working directory, relative to base (a plain directory)
}

const basePlaceholder = "$BASE"

type model struct {
	base  string           // absolute, symlink-free, no trailing slash
	nodes map[string]*Node // absolute path -> node
	kids  map[string][]string
	files map[string]*Node // id -> node
}

func subst(s, base string) string { return strings.ReplaceAll(s, basePlaceholder, base) }

func newModel(sb *Sandbox, base string) *model {
	m := &model{base: base, nodes: map[string]*Node{}, kids: map[string][]string{}, files: map[string]*Node{}}
	for i := range sb.Nodes {
		m.add(&sb.Nodes[i])
	}
	return m
}

// add inserts a node if it is well formed (parent is a plain directory, name
// free); returns whether it was added.  Ill-formed nodes (possible only in a
// hand-edited replay) are ignored by model and materialiser alike.
func (m *model) add(n *Node) bool {
	if n.Path == "" || strings.HasPrefix(n.Path, "/") {
		return false
	}
	for _, c := range strings.Split(n.Path, "/") {
		if c == "" || c == "." || c == ".." {
			return false
		}
	}
	abs := m.base + "/" + n.Path
	if _, dup := m.nodes[abs]; dup {
		return false
	}
	par := parentOf(abs)
	if par != m.base {
		p, ok := m.nodes[par]
		if !ok || p.Kind != "dir" {
			return false
		}
	}
	switch n.Kind {
	case "dir", "link":
	case "file":
		if n.ID == "" {
			return false
		}
		if _, dup := m.files[n.ID]; dup {
			return false
		}
		m.files[n.ID] = n
	default:
		return false
	}
	m.nodes[abs] = n
	m.kids[par] = append(m.kids[par], lastOf(abs))
	return true
}

func (m *model) abs(n *Node) string { return m.base + "/" + n.Path }

// remove deletes a file or link node (history mutations); directories are
// never removed.
func (m *model) remove(n *Node) bool {
	abs := m.abs(n)
	if m.nodes[abs] != n || n.Kind == "dir" {
		return false
	}
	delete(m.nodes, abs)
	par := parentOf(abs)
	ks := m.kids[par]
	for i, k := range ks {
		if k == lastOf(abs) {
			m.kids[par] = append(append([]string(nil), ks[:i]...), ks[i+1:]...)
			break
		}
	}
	if n.Kind == "file" {
		delete(m.files, n.ID)
	}
	return true
}

// reid gives a file node a new identity (its content was replaced).
func (m *model) reid(n *Node, id string) bool {
	if n.Kind != "file" || id == "" || m.nodes[m.abs(n)] != n {
		return false
	}
	if _, dup := m.files[id]; dup {
		return false
	}
	delete(m.files, n.ID)
	n.ID = id
	m.files[id] = n
	return true
}

func parentOf(abs string) string {
	i := strings.LastIndex(abs, "/")
	if i <= 0 {
		return "/"
	}
	return abs[:i]
}

func lastOf(abs string) string { return abs[strings.LastIndex(abs, "/")+1:] }

func joinReal(dir, name string) string {
	if dir == "/" {
		return "/" + name
	}
	return dir + "/" + name
}

// lookup returns the kind of the entry name inside the real directory dir.
// Directories above the base exist only along the base's own spine.
func (m *model) lookup(dir, name string) (string, *Node) {
	p := joinReal(dir, name)
	if p == m.base || strings.HasPrefix(m.base, p+"/") {
		return "dir", nil
	}
	if n, ok := m.nodes[p]; ok {
		return n.Kind, n
	}
	return "", nil
}

func (m *model) children(dir string) []string {
	k := append([]string(nil), m.kids[dir]...)
	sort.Strings(k)
	return k
}

type resolved struct {
	Path  string // real path (valid when Err == "")
	Kind  string // "dir" | "file"
	Links int    // symbolic links crossed
	Err   string // "", ENOENT, ENOTDIR, ELOOP
	Node  *Node
}

// resolve follows POSIX path resolution: components left to right, ".." is the
// parent of the directory reached so far (physical), symbolic links are
// spliced in at every component including the last one.
func (m *model) resolve(cwd, p string) resolved {
	if p == "" {
		return resolved{Err: "ENOENT"}
	}
	cur := cwd
	if strings.HasPrefix(p, "/") {
		cur = "/"
	}
	todo := strings.Split(p, "/")
	kind := "dir"
	var node *Node
	links := 0
	first := true
	for len(todo) > 0 {
		c := todo[0]
		todo = todo[1:]
		if first {
			first = false
			if c == "" { // the leading slash
				continue
			}
		}
		if kind != "dir" {
			return resolved{Err: "ENOTDIR", Links: links}
		}
		switch c {
		case "", ".":
			continue
		case "..":
			cur = parentOf(cur)
			continue
		}
		k, n := m.lookup(cur, c)
		switch k {
		case "":
			return resolved{Err: "ENOENT", Links: links}
		case "dir":
			cur = joinReal(cur, c)
		case "file":
			cur = joinReal(cur, c)
			kind = "file"
			node = n
		case "link":
			links++
			if links > 40 {
				return resolved{Err: "ELOOP", Links: links}
			}
			t := subst(n.Target, m.base)
			if t == "" {
				return resolved{Err: "ENOENT", Links: links}
			}
			if strings.HasPrefix(t, "/") {
				cur = "/"
			}
			todo = append(strings.Split(t, "/"), todo...)
		}
	}
	return resolved{Path: cur, Kind: kind, Links: links, Node: node}
}

// lexClean is a from-scratch lexical normaliser (the semantics of Go's
// path.Clean): it is only ever used to form the *lexical interpretation* of a
// location, which the oracle accepts next to the physical one.
func lexClean(p string) string {
	if p == "" {
		return "."
	}
	rooted := p[0] == '/'
	var out []string
	for _, c := range strings.Split(p, "/") {
		switch c {
		case "", ".":
		case "..":
			if len(out) > 0 && out[len(out)-1] != ".." {
				out = out[:len(out)-1]
			} else if !rooted {
				out = append(out, "..")
			}
		default:
			out = append(out, c)
		}
	}
	s := strings.Join(out, "/")
	if rooted {
		return "/" + s
	}
	if s == "" {
		return "."
	}
	return s
}

// dirText is the textual directory part of a location (everything before the
// last slash).
func dirText(p string) string {
	i := strings.LastIndex(p, "/")
	switch {
	case i < 0:
		return "."
	case i == 0:
		return "/"
	}
	return p[:i]
}

func comps(abs string) []string {
	var out []string
	for _, c := range strings.Split(abs, "/") {
		if c != "" {
			out = append(out, c)
		}
	}
	return out
}

// inside reports whether the real path p is the real directory root or lies
// below it, compared component by component.
func inside(root, p string) bool {
	r, q := comps(root), comps(p)
	if len(q) < len(r) {
		return false
	}
	for i := range r {
		if r[i] != q[i] {
			return false
		}
	}
	return true
}

func hasDotDot(p string) bool {
	for _, c := range strings.Split(p, "/") {
		if c == ".." {
			return true
		}
	}
	return false
}

func isAbs(p string) bool { return strings.HasPrefix(p, "/") }
