// Generators for C20: sandboxes (directory layouts with markers and symbolic
// links), location strings and loading contexts.  All randomness is drawn from
// rapid.  The generator works on the model with the symbolic base "/B"; every
// absolute spelling it emits uses the "$BASE" placeholder.
package c20

import (
	"fmt"
	"strings"

	"pgregory.net/rapid"
)

// Op is one load attempt.
type Op struct {
	// Entry: "lib" (SourceLibrary.LoadSource directly), "loadfile"
	// (LEnv.LoadFile), "loadfilectx" (LEnv.LoadFileContext), "lisp"
	// ((load-file ...) evaluated from lisp source).  Mode "cli": "expr"
	// (`elps run -e '(load-file "loc")'`), "file" (`elps run loc`).
	Entry string `json:"entry"`
	// Ctx is the loading file's location: passed as SourceContext.Location for
	// "lib", as the location of the top-level source for "lisp" (LoadLocation;
	// LoadString when empty).  Always empty for loadfile/loadfilectx.
	Ctx string `json:"ctx"`
	Loc string `json:"loc"`
	// Entry "call": the function Loc = "<ID>/<k>" (defined by file <ID>, body
	// (load-file Defs[k])) is called from a top-level source located at Ctx.
	//
	// MUTATIONS of the configuration or of the layout between loads (histories
	// on one library value and one runtime): Entry "setroot" (Arg = the new
	// root spelling: RootDir reassigned / a new os.Root opened and assigned to
	// the same FSLibrary), "chdir" (Path = new working directory), "retarget"
	// (Path = a symbolic link, Arg = its new target; atomic rename), "replace"
	// (Path = a file, Arg = its new id: new content), "remove" (Path = a file
	// or link), "create-file" (Path, Arg = id), "create-link" (Path, Arg =
	// target).  Paths are relative to the sandbox base like Node.Path.
	Path string `json:"path,omitempty"`
	Arg  string `json:"arg,omitempty"`
}

func isMutation(entry string) bool {
	switch entry {
	case "setroot", "chdir", "retarget", "replace", "remove", "create-file", "create-link":
		return true
	}
	return false
}

// Case is one sandbox plus the loads attempted in it.
type Case struct {
	// Mode: "rfs" RelativeFileSystemLibrary{RootDir}; "osroot" FSLibrary over
	// os.OpenRoot(abs(root)).FS() in process, as cmd/run.go configures it;
	// "cli" the real `elps run --root-dir` binary; "mapfs" FSLibrary over a
	// testing/fstest.MapFS holding the sandbox's files (no disk).
	Mode string  `json:"mode"`
	SB   Sandbox `json:"sandbox"`
	Ops  []Op    `json:"ops"`
	// Cmd (mode "cli"): "" = `elps run` (-e expressions, file arguments);
	// "repl" = expressions fed to `elps repl --batch --root-dir` on stdin;
	// "debug" = file arguments run by `elps debug --stdio --root-dir` under a
	// scripted DAP client (initialize, launch, configurationDone, disconnect).
	Cmd string `json:"cmd,omitempty"`
}

const genBase = "/B"

type builder struct {
	t      *rapid.T
	mode   string
	m      *model
	nodes  []*Node
	nextID int

	rootRel string   // the root directory, relative to the base ("root", "Sack", "App/desk")
	look    []string // absolute look-alike directories OUTSIDE the root: same name up to letter case or a Unicode fold pair, a trailing character, a prefix/extension, the same for an ancestor
	names   []string // extra component names for soups and detours

	root     string // configured spelling (with $BASE)
	cwdReal  string
	realRoot string // "" when the root does not resolve
	rootAbs  string // fs modes: absolute named root

	cmd     string  // cli: which command runs the case ("", "repl", "debug")
	history bool    // histories: mutations between the loads
	flipped []*Node // files whose inside/outside status the last mutation changed
}

func (b *builder) add(n *Node) *Node {
	if b.m.add(n) {
		b.nodes = append(b.nodes, n)
		return n
	}
	return nil
}

func (b *builder) pct(label string, p int) bool {
	// small draws mean "no" so that shrinking removes structure
	return rapid.IntRange(0, 99).Draw(b.t, label) >= 100-p
}

func (b *builder) exists(rel string) bool {
	n, ok := b.m.nodes[genBase+"/"+rel]
	return ok && n.Kind == "dir"
}

func toPlaceholder(abs string) string {
	if abs == genBase {
		return basePlaceholder
	}
	if strings.HasPrefix(abs, genBase+"/") {
		return basePlaceholder + abs[len(genBase):]
	}
	return abs
}

// relSpell spells the lexical relative path from directory from to path to
// (both absolute).
func relSpell(from, to string) []string {
	fc, tc := comps(from), comps(to)
	i := 0
	for i < len(fc) && i < len(tc) && fc[i] == tc[i] {
		i++
	}
	var out []string
	for j := i; j < len(fc); j++ {
		out = append(out, "..")
	}
	out = append(out, tc[i:]...)
	if len(out) == 0 {
		out = []string{"."}
	}
	return out
}

var fileNames = []string{"a.lisp", "b.lisp", "c.lisp"}

func swapCase(s string) string {
	b := []byte(s)
	for i, c := range b {
		switch {
		case c >= 'a' && c <= 'z':
			b[i] = c - 32
		case c >= 'A' && c <= 'Z':
			b[i] = c + 32
		}
	}
	return string(b)
}

// caseVariants are spellings that differ from name only by ASCII letter case.
func caseVariants(name string) []string {
	var out []string
	seen := map[string]bool{name: true}
	for _, v := range []string{strings.ToUpper(name), strings.ToLower(name), swapCase(name), swapCase(name[:1]) + name[1:],
		name[:len(name)-1] + swapCase(name[len(name)-1:])} {
		if !seen[v] {
			seen[v] = true
			out = append(out, v)
		}
	}
	return out
}

// foldVariants replace a letter by its non-ASCII partner under Unicode simple
// case folding (k/K <-> KELVIN SIGN, s/S <-> LATIN SMALL LETTER LONG S).
func foldVariants(name string) []string {
	var out []string
	for i := 0; i < len(name); i++ {
		switch name[i] {
		case 'k', 'K':
			out = append(out, name[:i]+"\u212a"+name[i+1:])
		case 's', 'S':
			out = append(out, name[:i]+"\u017f"+name[i+1:])
		}
	}
	return out
}

// affixVariants differ by a trailing character or are a prefix / extension.
func affixVariants(name string) []string {
	return []string{name + "-evil", name + "_", name + "x", name + ".", name + "~", name[:len(name)-1], name + name}
}

var linkNames = []string{"lnk", "l2", "l3", "x.lisp", "up", "a.lisp", "b.lisp", "sub"}
var soupPool = []string{".", "..", "..", "", "root", "outside", "root-evil", "cwd", "sub", "deep", "lib", "a.lisp", "b.lisp", "c.lisp",
	"lnk", "l2", "l3", "x.lisp", "up", "rootlink", "nonexistent"}
var detourPool = []string{"sub", "lnk", "l2", "nonexistent", "a.lisp", "deep", "lib", "up", "root"}

// walk draws a named absolute path by descending from the base through
// whatever the entries resolve to (so it passes through directory links).
func (b *builder) walk() string {
	cur, named := b.m.base, b.m.base
	for step := 0; step < 6; step++ {
		ch := b.m.children(cur)
		if len(ch) == 0 {
			break
		}
		name := rapid.SampledFrom(ch).Draw(b.t, "walk")
		named += "/" + name
		r := b.m.resolve(cur, name)
		if r.Err != "" || r.Kind != "dir" {
			break
		}
		cur = r.Path
		if step >= 1 && b.pct("walkstop", 25) {
			break
		}
	}
	return named
}

// alias respells a real path through a directory link that resolves to one of
// its ancestors, when there is one.
func (b *builder) alias(real string) string {
	var opts []string
	for _, n := range b.nodes {
		if n.Kind != "link" {
			continue
		}
		la := b.m.abs(n)
		r := b.m.resolve("/", la)
		if r.Err == "" && r.Kind == "dir" && strings.HasPrefix(real, r.Path+"/") {
			opts = append(opts, la+real[len(r.Path):])
		}
		if r.Err == "" && r.Kind == "file" && r.Path == real {
			opts = append(opts, la)
		}
	}
	if len(opts) == 0 {
		return real
	}
	return rapid.SampledFrom(opts).Draw(b.t, "alias")
}

func (b *builder) decorate(parts []string, relative bool) []string {
	var out []string
	for i, c := range parts {
		if b.pct("dec", 30) {
			switch rapid.IntRange(0, 3).Draw(b.t, "deckind") {
			case 0:
				out = append(out, ".")
			case 1:
				if !(relative && i == 0 && len(out) == 0) {
					out = append(out, "") // doubled separator
				}
			default:
				out = append(out, rapid.SampledFrom(append(append([]string{}, detourPool...), b.names...)).Draw(b.t, "detour"), "..")
			}
		}
		out = append(out, c)
	}
	if b.pct("trail", 6) {
		out = append(out, rapid.SampledFrom([]string{"", "."}).Draw(b.t, "trailkind"))
	}
	return out
}

func (b *builder) inLook(abs string) bool {
	for _, l := range b.look {
		if inside(l, abs) {
			return true
		}
	}
	return false
}

type fileSets struct {
	inside, outside, sibling, cwd []*Node
}

func (b *builder) classify(minIdx int) fileSets {
	var fs fileSets
	idx := 0
	for _, n := range b.nodes {
		if n.Kind != "file" {
			continue
		}
		idx++
		if idx <= minIdx {
			continue
		}
		a := b.m.abs(n)
		switch {
		case b.realRoot != "" && inside(b.realRoot, a):
			fs.inside = append(fs.inside, n)
		case b.inLook(a):
			fs.sibling = append(fs.sibling, n)
		default:
			fs.outside = append(fs.outside, n)
		}
		if inside(b.cwdReal, a) {
			fs.cwd = append(fs.cwd, n)
		}
	}
	return fs
}

// genLoc draws a location string meant to be loaded from the real directory
// fromDir; file targets are restricted to files after position minIdx (keeps
// the lisp contents mostly acyclic).
func (b *builder) genLoc(fromDir string, minIdx int, absPct int) string {
	fs := b.classify(minIdx)
	cat := rapid.IntRange(0, 99).Draw(b.t, "loccat")
	var pool []*Node
	switch {
	case cat < 42:
		pool = fs.inside
	case cat < 56:
		pool = fs.outside
	case cat < 68:
		pool = fs.sibling
	case cat < 73:
		pool = fs.cwd
	case cat < 90:
		pool = nil // walk
	default:
		// component soup
		n := rapid.IntRange(1, 5).Draw(b.t, "soupn")
		var parts []string
		for i := 0; i < n; i++ {
			parts = append(parts, rapid.SampledFrom(append(append([]string{}, soupPool...), b.names...)).Draw(b.t, "soup"))
		}
		s := strings.Join(parts, "/")
		switch rapid.IntRange(0, 5).Draw(b.t, "soupabs") {
		case 0:
			s = "/" + s
		case 1:
			s = basePlaceholder + "/" + s
		default:
			if strings.HasPrefix(s, "/") {
				s = "." + s
			}
		}
		return s
	}
	if len(b.flipped) > 0 && b.pct("flipped", 40) {
		// a file that the last mutation moved into or out of the root
		pool = b.flipped
	}
	var named string
	if len(pool) > 0 {
		n := rapid.SampledFrom(pool).Draw(b.t, "target")
		named = b.m.abs(n)
		if b.pct("usealias", 35) {
			named = b.alias(named)
		}
	} else {
		named = b.walk()
	}
	abs := b.pct("abs", absPct)
	if abs {
		tail := b.decorate(comps(named)[1:], false) // drop "B"
		if b.mode != "rfs" && b.pct("fsabs", 60) {
			// absolute within the file system: "/<path relative to the fs root>"
			root := b.rootAbs
			if root == "" {
				root = genBase
			}
			return "/" + strings.Join(b.decorate(relSpell(root, named), true), "/")
		}
		lead := basePlaceholder
		if b.pct("dblslash", 8) {
			lead = "/" + lead
		}
		if len(tail) == 0 {
			return lead
		}
		return lead + "/" + strings.Join(tail, "/")
	}
	parts := b.decorate(relSpell(fromDir, named), true)
	s := strings.Join(parts, "/")
	if s == "" {
		s = "."
	}
	return s
}

func (b *builder) mkdir(rel string) { b.add(&Node{Path: rel, Kind: "dir"}) }

func (b *builder) mkfile(rel string) {
	b.nextID++
	b.add(&Node{Path: rel, Kind: "file", ID: fmt.Sprintf("F%d", b.nextID)})
}

func (b *builder) realDirs() []string {
	out := []string{}
	for _, n := range b.nodes {
		if n.Kind == "dir" {
			out = append(out, b.m.abs(n))
		}
	}
	return out
}

// chooseNames picks the root directory's name, an optional intermediate
// component above it, and the look-alike directories beside them.
func (b *builder) chooseNames() {
	b.rootRel = "root"
	if b.mode == "mapfs" {
		return
	}
	rn := rapid.SampledFrom([]string{"root", "root", "root", "Root", "Sack", "desk", "Kiosk", "ROOT"}).Draw(b.t, "rootname")
	parent := ""
	if b.pct("rootparent", 30) {
		parent = rapid.SampledFrom([]string{"App", "srv", "Desk"}).Draw(b.t, "parentname")
		b.mkdir(parent)
		b.rootRel = parent + "/" + rn
	} else {
		b.rootRel = rn
	}
	b.names = append(b.names, rn)
	mk := func(rel string) {
		if _, dup := b.m.nodes[genBase+"/"+rel]; dup {
			return
		}
		b.mkdir(rel)
		b.look = append(b.look, genBase+"/"+rel)
		b.names = append(b.names, lastOf("/"+rel))
	}
	pre := ""
	if parent != "" {
		pre = parent + "/"
	}
	// siblings of the root directory
	if b.pct("sib-affix", 70) {
		mk(pre + rn + "-evil")
	}
	if b.pct("sib-case", 60) {
		mk(pre + rapid.SampledFrom(caseVariants(rn)).Draw(b.t, "casevariant"))
	}
	if fv := foldVariants(rn); len(fv) > 0 && b.pct("sib-fold", 50) {
		mk(pre + rapid.SampledFrom(fv).Draw(b.t, "foldvariant"))
	}
	if b.pct("sib-any", 30) {
		all := append(append(caseVariants(rn), foldVariants(rn)...), affixVariants(rn)...)
		mk(pre + rapid.SampledFrom(all).Draw(b.t, "anyvariant"))
	}
	// the same for the intermediate component: <Parent'>/<rn>
	if parent != "" {
		all := append(append(caseVariants(parent), foldVariants(parent)...), affixVariants(parent)...)
		n := rapid.IntRange(1, 2).Draw(b.t, "nparentvariants")
		for i := 0; i < n; i++ {
			pv := rapid.SampledFrom(all).Draw(b.t, "parentvariant")
			if _, dup := b.m.nodes[genBase+"/"+pv]; dup {
				continue
			}
			mk(pv)
			if b.pct("pv-root", 80) {
				b.mkdir(pv + "/" + rn)
			}
		}
	}
}

func (b *builder) buildTree() {
	b.chooseNames()
	R := b.rootRel
	for _, d := range []string{R, "outside", "cwd"} {
		b.mkdir(d)
	}
	if b.mode == "mapfs" {
		// the whole sandbox is the file system: only the shape matters
		for _, d := range []string{"root/sub", "root/sub/deep", "root/lib", "outside/sub"} {
			if b.pct("dir", 60) {
				if b.exists(dirText(d)) {
					b.mkdir(d)
				}
			}
		}
	} else {
		type od struct {
			p   string
			pct int
		}
		ods := []od{{R + "/sub", 80}, {R + "/sub/deep", 50}, {R + "/lib", 50}, {"outside/sub", 50},
			{"cwd/sub", 50}, {"cwd/" + lastOf("/"+R), 20}, {"outside/" + lastOf("/"+R), 15}}
		for _, l := range b.look {
			ods = append(ods, od{l[len(genBase)+1:] + "/sub", 40})
		}
		for _, d := range ods {
			if b.exists(dirText(d.p)) && b.pct("dir", d.pct) {
				b.mkdir(d.p)
			}
		}
	}
	for _, d := range b.realDirs() {
		for _, f := range fileNames {
			if b.pct("file", 60) {
				b.mkfile(d[len(genBase)+1:] + "/" + f)
			}
		}
	}
	// a top-level file directly in the base as well (outside everything)
	if b.pct("basefile", 50) {
		b.mkfile("a.lisp")
	}
}

func (b *builder) buildLinks() {
	if b.mode == "mapfs" {
		return
	}
	n := rapid.SampledFrom([]int{0, 1, 1, 2, 2, 3, 3, 4, 5, 6}).Draw(b.t, "nlinks")
	for i := 0; i < n; i++ {
		dirs := b.realDirs()
		// bias: links inside the root matter most
		var d string
		if b.pct("linkinroot", 60) {
			var in []string
			for _, x := range dirs {
				if inside(genBase+"/"+b.rootRel, x) {
					in = append(in, x)
				}
			}
			d = rapid.SampledFrom(in).Draw(b.t, "linkdir")
		} else {
			d = rapid.SampledFrom(dirs).Draw(b.t, "linkdir")
		}
		var free []string
		for _, nm := range linkNames {
			if k, _ := b.m.lookup(d, nm); k == "" {
				free = append(free, nm)
			}
		}
		if len(free) == 0 {
			continue
		}
		name := rapid.SampledFrom(free).Draw(b.t, "linkname")
		var target string
		switch k := rapid.IntRange(0, 19).Draw(b.t, "linkkind"); {
		case k < 14:
			named := b.walk()
			if b.pct("linkabs", 30) {
				target = toPlaceholder(named)
			} else {
				target = strings.Join(relSpell(d, named), "/")
			}
		case k < 16:
			target = rapid.SampledFrom([]string{"nonexistent", "../nowhere/x.lisp", basePlaceholder + "/gone"}).Draw(b.t, "dangling")
		case k < 17:
			target = name // self loop
		default:
			nn := rapid.IntRange(1, 4).Draw(b.t, "soupn")
			var parts []string
			for j := 0; j < nn; j++ {
				parts = append(parts, rapid.SampledFrom(append(append([]string{}, soupPool...), b.names...)).Draw(b.t, "soup"))
			}
			target = strings.Join(parts, "/")
			if target == "" {
				target = "."
			}
		}
		b.add(&Node{Path: d[len(genBase)+1:] + "/" + name, Kind: "link", Target: target})
	}
}

func (b *builder) chooseRootAndCwd() {
	// cwd: a plain directory
	R := b.rootRel
	cwds := []string{"cwd", "cwd", R, R, "outside"}
	if b.exists(R + "/sub") {
		cwds = append(cwds, R+"/sub")
	}
	cwd := rapid.SampledFrom(cwds).Draw(b.t, "cwd")
	b.cwdReal = genBase + "/" + cwd

	if b.mode == "mapfs" {
		b.root = basePlaceholder
		b.rootAbs = genBase
		b.realRoot = genBase
		return
	}
	BR := basePlaceholder + "/" + R
	spell := BR
	k := rapid.IntRange(0, 19).Draw(b.t, "rootkind")
	if b.history {
		// roots whose meaning can change: a symbolic link (retargeted later),
		// a spelling relative to the working directory (changed later)
		switch h := rapid.IntRange(0, 9).Draw(b.t, "histroot"); {
		case h >= 7:
			k = 13
		case h >= 5:
			k = 11
		}
	}
	switch {
	case k < 9:
	case k < 11:
		spell = rapid.SampledFrom([]string{BR + "/", BR + "/.", basePlaceholder + "/outside/../" + R,
			basePlaceholder + "//" + R}).Draw(b.t, "rootspell")
	case k < 13:
		spell = strings.Join(relSpell(b.cwdReal, genBase+"/"+R), "/")
	case k < 18:
		// the root is itself a symbolic link
		tgts := []string{R, BR, "./" + R}
		if b.exists(R + "/sub") {
			tgts = append(tgts, R+"/sub")
		}
		tgts = append(tgts, "outside")
		tgt := rapid.SampledFrom(tgts).Draw(b.t, "rootlinktarget")
		b.add(&Node{Path: "rootlink", Kind: "link", Target: tgt})
		spell = basePlaceholder + "/rootlink"
		if b.pct("rootchain", 30) {
			b.add(&Node{Path: "rootlink2", Kind: "link", Target: "rootlink"})
			spell = basePlaceholder + "/rootlink2"
		}
	case k < 19:
		if b.exists(R + "/sub") {
			spell = BR + "/sub"
		}
	default:
		spell = basePlaceholder + "/no-such-root"
	}
	b.setRoot(spell)
}

// setRoot records a configured root spelling and what it resolves to NOW.
func (b *builder) setRoot(spell string) {
	b.root = spell
	b.realRoot = ""
	s := subst(spell, genBase)
	if b.mode == "osroot" || b.mode == "cli" {
		if !isAbs(s) {
			s = b.cwdReal + "/" + s
		}
		b.rootAbs = lexClean(s)
		s = b.rootAbs
	}
	if r := b.m.resolve(b.cwdReal, s); r.Err == "" && r.Kind == "dir" {
		b.realRoot = r.Path
		if b.history && b.mode == "osroot" {
			// an os.Root keeps the DIRECTORY it opened, whatever its name
			// comes to mean afterwards
			b.rootAbs = r.Path
		}
	}
}

// refreshRoot re-resolves the configured root after a mutation: the path
// library resolves RootDir at every load, an opened os.Root does not move.
func (b *builder) refreshRoot() {
	if b.mode == "rfs" {
		b.setRoot(b.root)
	}
}

func (b *builder) fileIndex(n *Node) int {
	idx := 0
	for _, x := range b.nodes {
		if x.Kind == "file" {
			idx++
			if x == n {
				return idx
			}
		}
	}
	return 0
}

func (b *builder) buildLoads() {
	for _, n := range b.nodes {
		if n.Kind != "file" {
			continue
		}
		k := rapid.SampledFrom([]int{0, 0, 0, 0, 1, 1, 1, 1, 2, 2}).Draw(b.t, "nloads")
		for i := 0; i < k; i++ {
			n.Loads = append(n.Loads, b.genLoc(parentOf(b.m.abs(n)), b.fileIndex(n), 22))
		}
	}
	// functions whose body is a load-file: the loading file is the file the
	// call expression is WRITTEN in, not the file (of another directory) that
	// calls the function
	for _, n := range b.nodes {
		if n.Kind != "file" || !b.pct("hasdefs", 35) {
			continue
		}
		k := rapid.SampledFrom([]int{1, 1, 1, 2}).Draw(b.t, "ndefs")
		for i := 0; i < k; i++ {
			n.Defs = append(n.Defs, b.genLoc(parentOf(b.m.abs(n)), b.fileIndex(n), 8))
		}
	}
	for _, n := range b.nodes {
		if n.Kind != "file" || !b.pct("hascalls", 35) {
			continue
		}
		fn, d := b.pickFunction(parentOf(b.m.abs(n)), b.fileIndex(n))
		if d == nil {
			continue
		}
		if b.pct("loaddefiner", 70) {
			// make sure the function is defined when it is called
			to := b.m.abs(d)
			if b.pct("usealias", 20) {
				to = b.alias(to)
			}
			n.Loads = append(n.Loads, strings.Join(relSpell(parentOf(b.m.abs(n)), to), "/"))
		}
		n.Calls = append(n.Calls, fn)
	}
}

// pickFunction draws a function "<ID>/<k>", preferring a definer in another
// directory than fromDir (decoy files of the same names sit in both) and,
// to keep load graphs mostly acyclic, a definer after position minIdx.
func (b *builder) pickFunction(fromDir string, minIdx int) (string, *Node) {
	var other, later, any []*Node
	insideOnly := b.pct("fninside", 85) // a definer the root lets the runtime load
	for _, d := range b.nodes {
		if d.Kind != "file" || len(d.Defs) == 0 {
			continue
		}
		if insideOnly && !(b.realRoot != "" && inside(b.realRoot, b.m.abs(d))) {
			continue
		}
		any = append(any, d)
		if parentOf(b.m.abs(d)) != fromDir {
			other = append(other, d)
			if b.fileIndex(d) > minIdx {
				later = append(later, d)
			}
		}
	}
	pool := any
	switch {
	case len(later) > 0 && b.pct("fnlater", 70):
		pool = later
	case len(other) > 0 && b.pct("fnother", 85):
		pool = other
	}
	if len(pool) == 0 {
		return "", nil
	}
	d := rapid.SampledFrom(pool).Draw(b.t, "definer")
	k := rapid.IntRange(0, len(d.Defs)-1).Draw(b.t, "fnidx")
	return fmt.Sprintf("%s/%d", d.ID, k), d
}

// genCtx draws the location of a loading file and returns it together with
// the real directory relative locations should be generated from.
func (b *builder) genCtx() (ctx string, fromDir string) {
	top := b.cwdReal
	if b.mode != "rfs" {
		top = b.realRoot
		if top == "" {
			top = genBase
		}
	}
	fs := b.classify(0)
	var pool []*Node
	if b.mode != "rfs" {
		pool = fs.inside
		if out := append(append([]*Node{}, fs.outside...), fs.sibling...); len(out) > 0 && b.pct("ctxoutside", 18) {
			// a loading file that is not in the file system
			pool = out
		}
		if b.pct("ctxnowhere", 6) || len(pool) == 0 {
			// ... or nowhere at all: its relative loads name files that exist
			// at the top of the file system
			dir := rapid.SampledFrom([]string{"..", "../x", "../..", "/..", "/../x", "nodir", "sub/../.."}).Draw(b.t, "nowheredir")
			return dir + "/" + rapid.SampledFrom(fileNames).Draw(b.t, "nowherefile"), top
		}
	} else if b.pct("ctxinside", 75) {
		pool = fs.inside
	} else {
		pool = append(append(append([]*Node{}, fs.outside...), fs.sibling...), fs.inside...)
	}
	if len(pool) == 0 {
		return "", top
	}
	f := rapid.SampledFrom(pool).Draw(b.t, "ctxfile")
	real := b.m.abs(f)
	fromDir = parentOf(real)
	ghost := b.pct("ghost", 12)
	if ghost {
		real = fromDir + "/ghost.lisp"
	}
	if b.mode != "rfs" {
		return b.fsCtx(real), fromDir
	}
	switch k := rapid.IntRange(0, 11).Draw(b.t, "ctxspell"); {
	case k < 6:
		return toPlaceholder(real), fromDir
	case k < 8:
		return toPlaceholder(b.alias(real)), fromDir
	case k < 10:
		return strings.Join(relSpell(b.cwdReal, real), "/"), fromDir
	case k < 11:
		// the same file through dot segments, doubled separators, X/.. detours
		return basePlaceholder + "/" + strings.Join(b.decorate(comps(real)[1:], false), "/"), fromDir
	default:
		return strings.Join(b.decorate(relSpell(b.cwdReal, real), true), "/"), fromDir
	}
}

// fsCtx spells the location of a loading file for the fs.FS-backed library:
// the clean unrooted path the library itself reports, and every other way a
// host can name the same file (or a file that is not in the file system).
func (b *builder) fsCtx(real string) string {
	top := b.realRoot
	if top == "" {
		top = genBase
	}
	clean := relSpell(top, real)
	j := func(p []string) string { return strings.Join(p, "/") }
	switch k := rapid.IntRange(0, 19).Draw(b.t, "fsctxspell"); {
	case k < 6:
		return j(clean)
	case k < 10:
		return "/" + j(clean) // rooted: the prefix the library strips from any location
	case k < 12:
		return "./" + j(clean)
	case k < 15:
		return j(b.decorate(clean, true))
	case k < 17:
		return "/" + j(b.decorate(clean, false))
	case k < 18:
		return toPlaceholder(real) // the file's absolute path on the host
	case k < 19:
		// out of the file system and back in by the root's own name
		return "../" + lastOf(top) + "/" + j(clean)
	default:
		return j(clean[:len(clean)-1]) + "//" + clean[len(clean)-1]
	}
}

func (b *builder) top() string {
	if b.mode != "rfs" {
		if b.realRoot == "" {
			return genBase
		}
		return b.realRoot
	}
	return b.cwdReal
}

// callOps draws a call of a load-file FUNCTION from the top level (from a
// source located in some other directory), mostly preceded by a load of the
// file that defines it.
func (b *builder) callOps() []Op {
	fn, d := b.pickFunction("", 0)
	if d == nil {
		return nil
	}
	var ops []Op
	if b.pct("loaddefiner", 75) {
		var loc string
		if b.mode == "rfs" {
			loc = toPlaceholder(b.m.abs(d))
		} else {
			loc = strings.Join(relSpell(b.top(), b.m.abs(d)), "/")
		}
		e := "lisp"
		if b.mode == "cli" {
			e = "expr"
		}
		ops = append(ops, Op{Entry: e, Loc: loc})
	}
	op := Op{Entry: "call", Loc: fn}
	if b.mode != "cli" && b.pct("callctx", 50) {
		op.Ctx, _ = b.genCtx()
	}
	return append(ops, op)
}

// loadOps draws n load attempts against the CURRENT state of the builder.
func (b *builder) loadOps(n int) []Op {
	top := b.top()
	var ops []Op
	if b.mode == "cli" {
		files := 0
		for i := 0; i < n; i++ {
			if b.pct("clicall", 12) {
				if c := b.callOps(); c != nil {
					ops = append(ops, c...)
					continue
				}
			}
			op := Op{Entry: "expr"}
			filePct, maxFiles := 25, 2
			if b.cmd == "debug" {
				filePct, maxFiles = 55, 3 // only file arguments reach cmd/debug.go
			}
			if files < maxFiles && b.pct("clifile", filePct) {
				op.Entry = "file"
				files++
			}
			op.Loc = b.genLoc(top, 0, 22)
			ops = append(ops, op)
		}
		return ops
	}
	for i := 0; i < n; i++ {
		var op Op
		switch k := rapid.IntRange(0, 22).Draw(b.t, "entry"); {
		case k < 9:
			op.Entry = "lib"
		case k < 12:
			op.Entry = "loadfile"
		case k < 13:
			op.Entry = "loadfilectx"
		case k < 20:
			op.Entry = "lisp"
		default:
			if c := b.callOps(); c != nil {
				ops = append(ops, c...)
				continue
			}
			op.Entry = "lisp"
		}
		from := top
		if (op.Entry == "lib" && b.pct("libctx", 75)) || (op.Entry == "lisp" && b.pct("lispctx", 50)) {
			op.Ctx, from = b.genCtx()
		}
		absPct := 22
		if b.mode == "rfs" && op.Ctx == "" {
			// with an absolute RootDir a relative top-level location is
			// compared as a relative path and always refused: spend more of
			// the top-level budget on absolute spellings
			absPct = 55
		}
		op.Loc = b.genLoc(from, 0, absPct)
		ops = append(ops, op)
	}
	return ops
}

func (b *builder) buildOps() []Op {
	return b.loadOps(rapid.IntRange(1, 8).Draw(b.t, "nops"))
}

// ---------- histories ----------

func (b *builder) insideSet() map[*Node]bool {
	out := map[*Node]bool{}
	for _, n := range b.nodes {
		if n.Kind == "file" && b.realRoot != "" && inside(b.realRoot, b.m.abs(n)) {
			out[n] = true
		}
	}
	return out
}

func (b *builder) liveNodes(kind string) []*Node {
	var out []*Node
	for _, n := range b.nodes {
		if n.Kind == kind && b.m.nodes[b.m.abs(n)] == n {
			out = append(out, n)
		}
	}
	return out
}

// rootCandidates are the spellings a host may re-point its library at.
func (b *builder) rootCandidates() []string {
	R := b.rootRel
	var dirs []string
	for _, d := range []string{R, R, R + "/sub", R + "/sub", R + "/lib", R + "/sub/deep", "outside", "outside/sub", "cwd"} {
		if b.exists(d) {
			dirs = append(dirs, genBase+"/"+d)
		}
	}
	dirs = append(dirs, b.look...)
	var out []string
	for _, d := range dirs {
		out = append(out, toPlaceholder(d))
		if b.pct("relroot", 25) {
			out = append(out, strings.Join(relSpell(b.cwdReal, d), "/"))
		}
	}
	for _, n := range b.liveNodes("link") {
		if parentOf(b.m.abs(n)) == genBase {
			out = append(out, toPlaceholder(b.m.abs(n)), toPlaceholder(b.m.abs(n)))
		}
	}
	out = append(out, basePlaceholder, basePlaceholder+"/no-such-root")
	var other []string
	for _, o := range out {
		if o != b.root {
			other = append(other, o)
		}
	}
	return other
}

// applyMutation mirrors an Op on the builder's model (the oracle does the
// same on its own model and on the disk).
func (b *builder) applyMutation(op Op) {
	switch op.Entry {
	case "setroot":
		b.setRoot(op.Arg)
		return
	case "chdir":
		b.cwdReal = genBase + "/" + op.Path
	case "retarget":
		if n := b.m.nodes[genBase+"/"+op.Path]; n != nil && n.Kind == "link" {
			n.Target = op.Arg
		}
	case "replace":
		if n := b.m.nodes[genBase+"/"+op.Path]; n != nil {
			b.m.reid(n, op.Arg)
		}
	case "remove":
		if n := b.m.nodes[genBase+"/"+op.Path]; n != nil {
			b.m.remove(n)
		}
	case "create-file":
		b.add(&Node{Path: op.Path, Kind: "file", ID: op.Arg})
	case "create-link":
		b.add(&Node{Path: op.Path, Kind: "link", Target: op.Arg})
	}
	b.refreshRoot()
}

func (b *builder) linkTarget(dir string) string {
	if b.pct("tgt-rootcand", 35) {
		// another directory a root could be: releases/v1 -> releases/v2
		c := b.rootCandidates()
		t := rapid.SampledFrom(c).Draw(b.t, "linkrootcand")
		if isAbs(subst(t, genBase)) {
			if b.pct("linkabs", 50) {
				return t
			}
			return strings.Join(relSpell(dir, subst(t, genBase)), "/")
		}
	}
	named := b.walk()
	if b.pct("linkabs", 30) {
		return toPlaceholder(named)
	}
	return strings.Join(relSpell(dir, named), "/")
}

func (b *builder) genMutation() (Op, bool) {
	links := b.liveNodes("link")
	var plain []*Node // files that define no function (see NOTES: their identity stays)
	for _, n := range b.liveNodes("file") {
		if len(n.Defs) == 0 {
			plain = append(plain, n)
		}
	}
	rootVia := func() []*Node { // links whose target decides what the configured root resolves to
		var out []*Node
		s := subst(b.root, genBase)
		if b.mode != "rfs" {
			return nil // an opened os.Root does not follow its name
		}
		now := b.m.resolve(b.cwdReal, s)
		for _, n := range links {
			old := n.Target
			n.Target = "c20-no-such-target"
			r := b.m.resolve(b.cwdReal, s)
			n.Target = old
			if r.Err != now.Err || r.Path != now.Path {
				out = append(out, n)
			}
		}
		return out
	}
	rv := rootVia()
	for try := 0; try < 4; try++ {
		k := rapid.IntRange(0, 99).Draw(b.t, "mutkind")
		if len(rv) > 0 && b.pct("mut-rootlink", 40) {
			k = 30 // the root is (behind) a symbolic link: retarget it
		} else if b.mode == "rfs" && !isAbs(subst(b.root, genBase)) && b.pct("mut-relroot", 40) {
			k = 55 // the root is relative: change the working directory
		}
		switch {
		case k < 30:
			return Op{Entry: "setroot", Arg: rapid.SampledFrom(b.rootCandidates()).Draw(b.t, "newroot")}, true
		case k < 55:
			if len(links) == 0 {
				continue
			}
			pool := links
			if len(rv) > 0 && b.pct("retarget-root", 70) {
				pool = rv
			}
			n := rapid.SampledFrom(pool).Draw(b.t, "retargetlink")
			return Op{Entry: "retarget", Path: n.Path, Arg: b.linkTarget(parentOf(b.m.abs(n)))}, true
		case k < 68:
			R := b.rootRel
			var cwds []string
			for _, d := range []string{"cwd", R, R + "/sub", R + "/lib", "outside", "cwd/sub"} {
				if b.exists(d) && genBase+"/"+d != b.cwdReal {
					cwds = append(cwds, d)
				}
			}
			return Op{Entry: "chdir", Path: rapid.SampledFrom(cwds).Draw(b.t, "newcwd")}, true
		case k < 78:
			if len(plain) == 0 {
				continue
			}
			n := rapid.SampledFrom(plain).Draw(b.t, "replacefile")
			b.nextID++
			return Op{Entry: "replace", Path: n.Path, Arg: fmt.Sprintf("F%d", b.nextID)}, true
		case k < 86:
			pool := append(append([]*Node{}, plain...), links...)
			if len(pool) == 0 {
				continue
			}
			return Op{Entry: "remove", Path: rapid.SampledFrom(pool).Draw(b.t, "removenode").Path}, true
		default:
			d := rapid.SampledFrom(b.realDirs()).Draw(b.t, "createdir")
			var free []string
			for _, nm := range append(append([]string{}, fileNames...), "d.lisp", "lnk", "l2") {
				if kd, _ := b.m.lookup(d, nm); kd == "" {
					free = append(free, nm)
				}
			}
			if len(free) == 0 {
				continue
			}
			nm := rapid.SampledFrom(free).Draw(b.t, "createname")
			path := (d + "/" + nm)[len(genBase)+1:]
			if k < 94 {
				b.nextID++
				return Op{Entry: "create-file", Path: path, Arg: fmt.Sprintf("F%d", b.nextID)}, true
			}
			return Op{Entry: "create-link", Path: path, Arg: b.linkTarget(d)}, true
		}
	}
	return Op{}, false
}

// buildHistory: loads, then 1-3 times (a change of the configuration or of
// the layout, then loads directed by the NEW state), all on one library value
// and one runtime.
func (b *builder) buildHistory() []Op {
	ops := b.loadOps(rapid.IntRange(1, 2).Draw(b.t, "nprime"))
	nseg := rapid.SampledFrom([]int{1, 1, 2, 2, 3}).Draw(b.t, "nseg")
	for s := 0; s < nseg; s++ {
		before := b.insideSet()
		nm := rapid.SampledFrom([]int{1, 1, 1, 2}).Draw(b.t, "nmut")
		for i := 0; i < nm; i++ {
			if op, ok := b.genMutation(); ok {
				b.applyMutation(op)
				ops = append(ops, op)
			}
		}
		after := b.insideSet()
		b.flipped = nil
		for _, n := range b.liveNodes("file") {
			if before[n] != after[n] {
				b.flipped = append(b.flipped, n)
			}
		}
		ops = append(ops, b.loadOps(rapid.IntRange(1, 3).Draw(b.t, "nafter"))...)
	}
	return ops
}

func genCase(mode string) *rapid.Generator[Case] { return genCaseH(mode, false) }

func genCaseH(mode string, history bool) *rapid.Generator[Case] {
	return rapid.Custom(func(t *rapid.T) Case {
		b := &builder{t: t, mode: mode, history: history}
		b.m = &model{base: genBase, nodes: map[string]*Node{}, kids: map[string][]string{}, files: map[string]*Node{}}
		b.buildTree()
		b.buildLinks()
		b.chooseRootAndCwd()
		b.buildLoads()
		c := Case{Mode: mode}
		// the sandbox as it is BEFORE the first operation
		c.SB.Root = b.root
		c.SB.Cwd = b.cwdReal[len(genBase)+1:]
		for _, n := range b.nodes {
			c.SB.Nodes = append(c.SB.Nodes, *n)
		}
		if mode == "cli" {
			b.cmd = rapid.SampledFrom([]string{"", "", "repl", "debug"}).Draw(t, "clicmd")
			c.Cmd = b.cmd
		}
		if history {
			c.Ops = b.buildHistory()
		} else {
			c.Ops = b.buildOps()
		}
		return c
	})
}
