// Generators for C20: sandboxes (directory layouts with markers and symbolic
// links), location strings and loading contexts.  All randomness is drawn from
// rapid.  The generator works on the model with the symbolic base "/B"; every
// absolute spelling it emits uses the "$BASE" placeholder.
package c20

import (
	"fmt"
	"strings"

	"pgregory.net/rapid"
)

// Op is one load attempt.
type Op struct {
	// Entry: "lib" (SourceLibrary.LoadSource directly), "loadfile"
	// (LEnv.LoadFile), "loadfilectx" (LEnv.LoadFileContext), "lisp"
	// ((load-file ...) evaluated from lisp source).  Mode "cli": "expr"
	// (`elps run -e '(load-file "loc")'`), "file" (`elps run loc`).
	Entry string `json:"entry"`
	// Ctx is the loading file's location: passed as SourceContext.Location for
	// "lib", as the location of the top-level source for "lisp" (LoadLocation;
	// LoadString when empty).  Always empty for loadfile/loadfilectx.
	Ctx string `json:"ctx"`
	Loc string `json:"loc"`
}

// Case is one sandbox plus the loads attempted in it.
type Case struct {
	// Mode: "rfs" RelativeFileSystemLibrary{RootDir}; "osroot" FSLibrary over
	// os.OpenRoot(abs(root)).FS() in process, as cmd/run.go configures it;
	// "cli" the real `elps run --root-dir` binary; "mapfs" FSLibrary over a
	// testing/fstest.MapFS holding the sandbox's files (no disk).
	Mode string  `json:"mode"`
	SB   Sandbox `json:"sandbox"`
	Ops  []Op    `json:"ops"`
}

const genBase = "/B"

type builder struct {
	t      *rapid.T
	mode   string
	m      *model
	nodes  []*Node
	nextID int

	rootRel string   // the root directory, relative to the base ("root", "Sack", "App/desk")
	look    []string // absolute look-alike directories OUTSIDE the root: same name up to letter case or a Unicode fold pair, a trailing character, a prefix/extension, the same for an ancestor
	names   []string // extra component names for soups and detours

	root     string // configured spelling (with $BASE)
	cwdReal  string
	realRoot string // "" when the root does not resolve
	rootAbs  string // fs modes: absolute named root
}

func (b *builder) add(n *Node) *Node {
	if b.m.add(n) {
		b.nodes = append(b.nodes, n)
		return n
	}
	return nil
}

func (b *builder) pct(label string, p int) bool {
	// small draws mean "no" so that shrinking removes structure
	return rapid.IntRange(0, 99).Draw(b.t, label) >= 100-p
}

func (b *builder) exists(rel string) bool {
	n, ok := b.m.nodes[genBase+"/"+rel]
	return ok && n.Kind == "dir"
}

func toPlaceholder(abs string) string {
	if abs == genBase {
		return basePlaceholder
	}
	if strings.HasPrefix(abs, genBase+"/") {
		return basePlaceholder + abs[len(genBase):]
	}
	return abs
}

// relSpell spells the lexical relative path from directory from to path to
// (both absolute).
func relSpell(from, to string) []string {
	fc, tc := comps(from), comps(to)
	i := 0
	for i < len(fc) && i < len(tc) && fc[i] == tc[i] {
		i++
	}
	var out []string
	for j := i; j < len(fc); j++ {
		out = append(out, "..")
	}
	out = append(out, tc[i:]...)
	if len(out) == 0 {
		out = []string{"."}
	}
	return out
}

var fileNames = []string{"a.lisp", "b.lisp", "c.lisp"}

func swapCase(s string) string {
	b := []byte(s)
	for i, c := range b {
		switch {
		case c >= 'a' && c <= 'z':
			b[i] = c - 32
		case c >= 'A' && c <= 'Z':
			b[i] = c + 32
		}
	}
	return string(b)
}

// caseVariants are spellings that differ from name only by ASCII letter case.
func caseVariants(name string) []string {
	var out []string
	seen := map[string]bool{name: true}
	for _, v := range []string{strings.ToUpper(name), strings.ToLower(name), swapCase(name), swapCase(name[:1]) + name[1:],
		name[:len(name)-1] + swapCase(name[len(name)-1:])} {
		if !seen[v] {
			seen[v] = true
			out = append(out, v)
		}
	}
	return out
}

// foldVariants replace a letter by its non-ASCII partner under Unicode simple
// case folding (k/K <-> KELVIN SIGN, s/S <-> LATIN SMALL LETTER LONG S).
func foldVariants(name string) []string {
	var out []string
	for i := 0; i < len(name); i++ {
		switch name[i] {
		case 'k', 'K':
			out = append(out, name[:i]+"\u212a"+name[i+1:])
		case 's', 'S':
			out = append(out, name[:i]+"\u017f"+name[i+1:])
		}
	}
	return out
}

// affixVariants differ by a trailing character or are a prefix / extension.
func affixVariants(name string) []string {
	return []string{name + "-evil", name + "_", name + "x", name + ".", name + "~", name[:len(name)-1], name + name}
}

var linkNames = []string{"lnk", "l2", "l3", "x.lisp", "up", "a.lisp", "b.lisp", "sub"}
var soupPool = []string{".", "..", "..", "", "root", "outside", "root-evil", "cwd", "sub", "deep", "lib", "a.lisp", "b.lisp", "c.lisp",
	"lnk", "l2", "l3", "x.lisp", "up", "rootlink", "nonexistent"}
var detourPool = []string{"sub", "lnk", "l2", "nonexistent", "a.lisp", "deep", "lib", "up", "root"}

// walk draws a named absolute path by descending from the base through
// whatever the entries resolve to (so it passes through directory links).
func (b *builder) walk() string {
	cur, named := b.m.base, b.m.base
	for step := 0; step < 6; step++ {
		ch := b.m.children(cur)
		if len(ch) == 0 {
			break
		}
		name := rapid.SampledFrom(ch).Draw(b.t, "walk")
		named += "/" + name
		r := b.m.resolve(cur, name)
		if r.Err != "" || r.Kind != "dir" {
			break
		}
		cur = r.Path
		if step >= 1 && b.pct("walkstop", 25) {
			break
		}
	}
	return named
}

// alias respells a real path through a directory link that resolves to one of
// its ancestors, when there is one.
func (b *builder) alias(real string) string {
	var opts []string
	for _, n := range b.nodes {
		if n.Kind != "link" {
			continue
		}
		la := b.m.abs(n)
		r := b.m.resolve("/", la)
		if r.Err == "" && r.Kind == "dir" && strings.HasPrefix(real, r.Path+"/") {
			opts = append(opts, la+real[len(r.Path):])
		}
		if r.Err == "" && r.Kind == "file" && r.Path == real {
			opts = append(opts, la)
		}
	}
	if len(opts) == 0 {
		return real
	}
	return rapid.SampledFrom(opts).Draw(b.t, "alias")
}

func (b *builder) decorate(parts []string, relative bool) []string {
	var out []string
	for i, c := range parts {
		if b.pct("dec", 30) {
			switch rapid.IntRange(0, 3).Draw(b.t, "deckind") {
			case 0:
				out = append(out, ".")
			case 1:
				if !(relative && i == 0 && len(out) == 0) {
					out = append(out, "") // doubled separator
				}
			default:
				out = append(out, rapid.SampledFrom(append(append([]string{}, detourPool...), b.names...)).Draw(b.t, "detour"), "..")
			}
		}
		out = append(out, c)
	}
	if b.pct("trail", 6) {
		out = append(out, rapid.SampledFrom([]string{"", "."}).Draw(b.t, "trailkind"))
	}
	return out
}

func (b *builder) inLook(abs string) bool {
	for _, l := range b.look {
		if inside(l, abs) {
			return true
		}
	}
	return false
}

type fileSets struct {
	inside, outside, sibling, cwd []*Node
}

func (b *builder) classify(minIdx int) fileSets {
	var fs fileSets
	idx := 0
	for _, n := range b.nodes {
		if n.Kind != "file" {
			continue
		}
		idx++
		if idx <= minIdx {
			continue
		}
		a := b.m.abs(n)
		switch {
		case b.realRoot != "" && inside(b.realRoot, a):
			fs.inside = append(fs.inside, n)
		case b.inLook(a):
			fs.sibling = append(fs.sibling, n)
		default:
			fs.outside = append(fs.outside, n)
		}
		if inside(b.cwdReal, a) {
			fs.cwd = append(fs.cwd, n)
		}
	}
	return fs
}

// genLoc draws a location string meant to be loaded from the real directory
// fromDir; file targets are restricted to files after position minIdx (keeps
// the lisp contents mostly acyclic).
func (b *builder) genLoc(fromDir string, minIdx int, absPct int) string {
	fs := b.classify(minIdx)
	cat := rapid.IntRange(0, 99).Draw(b.t, "loccat")
	var pool []*Node
	switch {
	case cat < 42:
		pool = fs.inside
	case cat < 56:
		pool = fs.outside
	case cat < 68:
		pool = fs.sibling
	case cat < 73:
		pool = fs.cwd
	case cat < 90:
		pool = nil // walk
	default:
		// component soup
		n := rapid.IntRange(1, 5).Draw(b.t, "soupn")
		var parts []string
		for i := 0; i < n; i++ {
			parts = append(parts, rapid.SampledFrom(append(append([]string{}, soupPool...), b.names...)).Draw(b.t, "soup"))
		}
		s := strings.Join(parts, "/")
		switch rapid.IntRange(0, 5).Draw(b.t, "soupabs") {
		case 0:
			s = "/" + s
		case 1:
			s = basePlaceholder + "/" + s
		default:
			if strings.HasPrefix(s, "/") {
				s = "." + s
			}
		}
		return s
	}
	var named string
	if len(pool) > 0 {
		n := rapid.SampledFrom(pool).Draw(b.t, "target")
		named = b.m.abs(n)
		if b.pct("usealias", 35) {
			named = b.alias(named)
		}
	} else {
		named = b.walk()
	}
	abs := b.pct("abs", absPct)
	if abs {
		tail := b.decorate(comps(named)[1:], false) // drop "B"
		if b.mode != "rfs" && b.pct("fsabs", 60) {
			// absolute within the file system: "/<path relative to the fs root>"
			root := b.rootAbs
			if root == "" {
				root = genBase
			}
			return "/" + strings.Join(b.decorate(relSpell(root, named), true), "/")
		}
		lead := basePlaceholder
		if b.pct("dblslash", 8) {
			lead = "/" + lead
		}
		if len(tail) == 0 {
			return lead
		}
		return lead + "/" + strings.Join(tail, "/")
	}
	parts := b.decorate(relSpell(fromDir, named), true)
	s := strings.Join(parts, "/")
	if s == "" {
		s = "."
	}
	return s
}

func (b *builder) mkdir(rel string) { b.add(&Node{Path: rel, Kind: "dir"}) }

func (b *builder) mkfile(rel string) {
	b.nextID++
	b.add(&Node{Path: rel, Kind: "file", ID: fmt.Sprintf("F%d", b.nextID)})
}

func (b *builder) realDirs() []string {
	out := []string{}
	for _, n := range b.nodes {
		if n.Kind == "dir" {
			out = append(out, b.m.abs(n))
		}
	}
	return out
}

// chooseNames picks the root directory's name, an optional intermediate
// component above it, and the look-alike directories beside them.
func (b *builder) chooseNames() {
	b.rootRel = "root"
	if b.mode == "mapfs" {
		return
	}
	rn := rapid.SampledFrom([]string{"root", "root", "root", "Root", "Sack", "desk", "Kiosk", "ROOT"}).Draw(b.t, "rootname")
	parent := ""
	if b.pct("rootparent", 30) {
		parent = rapid.SampledFrom([]string{"App", "srv", "Desk"}).Draw(b.t, "parentname")
		b.mkdir(parent)
		b.rootRel = parent + "/" + rn
	} else {
		b.rootRel = rn
	}
	b.names = append(b.names, rn)
	mk := func(rel string) {
		if _, dup := b.m.nodes[genBase+"/"+rel]; dup {
			return
		}
		b.mkdir(rel)
		b.look = append(b.look, genBase+"/"+rel)
		b.names = append(b.names, lastOf("/"+rel))
	}
	pre := ""
	if parent != "" {
		pre = parent + "/"
	}
	// siblings of the root directory
	if b.pct("sib-affix", 70) {
		mk(pre + rn + "-evil")
	}
	if b.pct("sib-case", 60) {
		mk(pre + rapid.SampledFrom(caseVariants(rn)).Draw(b.t, "casevariant"))
	}
	if fv := foldVariants(rn); len(fv) > 0 && b.pct("sib-fold", 50) {
		mk(pre + rapid.SampledFrom(fv).Draw(b.t, "foldvariant"))
	}
	if b.pct("sib-any", 30) {
		all := append(append(caseVariants(rn), foldVariants(rn)...), affixVariants(rn)...)
		mk(pre + rapid.SampledFrom(all).Draw(b.t, "anyvariant"))
	}
	// the same for the intermediate component: <Parent'>/<rn>
	if parent != "" {
		all := append(append(caseVariants(parent), foldVariants(parent)...), affixVariants(parent)...)
		n := rapid.IntRange(1, 2).Draw(b.t, "nparentvariants")
		for i := 0; i < n; i++ {
			pv := rapid.SampledFrom(all).Draw(b.t, "parentvariant")
			if _, dup := b.m.nodes[genBase+"/"+pv]; dup {
				continue
			}
			mk(pv)
			if b.pct("pv-root", 80) {
				b.mkdir(pv + "/" + rn)
			}
		}
	}
}

func (b *builder) buildTree() {
	b.chooseNames()
	R := b.rootRel
	for _, d := range []string{R, "outside", "cwd"} {
		b.mkdir(d)
	}
	if b.mode == "mapfs" {
		// the whole sandbox is the file system: only the shape matters
		for _, d := range []string{"root/sub", "root/sub/deep", "root/lib", "outside/sub"} {
			if b.pct("dir", 60) {
				if b.exists(dirText(d)) {
					b.mkdir(d)
				}
			}
		}
	} else {
		type od struct {
			p   string
			pct int
		}
		ods := []od{{R + "/sub", 80}, {R + "/sub/deep", 50}, {R + "/lib", 50}, {"outside/sub", 50},
			{"cwd/sub", 50}, {"cwd/" + lastOf("/"+R), 20}, {"outside/" + lastOf("/"+R), 15}}
		for _, l := range b.look {
			ods = append(ods, od{l[len(genBase)+1:] + "/sub", 40})
		}
		for _, d := range ods {
			if b.exists(dirText(d.p)) && b.pct("dir", d.pct) {
				b.mkdir(d.p)
			}
		}
	}
	for _, d := range b.realDirs() {
		for _, f := range fileNames {
			if b.pct("file", 60) {
				b.mkfile(d[len(genBase)+1:] + "/" + f)
			}
		}
	}
	// a top-level file directly in the base as well (outside everything)
	if b.pct("basefile", 50) {
		b.mkfile("a.lisp")
	}
}

func (b *builder) buildLinks() {
	if b.mode == "mapfs" {
		return
	}
	n := rapid.SampledFrom([]int{0, 1, 1, 2, 2, 3, 3, 4, 5, 6}).Draw(b.t, "nlinks")
	for i := 0; i < n; i++ {
		dirs := b.realDirs()
		// bias: links inside the root matter most
		var d string
		if b.pct("linkinroot", 60) {
			var in []string
			for _, x := range dirs {
				if inside(genBase+"/"+b.rootRel, x) {
					in = append(in, x)
				}
			}
			d = rapid.SampledFrom(in).Draw(b.t, "linkdir")
		} else {
			d = rapid.SampledFrom(dirs).Draw(b.t, "linkdir")
		}
		var free []string
		for _, nm := range linkNames {
			if k, _ := b.m.lookup(d, nm); k == "" {
				free = append(free, nm)
			}
		}
		if len(free) == 0 {
			continue
		}
		name := rapid.SampledFrom(free).Draw(b.t, "linkname")
		var target string
		switch k := rapid.IntRange(0, 19).Draw(b.t, "linkkind"); {
		case k < 14:
			named := b.walk()
			if b.pct("linkabs", 30) {
				target = toPlaceholder(named)
			} else {
				target = strings.Join(relSpell(d, named), "/")
			}
		case k < 16:
			target = rapid.SampledFrom([]string{"nonexistent", "../nowhere/x.lisp", basePlaceholder + "/gone"}).Draw(b.t, "dangling")
		case k < 17:
			target = name // self loop
		default:
			nn := rapid.IntRange(1, 4).Draw(b.t, "soupn")
			var parts []string
			for j := 0; j < nn; j++ {
				parts = append(parts, rapid.SampledFrom(append(append([]string{}, soupPool...), b.names...)).Draw(b.t, "soup"))
			}
			target = strings.Join(parts, "/")
			if target == "" {
				target = "."
			}
		}
		b.add(&Node{Path: d[len(genBase)+1:] + "/" + name, Kind: "link", Target: target})
	}
}

func (b *builder) chooseRootAndCwd() {
	// cwd: a plain directory
	R := b.rootRel
	cwds := []string{"cwd", "cwd", R, R, "outside"}
	if b.exists(R + "/sub") {
		cwds = append(cwds, R+"/sub")
	}
	cwd := rapid.SampledFrom(cwds).Draw(b.t, "cwd")
	b.cwdReal = genBase + "/" + cwd

	if b.mode == "mapfs" {
		b.root = basePlaceholder
		b.rootAbs = genBase
		b.realRoot = genBase
		return
	}
	BR := basePlaceholder + "/" + R
	spell := BR
	switch k := rapid.IntRange(0, 19).Draw(b.t, "rootkind"); {
	case k < 9:
	case k < 11:
		spell = rapid.SampledFrom([]string{BR + "/", BR + "/.", basePlaceholder + "/outside/../" + R,
			basePlaceholder + "//" + R}).Draw(b.t, "rootspell")
	case k < 13:
		spell = strings.Join(relSpell(b.cwdReal, genBase+"/"+R), "/")
	case k < 18:
		// the root is itself a symbolic link
		tgts := []string{R, BR, "./" + R}
		if b.exists(R + "/sub") {
			tgts = append(tgts, R+"/sub")
		}
		tgts = append(tgts, "outside")
		tgt := rapid.SampledFrom(tgts).Draw(b.t, "rootlinktarget")
		b.add(&Node{Path: "rootlink", Kind: "link", Target: tgt})
		spell = basePlaceholder + "/rootlink"
		if b.pct("rootchain", 30) {
			b.add(&Node{Path: "rootlink2", Kind: "link", Target: "rootlink"})
			spell = basePlaceholder + "/rootlink2"
		}
	case k < 19:
		if b.exists(R + "/sub") {
			spell = BR + "/sub"
		}
	default:
		spell = basePlaceholder + "/no-such-root"
	}
	b.root = spell
	s := subst(spell, genBase)
	if b.mode == "osroot" || b.mode == "cli" {
		if !isAbs(s) {
			s = b.cwdReal + "/" + s
		}
		b.rootAbs = lexClean(s)
		s = b.rootAbs
	}
	if r := b.m.resolve(b.cwdReal, s); r.Err == "" && r.Kind == "dir" {
		b.realRoot = r.Path
	}
}

func (b *builder) fileIndex(n *Node) int {
	idx := 0
	for _, x := range b.nodes {
		if x.Kind == "file" {
			idx++
			if x == n {
				return idx
			}
		}
	}
	return 0
}

func (b *builder) buildLoads() {
	for _, n := range b.nodes {
		if n.Kind != "file" {
			continue
		}
		k := rapid.SampledFrom([]int{0, 0, 0, 0, 1, 1, 1, 1, 2, 2}).Draw(b.t, "nloads")
		for i := 0; i < k; i++ {
			n.Loads = append(n.Loads, b.genLoc(parentOf(b.m.abs(n)), b.fileIndex(n), 22))
		}
	}
}

// genCtx draws the location of a loading file and returns it together with
// the real directory relative locations should be generated from.
func (b *builder) genCtx() (ctx string, fromDir string) {
	top := b.cwdReal
	if b.mode != "rfs" {
		top = b.realRoot
		if top == "" {
			top = genBase
		}
	}
	fs := b.classify(0)
	var pool []*Node
	if b.mode != "rfs" {
		pool = fs.inside
	} else if b.pct("ctxinside", 75) {
		pool = fs.inside
	} else {
		pool = append(append(append([]*Node{}, fs.outside...), fs.sibling...), fs.inside...)
	}
	if len(pool) == 0 {
		return "", top
	}
	f := rapid.SampledFrom(pool).Draw(b.t, "ctxfile")
	real := b.m.abs(f)
	fromDir = parentOf(real)
	ghost := b.pct("ghost", 12)
	if ghost {
		real = fromDir + "/ghost.lisp"
	}
	if b.mode != "rfs" {
		return strings.Join(relSpell(b.realRoot, real), "/"), fromDir
	}
	switch k := rapid.IntRange(0, 9).Draw(b.t, "ctxspell"); {
	case k < 6:
		return toPlaceholder(real), fromDir
	case k < 8:
		return toPlaceholder(b.alias(real)), fromDir
	default:
		return strings.Join(relSpell(b.cwdReal, real), "/"), fromDir
	}
}

func (b *builder) buildOps() []Op {
	n := rapid.IntRange(1, 8).Draw(b.t, "nops")
	top := b.cwdReal
	if b.mode != "rfs" {
		top = b.realRoot
		if top == "" {
			top = genBase
		}
	}
	var ops []Op
	if b.mode == "cli" {
		files := 0
		for i := 0; i < n; i++ {
			op := Op{Entry: "expr"}
			if files < 2 && b.pct("clifile", 25) {
				op.Entry = "file"
				files++
			}
			op.Loc = b.genLoc(top, 0, 22)
			ops = append(ops, op)
		}
		return ops
	}
	for i := 0; i < n; i++ {
		var op Op
		switch k := rapid.IntRange(0, 19).Draw(b.t, "entry"); {
		case k < 9:
			op.Entry = "lib"
		case k < 12:
			op.Entry = "loadfile"
		case k < 13:
			op.Entry = "loadfilectx"
		default:
			op.Entry = "lisp"
		}
		from := top
		if (op.Entry == "lib" && b.pct("libctx", 75)) || (op.Entry == "lisp" && b.pct("lispctx", 50)) {
			op.Ctx, from = b.genCtx()
		}
		absPct := 22
		if b.mode == "rfs" && op.Ctx == "" {
			// with an absolute RootDir a relative top-level location is
			// compared as a relative path and always refused: spend more of
			// the top-level budget on absolute spellings
			absPct = 55
		}
		op.Loc = b.genLoc(from, 0, absPct)
		ops = append(ops, op)
	}
	return ops
}

func genCase(mode string) *rapid.Generator[Case] {
	return rapid.Custom(func(t *rapid.T) Case {
		b := &builder{t: t, mode: mode}
		b.m = &model{base: genBase, nodes: map[string]*Node{}, kids: map[string][]string{}, files: map[string]*Node{}}
		b.buildTree()
		b.buildLinks()
		b.chooseRootAndCwd()
		b.buildLoads()
		ops := b.buildOps()
		c := Case{Mode: mode, Ops: ops}
		c.SB.Root = b.root
		c.SB.Cwd = b.cwdReal[len(genBase)+1:]
		for _, n := range b.nodes {
			c.SB.Nodes = append(c.SB.Nodes, *n)
		}
		return c
	})
}
