package c20

import (
	"bytes"
	"context"
	"encoding/json"
	"errors"
	"fmt"
	"os"
	"os/exec"
	"regexp"
	"strconv"
	"strings"
	"sync"
	"time"

	"github.com/luthersystems/elps/verifharness/vcommon"
)

// Sub-property "cli": the verdict about the cmd/run.go wiring comes from the
// REAL binary.  /repo's main package is built once per test process; every
// case runs `elps run --root-dir <root> ...` in the sandbox (one process for
// all -e expressions of the case, one per file argument) and the effect trace
// is read back from the `debug-print` lines the sandbox files emit.

const cliLoadLimit = 60

var (
	cliOnce sync.Once
	cliBin  string
	cliErr  error
)

func cliRepo() string {
	if d := os.Getenv("VERIF_C20_REPO"); d != "" {
		return d
	}
	if d := os.Getenv("VERIF_REPO"); d != "" { // the driver's own override (mutation runs)
		return d
	}
	return "/repo"
}

func cliBinary() (string, error) {
	cliOnce.Do(func() {
		out := fmt.Sprintf("%s/elps-c20-%d", scratchDir(), os.Getpid())
		ctx, cancel := context.WithTimeout(context.Background(), 10*time.Minute)
		defer cancel()
		cmd := exec.CommandContext(ctx, "go", "build", "-o", out, ".")
		cmd.Dir = cliRepo()
		// -mod=readonly: the repository's own module needs nothing resolved,
		// and the build must never rewrite /repo/go.mod or go.sum
		cmd.Env = append(os.Environ(), "GOFLAGS=-mod=readonly", "GOPROXY=off")
		if b, err := cmd.CombinedOutput(); err != nil {
			cliErr = fmt.Errorf("go build %s: %v\n%s", cliRepo(), err, b)
			return
		}
		cliBin = out
	})
	return cliBin, cliErr
}

func cliContent(n *Node, mark, base string) string {
	var b strings.Builder
	fmt.Fprintf(&b, "; %s:%s\n", mark, n.ID)
	// load counter: cuts cyclic load graphs (no host probe in the real binary)
	b.WriteString("(handler-bind ((condition (lambda (c &rest _) (set 'c20n 0)))) c20n)\n")
	b.WriteString("(set 'c20n (+ c20n 1))\n")
	fmt.Fprintf(&b, "(if (> c20n %d) (error 'c20-limit \"limit\") ())\n", cliLoadLimit)
	fmt.Fprintf(&b, "(debug-print \"EV begin %s\")\n", n.ID)
	for k, l := range n.Defs {
		l = subst(l, base)
		if !cliSafe(l) {
			l = "c20-unspeakable"
		}
		fmt.Fprintf(&b, "(defun c20f-%s-%d () (handler-bind ((condition (lambda (c &rest _) (debug-print \"EV refused %s %d\")))) (load-file \"%s\")))\n", n.ID, k, n.ID, defBase+k, l)
	}
	for k, l := range n.Loads {
		l = subst(l, base)
		if !cliSafe(l) {
			continue
		}
		fmt.Fprintf(&b, "(handler-bind ((condition (lambda (c &rest _) (debug-print \"EV refused %s %d\")))) (load-file \"%s\"))\n", n.ID, k, l)
	}
	for k, c := range n.Calls {
		fn, _, _, ok := fnName(c)
		if !ok {
			continue
		}
		fmt.Fprintf(&b, "(handler-bind ((condition (lambda (c &rest _) (debug-print \"EV nocall %s %d\")))) (%s))\n", n.ID, k, fn)
	}
	fmt.Fprintf(&b, "(debug-print \"EV end %s\")\n\"%s\"\n", n.ID, n.ID)
	return b.String()
}

func cliSafe(s string) bool {
	for i := 0; i < len(s); i++ {
		if s[i] < 0x20 || s[i] > 0x7e || s[i] == '"' || s[i] == '\\' {
			return false
		}
	}
	return true
}

type cliEvent struct {
	Kind string // begin | end | refused | nocall | done
	ID   string
	N    int
}

var cliEventRe = regexp.MustCompile(`^"EV (begin|end|refused|nocall|done) (\S+?)(?: (\d+))?"$`)

func parseCLIEvents(stderr []byte) []cliEvent {
	var out []cliEvent
	for _, line := range strings.Split(string(stderr), "\n") {
		m := cliEventRe.FindStringSubmatch(strings.TrimRight(line, "\r"))
		if m == nil {
			continue
		}
		e := cliEvent{Kind: m[1], ID: m[2]}
		if m[3] != "" {
			e.N, _ = strconv.Atoi(m[3])
		}
		out = append(out, e)
	}
	return out
}

type cliRun struct {
	stdout, stderr []byte
	exit           int
	timedOut       bool
}

func (w *world) cliExec(bin, rootCfg string, args ...string) cliRun {
	return w.cliExecCmd(bin, "run", nil, rootCfg, args...)
}

// dapScript is the whole input of a scripted DAP client: initialize, launch
// without stop-on-entry, configurationDone, disconnect.  `elps debug --stdio`
// evaluates the file in a goroutine and exits when both the session and the
// evaluation are over.
var dapScript = func() []byte {
	var b bytes.Buffer
	for i, m := range []string{
		`"command":"initialize","arguments":{"adapterID":"c20"}`,
		`"command":"launch","arguments":{"stopOnEntry":false}`,
		`"command":"configurationDone"`,
		`"command":"disconnect"`,
	} {
		body := fmt.Sprintf(`{"seq":%d,"type":"request",%s}`, i+1, m)
		fmt.Fprintf(&b, "Content-Length: %d\r\n\r\n%s", len(body), body)
	}
	return b.Bytes()
}()

func (w *world) cliExecCmd(bin, sub string, stdin []byte, rootCfg string, args ...string) cliRun {
	ctx, cancel := context.WithTimeout(context.Background(), 60*time.Second)
	defer cancel()
	full := append([]string{sub, "--root-dir", rootCfg}, args...)
	cmd := exec.CommandContext(ctx, bin, full...)
	cmd.Dir = w.cwdReal
	if stdin != nil {
		cmd.Stdin = bytes.NewReader(stdin)
	}
	var so, se bytes.Buffer
	cmd.Stdout, cmd.Stderr = &so, &se
	err := cmd.Run()
	r := cliRun{stdout: so.Bytes(), stderr: se.Bytes()}
	if ctx.Err() != nil {
		r.timedOut = true
		return r
	}
	var ee *exec.ExitError
	switch {
	case err == nil:
	case errors.As(err, &ee):
		r.exit = ee.ExitCode()
	default:
		panic("harness: cannot run the elps binary: " + err.Error())
	}
	return r
}

// cliJudge is judge() over a set of candidate spellings of the loading file
// (the fs-relative name it was loaded under, or its real path).
func (w *world) cliJudge(cands []string, loc string) (allowed map[string]*Node, must *Node, v verdict) {
	allowed = map[string]*Node{}
	for i, c := range cands {
		vc := w.judge(c, loc)
		if i == 0 {
			v, must = vc, vc.must
		} else {
			if vc.must != must {
				must = nil
			}
			v.outside = v.outside || vc.outside
			v.sibling = v.sibling || vc.sibling
			v.foldSib = v.foldSib || vc.foldSib
			if vc.links > v.links {
				v.links = vc.links
			}
		}
		for id, n := range vc.allowed {
			allowed[id] = n
		}
	}
	return
}

// namesOf lists the fs-relative spellings under which the file served for
// (cands, loc) may be known to the runtime.
func (w *world) namesOf(cands []string, loc string, served *Node) []string {
	seen := map[string]bool{}
	var out []string
	add := func(s string) {
		s = strings.TrimPrefix(lexClean(s), "/")
		if s == ".." || strings.HasPrefix(s, "../") || s == "." || s == "" || seen[s] {
			return
		}
		seen[s] = true
		out = append(out, s)
	}
	for _, c := range cands {
		if c == "" {
			add(loc)
		} else {
			add(dirText(c) + "/" + loc)
		}
	}
	if isAbs(loc) {
		add(loc)
	}
	if w.realRoot != "" {
		add(strings.Join(relSpell(w.realRoot, w.m.abs(served)), "/"))
	}
	return out
}

type cliSim struct {
	w   *world
	ev  []cliEvent
	ctx *vcommon.Ctx
	// defined: file id -> the names the file was loaded under when the
	// process evaluated it (its functions exist from then on)
	defined map[string][]string
}

// call consumes the effects of calling function ref: the load made by its
// body is attributed to the file that defines it.
func (s *cliSim) call(i int, ref string) (int, bool, *vcommon.Failure) {
	_, id, k, ok := fnName(ref)
	d := s.w.m.files[id]
	names, def := s.defined[id]
	if !ok || !def || d == nil || k >= len(d.Defs) {
		return i, false, nil
	}
	if len(names) == 0 && s.w.realRoot != "" {
		names = []string{strings.Join(relSpell(s.w.realRoot, s.w.m.abs(d)), "/")}
	}
	l := subst(d.Defs[k], s.w.m.base)
	if !cliSafe(l) {
		l = "c20-unspeakable"
	}
	s.ctx.Class("op:load-from-function")
	i, served, f := s.load(i, names, d.ID, defBase+k, l, false)
	if served != nil {
		s.ctx.Class("op:function-load-served")
	}
	return i, true, f
}

func (s *cliSim) at(i int) string {
	if i >= len(s.ev) {
		return "<end of trace>"
	}
	return fmt.Sprintf("%s %s %d", s.ev[i].Kind, s.ev[i].ID, s.ev[i].N)
}

func (w *world) cliFeatures(v verdict, loc string, ctx *vcommon.Ctx) {
	feat := ""
	if hasDotDot(loc) {
		ctx.Class("loc:dotdot")
		feat = "dotdot"
	}
	if isAbs(loc) {
		ctx.Class("loc:absolute")
		feat = "absolute"
	}
	if v.links-w.rootLinks > 0 {
		ctx.Class("loc:crosses-symlink")
		feat = "symlink"
	}
	if v.sibling {
		ctx.Class("loc:into-prefix-sibling")
	}
	if v.foldSib {
		ctx.Class("loc:into-casefold-sibling")
	}
	if feat != "" && (v.outside || v.sibling) {
		ctx.Class("op:nontrivial")
		w.nontrivial = true
	}
}

func (w *world) cliEscape(desc string, n *Node, v verdict, loc string) *vcommon.Failure {
	how := "plain"
	switch {
	case v.links-w.rootLinks > 0:
		how = "symlink"
	case w.foldSibling(w.m.abs(n)):
		how = "casefold-sibling"
	case w.inSibling(w.m.abs(n)):
		how = "prefix-sibling"
	case hasDotDot(loc):
		how = "dotdot"
	case isAbs(loc):
		how = "absolute"
	}
	return vcommon.Failf("cli-escape/"+how, "%s: the elps binary evaluated file %s (%s) whose real path %s is OUTSIDE the resolved root %q",
		desc, n.ID, n.Path, w.m.abs(n), w.realRoot)
}

// load consumes the outcome of one (load-file loc) issued by who (a file id or
// "TOP") as its k-th load.  allowedOverride is used for file arguments.
func (s *cliSim) load(i int, cands []string, who string, k int, loc string, fileArg bool) (int, *Node, *vcommon.Failure) {
	w := s.w
	allowed, mustN, v := w.cliJudge(cands, loc)
	if fileArg {
		allowed, mustN, v = w.cliFileArg(loc)
	}
	w.cliFeatures(v, loc, s.ctx)
	desc := fmt.Sprintf("mode=cli root=%q cwd=%q loading=%s%v loc=%q", w.rootAbs, w.cwdReal, who, cands, loc)
	if i < len(s.ev) && s.ev[i].Kind == "begin" {
		n := w.m.files[s.ev[i].ID]
		if n == nil {
			return i, nil, vcommon.Failf("cli-trace/unknown-file", "%s: effect of an unknown file %q", desc, s.ev[i].ID)
		}
		if !w.isInside(n) {
			return i, nil, w.cliEscape(desc, n, v, loc)
		}
		if _, ok := allowed[n.ID]; !ok {
			var want []string
			for id, a := range allowed {
				want = append(want, id+"="+a.Path)
			}
			return i, nil, vcommon.Failf("cli-relative/other-file", "%s: evaluated inside file %s (%s) but the location denotes %v", desc, n.ID, n.Path, want)
		}
		s.ctx.Class("outcome:served-inside")
		var names []string
		if fileArg && isAbs(loc) && w.realRoot != "" {
			names = w.namesOf([]string{""}, strings.Join(relSpell(w.rootAbs, lexClean(loc)), "/"), n)
		} else {
			names = w.namesOf(cands, loc, n)
		}
		j, f := s.file(i, n, names)
		return j, n, f
	}
	// refused
	if !fileArg {
		if i >= len(s.ev) || s.ev[i].Kind != "refused" || s.ev[i].ID != who || s.ev[i].N != k {
			return i, nil, vcommon.Failf("cli-trace/evaluation-differs", "%s: expected either the loaded file's effects or 'refused %s %d', trace has %s", desc, who, k, s.at(i))
		}
		i++
	}
	if mustN != nil {
		s.ctx.Class("outcome:REFUSED-PLAIN")
		return i, nil, vcommon.Failf("cli-relative/refused-plain-inside", "%s: refused although dir(loading file)/loc is the symlink-free path of inside file %s (%s)", desc, mustN.ID, mustN.Path)
	}
	switch {
	case len(allowed) > 0:
		s.ctx.Class("outcome:refused-inside-nonplain")
	case v.sibling:
		s.ctx.Class("outcome:refused-prefix-sibling")
	case v.outside:
		s.ctx.Class("outcome:refused-outside")
	default:
		s.ctx.Class("outcome:refused-other")
	}
	return i, nil, nil
}

func (s *cliSim) file(i int, n *Node, names []string) (int, *vcommon.Failure) {
	i++ // the begin event
	if s.defined != nil {
		s.defined[n.ID] = names
	}
	for k, l := range n.Loads {
		l = subst(l, s.w.m.base)
		if !cliSafe(l) {
			continue
		}
		var served *Node
		var f *vcommon.Failure
		i, served, f = s.load(i, names, n.ID, k, l, false)
		if f != nil {
			return i, f
		}
		if served != nil {
			s.ctx.Class("op:nested-load-served")
		}
	}
	for k, c := range n.Calls {
		if _, _, _, ok := fnName(c); !ok {
			continue
		}
		var def bool
		var f *vcommon.Failure
		i, def, f = s.call(i, c)
		if f != nil {
			return i, f
		}
		if !def {
			if i >= len(s.ev) || s.ev[i].Kind != "nocall" || s.ev[i].ID != n.ID || s.ev[i].N != k {
				return i, vcommon.Failf("cli-trace/evaluation-differs", "file %s calls %s, which no evaluated file defines: expected 'nocall %s %d', trace has %s", n.ID, c, n.ID, k, s.at(i))
			}
			i++
		}
	}
	if i >= len(s.ev) || s.ev[i].Kind != "end" || s.ev[i].ID != n.ID {
		return i, vcommon.Failf("cli-trace/evaluation-differs", "expected 'end %s', trace has %s", n.ID, s.at(i))
	}
	return i + 1, nil
}

// cliFileArg: `elps run <path>`: an absolute path names that file; a relative
// one is handed to LoadFile as is (fs-root relative; the cwd reading is
// accepted as well).
func (w *world) cliFileArg(loc string) (map[string]*Node, *Node, verdict) {
	if !isAbs(loc) {
		allowed, _, v := w.cliJudge([]string{""}, loc)
		for _, p := range []string{loc, lexClean(loc)} {
			if r := w.m.resolve(w.cwdReal, p); r.Err == "" && r.Kind == "file" && w.realRoot != "" && inside(w.realRoot, r.Path) {
				allowed[r.Node.ID] = r.Node
			}
		}
		return allowed, nil, v
	}
	v := verdict{allowed: map[string]*Node{}}
	for _, p := range []string{loc, lexClean(loc)} {
		r := w.m.resolve("/", p)
		if r.Links > v.links {
			v.links = r.Links
		}
		if r.Err != "" {
			continue
		}
		in := w.realRoot != "" && inside(w.realRoot, r.Path)
		if !in {
			v.outside = true
			v.sibling = v.sibling || w.inSibling(r.Path)
			v.foldSib = v.foldSib || w.foldSibling(r.Path)
		}
		if in && r.Kind == "file" {
			v.allowed[r.Node.ID] = r.Node
		}
	}
	return v.allowed, nil, v
}

func (w *world) cliScan(ev []cliEvent, out cliRun, desc string) *vcommon.Failure {
	for _, e := range ev {
		if e.Kind == "done" || e.ID == "TOP" {
			continue
		}
		if n := w.m.files[e.ID]; n == nil || !w.isInside(n) {
			return vcommon.Failf("cli-escape/outside-effect", "%s: effect '%s %s' in the binary's output: a file outside the root was evaluated", desc, e.Kind, e.ID)
		}
	}
	if bytes.Contains(out.stdout, []byte("OUTSIDE:")) || bytes.Contains(out.stderr, []byte("OUTSIDE:")) {
		return vcommon.Failf("cli-escape/outside-bytes-in-output", "%s: the binary's output carries an OUTSIDE marker:\n%s\n%s", desc, out.stdout, out.stderr)
	}
	return nil
}

func (w *world) runCLI(c Case, ctx *vcommon.Ctx) *vcommon.Failure {
	bin, err := cliBinary()
	if err != nil {
		// inconclusive, not a property violation
		ctx.Class("skip/cli-build")
		fmt.Fprintln(os.Stderr, "C20 cli: SKIPPED, cannot build the elps binary:", err)
		return nil
	}
	rootCfg := subst(c.SB.Root, w.m.base)
	if strings.HasPrefix(rootCfg, "-") {
		return nil
	}
	if w.realRoot == "" {
		ctx.Class("root:unresolvable")
	} else if w.rootLinks > 0 {
		ctx.Class("root:is-symlink")
	}
	servedAny := false
	var exprs []cliTop
	var args []string
	for _, op := range c.Ops {
		loc := subst(op.Loc, w.m.base)
		if !cliSafe(loc) || loc == "" {
			continue
		}
		switch op.Entry {
		case "expr":
			k := len(exprs)
			exprs = append(exprs, cliTop{k: k, loc: loc})
			args = append(args, fmt.Sprintf("(progn (set 'c20n 0) (handler-bind ((condition (lambda (c &rest _) (debug-print \"EV refused TOP %d\")))) (load-file \"%s\")) (debug-print \"EV done TOP %d\"))", k, loc, k))
		case "call":
			fn, _, _, ok := fnName(op.Loc)
			if !ok {
				continue
			}
			k := len(exprs)
			exprs = append(exprs, cliTop{k: k, loc: op.Loc, call: true})
			args = append(args, fmt.Sprintf("(progn (set 'c20n 0) (handler-bind ((condition (lambda (c &rest _) (debug-print \"EV nocall TOP %d\")))) (%s)) (debug-print \"EV done TOP %d\"))", k, fn, k))
		}
	}
	switch c.Cmd {
	case "", "repl", "debug":
		ctx.Class("cmd:" + map[string]string{"": "run", "repl": "run+repl", "debug": "run+debug"}[c.Cmd])
	default:
		return nil
	}
	if len(exprs) > 0 {
		var out cliRun
		desc := fmt.Sprintf("elps run --root-dir %q -e ... (cwd %q)", rootCfg, w.cwdReal)
		if c.Cmd == "repl" {
			// the same expressions, one per line, on the standard input of the
			// batch REPL (repl/repl.go opens the root itself)
			out = w.cliExecCmd(bin, "repl", []byte(strings.Join(args, "\n")+"\n"), rootCfg, "--batch")
			desc = fmt.Sprintf("elps repl --batch --root-dir %q < expressions (cwd %q)", rootCfg, w.cwdReal)
		} else {
			out = w.cliExec(bin, rootCfg, append([]string{"-e", "--"}, args...)...)
		}
		if out.timedOut {
			ctx.Class("skip/cli-timeout")
			return nil
		}
		ev := parseCLIEvents(out.stderr)
		if f := w.cliScan(ev, out, desc); f != nil {
			// name the escaping load precisely when the simulation can
			if g := w.cliSimulate(ev, exprs, ctx, &servedAny); g != nil {
				return g
			}
			return f
		}
		if out.exit != 0 && len(ev) > 0 {
			return vcommon.Failf("cli-trace/exit", "%s: exit code %d although every load is guarded; stderr:\n%s", desc, out.exit, out.stderr)
		}
		if out.exit != 0 {
			// the binary gave up before evaluating anything (e.g. the root
			// cannot be opened): every load counts as refused
			ev = nil
			for _, e := range exprs {
				kind := "refused"
				if e.call {
					kind = "nocall"
				}
				ev = append(ev, cliEvent{Kind: kind, ID: "TOP", N: e.k}, cliEvent{Kind: "done", ID: "TOP", N: e.k})
			}
			ctx.Class("cli:exits-before-loading")
		}
		if f := w.cliSimulate(ev, exprs, ctx, &servedAny); f != nil {
			return f
		}
	}
	for _, op := range c.Ops {
		loc := subst(op.Loc, w.m.base)
		if op.Entry != "file" || !cliSafe(loc) || loc == "" {
			continue
		}
		ctx.Class("entry:file")
		var out cliRun
		desc := fmt.Sprintf("elps run --root-dir %q -p %q (cwd %q)", rootCfg, loc, w.cwdReal)
		if c.Cmd == "debug" {
			// cmd/debug.go: the file is evaluated under the debugger, served
			// to a DAP client on stdin/stdout
			ctx.Class("entry:file-under-debug")
			out = w.cliExecCmd(bin, "debug", dapScript, rootCfg, "--stdio", "--", loc)
			desc = fmt.Sprintf("elps debug --stdio --root-dir %q %q (cwd %q)", rootCfg, loc, w.cwdReal)
		} else {
			out = w.cliExec(bin, rootCfg, "-p", "--", loc)
		}
		if out.timedOut {
			ctx.Class("skip/cli-timeout")
			return nil
		}
		ev := parseCLIEvents(out.stderr)
		s := &cliSim{w: w, ev: ev, ctx: ctx, defined: map[string][]string{}}
		begins := 0
		for _, e := range ev {
			if e.Kind == "begin" {
				begins++
			}
		}
		if begins >= cliLoadLimit {
			ctx.Class("op:cycle-cut")
			if f := w.cliScan(ev, out, desc); f != nil {
				return f
			}
			continue
		}
		end, served, f := s.load(0, []string{""}, "TOP", 0, loc, true)
		if f != nil {
			return f
		}
		if f := w.cliScan(ev, out, desc); f != nil {
			return f
		}
		if end != len(ev) {
			return vcommon.Failf("cli-trace/extra-events", "%s: unexpected trailing effects from %s", desc, s.at(end))
		}
		if served == nil {
			if out.exit == 0 {
				return vcommon.Failf("cli-refusal/no-error", "%s: nothing was loaded but the exit code is 0; stderr:\n%s", desc, out.stderr)
			}
		} else {
			servedAny = true
			want := strconv.Quote(served.ID)
			if out.exit != 0 || (c.Cmd != "debug" && strings.TrimSpace(string(out.stdout)) != want) {
				return vcommon.Failf("cli-trace/value", "%s: loaded %s but exit=%d stdout=%q", desc, served.ID, out.exit, out.stdout)
			}
		}
	}
	if servedAny {
		ctx.Class("case:loads-an-inside-file")
	} else {
		ctx.Class("case:loads-nothing")
	}
	if w.nontrivial {
		b, _ := json.Marshal(c)
		ctx.NonTrivial(string(b))
	}
	return nil
}

type cliTop struct {
	k    int
	loc  string // the location, or the function "<ID>/<k>" when call
	call bool
}

// cliSimulate walks the effect trace of the expression process: per top-level
// expression k its segment ends with 'done TOP k'.  All expressions run in one
// runtime, so functions defined by a file loaded for one expression exist for
// the next.
func (w *world) cliSimulate(ev []cliEvent, exprs []cliTop, ctx *vcommon.Ctx, servedAny *bool) *vcommon.Failure {
	i := 0
	defined := map[string][]string{}
	for _, x := range exprs {
		k := x.k
		ctx.Class("entry:expr")
		// find the segment
		j := i
		begins := 0
		for j < len(ev) && !(ev[j].Kind == "done" && ev[j].ID == "TOP" && ev[j].N == k) {
			if ev[j].Kind == "begin" {
				begins++
			}
			j++
		}
		if j >= len(ev) {
			return vcommon.Failf("cli-trace/missing-done", "expression %d (%q): no 'done TOP %d' in the binary's trace", k, x.loc, k)
		}
		seg := ev[i:j]
		i = j + 1
		if begins >= cliLoadLimit {
			ctx.Class("op:cycle-cut")
			for _, e := range seg {
				if _, have := defined[e.ID]; e.Kind == "begin" && !have {
					defined[e.ID] = nil
				}
			}
			continue
		}
		s := &cliSim{w: w, ev: seg, ctx: ctx, defined: defined}
		if x.call {
			ctx.Class("entry:call")
			end, def, f := s.call(0, x.loc)
			if f != nil {
				return f
			}
			if !def {
				ctx.Class("op:call-of-undefined-function")
				if len(seg) != 1 || seg[0].Kind != "nocall" || seg[0].ID != "TOP" || seg[0].N != k {
					return vcommon.Failf("cli-trace/evaluation-differs", "expression %d calls %s, which no evaluated file defines: expected only 'nocall TOP %d', trace has %s", k, x.loc, k, s.at(0))
				}
				continue
			}
			if end != len(seg) {
				return vcommon.Failf("cli-trace/extra-events", "expression %d (call of %s): unexpected trailing effects from %s", k, x.loc, s.at(end))
			}
			continue
		}
		end, served, f := s.load(0, []string{""}, "TOP", k, x.loc, false)
		if f != nil {
			return f
		}
		if end != len(seg) {
			return vcommon.Failf("cli-trace/extra-events", "expression %d (load-file %q): unexpected trailing effects from %s", k, x.loc, s.at(end))
		}
		if served != nil {
			*servedAny = true
		}
	}
	return nil
}
