package c20

import (
	"bytes"
	"fmt"
	"os"
	"strings"
	"sync/atomic"

	"github.com/luthersystems/elps/lisp"
	"github.com/luthersystems/elps/verifharness/vcommon"
	"pgregory.net/rapid"
)

// RaceCase: a symbolic link inside the root whose target is flipped (atomic
// rename) between an inside and an outside file by a second goroutine while
// the library loads it Iters times.  Only the final component ever changes, so
// "check the resolved path, then read the resolved path" is safe at every
// interleaving: on the unchanged tree this sub-property passes
// deterministically.  It exists to make the "read the resolved path" half of
// the mechanism observable (a library that checks the resolved path but reads
// the unresolved one serves OUTSIDE bytes at some interleavings).
type RaceCase struct {
	Iters   int    `json:"iters"`
	LinkDir string `json:"link_dir"` // "root" | "root/sub"
	Entry   string `json:"entry"`    // "abs" | "rel" (relative to a loading file in the link's directory)
	Target  string `json:"target"`   // spelling of the outside target: "rel" | "abs"
}

func genRace() *rapid.Generator[RaceCase] {
	return rapid.Custom(func(t *rapid.T) RaceCase {
		return RaceCase{
			Iters:   rapid.IntRange(1500, 3000).Draw(t, "iters"),
			LinkDir: rapid.SampledFrom([]string{"root", "root/sub"}).Draw(t, "dir"),
			Entry:   rapid.SampledFrom([]string{"abs", "rel"}).Draw(t, "entry"),
			Target:  rapid.SampledFrom([]string{"rel", "abs"}).Draw(t, "target"),
		}
	})
}

func checkRace(c RaceCase, ctx *vcommon.Ctx) *vcommon.Failure {
	if c.Iters < 1 || c.Iters > 200000 || (c.LinkDir != "root" && c.LinkDir != "root/sub") {
		return nil
	}
	oldwd, err := os.Getwd()
	must(err)
	tmp, err := os.MkdirTemp(scratchDir(), "c20r-")
	must(err)
	defer os.RemoveAll(tmp)
	must(os.Chdir(tmp))
	base := kernelCwd()
	must(os.Chdir(oldwd))
	must(os.MkdirAll(base+"/root/sub", 0o755))
	must(os.MkdirAll(base+"/outside", 0o755))
	inTxt, outTxt := "; INSIDE:in\n(probe \"begin\" \"in\")\n", "; OUTSIDE:out\n(probe \"begin\" \"out\")\n"
	must(os.WriteFile(base+"/"+c.LinkDir+"/in.lisp", []byte(inTxt), 0o644))
	must(os.WriteFile(base+"/outside/out.lisp", []byte(outTxt), 0o644))
	link := base + "/" + c.LinkDir + "/flip.lisp"
	outTarget := base + "/outside/out.lisp"
	if c.Target == "rel" {
		outTarget = strings.Repeat("../", strings.Count(c.LinkDir, "/")+1) + "outside/out.lisp"
	}
	must(os.Symlink("in.lisp", link))

	var stop atomic.Bool
	done := make(chan int)
	go func() {
		flips := 0
		tmpl := base + "/" + c.LinkDir + "/.flip-tmp"
		for !stop.Load() {
			tgt := "in.lisp"
			if flips%2 == 0 {
				tgt = outTarget
			}
			os.Remove(tmpl)
			if os.Symlink(tgt, tmpl) == nil && os.Rename(tmpl, link) == nil {
				flips++
			}
		}
		done <- flips
	}()
	lib := &lisp.RelativeFileSystemLibrary{RootDir: base + "/root"}
	sc, loc := lisp.NewSourceContext("", ""), link
	if c.Entry == "rel" {
		sc, loc = lisp.NewSourceContext("in.lisp", base+"/"+c.LinkDir+"/in.lisp"), "flip.lisp"
	}
	served, refused := 0, 0
	var fail *vcommon.Failure
	for i := 0; i < c.Iters && fail == nil; i++ {
		_, tl, data, err := lib.LoadSource(sc, loc)
		switch {
		case bytes.Contains(data, []byte("OUTSIDE:")):
			fail = vcommon.Failf("race/outside-bytes-after-check",
				"load %d of %q while its target flips between inside and outside: returned OUTSIDE bytes %q (err=%v, trueloc=%q): the path that was checked is not the path that was read", i, loc, data, err, tl)
		case err == nil && string(data) == inTxt:
			served++
		case err == nil:
			fail = vcommon.Failf("race/unknown-bytes", "load %d of %q returned %q", i, loc, data)
		default:
			refused++
		}
	}
	stop.Store(true)
	flips := <-done
	if fail != nil {
		return fail
	}
	ctx.Class(fmt.Sprintf("entry:%s", c.Entry))
	if served > 0 && refused > 0 {
		// both states of the link were observed by the loader
		ctx.Class("both-states-observed")
		ctx.NonTrivial(fmt.Sprintf("%+v", c))
		ctx.Note(fmt.Sprintf("flips=%d served=%d refused=%d", flips, served, refused))
	} else {
		ctx.Class("one-state-only")
	}
	return nil
}
