// C18: errors identify the failing form and the calls that were active.
package c18

import (
	"fmt"
	"strings"
	"testing"

	"github.com/luthersystems/elps/lisp"
	"github.com/luthersystems/elps/verifharness/gen"
	"github.com/luthersystems/elps/verifharness/refint"
	"github.com/luthersystems/elps/verifharness/vcommon"
	"pgregory.net/rapid"
)

// ---------- layout renderer with positions ----------

type Loc struct {
	Pos, Line, Col int
}

type layout struct {
	b    strings.Builder
	line int
	col  int
	seps []string
	si   int
	pos  map[int]Loc
	idx  int
}

func (l *layout) write(s string) {
	for i := 0; i < len(s); i++ {
		if s[i] == '\n' {
			l.line++
			l.col = 1
		} else {
			l.col++
		}
	}
	l.b.WriteString(s)
}

func (l *layout) sep(required bool) {
	s := ""
	if len(l.seps) > 0 {
		s = l.seps[l.si%len(l.seps)]
		l.si++
	}
	if s == "" && required {
		s = " "
	}
	l.write(s)
}

func (l *layout) node(v gen.Val) {
	my := l.idx
	l.idx++
	for i := 0; i < v.Q; i++ {
		l.write("'")
	}
	l.pos[my] = Loc{Pos: l.b.Len(), Line: l.line, Col: l.col}
	switch v.K {
	case "int":
		l.write(fmt.Sprint(v.I))
	case "float":
		l.write(gen.FloatLit(v.Float()))
	case "str":
		if raw, ok := strings.CutPrefix(string(v.B), "RAW:"); ok {
			// a raw string literal spanning several lines: what follows it on
			// its last line has that line's column
			l.write(`"""` + raw + `"""`)
		} else {
			l.write(fmt.Sprintf("%q", string(v.B)))
		}
	case "sym":
		l.write(string(v.B))
	case "list":
		l.write("(")
		for i, c := range v.L {
			if i > 0 {
				l.sep(true)
			} else {
				l.sep(false)
			}
			l.node(c)
		}
		l.sep(false)
		l.write(")")
	}
}

func renderLayout(forms []gen.Val, seps []string) (string, map[int]Loc) {
	l := &layout{line: 1, col: 1, seps: seps, pos: map[int]Loc{}}
	for _, f := range forms {
		l.sep(false)
		l.node(f)
		l.write("\n")
	}
	return l.b.String(), l.pos
}

var sepPool = []string{" ", " ", "  ", "\n", "\n  ", "\t", " ; note\n", "\n\n", "", ""}

// ---------- failing-program generator ----------

type Case struct {
	Forms []gen.Val `json:"forms"`
	Seps  []string  `json:"seps"`
	Kind  string    `json:"kind"`
	Depth int       `json:"depth"`
	Wraps []string  `json:"wraps"`
	Loop  int       `json:"loop"`
	// Top: the failing form (under its wrappers) is itself a top-level form,
	// evaluated in the root environment, not in a function body
	Top bool `json:"top,omitempty"`
}

var S, I, L, QS, QL = gen.S, gen.I, gen.L, gen.QS, gen.QL

// failFormIn is failForm for the kinds that refer to the enclosing function.
func failFormIn(kind string, self string) gen.Val {
	switch kind {
	case "tail-self-arity":
		// the recursive call itself is rejected: with elimination on it is
		// re-entered in the frame of the first call
		return L(S(self))
	case "tail-self-arity-if":
		return L(S("if"), L(S("nil?"), S("x")), I(0), L(S(self), S("x"), S("x")))
	}
	return failForm(kind)
}

func failForm(kind string) gen.Val {
	switch kind {
	case "unbound":
		return S("no-such-var")
	case "unbound-head":
		return L(S("no-such-fn"), S("x"), I(1))
	case "error":
		return L(S("error"), QS("boom"), S("x"))
	case "type":
		return L(S("car"), I(5))
	case "type2":
		return L(S("nth"), QL(I(1)), QS("k"))
	case "arity":
		return L(S("cons"), S("x"))
	case "arity0":
		return L(S("car"))
	case "user-arity":
		return L(S("two-args"), S("x"))
	case "macro-template":
		return L(S("mt"), S("x"))
	case "macro-built":
		return L(S("mb"), S("x"))
	case "macro-template-splice":
		// the failing template form itself holds an unquote-splicing child
		return L(S("mts"), S("x"), I(2))
	case "macro-built-nested":
		// a form the macro built with list, nested under a positioned template form
		return L(S("mbn"), S("x"))
	case "macro-built-symbol-nested":
		// a position-less symbol the macro built, nested under a positioned template form
		return L(S("mbs"), S("x"))
	case "arg-of-call":
		return L(S("list"), I(1), L(S("car"), S("x")), I(3))
	case "funcall-nonfn":
		return L(S("funcall"), I(5), S("x"))
	case "head-nonfn":
		return L(I(5), S("x"))
	case "assert":
		return L(S("assert"), L(S("nil?"), S("x")))
	case "assert-msg":
		return L(S("assert"), L(S("nil?"), S("x")), gen.Str("bad {}"), S("x"))
	case "error-custom":
		return L(S("error"), QS("my-cond"), gen.Str("data"), S("x"))
	case "rethrow-outside":
		return L(S("rethrow"))
	case "unknown-package":
		return S("nopkg:foo")
	case "callback-builtin":
		// a builtin called by a builtin rejects its argument
		return L(S("map"), QS("list"), S("car"), L(S("list"), S("x")))
	case "foldl-builtin":
		return L(S("foldl"), S("+"), I(0), L(S("list"), gen.Str("a")))
	case "apply-arity":
		return L(S("apply"), S("cons"), L(S("list"), S("x")))
	case "aref-range":
		return L(S("aref"), L(S("vector"), I(1), I(2)), I(9))
	case "get-type":
		return L(S("get"), S("x"), I(1))
	case "sorted-map-odd":
		return L(S("sorted-map"), I(1))
	case "in-handler":
		// raised by a handler while it handles another error
		return L(S("handler-bind"), L(L(S("condition"), L(S("lambda"), L(S("c"), S("&rest"), S("d")), L(S("list"), S("c")), L(S("car"), S("x"))))), L(S("error"), QS("e1"), gen.Str("d")))
	case "keyword-unknown":
		return L(S("kw"), S(":b"), I(1))
	case "optional-too-many":
		return L(S("opt"), I(1), I(2), I(3))
	case "lambda-call-arity":
		return L(L(S("lambda"), L(S("a")), S("a")))
	case "set-quoted-constant":
		return L(S("set"), QS("true"), S("x"))
	case "dotimes-type":
		return L(S("dotimes"), L(S("i"), gen.Str("a")), S("x"))
	case "div-zero":
		return L(S("/"), S("x"), I(0))
	case "macro-arity":
		return L(S("mt"))
	case "macro-body-error":
		return L(S("me"), S("x"))
	case "arg-of-user-call":
		return L(S("two-args"), S("x"), L(S("car"), I(5)))
	case "let-init":
		return L(S("let"), L(L(S("t1"), L(S("car"), I(5)))), S("t1"))
	case "let*-init2":
		return L(S("let*"), L(L(S("t1"), S("x")), L(S("t2"), L(S("car"), S("t1")))), S("t2"))
	case "if-condition":
		return L(S("if"), L(S("car"), I(5)), I(1), I(2))
	case "cond-test":
		return L(S("cond"), L(L(S("car"), I(5)), I(1)), L(S("else"), I(2)))
	case "dotimes-count":
		return L(S("dotimes"), L(S("i"), L(S("car"), I(5))), S("x"))
	case "and-first":
		return L(S("and"), L(S("car"), I(5)), S("x"))
	case "progn-middle":
		return L(S("progn"), L(S("list"), I(1)), L(S("car"), I(5)), S("x"))
	case "thread-last":
		return L(S("thread-last"), S("x"), L(S("list")), L(S("car")), L(S("car")))
	case "thread-first-arg":
		return L(S("thread-first"), S("x"), L(S("cons"), L(S("car"), I(5))))
	case "set-value":
		return L(S("set!"), S("x"), L(S("car"), I(5)))
	case "flet-bad-binding":
		return L(S("flet"), L(L(S("g"))), S("x"))
	case "let-bad-binding":
		return L(S("let"), L(L(I(5), I(1))), S("x"))
	case "lambda-bad-formals":
		return L(S("lambda"), L(I(5)), S("x"))
	case "set-unbound":
		// assignment to a name bound nowhere: raised below the innermost scope
		return L(S("set!"), S("no-such-var"), L(S("+"), S("x"), I(1)))
	case "set-constant":
		return L(S("set!"), S("true"), S("x"))
	case "let-bad-binding-after-load":
		// the operator rejects its arguments after one of them ran a nested load
		return L(S("let"), L(L(S("t1"), L(S("load-string"), gen.Str("1"))), L(S("t2"))), S("x"))
	case "let*-bad-binding-after-load":
		return L(S("let*"), L(L(S("t1"), L(S("load-string"), gen.Str("1"))), L(S("t2"))), S("x"))
	case "type-after-load":
		return L(S("car"), L(S("load-string"), gen.Str("1")))
	case "assert-after-load":
		return L(S("assert"), L(S("nil?"), L(S("load-string"), gen.Str("1"))))
	case "eval-built-symbol":
		// a symbol made at run time (no position) handed to eval
		return L(S("eval"), L(S("gensym")))
	case "head-compound-nonfn":
		// the head is a compound form whose value is not a function
		return L(L(S("progn"), I(5)), S("x"))
	case "head-compound-nonfn-if":
		return L(L(S("if"), S("true"), L(S("list"), I(1), S("x")), I(3)), S("x"))
	case "head-call-nonfn":
		return L(L(L(S("lambda"), L(), I(5))), S("x"))
	default:
		return L(S("mod"), S("x"), I(0))
	}
}

var failKinds = []string{"unbound", "unbound-head", "error", "type", "type2", "arity", "arity0", "user-arity", "macro-template", "macro-built", "arg-of-call", "mod-zero",
	"macro-template-splice", "macro-built-nested", "macro-built-symbol-nested", "set-unbound", "set-constant",
	"funcall-nonfn", "head-nonfn", "assert", "assert-msg", "error-custom", "rethrow-outside", "unknown-package", "callback-builtin", "foldl-builtin", "apply-arity",
	"aref-range", "get-type", "sorted-map-odd", "in-handler", "keyword-unknown", "optional-too-many", "lambda-call-arity", "set-quoted-constant", "dotimes-type", "div-zero",
	"macro-arity", "macro-body-error", "arg-of-user-call", "let-init", "let*-init2", "if-condition", "cond-test", "dotimes-count", "and-first", "progn-middle",
	"thread-last", "thread-first-arg", "tail-self-arity", "tail-self-arity-if", "set-value", "flet-bad-binding", "let-bad-binding", "lambda-bad-formals",
	"let-bad-binding-after-load", "let*-bad-binding-after-load", "type-after-load", "assert-after-load", "eval-built-symbol", "head-compound-nonfn", "head-compound-nonfn-if", "head-call-nonfn"}

// Classes in which the UNCHANGED tree violates the statement (reported to the
// lead, not yet registered as known findings): drawn, counted under
// skip/pending-finding/..., not evaluated -- except when replaying a saved
// case (harness/c18/pending/*.json).
var pendingKinds = map[string]string{
	// known finding location/wrong-form/eval-built-symbol (known_findings.json);
	// the three other classes found in round 7 were repaired in /repo
	// (6a0448a nested load, and the two commits after it) and are searched
	"eval-built-symbol": "positionless-symbol-located-at-function-call-site",
}
var pendingWraps = map[string]string{}

func pendingOf(cs Case) string {
	// the -after-load kinds go wrong only in the root environment
	if p := pendingKinds[cs.Kind]; p != "" && (cs.Top || !strings.HasSuffix(cs.Kind, "-after-load")) {
		return p
	}
	for _, w := range cs.Wraps {
		if p := pendingWraps[w]; p != "" {
			return p
		}
	}
	return ""
}
var wrapKinds = []string{"raw-string-before", "raw-string-before", "callback-after-tail-loop", "callback-after-tail-loop", "let", "let*", "cond", "dotimes", "handler-bind", "progn", "if", "plus-arg", "map-callback", "funcall", "apply", "labels", "flet", "and", "or-last", "thread-first", "foldl",
	"nested-load-before", "nested-load-arg-before", "search-sorted-callback", "flip-callback", "stable-sort-callback", "unpack-callback"}

func wrap(kind string, inner gen.Val) gen.Val {
	switch kind {
	case "raw-string-before":
		// a multi-line raw string (3+ lines) is the token before the form
		return L(S("progn"), gen.Str("RAW:first line\n  second\n\nfourth (line"), inner)
	case "callback-after-tail-loop":
		// a builtin calls the same function twice: the first call collapses a
		// self tail loop, the second one fails
		return L(S("labels"), L(L(S("cbk"), L(S("k")), L(S("if"), L(S(">"), S("k"), I(0)), L(S("cbk"), L(S("-"), S("k"), I(1))), L(S("if"), L(S("="), S("k"), I(-1)), inner, S("k"))))),
			L(S("map"), QS("list"), S("cbk"), L(S("list"), I(2), I(-1))))
	case "nested-load-before":
		// a nested load ran (and moved the root environment's location) before the form
		return L(S("progn"), L(S("load-string"), gen.Str("1")), inner)
	case "nested-load-arg-before":
		return L(S("list"), L(S("load-string"), gen.Str("1")), inner)
	case "search-sorted-callback":
		return L(S("search-sorted"), I(4), L(S("lambda"), L(S("e")), inner))
	case "flip-callback":
		return L(S("funcall"), L(S("flip"), L(S("lambda"), L(S("e"), S("e2")), inner)), I(1), I(2))
	case "stable-sort-callback":
		return L(S("stable-sort"), L(S("lambda"), L(S("e"), S("e2")), inner), QL(I(1), I(2)))
	case "unpack-callback":
		return L(S("unpack"), L(S("lambda"), L(S("e"), S("e2")), inner), QL(I(1), I(2)))
	case "let":
		return L(S("let"), L(L(S("t1"), L(S("+"), S("x"), I(1)))), inner)
	case "let*":
		return L(S("let*"), L(L(S("t1"), S("x")), L(S("t2"), S("t1"))), L(S("list"), S("t2")), inner)
	case "cond":
		return L(S("cond"), L(L(S("nil?"), S("x")), I(0)), L(S("else"), inner))
	case "dotimes":
		return L(S("dotimes"), L(S("i"), I(1)), inner)
	case "handler-bind":
		return L(S("handler-bind"), L(L(S("never"), L(S("lambda"), L(S("c"), S("&rest"), S("d")), I(0)))), inner)
	case "progn":
		return L(S("progn"), L(S("list"), S("x")), inner)
	case "if":
		return L(S("if"), S("true"), inner, I(0))
	case "plus-arg":
		return L(S("list"), I(1), inner)
	case "map-callback":
		return L(S("car"), L(S("map"), QS("list"), L(S("lambda"), L(S("e")), inner), QL(I(1))))
	case "funcall":
		return L(S("funcall"), L(S("lambda"), L(), inner))
	case "apply":
		return L(S("apply"), L(S("lambda"), L(S("e")), inner), QL(I(1)))
	case "labels":
		return L(S("labels"), L(L(S("loc"), L(S("e")), inner)), L(S("list"), L(S("loc"), I(1))))
	case "flet":
		return L(S("flet"), L(L(S("loc"), L(), inner)), L(S("loc")))
	case "and":
		return L(S("and"), S("true"), inner, S("true"))
	case "or-last":
		return L(S("or"), S("false"), inner)
	case "thread-first":
		return L(S("thread-first"), I(1), L(S("list"), inner))
	default:
		return L(S("foldl"), L(S("lambda"), L(S("acc"), S("e")), inner), I(0), QL(I(1)))
	}
}

func prelude() []gen.Val {
	return []gen.Val{
			L(S("defun"), S("two-args"), L(S("a"), S("b")), L(S("list"), S("a"), S("b"))),
			L(S("defmacro"), S("mt"), L(S("a")), L(S("quasiquote"), L(S("progn"), L(S("list"), I(0)), L(S("car"), L(S("unquote"), S("a")))))),
			L(S("defmacro"), S("mb"), L(S("a")), L(S("list"), L(S("car"), QL(S("car"))), S("a"))),
			L(S("defmacro"), S("mts"), L(S("&rest"), S("xs")), L(S("quasiquote"), L(S("progn"), L(S("list"), I(0)), L(S("mod"), L(S("unquote-splicing"), S("xs")), I(0))))),
			// the built form comes from an inner macro called from a template:
			// it takes the inner macro's call site, i.e. the template position
			L(S("defmacro"), S("mbn"), L(S("a")), L(S("quasiquote"), L(S("progn"), L(S("list"), I(0)), L(S("mb"), L(S("unquote"), S("a")))))),
			L(S("defmacro"), S("mbs"), L(S("a")), L(S("quasiquote"), L(S("progn"), L(S("list"), L(S("unquote"), S("a"))), L(S("list"), L(S("unquote"), L(S("gensym"))))))),
		L(S("defmacro"), S("me"), L(S("a")), L(S("list"), I(1)), L(S("car"), I(5))),
		L(S("defun"), S("kw"), L(S("&key"), S("a")), L(S("list"), S("a"))),
		L(S("defun"), S("opt"), L(S("a"), S("&optional"), S("b")), L(S("list"), S("a"), S("b"))),
	}
}

func genCase() *rapid.Generator[Case] {
	return rapid.Custom(func(t *rapid.T) Case {
		c := Case{
			Kind:  rapid.SampledFrom(failKinds).Draw(t, "kind"),
			Depth: rapid.IntRange(1, 5).Draw(t, "depth"),
			Loop:  rapid.SampledFrom([]int{0, 0, 0, 2, 5}).Draw(t, "loop"),
		}
		forms := prelude()
		if rapid.IntRange(0, 6).Draw(t, "top") == 0 && !strings.HasPrefix(c.Kind, "tail-self") {
			c.Top, c.Depth, c.Loop = true, 0, 0
			body := failForm(c.Kind)
			for i, nw := 0, rapid.IntRange(0, 3).Draw(t, "nwraps"); i < nw; i++ {
				w := rapid.SampledFrom(wrapKinds).Draw(t, "wrap")
				c.Wraps = append(c.Wraps, w)
				body = wrap(w, body)
			}
			c.Forms = append(forms, L(S("set"), QS("x"), I(7)), body)
			c.Seps = rapid.SliceOfN(rapid.SampledFrom(sepPool), 8, 40).Draw(t, "seps")
			return c
		}
		// the failing form sits in the innermost function, under wrappers
		body := failFormIn(c.Kind, fmt.Sprintf("f%d", c.Depth-1))
		for d := c.Depth - 1; d >= 0; d-- {
			nw := rapid.IntRange(0, 3).Draw(t, "nwraps")
			for i := 0; i < nw; i++ {
				w := rapid.SampledFrom(wrapKinds).Draw(t, "wrap")
				c.Wraps = append(c.Wraps, w)
				body = wrap(w, body)
			}
			name := fmt.Sprintf("f%d", d)
			forms = append(forms, L(S("defun"), S(name), L(S("x")), L(S("list"), S("x")), body))
			// how the next outer function calls this one
			call := L(S(name), L(S("+"), S("x"), I(1)))
			if rapid.IntRange(0, 3).Draw(t, "tailcall") != 0 {
				body = call // tail position of the caller (before wrappers)
			} else {
				body = L(S("list"), call)
			}
		}
		entry := L(S("f0"), I(7))
		if c.Loop > 0 {
			// a tail-recursive countdown before entering: elimination merges frames
			forms = append(forms, L(S("defun"), S("lp"), L(S("n")), L(S("if"), L(S("<="), S("n"), I(0)), L(S("f0"), S("n")), L(S("lp"), L(S("-"), S("n"), I(1))))))
			entry = L(S("lp"), I(int64(c.Loop)))
		}
		switch rapid.IntRange(0, 3).Draw(t, "entrywrap") {
		case 0:
			entry = L(S("list"), entry)
		case 1:
			entry = L(S("let"), L(L(S("q"), I(1))), entry)
		}
		forms = append(forms, entry)
		c.Forms = forms
		c.Seps = rapid.SliceOfN(rapid.SampledFrom(sepPool), 8, 40).Draw(t, "seps")
		return c
	})
}

type frame struct {
	name   string
	loc    Loc
	has    bool
	alt    Loc // second acceptable call site (handler frames)
	hasAlt bool
}

func realFrames(v *lisp.LVal) []frame {
	st := v.CallStack()
	if st == nil {
		return nil
	}
	var out []frame
	for i := len(st.Frames) - 1; i >= 0; i-- {
		f := st.Frames[i]
		fr := frame{name: f.Package + ":" + f.Name}
		if f.Source != nil && f.Source.Pos >= 0 {
			fr.loc = Loc{f.Source.Pos, f.Source.Line, f.Source.Col}
			fr.has = true
		}
		out = append(out, fr)
	}
	return out
}

func fmtFrames(fs []frame) string {
	var b strings.Builder
	for _, f := range fs {
		if f.has {
			fmt.Fprintf(&b, "  %s at %d:%d\n", f.name, f.loc.Line, f.loc.Col)
		} else {
			fmt.Fprintf(&b, "  %s at <no position>\n", f.name)
		}
	}
	return b.String()
}

func sameFrame(r frame, want frame) bool {
	if r.has != want.has || (r.has && r.loc != want.loc && !(want.hasAlt && r.loc == want.alt)) {
		return false
	}
	if strings.Contains(want.name, ":") && !strings.HasSuffix(want.name, ":lambda") && r.name != want.name {
		return false
	}
	return true
}

func check(cs Case, c *vcommon.Ctx) *vcommon.Failure {
	if len(cs.Forms) == 0 {
		return nil
	}
	src, pos := renderLayout(cs.Forms, cs.Seps)
	// reference: failing node and active-call chain
	if pend := pendingOf(cs); pend != "" && !c.Replay {
		c.Class("skip/pending-finding/" + pend)
		return nil
	}
	in := refint.New()
	in.Sources = map[string][]*refint.V{"1": {refint.Int(1)}}
	p := 0
	forms := make([]*refint.V, len(cs.Forms))
	for i, f := range cs.Forms {
		forms[i] = refint.FromVal(f, &p)
	}
	_, rerr, abort := in.Run(forms)
	if abort != "" || in.Unsupported != "" || rerr == nil {
		c.Class("skip/reference")
		return nil
	}
	c.Class("kind/" + cs.Kind)
	for _, w := range cs.Wraps {
		c.Class("wrap/" + w)
	}
	if cs.Loop > 0 {
		c.Class("tail-loop-before")
	}
	if cs.Top {
		c.Class("failing-form-at-top-level")
	}
	want, okNode := pos[rerr.Node]
	if !okNode {
		return vcommon.Failf("harness/no-node", "reference reports failing node %d without a position\n%s", rerr.Node, src)
	}
	if cs.Depth >= 2 && want.Line > 1 {
		c.NonTrivial(src)
		c.Note(src)
	}
	var wantChain []frame
	for i := len(rerr.Chain) - 1; i >= 0; i-- {
		f := rerr.Chain[i]
		fr := frame{name: f.Name}
		if l, ok := pos[f.Node]; ok && f.Node >= 0 {
			fr.loc, fr.has = l, true
		}
		if l, ok := pos[f.Alt]; ok && f.Alt >= 0 {
			fr.alt, fr.hasAlt = l, true
		}
		wantChain = append(wantChain, fr)
	}
	for _, dbg := range []bool{true, false} {
		rt := vcommon.NewRuntime(vcommon.Cfg{NoStdlib: true, MaxSteps: 200000, Debugger: dbg})
		out := rt.Load(src)
		if !out.IsErr {
			return vcommon.Failf("no-error", "reference signals %q, real returns %s\n%s", rerr.Cond, out.Canon, src)
		}
		if out.Panic {
			return vcommon.Failf("internal-panic", "internal panic: %s\n%s", out.Msg, src)
		}
		if out.Cond != rerr.Cond {
			return vcommon.Failf("condition", "condition %q (%s), reference %q\n%s", out.Cond, out.Msg, rerr.Cond, src)
		}
		loc, ok := out.Val.Source()
		if !ok {
			return vcommon.Failf("location/missing/"+cs.Kind, "the error carries no location (debugger=%v): %s\n%s", dbg, out.Msg, src)
		}
		if loc.File != "test.lisp" {
			return vcommon.Failf("location/other-source/"+cs.Kind, "error %q (%s) is located at %s:%d:%d, outside the loaded source test.lisp; the failing form is at %d:%d (debugger=%v)\n%s", out.Cond, out.Msg, loc.File, loc.Line, loc.Col, want.Line, want.Col, dbg, src)
		}
		if loc.Pos < 0 || loc.Pos >= len(src) {
			return vcommon.Failf("location/outside-source/"+cs.Kind, "location %d:%d (offset %d) is outside the source (%d bytes)\n%s", loc.Line, loc.Col, loc.Pos, len(src), src)
		}
		gotLoc := Loc{loc.Pos, loc.Line, loc.Col}
		if alt, ok := pos[rerr.Node-2]; ok && strings.HasPrefix(cs.Kind, "set-") && gotLoc == alt {
			// "the symbol itself for an unbound symbol" or "the call expression
			// for a function rejecting its arguments": for a rejected assignment
			// both readings are accepted (the set! form is two nodes before its
			// target symbol in pre-order)
			gotLoc = want
		}
		if alt, ok := pos[rerr.Node-1]; ok && strings.HasPrefix(cs.Kind, "head-") && strings.Contains(cs.Kind, "nonfn") && gotLoc == alt {
			// a head whose value is not a function: "the form whose evaluation
			// raised it" is the call expression (the node before its head in
			// pre-order); the head element is accepted as well, anything INSIDE
			// the head is not
			gotLoc = want
		}
		if gotLoc != want {
			return vcommon.Failf("location/wrong-form/"+cs.Kind, "error %q (%s) located at %d:%d (offset %d), the failing form is at %d:%d (offset %d) (debugger=%v)\n%s",
				out.Cond, out.Msg, gotLoc.Line, gotLoc.Col, gotLoc.Pos, want.Line, want.Col, want.Pos, dbg, src)
		}
		got := realFrames(out.Val)
		if dbg {
			// elimination off: exactly the active calls, innermost first
			if len(got) != len(wantChain) {
				return vcommon.Failf("trace/length/"+cs.Kind, "stack trace (elimination off) has %d frames, %d calls were active\nreal:\n%sreference:\n%s%s", len(got), len(wantChain), fmtFrames(got), fmtFrames(wantChain), src)
			}
			for i := range got {
				if !sameFrame(got[i], wantChain[i]) {
					return vcommon.Failf("trace/frame/"+cs.Kind, "stack frame %d (innermost first) differs from the active call\nreal:\n%sreference:\n%s%s", i, fmtFrames(got), fmtFrames(wantChain), src)
				}
			}
		} else {
			// elimination on: an order-preserving sub-sequence; frames may only
			// be missing when a function recurs in the chain (a tail-call cycle)
			j := 0
			for _, g := range got {
				for j < len(wantChain) && !sameFrame(g, wantChain[j]) {
					j++
				}
				if j == len(wantChain) {
					return vcommon.Failf("trace/not-subsequence/"+cs.Kind, "stack trace (elimination on) is not a sub-sequence of the active calls\nreal:\n%sreference:\n%s%s", fmtFrames(got), fmtFrames(wantChain), src)
				}
				j++
			}
			// elimination reuses frames only when the callee already occurs
			// in the chain of terminal frames: some named function (this
			// includes builtins such as funcall/apply) must recur
			recurs := false
			seenName := map[string]bool{}
			for _, w := range wantChain {
				if strings.Contains(w.name, ":") {
					if seenName[w.name] {
						recurs = true
					}
					seenName[w.name] = true
				}
			}
			if len(got) != len(wantChain) && !recurs {
				return vcommon.Failf("trace/frames-dropped/"+cs.Kind, "frames are missing although no tail-call cycle was active\nreal:\n%sreference:\n%s%s", fmtFrames(got), fmtFrames(wantChain), src)
			}
		}
	}
	// a handler and the host see the same location and trace, also after rethrow
	wrapped := "(handler-bind ((condition (lambda (c &rest d) (host-cond 1) (rethrow)))) " + strings.TrimSpace(gen.Render(cs.Forms[len(cs.Forms)-1])) + ")"
	defs, _ := renderLayout(cs.Forms[:len(cs.Forms)-1], cs.Seps)
	rt := vcommon.NewRuntime(vcommon.Cfg{NoStdlib: true, MaxSteps: 200000})
	rt.Load(defs)
	out := rt.Load(wrapped)
	if out.IsErr && len(rt.HostErrs) == 1 && rt.HostErrs[0] != nil {
		seen := rt.HostErrs[0]
		if seen != out.Val {
			return vcommon.Failf("rethrow/identity", "after rethrow the host receives a different error object\n%s", wrapped)
		}
		c.Class("rethrow-compared")
	}
	return nil
}

// ---------- errors raised inside a nested load keep the nested source's position ----------

type Nested struct {
	Kind  string   `json:"kind"`  // failing form, closed (no free variables)
	Lead  string   `json:"lead"`  // text before the form in the nested source ("" puts it at offset 0)
	Seps  []string `json:"seps"`
	Outer string   `json:"outer"` // how the loading form is reached
}

var nestedKinds = []string{"error", "type", "arity", "unbound", "arg-of-call", "unbound-head", "nested-deeper"}
var nestedLeads = []string{"", "", "", " ", "\n", "  \n ", "; c\n", "\t"}
var nestedOuter = []string{"top", "in-function", "rethrow", "rethrow-in-function", "let", "twice"}

func nestedForm(kind string) gen.Val {
	switch kind {
	case "error":
		return L(S("error"), QS("boom"), I(1))
	case "type":
		return L(S("car"), I(5))
	case "arity":
		return L(S("cons"), I(1))
	case "unbound":
		return S("no-such-var")
	case "unbound-head":
		return L(S("no-such-fn"), I(1))
	case "nested-deeper":
		return L(S("let"), L(L(S("t1"), I(1))), L(S("list"), S("t1")), L(S("car"), S("t1")))
	default:
		return L(S("list"), I(1), L(S("car"), I(5)), I(3))
	}
}

func checkNested(n Nested, c *vcommon.Ctx) *vcommon.Failure {
	form := nestedForm(n.Kind)
	// the lead is the first separator the renderer writes
	seps := append([]string{n.Lead}, n.Seps...)
	inner, ipos := renderLayout([]gen.Val{form}, seps)
	inner = strings.TrimRight(inner, "\n")
	// reference: which node fails
	in := refint.New()
	p := 0
	_, rerr, abort := in.Run([]*refint.V{refint.FromVal(form, &p)})
	if abort != "" || in.Unsupported != "" || rerr == nil {
		c.Class("skip/reference")
		return nil
	}
	want, ok := ipos[rerr.Node]
	if !ok {
		return vcommon.Failf("harness/no-node", "no position for node %d in %q", rerr.Node, inner)
	}
	c.Class("kind/" + n.Kind)
	c.Class("outer/" + n.Outer)
	if want.Pos == 0 {
		c.Class("failing-form-at-offset-0")
	}
	load := fmt.Sprintf("(load-string %q)", inner)
	var src string
	switch n.Outer {
	case "in-function":
		src = "(defun ld (x) (list x) " + load + ")\n(list (ld 1))"
	case "rethrow":
		src = "(handler-bind ((condition (lambda (c &rest d) (list c) (rethrow)))) " + load + ")"
	case "rethrow-in-function":
		src = "(defun ld (x) " + load + ")\n(list 1\n  (handler-bind ((condition (lambda (c &rest d) (rethrow)))) (ld 1)))"
	case "let":
		src = "(let ((k 1))\n  (list k)\n  " + load + ")"
	case "twice":
		src = fmt.Sprintf("(load-string %q)", load)
		// the inner text sits two loads deep; positions are those of the innermost text
	default:
		src = load
	}
	c.NonTrivial(src)
	c.Note(src)
	for _, dbg := range []bool{false, true} {
		rt := vcommon.NewRuntime(vcommon.Cfg{NoStdlib: true, MaxSteps: 200000, Debugger: dbg})
		out := rt.Load(src)
		if !out.IsErr || out.Cond != rerr.Cond {
			return vcommon.Failf("nested/condition", "expected condition %q, got %s (%s)\n%s", rerr.Cond, out.Key(), out.Msg, src)
		}
		loc, ok := out.Val.Source()
		if !ok {
			return vcommon.Failf("nested/location-missing/"+n.Kind, "the error carries no location\n%s", src)
		}
		if loc.File == "test.lisp" {
			return vcommon.Failf("nested/location-in-loading-source/"+n.Kind, "the error raised inside the nested source is located in the LOADING source at %d:%d; the failing form is at %d:%d of the nested text %q (debugger=%v)\n%s", loc.Line, loc.Col, want.Line, want.Col, inner, dbg, src)
		}
		// the trace keeps the calls that were active INSIDE the nested source,
		// innermost first, above the loading call
		if inner := map[string]string{"error": "lisp:error", "type": "lisp:car", "arity": "lisp:cons", "arg-of-call": "lisp:car", "nested-deeper": "lisp:car"}[n.Kind]; inner != "" {
			fr := realFrames(out.Val)
			if len(fr) == 0 || fr[0].name != inner {
				return vcommon.Failf("nested/trace-lost-inner-frames/"+n.Kind, "the innermost frame of an error raised inside the nested source should be %s, the trace is:\n%s%s", inner, fmtFrames(fr), src)
			}
			sawLoader := false
			for _, f := range fr[1:] {
				if f.name == "lisp:load-string" {
					sawLoader = true
				}
			}
			if !sawLoader {
				return vcommon.Failf("nested/trace-lost-loader/"+n.Kind, "the trace does not show the load-string call below the nested frames:\n%s%s", fmtFrames(fr), src)
			}
		}
		if got := (Loc{loc.Pos, loc.Line, loc.Col}); got != want {
			return vcommon.Failf("nested/location-wrong-form/"+n.Kind, "located at %s:%d:%d (offset %d); the failing form is at %d:%d (offset %d) of the nested text %q (debugger=%v)\n%s", loc.File, got.Line, got.Col, got.Pos, want.Line, want.Col, want.Pos, inner, dbg, src)
		}
	}
	return nil
}

func genNested() *rapid.Generator[Nested] {
	return rapid.Custom(func(t *rapid.T) Nested {
		return Nested{
			Kind:  rapid.SampledFrom(nestedKinds).Draw(t, "kind"),
			Lead:  rapid.SampledFrom(nestedLeads).Draw(t, "lead"),
			Seps:  rapid.SliceOfN(rapid.SampledFrom(sepPool), 4, 16).Draw(t, "seps"),
			Outer: rapid.SampledFrom(nestedOuter).Draw(t, "outer"),
		}
	})
}

func TestCheck(t *testing.T) {
	vcommon.Main(t, "C18",
		vcommon.S("failing-programs", 60000, 1500000, genCase(), check),
		vcommon.S("nested-load", 6000, 150000, genNested(), checkNested),
		vcommon.S("nested-handling", 10000, 250000, genHandling(), checkHandling),
	)
}
