// C18 sub-property nested-handling: "a handler or the embedding host receives
// location and trace unchanged, also after rethrow" -- over NESTED handling.
//
// Generated programs are trees of handler-bind / ignore-errors forms whose
// handlers themselves run further handling forms (which handle, swallow or
// rethrow inner errors) before they rethrow, return or raise.  The reference
// interpreter says which error object is pending at every (host-cond n) probe
// and which error the host finally receives, together with the node that
// raised it and the calls that were active THEN; the layout renderer knows the
// position of every node.  The real interpreter's pending error is
// snapshotted (location + frames) at each probe and compared with the
// reference, and again at the end of the run (unchanged in place).
package c18

import (
	"fmt"
	"strings"
	"testing"

	"github.com/luthersystems/elps/lisp"
	"github.com/luthersystems/elps/verifharness/gen"
	"github.com/luthersystems/elps/verifharness/refint"
	"github.com/luthersystems/elps/verifharness/vcommon"
	"pgregory.net/rapid"
)

type Handling struct {
	Forms []gen.Val `json:"forms"`
	Seps  []string  `json:"seps"`
}

type hg struct {
	t      *rapid.T
	budget int // handling constructs left
	ids    int64
	fns    int
	defs   []gen.Val
}

func (g *hg) n(lo, hi int, label string) int { return rapid.IntRange(lo, hi).Draw(g.t, label) }
func (g *hg) id() gen.Val                    { g.ids++; return I(g.ids) }
func (g *hg) fn(prefix string) string        { g.fns++; return fmt.Sprintf("%s%d", prefix, g.fns) }

var hCondNames = []string{"e1", "e2", "e3"}
var hSpecs = []string{"condition", "condition", "condition", "condition", "condition", "condition", "e1", "e2", "error", "never"}

func (g *hg) see() gen.Val { return L(S("host-cond"), g.id()) }

// raise is a form that signals an error when evaluated.
func (g *hg) raise() gen.Val {
	switch g.n(0, 11, "raise") {
	case 0, 1, 2:
		return L(S("error"), QS(rapid.SampledFrom(hCondNames).Draw(g.t, "cond")), gen.Str("d"), g.id())
	case 3:
		return L(S("car"), g.id())
	case 4:
		return S("no-such-var")
	case 5:
		return L(S("cons"), g.id())
	case 6, 7:
		return L(S("rethrow"))
	case 8:
		return L(S("no-such-fn"), g.id())
	default:
		// raised one or two calls down: the error carries frames that are no
		// longer active when a handler looks at it
		name := g.fn("r")
		var body gen.Val = L(S("error"), QS(rapid.SampledFrom(hCondNames).Draw(g.t, "cond")), S("x"))
		if g.n(0, 1, "raise-type") == 0 {
			body = L(S("car"), S("x"))
		}
		if g.n(0, 1, "raise-nontail") == 0 {
			body = L(S("list"), body)
		}
		g.defs = append(g.defs, L(S("defun"), S(name), L(S("x")), L(S("list"), S("x")), body))
		call := L(S(name), g.id())
		if g.n(0, 2, "raise-deeper") == 0 {
			outer := g.fn("r")
			g.defs = append(g.defs, L(S("defun"), S(outer), L(S("x")), call))
			call = L(S(outer), g.id())
		}
		return call
	}
}

// expr is a form that (usually) signals an error, possibly after handling
// others on the way.
func (g *hg) expr(depth int) gen.Val {
	if depth <= 0 || g.budget <= 0 {
		return g.raise()
	}
	switch g.n(0, 11, "expr") {
	case 0, 1:
		return g.raise()
	case 2:
		g.budget--
		return L(S("progn"), L(S("ignore-errors"), g.expr(depth-1)), g.expr(depth-1))
	case 3:
		if g.n(0, 1, "wrap") == 0 {
			return L(S("list"), g.id(), g.expr(depth))
		}
		return L(S("let"), L(L(S("t1"), g.id())), g.expr(depth))
	case 4, 5:
		// the handling code sits in a function of its own
		name := g.fn("g")
		body := g.expr(depth)
		g.defs = append(g.defs, L(S("defun"), S(name), L(), body))
		return L(S(name))
	default:
		return g.handlerBind(depth)
	}
}

func (g *hg) handlerBind(depth int) gen.Val {
	g.budget--
	nb := 1
	if g.n(0, 3, "two-bindings") == 0 {
		nb = 2
	}
	var binds []gen.Val
	for i := 0; i < nb; i++ {
		binds = append(binds, L(S(rapid.SampledFrom(hSpecs).Draw(g.t, "spec")), g.handler(depth-1)))
	}
	form := []gen.Val{S("handler-bind"), L(binds...)}
	if g.n(0, 3, "pre-form") == 0 {
		form = append(form, L(S("list"), g.id()))
	}
	form = append(form, g.expr(depth-1))
	return L(form...)
}

// inner is what a handler runs under a form that survives its error: more
// often than not another handler-bind.
func (g *hg) inner(depth int) gen.Val {
	if depth > 0 && g.budget > 0 && g.n(0, 4, "inner-hb") < 3 {
		return g.handlerBind(depth)
	}
	return g.expr(depth)
}

// handler is a handler expression: a lambda or the name of a global function.
func (g *hg) handler(depth int) gen.Val {
	var body []gen.Val
	if g.n(0, 1, "see-first") == 0 {
		body = append(body, g.see())
	}
	for i, ns := 0, g.n(0, 3, "nsteps"); i < ns; i++ {
		switch g.n(0, 5, "step") {
		case 0:
			body = append(body, L(S("list"), S("c"), S("d")))
			continue
		case 1, 2:
			// survive an inner error: swallowed
			g.budget--
			body = append(body, L(S("ignore-errors"), g.inner(depth-1)))
		case 3:
			// survive an inner error: handled by a handler that returns
			g.budget--
			h := []gen.Val{S("lambda"), L(S("c"), S("&rest"), S("d"))}
			if g.n(0, 1, "inner-see") == 0 {
				h = append(h, g.see())
			}
			h = append(h, g.id())
			body = append(body, L(S("handler-bind"), L(L(S("condition"), L(h...))), g.inner(depth-1)))
		default:
			// may or may not survive
			body = append(body, L(S("list"), g.expr(depth-1)))
		}
		if g.n(0, 2, "see-after") != 0 {
			body = append(body, g.see())
		}
	}
	switch g.n(0, 9, "final") {
	case 0:
		body = append(body, g.id())
	case 1, 2:
		body = append(body, g.raise())
	case 3:
		body = append(body, g.expr(depth-1))
	default:
		body = append(body, L(S("rethrow")))
	}
	if g.n(0, 3, "named-handler") == 0 {
		name := g.fn("h")
		g.defs = append(g.defs, L(append([]gen.Val{S("defun"), S(name), L(S("c"), S("&rest"), S("d"))}, body...)...))
		return S(name)
	}
	return L(append([]gen.Val{S("lambda"), L(S("c"), S("&rest"), S("d"))}, body...)...)
}

func genHandling() *rapid.Generator[Handling] {
	return rapid.Custom(func(t *rapid.T) Handling {
		g := &hg{t: t, budget: rapid.IntRange(3, 12).Draw(t, "budget")}
		entry := g.handlerBind(rapid.IntRange(2, 5).Draw(t, "depth"))
		switch g.n(0, 3, "entry") {
		case 0:
			entry = L(S("list"), entry)
		case 1:
			g.defs = append(g.defs, L(S("defun"), S("run"), L(S("x")), L(S("list"), S("x")), entry))
			entry = L(S("run"), I(7))
		}
		return Handling{
			Forms: append(g.defs, entry),
			Seps:  rapid.SliceOfN(rapid.SampledFrom(sepPool), 8, 40).Draw(t, "seps"),
		}
	})
}

// ---------- snapshots of what the host can read from an error ----------

type errSnap struct {
	isNil  bool
	cond   string
	msg    string
	file   string
	hasLoc bool
	loc    Loc
	frames []frame
}

func takeSnap(v *lisp.LVal) errSnap {
	if v == nil || v.Type != lisp.LError {
		return errSnap{isNil: true}
	}
	s := errSnap{cond: v.Str, frames: realFrames(v)}
	if loc, ok := v.Source(); ok {
		s.hasLoc = true
		s.file = loc.File
		s.loc = Loc{loc.Pos, loc.Line, loc.Col}
	}
	return s
}

func (s errSnap) String() string {
	if s.isNil {
		return "<no error>\n"
	}
	at := "<no location>"
	if s.hasLoc {
		at = fmt.Sprintf("%s:%d:%d (offset %d)", s.file, s.loc.Line, s.loc.Col, s.loc.Pos)
	}
	return fmt.Sprintf("condition %s at %s\n%s", s.cond, at, fmtFrames(s.frames))
}

func sameSnap(a, b errSnap) bool { return a.String() == b.String() }

// snapshotAtHostCond rebinds (host-cond tag) to a version that also records
// location and frames of the pending error AT THAT MOMENT.
func snapshotAtHostCond(rt *vcommon.Rt) *[]errSnap {
	snaps := &[]errSnap{}
	pkg := rt.Env.Runtime.Registry.Package(lisp.DefaultUserPackage)
	orig := pkg.Get(lisp.Symbol("host-cond"))
	if orig.Type != lisp.LFun {
		panic("host-cond is not registered")
	}
	pkg.Put(lisp.Symbol("host-cond"), lisp.FunInPackage(lisp.DefaultUserPackage, orig.FID(), lisp.Formals("tag"),
		func(env *lisp.LEnv, args *lisp.LVal) *lisp.LVal {
			cur := env.Runtime.CurrentCondition()
			rt.HostErrs = append(rt.HostErrs, cur)
			*snaps = append(*snaps, takeSnap(cur))
			return lisp.Nil()
		}))
	return snaps
}

func refChain(e *refint.Err, pos map[int]Loc) []frame {
	var want []frame
	for i := len(e.Chain) - 1; i >= 0; i-- {
		f := e.Chain[i]
		fr := frame{name: f.Name}
		if l, ok := pos[f.Node]; ok && f.Node >= 0 {
			fr.loc, fr.has = l, true
		}
		if l, ok := pos[f.Alt]; ok && f.Alt >= 0 {
			fr.alt, fr.hasAlt = l, true
		}
		want = append(want, fr)
	}
	return want
}

// cmpErr compares what the host reads from one error object with the
// reference's record of the error: condition, location = the node that raised
// it, frames = the calls active when it was raised.
func cmpErr(who string, got errSnap, ref *refint.Err, pos map[int]Loc, dbg bool, src string) *vcommon.Failure {
	if got.isNil {
		return vcommon.Failf("handling/"+who+"/missing", "%s: no error where the reference has %q\n%s", who, ref.Cond, src)
	}
	if got.cond != ref.Cond {
		return vcommon.Failf("handling/"+who+"/condition", "%s: condition %q, the reference has %q (%s) (debugger=%v)\nreal:\n%s%s", who, got.cond, ref.Cond, ref.Msg, dbg, got, src)
	}
	want, ok := pos[ref.Node]
	if !ok {
		return vcommon.Failf("harness/no-node", "reference reports failing node %d without a position\n%s", ref.Node, src)
	}
	if !got.hasLoc {
		return vcommon.Failf("handling/"+who+"/location-missing", "%s: the error carries no location (debugger=%v)\n%s%s", who, dbg, got, src)
	}
	if got.loc != want {
		return vcommon.Failf("handling/"+who+"/location", "%s: error %q located at %d:%d (offset %d); it was raised by the form at %d:%d (offset %d) (debugger=%v)\n%s",
			who, got.cond, got.loc.Line, got.loc.Col, got.loc.Pos, want.Line, want.Col, want.Pos, dbg, src)
	}
	wantChain := refChain(ref, pos)
	if dbg {
		if len(got.frames) != len(wantChain) {
			return vcommon.Failf("handling/"+who+"/trace-length", "%s: the trace (elimination off) has %d frames, %d calls were active when the error was raised\nreal:\n%sreference:\n%s%s", who, len(got.frames), len(wantChain), fmtFrames(got.frames), fmtFrames(wantChain), src)
		}
		for i := range got.frames {
			if !sameFrame(got.frames[i], wantChain[i]) {
				return vcommon.Failf("handling/"+who+"/trace-frame", "%s: frame %d (innermost first) differs from the call active when the error was raised\nreal:\n%sreference:\n%s%s", who, i, fmtFrames(got.frames), fmtFrames(wantChain), src)
			}
		}
		return nil
	}
	j := 0
	for _, g := range got.frames {
		for j < len(wantChain) && !sameFrame(g, wantChain[j]) {
			j++
		}
		if j == len(wantChain) {
			return vcommon.Failf("handling/"+who+"/trace-not-subsequence", "%s: the trace (elimination on) is not a sub-sequence of the calls active when the error was raised\nreal:\n%sreference:\n%s%s", who, fmtFrames(got.frames), fmtFrames(wantChain), src)
		}
		j++
	}
	recurs := false
	seen := map[string]bool{}
	for _, w := range wantChain {
		if strings.Contains(w.name, ":") {
			if seen[w.name] {
				recurs = true
			}
			seen[w.name] = true
		}
	}
	if len(got.frames) != len(wantChain) && !recurs {
		return vcommon.Failf("handling/"+who+"/trace-frames-dropped", "%s: frames are missing although no tail-call cycle was active\nreal:\n%sreference:\n%s%s", who, fmtFrames(got.frames), fmtFrames(wantChain), src)
	}
	return nil
}

func checkHandling(h Handling, c *vcommon.Ctx) *vcommon.Failure {
	if len(h.Forms) == 0 {
		return nil
	}
	src, pos := renderLayout(h.Forms, h.Seps)
	in := refint.New()
	p := 0
	forms := make([]*refint.V, len(h.Forms))
	for i, f := range h.Forms {
		forms[i] = refint.FromVal(f, &p)
	}
	_, rerr, abort := in.Run(forms)
	if abort != "" || in.Unsupported != "" {
		c.Class("skip/reference")
		return nil
	}
	// what the reference saw: pending error at each probe, depth of handling
	var sees []refint.CondEv
	maxDepth, rethrows, rethrowDeep, rethrowAfterInner := 0, 0, 0, 0
	innerDone := map[int]bool{}     // handling depth -> an inner handler has finished since this handler was entered
	innerRethrown := map[int]bool{} // ... and a handler nested in this one has rethrown
	rethrowAfterInnerRethrow := 0
	rethrownIDs := map[int]int{}
	raisedWhilePending := false
	for _, ev := range in.CondLog {
		switch ev.What {
		case "see":
			sees = append(sees, ev)
		case "enter":
			if ev.Depth > maxDepth {
				maxDepth = ev.Depth
			}
			innerDone[ev.Depth] = false
			innerRethrown[ev.Depth] = false
			if ev.Err != nil && ev.Err.Pending > 0 {
				raisedWhilePending = true
			}
		case "leave":
			for d := 1; d < ev.Depth; d++ {
				innerDone[d] = true
			}
		case "rethrow":
			rethrows++
			if ev.Depth >= 2 {
				rethrowDeep++
			}
			if innerDone[ev.Depth] {
				rethrowAfterInner++
			}
			if innerRethrown[ev.Depth] {
				rethrowAfterInnerRethrow++
			}
			for d := 1; d < ev.Depth; d++ {
				innerRethrown[d] = true
			}
			if ev.Err != nil {
				rethrownIDs[ev.Err.ID]++
			}
		}
	}
	c.Class(fmt.Sprintf("handling-depth/%d", min(maxDepth, 4)))
	if rethrows > 0 {
		c.Class("rethrow")
	}
	if rethrowDeep > 0 {
		c.Class("rethrow-while-outer-pending")
	}
	if rethrowAfterInner > 0 {
		c.Class("rethrow-after-inner-handling")
	}
	if rethrowAfterInnerRethrow > 0 {
		c.Class("rethrow-after-inner-rethrow")
	}
	for _, k := range rethrownIDs {
		if k >= 2 {
			c.Class("same-error-rethrown-2+")
		}
		if k >= 3 {
			c.Class("same-error-rethrown-3+")
		}
	}
	if raisedWhilePending {
		c.Class("handled-error-raised-while-pending")
	}
	if rerr != nil && rerr.Pending > 0 {
		c.Class("host-error-raised-while-pending")
	}
	if rerr == nil {
		c.Class("returns-normally")
	} else if rethrownIDs[rerr.ID] > 0 {
		c.Class("host-receives-rethrown")
	}
	if len(sees) > 0 {
		c.Class("probes")
	}
	if maxDepth >= 2 && rethrows > 0 {
		c.NonTrivial(src)
		c.Note(src)
	}
	for _, dbg := range []bool{true, false} {
		rt := vcommon.NewRuntime(vcommon.Cfg{NoStdlib: true, MaxSteps: 400000, Debugger: dbg})
		snaps := snapshotAtHostCond(rt)
		out := rt.Load(src)
		if out.Panic {
			return vcommon.Failf("handling/internal-panic", "internal panic: %s\n%s", out.Msg, src)
		}
		if out.IsErr != (rerr != nil) {
			if rerr == nil {
				return vcommon.Failf("handling/host/unexpected-error", "the host receives %s (%s) at %s, the reference returns normally (debugger=%v)\n%s", out.Cond, out.Msg, takeSnap(out.Val), dbg, src)
			}
			return vcommon.Failf("handling/host/no-error", "the reference signals %q, real returns %s (debugger=%v)\n%s", rerr.Cond, out.Canon, dbg, src)
		}
		if rerr != nil {
			if f := cmpErr("host", takeSnap(out.Val), rerr, pos, dbg, src); f != nil {
				return f
			}
		}
		if len(*snaps) != len(sees) {
			return vcommon.Failf("handling/probes", "%d host-cond probes ran, the reference ran %d (debugger=%v)\n%s", len(*snaps), len(sees), dbg, src)
		}
		for i, ev := range sees {
			who := "handler"
			got := (*snaps)[i]
			if (ev.Err == nil) != got.isNil {
				return vcommon.Failf("handling/handler/pending", "probe #%d: a condition is pending=%v, the reference says %v (debugger=%v)\nreal: %s%s", i+1, !got.isNil, ev.Err != nil, dbg, got, src)
			}
			if ev.Err == nil {
				continue
			}
			if f := cmpErr(who, got, ev.Err, pos, dbg, src); f != nil {
				f.Msg = fmt.Sprintf("probe #%d (in order of execution): ", i+1) + f.Msg
				return f
			}
			// unchanged in place: what the object says at the end of the run
			if now := takeSnap(rt.HostErrs[i]); !sameSnap(now, got) {
				return vcommon.Failf("handling/handler/changed-afterwards", "probe #%d: the error object read differently when it was being handled and after the run (debugger=%v)\nwhile handled:\n%safter the run:\n%s%s", i+1, dbg, got, now, src)
			}
			// identity: one object per condition
			for j := 0; j < i; j++ {
				if sees[j].Err == nil {
					continue
				}
				if same, want := rt.HostErrs[i] == rt.HostErrs[j], sees[j].Err.ID == ev.Err.ID; same != want {
					return vcommon.Failf("handling/handler/identity", "probes #%d and #%d see the same error object=%v, the reference says %v (debugger=%v)\n%s", j+1, i+1, same, want, dbg, src)
				}
			}
			if rerr != nil {
				if same, want := rt.HostErrs[i] == out.Val, rerr.ID == ev.Err.ID; same != want {
					return vcommon.Failf("handling/host/identity", "probe #%d: the host receives the error object seen there=%v, the reference says %v (debugger=%v)\n%s", i+1, same, want, dbg, src)
				}
			}
		}
	}
	return nil
}

func TestHandlingSmoke(t *testing.T) {
	rapid.Check(t, func(t *rapid.T) {
		h := genHandling().Draw(t, "case")
		ctx := &vcommon.Ctx{}
		if f := checkHandling(h, ctx); f != nil {
			t.Fatalf("%s: %s", f.Key, f.Msg)
		}
	})
}
