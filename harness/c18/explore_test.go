package c18

import (
	"encoding/json"
	"fmt"
	"os"
	"path/filepath"
	"strings"
	"testing"

	"github.com/luthersystems/elps/verifharness/gen"
	"github.com/luthersystems/elps/verifharness/vcommon"
)

func TestExplore(t *testing.T) {
	if os.Getenv("C18_EXPLORE") == "" {
		t.Skip()
	}
	for _, k := range failKinds {
		for _, w := range append([]string{""}, wrapKinds...) {
			body := failFormIn(k, "f0")
			cs := Case{Kind: k, Depth: 1}
			if w != "" {
				body = wrap(w, body)
				cs.Wraps = []string{w}
			}
			forms := []gen.Val{}
			forms = append(forms, prelude()...)
			if os.Getenv("C18_EXPLORE") == "top" {
				if strings.HasPrefix(k, "tail-self") {
					continue
				}
				cs.Top, cs.Depth = true, 0
				forms = append(forms, L(S("set"), QS("x"), I(7)), body)
			} else {
				forms = append(forms, L(S("defun"), S("f0"), L(S("x")), L(S("list"), S("x")), body), L(S("list"), L(S("f0"), I(7))))
			}
			cs.Forms = forms
			cs.Seps = []string{" "}
			ctx := &vcommon.Ctx{Replay: true}
			if f := check(cs, ctx); f != nil {
				fmt.Printf("%s/%s: %s: %s\n", k, w, f.Key, strings.SplitN(f.Msg, "\n", 2)[0])
			} else if len(ctx.Classes()) > 0 && ctx.Classes()[0] == "skip/reference" && w == "" {
				fmt.Printf("SKIPPED %s\n", k)
			}
		}
	}
}

// TestWritePending (C18_PENDING=dir) writes one minimal replay per class that
// the unchanged tree violates and that is excluded from the search (pendingKinds /
// pendingWraps).  `python3 check.py --replay <file>` evaluates it.
func TestWritePending(t *testing.T) {
	dir := os.Getenv("C18_PENDING")
	if dir == "" {
		t.Skip()
	}
	mk := func(kind, w string, top bool) Case {
		body := failFormIn(kind, "f0")
		cs := Case{Kind: kind, Depth: 1, Seps: []string{" "}}
		if w != "" {
			body = wrap(w, body)
			cs.Wraps = []string{w}
		}
		if top {
			cs.Top, cs.Depth = true, 0
			cs.Forms = []gen.Val{L(S("set"), QS("x"), I(7)), body}
		} else {
			cs.Forms = []gen.Val{L(S("defun"), S("f0"), L(S("x")), L(S("list"), S("x")), body), L(S("list"), L(S("f0"), I(7)))}
		}
		return cs
	}
	for name, cs := range map[string]Case{
		"lead-a-let-bad-binding-after-load-at-top-level": mk("let-bad-binding-after-load", "", true),
		"lead-b-eval-positionless-symbol-in-function":    mk("eval-built-symbol", "", false),
		"lead-c-compound-head-not-a-function":            mk("head-compound-nonfn", "", false),
		"lead-d-search-sorted-callback-frame":            mk("type", "search-sorted-callback", false),
	} {
		f := check(cs, &vcommon.Ctx{Replay: true})
		if f == nil {
			t.Errorf("%s: no failure", name)
			continue
		}
		raw, _ := json.MarshalIndent(map[string]any{"property": "C18", "sub": "failing-programs", "key": f.Key, "msg": f.Msg, "case": cs}, "", " ")
		if err := os.WriteFile(filepath.Join(dir, name+".json"), append(raw, '\n'), 0o644); err != nil {
			t.Fatal(err)
		}
		fmt.Printf("%s: %s\n%s\n", name, f.Key, f.Msg)
	}
}
