package c18

import (
	"fmt"
	"os"
	"strings"
	"testing"

	"github.com/luthersystems/elps/verifharness/gen"
	"github.com/luthersystems/elps/verifharness/vcommon"
)

func TestExplore(t *testing.T) {
	if os.Getenv("C18_EXPLORE") == "" {
		t.Skip()
	}
	for _, k := range failKinds {
		for _, w := range append([]string{""}, wrapKinds...) {
			body := failFormIn(k, "f0")
			cs := Case{Kind: k, Depth: 1}
			if w != "" {
				body = wrap(w, body)
				cs.Wraps = []string{w}
			}
			forms := []gen.Val{}
			forms = append(forms, prelude()...)
			forms = append(forms, L(S("defun"), S("f0"), L(S("x")), L(S("list"), S("x")), body), L(S("list"), L(S("f0"), I(7))))
			cs.Forms = forms
			cs.Seps = []string{" "}
			ctx := &vcommon.Ctx{}
			if f := check(cs, ctx); f != nil {
				fmt.Printf("%s/%s: %s: %s\n", k, w, f.Key, strings.SplitN(f.Msg, "\n", 2)[0])
			} else if len(ctx.Classes()) > 0 && ctx.Classes()[0] == "skip/reference" && w == "" {
				fmt.Printf("SKIPPED %s\n", k)
			}
		}
	}
}
