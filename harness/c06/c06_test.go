// C06: condition handling — handler-bind, ignore-errors, rethrow and the
// host-panic carve-out — against the reference condition semantics.
package c06

import (
	"fmt"
	"strings"
	"testing"

	"github.com/luthersystems/elps/lisp"
	"github.com/luthersystems/elps/verifharness/gen"
	"github.com/luthersystems/elps/verifharness/refint"
	"github.com/luthersystems/elps/verifharness/vcommon"
	"pgregory.net/rapid"
)

type cg struct {
	t     *rapid.T
	probe int
	conds int
	depth int
	stats map[string]int
}

// `error` is the condition name of every interpreter-raised error: as a
// specifier it must match those (and a lisp-raised (error 'error ...)) by NAME
// and nothing else -- it is not a second catch-all (anchor audit).
var condNames = []string{"a", "b", "c", "d", "internal-panic", ":kw", "user:a", "a", "b", "error"}
var specNames = []string{"a", "b", "c", "d", "internal-panic", "condition", "condition", ":kw", "user:a", "lisp:a", "error"}

func (g *cg) n(lo, hi int, l string) int { return rapid.IntRange(lo, hi).Draw(g.t, l) }
func (g *cg) pick(l string, opts ...string) string {
	return rapid.SampledFrom(opts).Draw(g.t, l)
}

func (g *cg) probeOf(v gen.Val) gen.Val {
	g.probe++
	return gen.Call("probe", gen.I(int64(g.probe)), v)
}

func (g *cg) datum() gen.Val {
	switch g.n(0, 7, "datum") {
	case 0:
		// data is passed on verbatim: never treated as a format or template
		return gen.Str(g.pick("s", "x", "msg", "", "disk 100% full", "%s %d %v", "{} and {0}", "a\nb", "%!"))
	case 1:
		return gen.QS(g.pick("qs", "p", "q"))
	case 2:
		return gen.QL(gen.I(1), gen.S("z"), gen.L(gen.I(2)))
	case 3:
		// a datum that is a bare (unquoted) symbol or list VALUE: data, never code
		return gen.Call("car", gen.QL(gen.S("unbound-sym")))
	case 4:
		return gen.Call("car", gen.QL(gen.L(gen.S("+"), gen.I(1), gen.I(2))))
	case 5:
		return gen.L() // ()
	default:
		return gen.I(int64(g.n(-2, 9, "int")))
	}
}

const nestedPanicSrc = "(list 1) (host-panic \"nested\")"

func (g *cg) raise() gen.Val {
	switch g.n(0, 9, "raise") {
	case 0:
		g.stats["host-panic"]++
		return gen.Call("host-panic", gen.Str("boom"))
	case 1:
		g.stats["rethrow"]++
		return gen.Call("rethrow")
	case 2:
		return gen.S("undefined-variable")
	case 3:
		return gen.Call("car", gen.I(1))
	case 5:
		// a host panic that crosses a nested load keeps being a panic
		g.stats["host-panic"]++
		g.stats["host-panic-through-load"]++
		return gen.Call("load-string", gen.Str(nestedPanicSrc))
	case 4:
		// the condition argument is not a symbol: an ordinary error about that
		g.stats["non-symbol-condition"]++
		return gen.Call("error", gen.Str("just text"), g.datum())
	default:
		name := g.pick("cond", condNames...)
		if name == "internal-panic" {
			g.stats["forged-internal-panic"]++
		}
		args := []gen.Val{gen.QS(name)}
		for i, n := 0, g.n(0, 3, "ndata"); i < n; i++ {
			args = append(args, g.datum())
		}
		return gen.Call("error", args...)
	}
}

// handlerBody builds the body of a handler (lambda (c &rest d) ...).
func (g *cg) handlerBody(depth int) []gen.Val {
	var body []gen.Val
	if g.n(0, 2, "see") == 0 {
		g.probe++
		body = append(body, gen.Call("host-cond", gen.I(int64(g.probe))))
	}
	kind := g.n(0, 8, "hbody")
	if kind == 8 && depth <= 0 {
		kind = 6
	}
	switch kind {
	case 8:
		// The condition being handled is re-raised INSIDE a nested handling
		// form that deals with it a second time (the same error object is
		// pending twice), and when that form is done the outer handler uses
		// its pending condition again: it must still be there, and still be
		// the same object (anchor audit: a condition stack that drops or
		// merges entries is invisible to single-form handler bodies).
		g.stats["rethrow"]++
		g.stats["rethrow-in-handler"]++
		g.stats["rehandle-then-use"]++
		g.conds++
		var inner gen.Val
		if g.n(0, 3, "rehandle") == 0 {
			g.stats["ignore-errors"]++
			inner = gen.L(gen.S("ignore-errors"), gen.Call("rethrow"))
		} else {
			g.stats["handler-bind"]++
			spec := "condition"
			if g.n(0, 1, "respec-any") == 0 {
				spec = g.pick("respec", specNames...)
			}
			inner = gen.L(gen.S("handler-bind"), gen.L(gen.L(gen.S(spec), g.handler(depth-1))), gen.Call("rethrow"))
		}
		body = append(body, g.probeOf(inner))
		g.probe++
		body = append(body, gen.Call("host-cond", gen.I(int64(g.probe))))
		if g.n(0, 1, "reuse") == 0 {
			body = append(body, gen.Call("rethrow"))
		} else {
			body = append(body, g.probeOf(gen.S("c")))
		}
	case 0:
		body = append(body, g.probeOf(gen.Call("list", gen.S("c"), gen.S("d"))))
	case 1:
		g.stats["rethrow"]++
		g.stats["rethrow-in-handler"]++
		body = append(body, g.probeOf(gen.S("c")), gen.Call("rethrow"))
	case 2:
		body = append(body, gen.Call("error", gen.QS(g.pick("recond", condNames...)), gen.S("c")))
	case 3:
		body = append(body, g.expr(depth-1))
	case 4:
		g.stats["host-panic"]++
		body = append(body, gen.Call("host-panic", gen.Str("in handler")))
	case 5:
		body = append(body, gen.Call("apply", gen.S("list"), gen.S("c"), gen.S("d")))
	default:
		body = append(body, g.probeOf(gen.S("d")))
	}
	return body
}

func (g *cg) handler(depth int) gen.Val {
	switch g.n(0, 11, "handler") {
	case 0:
		// handler EXPRESSION that fails when evaluated
		return g.raise()
	case 1:
		return gen.I(5) // not a function
	case 2:
		// wrong arity for the data it will receive
		return gen.L(append([]gen.Val{gen.S("lambda"), gen.L(gen.S("c"))}, g.probeOf(gen.S("c")))...)
	case 3:
		return gen.S("list") // a builtin as handler
	case 4:
		// a host (Go) builtin directly in handler position that panics
		g.stats["host-panic"]++
		g.stats["go-handler-panics"]++
		return gen.S("host-panic-handler")
	default:
		return gen.L(append([]gen.Val{gen.S("lambda"), gen.L(gen.S("c"), gen.S("&rest"), gen.S("d"))}, g.handlerBody(depth)...)...)
	}
}

func (g *cg) expr(depth int) gen.Val {
	if depth <= 0 {
		if g.n(0, 2, "leaf") == 0 {
			return g.raise()
		}
		return g.probeOf(gen.I(int64(g.n(0, 9, "v"))))
	}
	switch g.n(0, 9, "form") {
	case 0, 1, 2:
		g.conds++
		g.stats["handler-bind"]++
		nb := g.n(1, 3, "nbind")
		var binds []gen.Val
		for i := 0; i < nb; i++ {
			binds = append(binds, gen.L(gen.S(g.pick("spec", specNames...)), g.handler(depth)))
		}
		forms := []gen.Val{gen.S("handler-bind"), gen.L(binds...)}
		// at least one body form: the value of a handler-bind with an empty
		// body is not stated by the property or the documentation
		for i, n := 0, g.n(1, 3, "nbody"); i < n; i++ {
			forms = append(forms, g.expr(depth-1))
		}
		return gen.L(forms...)
	case 3, 4:
		g.conds++
		g.stats["ignore-errors"]++
		forms := []gen.Val{gen.S("ignore-errors")}
		for i, n := 0, g.n(0, 3, "nbody"); i < n; i++ {
			forms = append(forms, g.expr(depth-1))
		}
		return gen.L(forms...)
	case 5:
		forms := []gen.Val{gen.S("progn")}
		for i, n := 0, g.n(1, 3, "nbody"); i < n; i++ {
			forms = append(forms, g.expr(depth-1))
		}
		return gen.L(forms...)
	case 6:
		return gen.Call("list", g.expr(depth-1), g.expr(depth-1))
	case 7:
		// raise from inside a function call (depth >= 2 on the call stack)
		return gen.L(gen.L(gen.S("lambda"), gen.L(gen.S("x")), g.expr(depth-1), gen.S("x")), g.probeOf(gen.I(1)))
	case 8:
		return g.raise()
	default:
		return g.probeOf(gen.I(int64(g.n(0, 9, "v"))))
	}
}

type Case struct {
	P     gen.Program    `json:"p"`
	Depth int            `json:"depth"`
	Conds int            `json:"conds"`
	Stats map[string]int `json:"stats"`
}

func genCase() *rapid.Generator[Case] {
	return rapid.Custom(func(t *rapid.T) Case {
		g := &cg{t: t, stats: map[string]int{}}
		d := rapid.IntRange(1, 5).Draw(t, "depth")
		n := rapid.IntRange(1, 2).Draw(t, "nforms")
		var forms []gen.Val
		for i := 0; i < n; i++ {
			forms = append(forms, g.expr(d))
		}
		return Case{P: gen.Program{Forms: forms}, Depth: d, Conds: g.conds, Stats: g.stats}
	})
}

func refTrace(in *refint.Interp) string {
	var b strings.Builder
	for _, e := range in.Trace {
		b.WriteString(e.Tag)
		b.WriteByte('|')
		b.WriteString(e.Payload)
		b.WriteByte('\n')
	}
	return b.String()
}

func check(cs Case, c *vcommon.Ctx) *vcommon.Failure {
	src := cs.P.Source()
	in := refint.New()
	pos := 0
	forms := make([]*refint.V, len(cs.P.Forms))
	for i, f := range cs.P.Forms {
		forms[i] = refint.FromVal(f, &pos)
	}
	{
		np := 0
		in.Sources = map[string][]*refint.V{nestedPanicSrc: {
			refint.FromVal(gen.Call("list", gen.I(1)), &np), refint.FromVal(gen.Call("host-panic", gen.Str("nested")), &np)}}
	}
	rv, rerr, abort := in.Run(forms)
	if abort != "" || in.Unsupported != "" {
		c.Class("skip/reference")
		return nil
	}
	marker := fmt.Sprintf("%q", refint.BuiltinMsg)
	marker = marker[1 : len(marker)-1]
	if strings.Contains(refTrace(in), marker) || (rv != nil && strings.Contains(refint.Canon(rv), marker)) {
		// the wording of an interpreter-raised error message became visible to
		// the program: not modelled
		c.Class("skip/builtin-message-exposed")
		return nil
	}
	if rerr != nil && rerr.User {
		for _, d := range rerr.Data {
			if strings.Contains(refint.Canon(d), marker) {
				c.Class("skip/builtin-message-exposed")
				return nil
			}
		}
	}
	rt := vcommon.NewRuntime(vcommon.Cfg{MaxSteps: 200000, MaxPhysical: 2000, NoStdlib: true})
	stacks := snapshotStacksAtHostCond(rt)
	out := rt.Load(src)
	for k, n := range cs.Stats {
		if n > 0 {
			c.Class("has/" + k)
		}
	}
	if cs.Conds >= 2 && cs.Depth >= 2 {
		c.NonTrivial(src)
		c.Note(src)
	}
	if rerr != nil {
		c.Class("outcome/error")
		if rerr.Panic {
			c.Class("outcome/host-panic")
		}
	} else {
		c.Class("outcome/value")
	}
	if got, want := vcommon.TraceString(rt.Trace), refTrace(in); got != want {
		return vcommon.Failf("trace", "effect traces differ\nprogram:\n%s\nreal:\n%s\nreference:\n%s\nreal outcome %s / reference %s", src, got, want, describe(out), refDescribe(rv, rerr))
	}
	if rerr == nil {
		if out.IsErr {
			return vcommon.Failf("error-for-value", "interpreter signals %q (%s), the reference returns %s\n%s", out.Cond, out.Msg, refint.Canon(rv), src)
		}
		if want := refint.Canon(rv); out.Canon != want {
			return vcommon.Failf("value", "values differ: real %s reference %s\n%s", out.Canon, want, src)
		}
		return nil
	}
	if !out.IsErr {
		return vcommon.Failf("value-for-error", "reference signals %q, the interpreter returns %s\n%s", rerr.Cond, out.Canon, src)
	}
	if out.Cond != rerr.Cond {
		return vcommon.Failf("condition", "condition differs: real %q (%s) reference %q\n%s", out.Cond, out.Msg, rerr.Cond, src)
	}
	// the panic marker is the Go stack snapshot, not the name
	if out.Panic != rerr.Panic {
		return vcommon.Failf("panic-marker", "IsInternalPanic=%v but the reference says recovered-host-panic=%v (condition %q)\n%s", out.Panic, rerr.Panic, out.Cond, src)
	}
	// error data the host receives
	if rerr.User {
		var want []string
		for _, d := range rerr.Data {
			want = append(want, refint.Canon(d))
		}
		var got []string
		for _, d := range out.Val.Cells {
			got = append(got, vcommon.Canon(d))
		}
		if strings.Join(got, " ") != strings.Join(want, " ") {
			return vcommon.Failf("error-data", "error data differs: real (%s) reference (%s)\n%s", strings.Join(got, " "), strings.Join(want, " "), src)
		}
	}
	// identity: the host receives the very error object a handler saw iff the
	// reference says it is the same condition (rethrow), never otherwise
	if len(in.CondIDs) == len(rt.HostErrs) {
		// a condition is pending for rethrow exactly when the reference has
		// one, and two observations see one error object exactly when the
		// reference says they are the same condition
		for i, id := range in.CondIDs {
			if pending := rt.HostErrs[i] != nil; pending != (id != 0) {
				return vcommon.Failf("pending-condition", "host-cond #%d: a condition is pending for rethrow=%v, reference says %v\n%s", i, pending, id != 0, src)
			}
			for j := 0; j < i; j++ {
				if id == 0 || in.CondIDs[j] == 0 {
					continue
				}
				if same, want := rt.HostErrs[i] == rt.HostErrs[j], id == in.CondIDs[j]; same != want {
					return vcommon.Failf("pending-identity", "host-cond #%d and #%d see the same error object=%v, reference says %v\n%s", j, i, same, want, src)
				}
			}
		}
		for i, id := range in.CondIDs {
			same := rt.HostErrs[i] != nil && rt.HostErrs[i] == out.Val
			wantSame := id != 0 && id == rerr.ID
			if same != wantSame {
				return vcommon.Failf("rethrow-identity", "host-cond #%d: final error is the handled error object=%v, reference says %v\n%s", i, same, wantSame, src)
			}
			if wantSame {
				c.Class("identity-checked")
				if out.Val.CallStack() == nil {
					return vcommon.Failf("rethrow-stack", "rethrown error lost its stack trace\n%s", src)
				}
				// "with the same ... stack trace": the trace the host reads
				// from the re-raised error is the one the error carried
				// while it was being handled
				if i < len(*stacks) {
					if got, want := stackText(out.Val), (*stacks)[i]; got != want {
						return vcommon.Failf("rethrow-stack-changed", "rethrown error's stack trace changed between the handler and the host\nwhile handled:\n%sat the host:\n%s%s", want, got, src)
					}
					c.Class("rethrow-stack-compared")
				}
			}
		}
	}
	return nil
}

// stackText renders everything the host can read from an error's recorded
// stack trace: every frame (location, function, flags, logical height) and the
// Go stack dump of a recovered panic.
func stackText(e *lisp.LVal) string {
	if e == nil || e.Type != lisp.LError {
		return "<no error>\n"
	}
	cs := e.CallStack()
	if cs == nil {
		return "<no stack>\n"
	}
	var b strings.Builder
	for i := range cs.Frames {
		f := &cs.Frames[i]
		fmt.Fprintf(&b, "  %s height=%d iter=%d\n", f.String(), f.HeightLogical, f.TailIterations)
	}
	fmt.Fprintf(&b, "  gostack=%d bytes %x\n", len(cs.GoStack), hashBytes(cs.GoStack))
	return b.String()
}

func hashBytes(p []byte) uint64 {
	h := uint64(1469598103934665603)
	for _, c := range p {
		h = (h ^ uint64(c)) * 1099511628211
	}
	return h
}

// snapshotStacksAtHostCond rebinds (host-cond tag) -- same observable
// behaviour as vcommon's: remember the error object pending for rethrow, log the
// tag -- to a version that also renders the pending error's stack trace AT THAT
// MOMENT, so that the trace of the error the host finally receives can be
// compared with the one it had while it was being handled.  (Pointer identity
// alone cannot see an in-place change of the trace.)
func snapshotStacksAtHostCond(rt *vcommon.Rt) *[]string {
	stacks := &[]string{}
	pkg := rt.Env.Runtime.Registry.Package(lisp.DefaultUserPackage)
	orig := pkg.Get(lisp.Symbol("host-cond"))
	if orig.Type != lisp.LFun {
		panic("host-cond is not registered")
	}
	pkg.Put(lisp.Symbol("host-cond"), lisp.FunInPackage(lisp.DefaultUserPackage, orig.FID(), lisp.Formals("tag"),
		func(env *lisp.LEnv, args *lisp.LVal) *lisp.LVal {
			cur := env.Runtime.CurrentCondition()
			rt.HostErrs = append(rt.HostErrs, cur)
			*stacks = append(*stacks, stackText(cur))
			rt.Trace = append(rt.Trace, vcommon.Event{Tag: "host-cond", Payload: vcommon.Canon(args.Cells[0])})
			return lisp.Nil()
		}))
	return stacks
}

func describe(o vcommon.Outcome) string {
	if o.IsErr {
		return fmt.Sprintf("ERR<%s> %s panic=%v", o.Cond, o.Msg, o.Panic)
	}
	return o.Canon
}

func refDescribe(v *refint.V, e *refint.Err) string {
	if e != nil {
		return fmt.Sprintf("ERR<%s> panic=%v", e.Cond, e.Panic)
	}
	return refint.Canon(v)
}

var _ = lisp.Nil

func TestCheck(t *testing.T) {
	vcommon.Main(t, "C06",
		vcommon.S("conditions", 150000, 3500000, genCase(), check),
	)
}
