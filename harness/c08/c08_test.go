// C08: packages isolate and resolve names as documented.
package c08

import (
	"fmt"
	"sort"
	"strings"
	"testing"

	"github.com/luthersystems/elps/lisp"
	"github.com/luthersystems/elps/verifharness/gen"
	"github.com/luthersystems/elps/verifharness/refint"
	"github.com/luthersystems/elps/verifharness/vcommon"
	"pgregory.net/rapid"
)

var pkgNames = []string{"user", "pa", "pb", "pc", "user", "pa", "pb", "pc", "pd", "pe"}
var symNames = []string{"a", "b", "f", "g", "h", "m"}

type pg struct {
	t      *rapid.T
	probe  int
	val    int64
	stats  map[string]int
	nested [][]gen.Val
	seenUse bool
	// round 6
	pkgs     []string // package names to draw from (pkgNames + host packages of the case)
	hostPkgs []string
	curGuess string // the package the generator believes is current (steers spelling only)
}

func (g *pg) n(lo, hi int, l string) int { return rapid.IntRange(lo, hi).Draw(g.t, l) }
func (g *pg) pick(l string, o ...string) string {
	return rapid.SampledFrom(o).Draw(g.t, l)
}
func (g *pg) sym() string { return g.pick("sym", symNames...) }
func (g *pg) pkg() string {
	p := g.pick("pkg", g.pkgs...)
	if p == "lisp" {
		// the program works inside the language package itself: it may change
		// what later packages start with
		g.stats["touches-language-package"]++
	}
	return p
}

// ref: an expression that references a name, unqualified or qualified.
func (g *pg) ref() gen.Val {
	name := g.sym()
	if g.n(0, 7, "wide-ref") == 0 {
		// a name the language package holds (special operator, builtin macro,
		// builtin function): unqualified, pkg:name, in head and value position
		name, _ = g.wideName()
		g.stats["wide-ref"]++
	}
	switch g.n(0, 5, "refkind") {
	case 0, 1:
		g.stats["qualified-ref"]++
		return gen.S(g.pkg() + ":" + name)
	case 2:
		// call it
		if g.n(0, 1, "qcall") == 0 {
			return gen.L(gen.S(name), gen.I(int64(g.n(0, 3, "arg"))))
		}
		g.stats["qualified-ref"]++
		return gen.L(gen.S(g.pkg()+":"+name), gen.I(int64(g.n(0, 3, "arg"))))
	case 3:
		return gen.S(":" + name) // keyword
	default:
		return gen.S(name)
	}
}

func (g *pg) newVal() gen.Val {
	g.val++
	return gen.I(100 + g.val)
}

func (g *pg) body() gen.Val {
	// a function body referencing its parameter, unqualified helpers of the
	// defining package, and qualified names
	items := []gen.Val{gen.S("list"), gen.S("x")}
	for i, n := 0, g.n(0, 2, "nrefs"); i < n; i++ {
		items = append(items, g.ref())
	}
	return gen.L(items...)
}

// bodyForms: a body of one to three forms: a form that fails BEFORE the last
// one leaves the function by another path than the last form does.
func (g *pg) bodyForms() []gen.Val {
	var out []gen.Val
	for i, n := 0, g.n(0, 3, "nlead"); i < n-1; i++ {
		g.stats["body-several-forms"]++
		out = append(out, g.ref())
	}
	return append(out, g.body())
}

func (g *pg) stmt(depth int) gen.Val {
	switch g.n(0, 34, "stmt") {
	case 0, 1:
		g.stats["in-package"]++
		p := g.pkg()
		op := g.op("in-package")
		g.curGuess = p
		return gen.Call(op, gen.QS(p))
	case 2, 3:
		g.stats["export"]++
		if g.seenUse {
			g.stats["export-after-use"]++
		}
		switch g.n(0, 5, "exportform") {
		case 3:
			// a list argument followed by further arguments
			return gen.Call(g.op("export"), gen.QL(gen.S(g.sym()), gen.S(g.sym())), gen.QS(g.sym()))
		case 4:
			return gen.Call(g.op("export"), gen.QS(g.sym()), gen.QL(gen.S(g.sym())), gen.Str(g.sym()), gen.QS(g.sym()))
		case 5:
			return gen.Call(g.op("export"), gen.QL(gen.S(g.sym()), gen.QL(gen.S(g.sym()))), gen.Str(g.sym()))
		case 0:
			return gen.Call(g.op("export"), gen.QS(g.sym()))
		case 1:
			return gen.Call(g.op("export"), gen.QS(g.sym()), gen.Str(g.sym()))
		default:
			return gen.Call(g.op("export"), gen.QL(gen.S(g.sym()), gen.S(g.sym())))
		}
	case 4, 5, 6:
		g.stats["set"]++
		if g.seenUse {
			g.stats["redefinition-after-use"]++
		}
		name := g.sym()
		if g.n(0, 5, "qualified-set") == 0 {
			g.stats["qualified-set"]++
			name = g.pkg() + ":" + name
		}
		return gen.Call(g.op("set"), gen.QS(name), g.newVal())
	case 7, 8:
		g.stats["defun"]++
		if g.seenUse {
			g.stats["redefinition-after-use"]++
		}
		name := g.sym()
		if g.n(0, 5, "qualified-defun") == 0 {
			// (defun pkg:name ...) written in another package: the name is bound
			// in pkg, the body runs with the package of the DEFINITION current
			g.stats["qualified-defun"]++
			name = g.pkg() + ":" + name
		}
		if g.n(0, 3, "looping") == 0 {
			// a function that loops by a self tail call (0-3 turns, by its
			// argument): its body runs in the defining package on every turn and
			// the caller's package is current again after the call
			g.stats["defun-tail-loop"]++
			loop := gen.L(gen.S("lisp:if"), gen.L(gen.S("lisp:<"), gen.S("x"), gen.I(1)), g.body(),
				gen.L(gen.S(name), gen.L(gen.S("lisp:-"), gen.S("x"), gen.I(1))))
			var lead []gen.Val
			if g.n(0, 2, "loop-lead") == 0 {
				lead = append(lead, g.ref())
			}
			return gen.L(append(append([]gen.Val{gen.S(g.op("defun")), gen.S(name), gen.L(gen.S("x"))}, lead...), loop)...)
		}
		return gen.L(append([]gen.Val{gen.S(g.op("defun")), gen.S(name), gen.L(gen.S("x"))}, g.bodyForms()...)...)
	case 9:
		g.stats["defmacro"]++
		// the expansion mentions an UNQUALIFIED name: it resolves where the
		// expansion is evaluated
		if g.n(0, 1, "expansion-time") == 0 {
			return gen.L(gen.S("defmacro"), gen.S(g.sym()), gen.L(gen.S("x")),
				gen.L(gen.S("quasiquote"), gen.L(gen.S("list"), gen.L(gen.S("unquote"), gen.S("x")), gen.S(g.sym()))))
		}
		// the macro BODY works at expansion time: it reads an unqualified name,
		// calls a helper or binds a global -- all in the macro's defining
		// package, whichever package the call is expanded from
		g.stats["defmacro-expansion-time-work"]++
		var work gen.Val
		switch g.n(0, 2, "work") {
		case 0:
			work = gen.S(g.sym())
		case 1:
			work = gen.L(gen.S(g.sym()), gen.I(int64(g.n(0, 3, "arg"))))
		default:
			work = gen.Call("set", gen.QS(g.sym()), g.newVal())
		}
		return gen.L(gen.S("defmacro"), gen.S(g.sym()), gen.L(gen.S("x")),
			gen.L(gen.S("quasiquote"), gen.L(gen.S("list"), gen.L(gen.S("unquote"), gen.S("x")), gen.L(gen.S("quote"), gen.L(gen.S("unquote"), work)), gen.S(g.sym()))))
	case 10, 11:
		g.stats["use-package"]++
		g.seenUse = true
		used := g.pkg()
		if g.n(0, 5, "use-lang") == 0 {
			// the language package used AGAIN: an old package picks up what the
			// language package exports by now
			used = "lisp"
			g.stats["use-package-lisp"]++
		}
		if g.n(0, 3, "several") == 0 {
			// several packages in one call, symbol and string names mixed
			g.stats["use-package-several"]++
			args := []gen.Val{gen.QS(used)}
			for i, n := 0, g.n(1, 2, "nmore"); i < n; i++ {
				if g.n(0, 2, "str") == 0 {
					args = append(args, gen.Str(g.pkg()))
				} else {
					args = append(args, gen.QS(g.pkg()))
				}
			}
			return gen.Call(g.op("use-package"), args...)
		}
		if g.n(0, 3, "str") == 0 {
			return gen.Call(g.op("use-package"), gen.Str(used))
		}
		return gen.Call(g.op("use-package"), gen.QS(used))
	case 12, 13, 14, 15:
		return g.ref()
	case 16:
		// constants and keywords cannot be bound
		g.stats["bind-constant-or-keyword"]++
		target := g.pick("const", "true", "false", ":kw", ":a")
		if target[0] != ':' && g.n(0, 2, "qualified-constant") == 0 {
			// pkg:true is the constant too: (set 'pa:true 1) is refused, pa:true
			// is true
			g.stats["bind-qualified-constant"]++
			target = g.pkgOrLang() + ":" + target
			if g.n(0, 2, "read") == 0 {
				return gen.Call("lisp:list", gen.S(target))
			}
			return gen.L(gen.S("lisp:progn"), gen.Call(g.op("set"), gen.QS(target), gen.I(1)), gen.Call("lisp:list", gen.S(target)))
		}
		switch g.n(0, 7, "bindform") {
		case 0:
			return gen.L(gen.S("let"), gen.L(gen.L(gen.S(target), gen.I(1))), gen.S(target))
		case 1:
			return gen.L(gen.S("let*"), gen.L(gen.L(gen.S(target), gen.I(1))), gen.S(target))
		case 2:
			return gen.Call("set", gen.QS(target), gen.I(1))
		case 3:
			return gen.L(gen.S("progn"), gen.L(gen.S("set!"), gen.S(target), gen.I(1)), gen.S(target))
		case 4:
			return gen.L(gen.L(gen.S("lambda"), gen.L(gen.S(target)), gen.S(target)), gen.I(1))
		case 5:
			return gen.L(gen.S("dotimes"), gen.L(gen.S(target), gen.I(2)), gen.S(target))
		case 6:
			return gen.L(gen.S("labels"), gen.L(gen.L(gen.S(target), gen.L(), gen.I(1))), gen.S(target))
		default:
			return gen.L(gen.S("progn"), gen.L(gen.S("defun"), gen.S(target), gen.L(), gen.I(1)), gen.S(target))
		}
	case 17:
		if depth > 0 {
			g.stats["nested-load"]++
			var forms []gen.Val
			raw := g.n(0, 1, "raw-nested") == 0
			if raw {
				// unwrapped forms: a failing form aborts the WHOLE nested load
				// (after an in-package inside it) and the loader, which
				// contains the error, carries on
				g.stats["nested-load-raw"]++
				forms = append(forms, gen.Call("in-package", gen.QS(g.pkg())))
			}
			for i, n := 0, g.n(1, 4, "nnested"); i < n; i++ {
				st := g.stmt(depth - 1)
				if !raw {
					st = g.wrap(st)
				}
				forms = append(forms, st)
			}
			if raw && g.n(0, 1, "force-fail") == 0 {
				forms = append(forms, gen.S("surely-unbound-name"))
			}
			g.nested = append(g.nested, forms)
			return gen.Call("load-string", gen.Str(gen.RenderProgram(forms)))
		}
		return g.ref()
	case 23:
		// a PRIVATE binding made inside the language package (by a nested load,
		// which restores the current package): packages created afterwards start
		// with the language package's EXPORTS, so they do not see it
		g.stats["private-language-binding"]++
		nf := []gen.Val{gen.Call("in-package", gen.QS("lisp")), gen.Call("set", gen.QS(g.sym()), g.newVal())}
		g.nested = append(g.nested, nf)
		return gen.Call("load-string", gen.Str(gen.RenderProgram(nf)))
	case 22:
		// definitions do not depend on what `set` / `progn` mean HERE: the
		// definer macros are written against the language package
		g.stats["definer-under-rebound-helpers"]++
		name := g.sym()
		def := gen.L(gen.S(g.pick("definer", "defun", "defun", "defmacro")), gen.S(name), gen.L(gen.S("x")), gen.Call("list", gen.S("x"), g.newVal()))
		use := gen.L(gen.S(name), gen.I(1))
		switch g.n(0, 3, "rebind") {
		case 0:
			return gen.L(gen.S("let"), gen.L(gen.L(gen.S("set"), gen.L(gen.S("lambda"), gen.L(gen.S("a"), gen.S("b")), gen.QS("mine"))), gen.L(gen.S("progn"), gen.I(5))), def, use)
		case 1:
			return gen.L(gen.S("flet"), gen.L(gen.L(gen.S("set"), gen.L(gen.S("a"), gen.S("b")), gen.I(0))), def, use)
		case 2:
			return gen.L(gen.S("lisp:progn"), gen.Call("lisp:set", gen.QS("set"), gen.L(gen.S("lisp:lambda"), gen.L(gen.S("a"), gen.S("b")), gen.QS("mine"))), def, use)
		default:
			return gen.L(gen.S("lisp:progn"), gen.Call("lisp:set", gen.QS("progn"), g.newVal()), def, use)
		}
	case 18:
		// a lexical binding shadows the package binding
		name := g.sym()
		return gen.L(gen.S("let"), gen.L(gen.L(gen.S(name), g.newVal())), gen.Call("list", gen.S(name), gen.S(g.pkg()+":"+name)))
	case 19:
		// a closure defined in one package and called later
		return gen.Call(g.op("set"), gen.QS(g.sym()), gen.L(append([]gen.Val{gen.S(g.op("lambda")), gen.L(gen.S("x"))}, g.bodyForms()...)...))
	case 20:
		des := g.sym()
		if g.n(0, 1, "qualified-designator") == 0 {
			// pkg:name as a function designator reaches unexported functions
			g.stats["qualified-designator"]++
			des = g.pkgOrLang() + ":" + des
		}
		switch g.n(0, 3, "designator-use") {
		case 0:
			return gen.Call(g.op("map"), gen.QS("list"), gen.QS(des), gen.QL(gen.I(1), gen.I(2)))
		case 1:
			return gen.Call(g.op("apply"), gen.QS(des), gen.QL(gen.I(1)))
		}
		return gen.Call(g.op("funcall"), gen.QS(des), gen.I(1))
	case 24, 25, 26, 27:
		// a local binding (every binding form) of a name of any kind, used in
		// head and value position
		name, kind := g.wideName()
		return g.shadowForm(name, kind, 2)
	case 28, 29:
		// the language package grows: a definition, exported or private
		return g.langGrow(g.pick("lang-name", langRedefNames...), g.n(0, 3, "lang-export") != 0)
	case 30:
		return g.rebindWide()
	case 31:
		if len(g.hostPkgs) > 0 && depth > 0 {
			return g.hostVisit(depth)
		}
		name, kind := g.wideName()
		return g.shadowForm(name, kind, 1)
	case 33:
		return g.callback()
	case 32:
		// references of every spelling to a name the language package may have
		// gained meanwhile
		g.stats["late-refs"]++
		items := []gen.Val{gen.S("lisp:progn")}
		for _, r := range g.lateRefs(g.sym()) {
			items = append(items, g.wrap(r))
		}
		return gen.L(items...)
	default:
		p := g.pkg()
		g.curGuess = p
		return gen.Call(g.op("in-package"), gen.Str(p))
	}
}

// wrap records the statement's value, or the condition it signals, and lets
// the program continue.
func (g *pg) wrap(s gen.Val) gen.Val {
	g.probe++
	id := gen.I(int64(g.probe))
	h := gen.L(gen.S("lisp:lambda"), gen.L(gen.S("c"), gen.S("&rest"), gen.S("d")), gen.Call("lisp:probe", id, gen.QS("err"), gen.S("c")))
	return gen.L(gen.S("lisp:handler-bind"), gen.L(gen.L(gen.S("condition"), h)), gen.Call("lisp:probe", id, s))
}

type Case struct {
	Forms  []gen.Val      `json:"forms"`
	Nested [][]gen.Val    `json:"nested"`
	Stats  map[string]int `json:"stats"`
	// Host: packages the HOST registers with the Go API before the program runs
	Host []HostPkg `json:"host,omitempty"`
}

func genCase() *rapid.Generator[Case] {
	return rapid.Custom(func(t *rapid.T) Case {
		g := &pg{t: t, stats: map[string]int{}, curGuess: "user"}
		// round 6 added a third to the statement grammar; programs are longer by the
		// same factor so that every older production (and every COMBINATION of older
		// productions) is as frequent per program as before
		n := rapid.IntRange(4, 32).Draw(t, "nstmts")
		var forms []gen.Val
		var host []HostPkg
		g.pkgs = append(g.pkgs, pkgNames...)
		switch rapid.IntRange(0, 4).Draw(t, "host-packages") {
		case 0:
			host = []HostPkg{{Name: hostPkgNoLang}}
		case 1:
			host = []HostPkg{{Name: hostPkgNoLang, ViaEnv: true}, {Name: hostPkgLang, UseLang: true}}
		case 2:
			host = []HostPkg{{Name: hostPkgLang, UseLang: true, ViaEnv: true}}
		}
		for _, h := range host {
			g.stats["host-package"]++
			if !h.UseLang {
				g.stats["host-package-no-lang"]++
			}
			g.pkgs = append(g.pkgs, h.Name)
			g.hostPkgs = append(g.hostPkgs, h.Name)
		}
		if rapid.IntRange(0, 5).Draw(t, "scripted-late") == 0 {
			// a directed opening: P exists (and has a function reading SYM
			// unqualified); THEN the language package binds and exports SYM.
			// P did not copy it: SYM is unbound there, by every spelling, until P
			// uses the language package again; lisp:SYM and a package created
			// afterwards see it.
			g.stats["scripted-late-language-export"]++
			sym := g.sym()
			reader := "h"
			if sym == "h" {
				reader = "g"
			}
			P := g.pkg()
			np := g.pick("newpkg", "pd", "pe", "pr", "pq")
			add := func(v gen.Val) { forms = append(forms, g.wrap(v)) }
			if P == hostPkgNoLang {
				add(gen.Call("lisp:in-package", gen.QS(P)))
				add(gen.L(gen.S("lisp:defun"), gen.S(reader), gen.L(), gen.Call("lisp:list", gen.S(sym))))
			} else {
				add(gen.Call("in-package", gen.QS(P)))
				add(gen.L(gen.S("defun"), gen.S(reader), gen.L(), gen.Call("list", gen.S(sym))))
			}
			g.curGuess = P
			exported := g.n(0, 4, "late-exported") != 0
			g.stats["lang-grow"]++
			g.stats["touches-language-package"]++
			if exported {
				g.stats["lang-grow-exported"]++
			}
			lf := g.langGrowForms(sym, exported)
			if g.n(0, 1, "late-inline") == 0 || P == hostPkgNoLang {
				g.nested = append(g.nested, lf)
				add(gen.Call("lisp:load-string", gen.Str(gen.RenderProgram(lf))))
			} else {
				for _, f := range lf {
					add(f)
				}
				add(gen.Call("in-package", gen.QS(P)))
			}
			for _, r := range g.lateRefs(sym) {
				add(r)
			}
			add(gen.L(gen.S(reader)))
			if g.n(0, 1, "late-new-package") == 0 {
				add(gen.Call("lisp:in-package", gen.QS(np)))
				add(gen.S(sym))
				add(gen.L(gen.S(P + ":" + reader)))
				add(gen.Call("lisp:in-package", gen.QS(P)))
			}
			if g.n(0, 1, "late-reuse") == 0 {
				add(gen.Call("lisp:use-package", gen.QS("lisp")))
				add(gen.S(sym))
				add(gen.L(gen.S(reader)))
			}
		}
		if rapid.IntRange(0, 5).Draw(t, "scripted-private") == 0 {
			// a directed opening: a private binding appears in the language
			// package, THEN a package is created: it must not inherit it
			g.stats["scripted-private-language-binding"]++
			sym := g.sym()
			np := g.pick("newpkg", "pd", "pe", "pa", "pq")
			add := func(v gen.Val) { forms = append(forms, g.wrap(v)) }
			nf := []gen.Val{gen.Call("in-package", gen.QS("lisp")), gen.Call("set", gen.QS(sym), g.newVal())}
			g.nested = append(g.nested, nf)
			add(gen.Call("load-string", gen.Str(gen.RenderProgram(nf))))
			add(gen.Call("in-package", gen.QS(np)))
			add(gen.S(sym))
			add(gen.Call("list", gen.S("lisp:"+sym)))
			add(gen.L(gen.S("defun"), gen.S("probe-it"), gen.L(), gen.S(sym)))
			add(gen.L(gen.S("probe-it")))
		}
		if rapid.IntRange(0, 7).Draw(t, "scripted-macro") == 0 {
			// a directed opening: a macro of P whose BODY works at expansion time
			// with an unexported global of P, expanded from Q (which may bind the
			// same name differently): the body runs with P current
			g.stats["scripted-expansion-time-work"]++
			P, Q := g.pkg(), g.pkg()
			sym, mac := g.sym(), "m"
			if sym == mac {
				mac = "g"
			}
			add := func(v gen.Val) { forms = append(forms, g.wrap(v)) }
			add(gen.Call("lisp:in-package", gen.QS(P)))
			add(gen.Call("lisp:set", gen.QS(sym), g.newVal()))
			var work gen.Val
			switch g.n(0, 2, "work") {
			case 0:
				work = gen.S(sym)
			case 1:
				work = gen.Call("lisp:set", gen.QS(sym), g.newVal())
			default:
				work = gen.Call("lisp:progn", gen.Call("lisp:set!", gen.S(sym), g.newVal()), gen.S(sym))
			}
			add(gen.L(gen.S("lisp:defmacro"), gen.S(mac), gen.L(gen.S("x")),
				gen.L(gen.S("lisp:quasiquote"), gen.L(gen.S("lisp:list"), gen.L(gen.S("unquote"), gen.S("x")), gen.L(gen.S("lisp:quote"), gen.L(gen.S("unquote"), work)), gen.S(sym)))))
			if g.n(0, 1, "export-macro") == 0 {
				add(gen.Call("lisp:export", gen.QS(mac)))
			}
			add(gen.Call("lisp:in-package", gen.QS(Q)))
			if g.n(0, 1, "bind-in-q") == 0 {
				add(gen.Call("lisp:set", gen.QS(sym), g.newVal()))
			}
			if g.n(0, 1, "use") == 0 {
				add(gen.Call("lisp:use-package", gen.QS(P)))
				add(gen.L(gen.S(mac), gen.I(1)))
			}
			add(gen.L(gen.S(P+":"+mac), gen.I(2)))
			add(gen.Call("lisp:list", gen.S(P+":"+sym)))
			g.curGuess = Q
		}
		if rapid.IntRange(0, 3).Draw(t, "scripted") == 0 {
			// a directed opening: Q uses P, P changes, Q uses P again -- the
			// second use-package copies the bindings as they are THEN
			g.stats["scripted-reuse"]++
			P := g.pkg()
			Q := g.pkg()
			sym, sym2 := g.sym(), g.sym()
			add := func(v gen.Val) { forms = append(forms, g.wrap(v)) }
			add(gen.Call("in-package", gen.QS(P)))
			add(gen.Call("export", gen.QS(sym)))
			add(gen.Call("set", gen.QS(sym), g.newVal()))
			add(gen.Call("in-package", gen.QS(Q)))
			add(gen.Call("use-package", gen.QS(P)))
			add(gen.S(sym))
			add(gen.Call("in-package", gen.QS(P)))
			switch g.n(0, 2, "change") {
			case 0:
				add(gen.Call("set", gen.QS(sym), g.newVal()))
			case 1:
				add(gen.L(gen.S("defun"), gen.S(sym), gen.L(gen.S("x")), g.body()))
			default:
				add(gen.Call("set", gen.QS(sym2), g.newVal()))
				add(gen.Call("export", gen.QS(sym2)))
			}
			add(gen.Call("in-package", gen.QS(Q)))
			if g.n(0, 1, "local-rebind") == 0 {
				add(gen.Call("set", gen.QS(sym), g.newVal()))
			}
			add(gen.Call("use-package", gen.QS(P)))
			add(gen.Call("list", gen.S(sym), gen.S(Q+":"+sym), gen.S(P+":"+sym)))
			add(gen.S(sym2))
			g.seenUse = true
		}
		for i := 0; i < n; i++ {
			forms = append(forms, g.wrap(g.stmt(2)))
		}
		return Case{Forms: forms, Nested: g.nested, Stats: g.stats, Host: host}
	})
}

func conv(forms []gen.Val) []*refint.V {
	pos := 0
	out := make([]*refint.V, len(forms))
	for i, f := range forms {
		out[i] = refint.FromVal(f, &pos)
	}
	return out
}

func check(cs Case, c *vcommon.Ctx) *vcommon.Failure {
	src := gen.RenderProgram(cs.Forms)
	in := refint.New()
	in.Sources = map[string][]*refint.V{}
	for _, n := range cs.Nested {
		in.Sources[gen.RenderProgram(n)] = conv(n)
	}
	// load form by form, as separate top-level loads, so the host can observe
	// the current package after every load
	rt := vcommon.NewRuntime(vcommon.Cfg{MaxSteps: 200000, MaxPhysical: 2000, NoStdlib: true, ProbesInLang: true})
	for k, n := range cs.Stats {
		if n > 0 && strings.HasPrefix(k, "excluded/") {
			// a production the generator refused by construction (counted)
			c.Class(k)
		} else if n > 0 {
			c.Class("has/" + k)
		}
	}
	// packages registered by the host through the Go API: nothing is imported
	// unless the host says so
	for _, h := range cs.Host {
		if h.ViaEnv {
			rt.Env.DefinePackage(lisp.Symbol(h.Name))
		} else {
			rt.Env.Runtime.Registry.DefinePackage(h.Name)
		}
		rp := &refint.Package{Name: h.Name, Syms: map[string]*refint.V{}}
		in.Pkgs[h.Name] = rp
		if h.UseLang {
			rt.Env.InPackage(lisp.Symbol(h.Name))
			rc := rt.Env.UsePackage(lisp.Symbol(lisp.DefaultLangPackage))
			rt.Env.InPackage(lisp.Symbol(lisp.DefaultUserPackage))
			if rc.Type == lisp.LError {
				return vcommon.Failf("host/use-package", "UsePackage(lisp) from a host package fails: %v", rc)
			}
			lang := in.Pkgs[refint.LangPkg]
			for _, name := range lang.Exports {
				if v, ok := lang.Syms[name]; ok {
					rp.Syms[name] = v
				}
			}
		}
	}
	npk := 0
	for _, p := range []string{"pa", "pb", "pc"} {
		if strings.Contains(src, "'"+p+")") || strings.Contains(src, "\""+p+"\")") {
			npk++
		}
	}
	if npk >= 1 && cs.Stats["use-package"] >= 1 && cs.Stats["redefinition-after-use"]+cs.Stats["export-after-use"] >= 1 {
		c.NonTrivial(src)
		c.Note(src)
	}
	// Part 1: the whole program as ONE load: in-package statements persist
	// across the forms of a load; afterwards the package is restored.
	out := rt.Load(src)
	rv, rerr, abort := in.Run(conv(cs.Forms))
	if abort != "" || in.Unsupported != "" {
		c.Class("skip/reference")
		return nil
	}
	if out.Panic {
		return vcommon.Failf("internal-panic", "internal panic: %s\n%s", out.Msg, src)
	}
	var rb strings.Builder
	for _, e := range in.Trace {
		rb.WriteString(e.Tag + "|" + e.Payload + "\n")
	}
	if got, want := vcommon.TraceString(rt.Trace), rb.String(); got != want {
		return vcommon.Failf("trace", "name resolution differs from the reference\nprogram:\n%s\nreal:\n%s\nreference:\n%s", src, got, want)
	}
	if rerr != nil {
		if !out.IsErr || out.Cond != rerr.Cond {
			return vcommon.Failf("outcome", "reference signals %q, real gives %s\n%s", rerr.Cond, out.Key(), src)
		}
	} else if out.IsErr || out.Canon != refint.Canon(rv) {
		return vcommon.Failf("outcome", "reference returns %s, real gives %s (%s)\n%s", refint.Canon(rv), out.Key(), out.Msg, src)
	}
	// the load must not leak its in-package to the host
	if got := rt.Env.Runtime.Package.Name; got != "user" {
		return vcommon.Failf("package-leak", "current package after the load is %q, was \"user\" before\n%s", got, src)
	}
	if in.Cur.Name != "user" {
		return vcommon.Failf("harness/reference-package", "reference left package %q", in.Cur.Name)
	}
	// registry contents: same packages, same bound names, same export lists
	reg := rt.Env.Runtime.Registry
	for _, pn := range []string{"user", "pa", "pb", "pc", "pd", "pe", "pq", "pr", hostPkgNoLang, hostPkgLang, "lisp"} {
		rp := in.Pkgs[pn]
		p := reg.Package(pn)
		if (rp == nil) != (p == nil) {
			return vcommon.Failf("registry/package-existence", "package %s exists: real %v reference %v\n%s", pn, p != nil, rp != nil, src)
		}
		if p == nil {
			continue
		}
		for _, sn := range symNames {
			v, ok := p.Symbol(sn)
			rvv, rok := rp.Syms[sn]
			if ok != rok {
				return vcommon.Failf("registry/binding", "%s:%s bound: real %v reference %v\n%s", pn, sn, ok, rok, src)
			}
			if ok && vcommon.Canon(v) != refint.Canon(rvv) {
				return vcommon.Failf("registry/binding-value", "%s:%s = %s, reference %s\n%s", pn, sn, vcommon.Canon(v), refint.Canon(rvv), src)
			}
		}
		// names of the language package (special operators, builtin macros and
		// functions): bound or not, what kind of thing, and whether it is still
		// the language package's own object
		lang, rlang := reg.Package(lisp.DefaultLangPackage), in.Pkgs[refint.LangPkg]
		for _, sn := range wideNames {
			v, ok := p.Symbol(sn)
			rvv, rok := rp.Syms[sn]
			if ok != rok {
				return vcommon.Failf("registry/binding", "%s:%s bound: real %v reference %v\n%s", pn, sn, ok, rok, src)
			}
			if !ok {
				continue
			}
			if got, want := kindOf(v), refKindOf(rvv); got != want {
				return vcommon.Failf("registry/binding-value", "%s:%s is %s, reference %s\n%s", pn, sn, got, want, src)
			}
			lv, lok := lang.Symbol(sn)
			rlv, rlok := rlang.Syms[sn]
			if lok && rlok && v.Type == lisp.LFun && lv.Type == lisp.LFun {
				if got, want := v == lv, rvv == rlv; got != want {
					return vcommon.Failf("registry/binding-identity", "%s:%s is the language package's binding: real %v reference %v\n%s", pn, sn, got, want, src)
				}
			}
		}
		var ex []string
		have := map[string]bool{}
		for _, e := range p.Externals() {
			have[e] = true
		}
		watched := append(append([]string{}, symNames...), wideNames...)
		if pn == "lisp" {
			// the language package exports hundreds of names the reference does
			// not have: only the user names are compared there
			watched = symNames
		}
		for _, sn := range watched {
			if have[sn] {
				ex = append(ex, sn)
			}
		}
		var rex []string
		for _, e := range rp.Exports {
			for _, sn := range watched {
				if e == sn {
					rex = append(rex, e)
				}
			}
		}
		sort.Strings(ex)
		sort.Strings(rex)
		if strings.Join(ex, ",") != strings.Join(rex, ",") {
			return vcommon.Failf("registry/exports", "exports of %s: real %v reference %v\n%s", pn, ex, rex, src)
		}
	}
	// a new package starts with the language package's exports (stated against
	// the pristine language package: programs that export or rebind names IN
	// the language package are judged by the reference interpreter above)
	for _, pn := range []string{"pa", "pb", "pc", "pd", "pe"} {
		if p := reg.Package(pn); p != nil && cs.Stats["touches-language-package"] == 0 && cs.Stats["rebinds-language-name"] == 0 {
			lang := reg.Package(lisp.DefaultLangPackage)
			for _, name := range []string{"car", "let", "defun", "handler-bind", "+"} {
				lv, _ := lang.Symbol(name)
				pv, ok := p.Symbol(name)
				shadowed := false
				for _, sn := range symNames {
					if sn == name {
						shadowed = true
					}
				}
				if !shadowed && (!ok || pv != lv) {
					return vcommon.Failf("new-package/lang-exports", "package %s does not start with the language package's %s\n%s", pn, name, src)
				}
			}
		}
	}
	return nil
}

var _ = fmt.Sprint

func kindOf(v *lisp.LVal) string {
	if v.Type != lisp.LFun {
		return vcommon.Canon(v)
	}
	switch {
	case v.IsSpecialOp():
		return "#fn/special-operator"
	case v.IsMacro():
		return "#fn/macro"
	}
	return "#fn/function"
}

func refKindOf(v *refint.V) string {
	if v.T != refint.TFun {
		return refint.Canon(v)
	}
	switch {
	case v.Fn.Macro:
		return "#fn/macro"
	case v.Fn.Special:
		return "#fn/special-operator"
	}
	return "#fn/function"
}

func TestCheck(t *testing.T) {
	vcommon.Main(t, "C08",
		vcommon.S("packages", 100000, 2500000, genCase(), check),
	)
}
