// C08, round 6: names of EVERY kind a package can hold, shadowed by every
// binding form and used in head and value position; the language package
// growing at run time; packages registered by the host with the Go API.
package c08

import (
	"github.com/luthersystems/elps/verifharness/gen"
)

// Names the language package binds and exports, by kind.  Only names the
// reference interpreter models are listed.
var specialOpNames = []string{"if", "or", "and", "cond", "progn", "let", "let*", "quote", "lambda",
	"assert", "set!", "dotimes", "flet", "labels", "macrolet", "handler-bind", "ignore-errors",
	"thread-first", "thread-last", "function", "expr", "quasiquote"}
var builtinMacroNames = []string{"defun", "defmacro", "get-default", "curry-function"}
var builtinFunNames = []string{"list", "car", "cdr", "+", "-", "identity", "set", "funcall", "apply", "map",
	"in-package", "use-package", "export", "length", "vector", "cons", "first", "load-string"}

// langRedefNames: names (re)defined INSIDE the language package at run time.
// The statement wrapper needs lisp:handler-bind, lisp:lambda and lisp:probe and
// the generated bodies need lisp:list, so those are never redefined there.
var langRedefNames = []string{"a", "b", "f", "g", "h", "m", "a", "b", "f", "g", "h", "m", "car", "identity", "first"}

// wideNames is every non-user name the registry comparison looks at.
var wideNames = func() []string {
	var out []string
	out = append(out, specialOpNames...)
	out = append(out, builtinMacroNames...)
	out = append(out, builtinFunNames...)
	return out
}()

// hostPkgNoLang / hostPkgLang are registered by the HOST before the program
// runs (Registry.DefinePackage / LEnv.DefinePackage), the second one then uses
// the language package through LEnv.UsePackage.
const hostPkgNoLang = "hp"
const hostPkgLang = "hq"

type HostPkg struct {
	Name    string `json:"name"`
	UseLang bool   `json:"use_lang"`
	ViaEnv  bool   `json:"via_env"` // LEnv.DefinePackage instead of Registry.DefinePackage
}

// op names an operator of the language package the way a statement writes it:
// mostly unqualified (resolved in the current package), sometimes lisp:op (the
// only spelling that works in a package that does not use the language package).
func (g *pg) op(name string) string {
	hi := 6
	if g.curGuess == hostPkgNoLang {
		hi = 1
	}
	if g.n(0, hi, "qualify-op") == 0 {
		g.stats["qualified-operator"]++
		return "lisp:" + name
	}
	return name
}

// wideName picks a name and reports its kind.
func (g *pg) wideName() (string, string) {
	switch g.n(0, 9, "namekind") {
	case 0, 1, 2, 3:
		return g.pick("special-op", specialOpNames...), "special-op"
	case 4:
		return g.pick("builtin-macro", builtinMacroNames...), "builtin-macro"
	case 5, 6:
		return g.pick("builtin-fun", builtinFunNames...), "builtin-fun"
	default:
		// a user name: bound (or not) by the program in the current package,
		// possibly copied from a used package
		return g.sym(), "user-name"
	}
}

func (g *pg) tag() gen.Val {
	g.val++
	return gen.I(900 + g.val)
}

// localFn: a function value that is recognisable in the trace and needs no
// unqualified name.
func (g *pg) localFn() gen.Val {
	return gen.L(gen.S("lisp:lambda"), gen.L(gen.S("&rest"), gen.S("r")), gen.Call("lisp:list", g.tag(), gen.S("r")))
}

// use: one use of NAME inside (or outside) the scope of a binding.
func (g *pg) use(name string, depth int) gen.Val {
	k := g.n(0, 15, "use")
	if k == 15 && depth <= 0 {
		k = 0
	}
	switch k {
	case 0, 1:
		g.stats["shadow-use-head"]++
		return gen.L(gen.S(name), gen.I(1), gen.I(2))
	case 2:
		g.stats["shadow-use-head"]++
		return gen.L(gen.S(name), gen.I(1), gen.I(2), gen.I(3))
	case 3:
		g.stats["shadow-use-head"]++
		return gen.L(gen.S(name))
	case 4:
		g.stats["shadow-use-head"]++
		// arguments that are well-formed for most operators: a list and forms
		return gen.L(gen.S(name), gen.L(gen.L(gen.S("lisp:list"), gen.I(1)), gen.I(2)), gen.I(3))
	case 5, 6:
		g.stats["shadow-use-value"]++
		return gen.Call("lisp:list", gen.S(name))
	case 7:
		g.stats["shadow-use-value"]++
		return gen.Call("lisp:funcall", gen.S(name), gen.I(1), gen.I(2))
	case 8:
		// a symbol designator is resolved in the PACKAGE, never lexically
		g.stats["shadow-use-designator"]++
		return gen.Call("lisp:funcall", gen.QS(name), gen.I(1), gen.I(2))
	case 9:
		g.stats["shadow-use-value"]++
		return gen.Call("lisp:map", gen.QS("list"), gen.S(name), gen.QL(gen.I(1), gen.I(2)))
	case 10:
		g.stats["shadow-use-set!"]++
		g.stats["rebinds-language-name"]++ // without a lexical binding set! changes the package's
		return gen.Call("lisp:progn", gen.Call("lisp:set!", gen.S(name), g.newVal()), gen.Call("lisp:list", gen.S(name)))
	case 11:
		g.stats["shadow-use-function-op"]++
		return gen.Call("lisp:function", gen.S(name))
	case 12:
		g.stats["shadow-use-qualified"]++
		return gen.L(gen.S(g.pkgOrLang()+":"+name), gen.I(1), gen.I(2))
	case 13:
		g.stats["shadow-use-qualified"]++
		return gen.Call("lisp:list", gen.S(name), gen.S(g.pkgOrLang()+":"+name))
	case 14:
		g.stats["shadow-use-head"]++
		return gen.Call("lisp:list", gen.L(gen.S(name), gen.I(1), gen.I(2)), gen.L(gen.S(name), gen.I(3), gen.I(4)))
	default:
		// another binding form inside this scope (same or another name)
		if g.n(0, 1, "same-name") == 0 {
			return g.shadowForm(name, "nested", depth-1)
		}
		n2, k2 := g.wideName()
		inner := g.shadowForm(n2, k2, depth-1)
		return gen.Call("lisp:list", inner, g.use(name, 0))
	}
}

func (g *pg) pkgOrLang() string {
	if g.n(0, 2, "lang") == 0 {
		return "lisp"
	}
	return g.pkg()
}

func (g *pg) uses(name string, depth int) []gen.Val {
	n := g.n(1, 2, "nuses")
	out := make([]gen.Val, n)
	for i := range out {
		out[i] = g.use(name, depth)
	}
	return out
}

// shadowForm: a binding form (every one the language has) binding NAME
// locally, with uses of NAME in its scope.  The operators of the form itself
// are written qualified or not: unqualified they are resolved like any other
// head -- lexically first.
func (g *pg) shadowForm(name, kind string, depth int) gen.Val {
	g.stats["shadow"]++
	g.stats["shadow-kind/"+kind]++
	lst := func(xs ...gen.Val) gen.Val { return gen.L(xs...) }
	cat := func(head []gen.Val, tail []gen.Val) gen.Val { return gen.L(append(head, tail...)...) }
	nm := gen.S(name)
	var val gen.Val
	isFn := g.n(0, 3, "value-kind") != 0
	if isFn {
		val = g.localFn()
	} else {
		val = g.newVal()
	}
	form := g.n(0, 15, "binding-form")
	switch form {
	case 0, 1:
		g.stats["shadow-form/let"]++
		return cat([]gen.Val{gen.S(g.op("let")), lst(lst(nm, val))}, g.uses(name, depth))
	case 2:
		g.stats["shadow-form/let*"]++
		return cat([]gen.Val{gen.S(g.op("let*")), lst(lst(nm, val), lst(gen.S("z"), nm))}, append(g.uses(name, depth), gen.Call("lisp:list", gen.S("z"))))
	case 3:
		g.stats["shadow-form/flet"]++
		return cat([]gen.Val{gen.S(g.op("flet")), lst(lst(nm, lst(gen.S("&rest"), gen.S("r")), gen.Call("lisp:list", g.tag(), gen.S("r"))))}, g.uses(name, depth))
	case 4:
		g.stats["shadow-form/labels"]++
		// the function also calls ITSELF by its (shadowing) name
		body := gen.L(gen.S("lisp:if"), gen.Call("lisp:empty?", gen.S("r")), gen.I(0),
			gen.Call("lisp:list", g.tag(), gen.L(nm)))
		return cat([]gen.Val{gen.S(g.op("labels")), lst(lst(nm, lst(gen.S("&rest"), gen.S("r")), body))}, g.uses(name, depth))
	case 5:
		g.stats["shadow-form/macrolet"]++
		// a local MACRO: (NAME 1 2) expands to (lisp:list TAG 2)
		body := gen.Call("lisp:list", gen.QS("lisp:list"), g.tag(), gen.Call("lisp:length", gen.S("r")))
		return cat([]gen.Val{gen.S(g.op("macrolet")), lst(lst(nm, lst(gen.S("&rest"), gen.S("r")), body))}, g.uses(name, depth))
	case 6, 7:
		g.stats["shadow-form/lambda-formal"]++
		fs := lst(nm)
		switch g.n(0, 4, "formal-kind") {
		case 0:
			fs = lst(gen.S("&optional"), nm)
		case 1:
			fs = lst(gen.S("y"), gen.S("&optional"), nm)
			return lst(cat([]gen.Val{gen.S(g.op("lambda")), fs}, g.uses(name, depth)), gen.I(0), val)
		case 2:
			g.stats["shadow-form/rest-formal"]++
			fs = lst(gen.S("&rest"), nm)
		case 3:
			g.stats["shadow-form/key-formal"]++
			fs = lst(gen.S("&key"), nm)
			return lst(cat([]gen.Val{gen.S(g.op("lambda")), fs}, g.uses(name, depth)), gen.S(":"+name), val)
		}
		return lst(cat([]gen.Val{gen.S(g.op("lambda")), fs}, g.uses(name, depth)), val)
	case 8, 9:
		// a package-level function whose FORMAL shadows: called here and by
		// later statements, from whichever package is current then
		g.stats["shadow-form/defun-formal"]++
		fn := g.sym()
		if fn == name {
			fn = "h"
			if name == "h" {
				fn = "g"
			}
		}
		def := cat([]gen.Val{gen.S(g.op("defun")), gen.S(fn), lst(nm)}, g.uses(name, depth))
		switch g.n(0, 2, "call-now") {
		case 0:
			return def
		case 1:
			return gen.Call("lisp:progn", def, gen.L(gen.S(fn), val))
		default:
			return gen.Call("lisp:progn", def, gen.Call("lisp:funcall", gen.QS(fn), val))
		}
	case 10:
		g.stats["shadow-form/defmacro-formal"]++
		fn := g.sym()
		if fn == name {
			fn = "m"
			if name == "m" {
				fn = "g"
			}
		}
		// the macro body works with its formal at expansion time and returns
		// (quote <what it saw>)
		def := gen.L(gen.S(g.op("defmacro")), gen.S(fn), lst(nm), gen.Call("lisp:list", gen.QS("lisp:quote"), gen.L(append([]gen.Val{gen.S("lisp:list")}, g.uses(name, depth)...)...)))
		if g.n(0, 1, "call-now") == 0 {
			return def
		}
		return gen.Call("lisp:progn", def, gen.L(gen.S(fn), gen.I(5)))
	case 11:
		g.stats["shadow-form/dotimes"]++
		g.probe++
		body := gen.Call("lisp:probe", gen.I(int64(g.probe)), gen.L(append([]gen.Val{gen.S("lisp:list")}, g.uses(name, depth)...)...))
		return gen.L(gen.S(g.op("dotimes")), lst(nm, gen.I(2), gen.Call("lisp:list", nm)), body)
	case 12:
		g.stats["shadow-form/handler-formal"]++
		h := cat([]gen.Val{gen.S(g.op("lambda")), lst(nm, gen.S("&rest"), gen.S("d"))}, g.uses(name, depth))
		return gen.L(gen.S(g.op("handler-bind")), lst(lst(gen.S("condition"), h)), gen.Call("lisp:error", gen.QS("boom"), gen.I(1)))
	case 13, 14:
		// a closure that captured the shadowing binding is stored in the
		// package and called later, from whichever package is current then
		g.stats["shadow-form/captured-closure"]++
		fn := g.sym()
		if fn == name {
			fn = "h"
			if name == "h" {
				fn = "g"
			}
		}
		clo := cat([]gen.Val{gen.S(g.op("lambda")), lst(gen.S("x"))}, g.uses(name, depth))
		st := gen.L(gen.S(g.op("set")), gen.QS(fn), gen.L(gen.S(g.op("let")), lst(lst(nm, val)), clo))
		if g.n(0, 1, "call-now") == 0 {
			return st
		}
		return gen.Call("lisp:progn", st, gen.L(gen.S(fn), gen.I(1)))
	default:
		// no binding at all: the same uses against the package binding (the
		// control for every shape above)
		g.stats["shadow-form/none-package-binding"]++
		return gen.L(append([]gen.Val{gen.S("lisp:list")}, g.uses(name, depth)...)...)
	}
}

// langGrow: the language package gains (or changes) a binding at run time,
// exported or private.  Packages that exist keep what they copied when they
// were created; lisp:name and packages created afterwards see the new state.
// Every name exported here is bound first: what in-package does with an
// exported-but-unbound name of the language package is not documented.
func (g *pg) langGrowForms(name string, export bool) []gen.Val {
	if export && g.n(0, 9, "export-without-binding") == 0 {
		// the draw asks for (export 'NAME) of a name the language package does
		// not bind: excluded (see NOTES.md, candidate defect: in-package
		// ignores the failure of its import); the name is bound first as usual
		g.stats["excluded/language-export-of-unbound-name"]++
	}
	forms := []gen.Val{gen.Call("lisp:in-package", gen.QS("lisp"))}
	switch g.n(0, 3, "lang-def") {
	case 0, 1:
		forms = append(forms, gen.Call("set", gen.QS(name), g.newVal()))
	case 2:
		forms = append(forms, gen.L(gen.S("defun"), gen.S(name), gen.L(gen.S("&rest"), gen.S("r")), gen.Call("list", g.tag(), gen.S("r"))))
	default:
		forms = append(forms, gen.L(gen.S("defmacro"), gen.S(name), gen.L(gen.S("&rest"), gen.S("r")), gen.Call("list", gen.QS("lisp:list"), g.tag(), gen.Call("length", gen.S("r")))))
	}
	if export {
		switch g.n(0, 2, "lang-export-form") {
		case 0:
			forms = append(forms, gen.Call("export", gen.QS(name)))
		case 1:
			forms = append(forms, gen.Call("export", gen.Str(name)))
		default:
			forms = append(forms, gen.Call("export", gen.QL(gen.S(name))))
		}
	}
	return forms
}

// langGrow as ONE statement: through a nested load (which restores the current
// package) or in line, followed by an in-package.
func (g *pg) langGrow(name string, export bool) gen.Val {
	g.stats["lang-grow"]++
	g.stats["touches-language-package"]++
	if export {
		g.stats["lang-grow-exported"]++
	} else {
		g.stats["private-language-binding"]++
	}
	forms := g.langGrowForms(name, export)
	if g.n(0, 1, "lang-inline") == 0 {
		g.nested = append(g.nested, forms)
		return gen.Call(g.op("load-string"), gen.Str(gen.RenderProgram(forms)))
	}
	g.stats["lang-grow-inline"]++
	back := g.pkg()
	g.curGuess = back
	items := []gen.Val{gen.S("lisp:progn")}
	for _, f := range forms {
		items = append(items, g.wrap(f))
	}
	items = append(items, gen.Call("in-package", gen.QS(back)))
	return gen.L(items...)
}

// lateRefs: references to NAME of every spelling.
func (g *pg) lateRefs(name string) []gen.Val {
	all := []gen.Val{
		gen.S(name),
		gen.L(gen.S(name), gen.I(1)),
		gen.Call("lisp:funcall", gen.QS(name), gen.I(1)),
		gen.Call("lisp:map", gen.QS("list"), gen.QS(name), gen.QL(gen.I(1))),
		gen.S("lisp:" + name),
		gen.L(gen.S("lisp:let"), gen.L(gen.L(gen.S("x"), gen.I(1))), gen.Call("lisp:list", gen.S("x"), gen.S(name))),
		gen.Call("lisp:progn", gen.Call("lisp:set!", gen.S(name), g.newVal()), gen.S(name)),
	}
	n := g.n(2, 4, "nlate")
	out := make([]gen.Val, 0, n)
	for i := 0; i < n; i++ {
		out = append(out, all[g.n(0, len(all)-1, "late-ref")])
	}
	return out
}

// rebindWide: a PACKAGE-level binding (and possibly export) of a name the
// language package also has: later statements of that package, packages using
// it and qualified references see it; lexical bindings still come first.
func (g *pg) rebindWide() gen.Val {
	g.stats["wide-rebind"]++
	g.stats["rebinds-language-name"]++
	name, kind := g.wideName()
	g.stats["wide-rebind-kind/"+kind]++
	var st gen.Val
	switch g.n(0, 3, "wide-rebind-form") {
	case 0:
		st = gen.Call("lisp:set", gen.QS(name), g.newVal())
	case 1:
		st = gen.Call("lisp:set", gen.QS(name), g.localFn())
	case 2:
		st = gen.L(gen.S(g.op("defun")), gen.S(name), gen.L(gen.S("&rest"), gen.S("r")), gen.Call("lisp:list", g.tag(), gen.S("r")))
	default:
		st = gen.Call("lisp:export", gen.QS(name))
		g.stats["wide-export"]++
		return st
	}
	if g.n(0, 2, "also-export") == 0 {
		g.stats["wide-export"]++
		return gen.Call("lisp:progn", st, gen.Call("lisp:export", gen.QS(name)))
	}
	return st
}

// hostVisit: statements run with a host-registered package current.
func (g *pg) hostVisit(depth int) gen.Val {
	hp := g.pick("host-package", g.hostPkgs...)
	g.stats["host-visit"]++
	if hp == hostPkgNoLang {
		g.stats["host-visit-no-lang"]++
	}
	saved := g.curGuess
	g.curGuess = hp
	items := []gen.Val{gen.S("lisp:progn"), gen.Call("lisp:in-package", gen.QS(hp))}
	for i, n := 0, g.n(1, 4, "nvisit"); i < n; i++ {
		items = append(items, g.wrap(g.stmt(depth-1)))
	}
	back := g.pkg()
	if g.n(0, 3, "stay") == 0 {
		// stay: the rest of the program runs in the host package
		g.curGuess = hp
		_ = saved
		return gen.L(items...)
	}
	g.curGuess = back
	items = append(items, gen.Call("lisp:in-package", gen.QS(back)))
	return gen.L(items...)
}

// callback: an ANONYMOUS function (a lambda, a flet / labels local, a closure)
// written in package Q is handed to a function of package P, which calls it:
// its body runs with Q current, whatever is current at the call.
func (g *pg) callback() gen.Val {
	g.stats["callback-across-packages"]++
	P, Q := g.pkg(), g.pkg()
	caller := g.sym()
	seen := g.sym()
	if seen == caller {
		seen = "a"
		if caller == "a" {
			seen = "b"
		}
	}
	cbBody := gen.Call("lisp:list", gen.S("y"), gen.S(seen))
	var call gen.Val
	switch g.n(0, 4, "callback-kind") {
	case 0, 1:
		call = gen.L(gen.S(P+":"+caller), gen.L(gen.S("lisp:lambda"), gen.L(gen.S("y")), cbBody))
	case 2:
		call = gen.L(gen.S("lisp:flet"), gen.L(gen.L(gen.S("loc"), gen.L(gen.S("y")), cbBody)), gen.L(gen.S(P+":"+caller), gen.S("loc")))
	case 3:
		call = gen.L(gen.S("lisp:labels"), gen.L(gen.L(gen.S("loc"), gen.L(gen.S("y")), cbBody)), gen.L(gen.S(P+":"+caller), gen.S("loc")))
	default:
		// the function is handed over through map: called by a BUILTIN that
		// was called from P
		call = gen.L(gen.S(P+":"+caller), gen.L(gen.S("lisp:lambda"), gen.L(gen.S("y")),
			gen.Call("lisp:map", gen.QS("list"), gen.L(gen.S("lisp:lambda"), gen.L(gen.S("z")), gen.Call("lisp:list", gen.S("z"), gen.S(seen))), gen.QL(gen.I(7)))))
	}
	items := []gen.Val{gen.S("lisp:progn"),
		gen.Call("lisp:in-package", gen.QS(P)),
		g.wrap(gen.L(gen.S("lisp:defun"), gen.S(caller), gen.L(gen.S("x")), gen.Call("lisp:list", gen.Call("lisp:funcall", gen.S("x"), gen.I(1)), gen.S(seen)))),
	}
	if g.n(0, 1, "bind-in-p") == 0 {
		items = append(items, g.wrap(gen.Call("lisp:set", gen.QS(seen), g.newVal())))
	}
	items = append(items, gen.Call("lisp:in-package", gen.QS(Q)))
	if g.n(0, 2, "bind-in-q") != 0 {
		items = append(items, g.wrap(gen.Call("lisp:set", gen.QS(seen), g.newVal())))
	}
	g.curGuess = Q
	items = append(items, call)
	return gen.L(items...)
}
